(* Model_C26.v — executable model of pkgcore.binpkg.xpak.Xpak (src/pkgcore/binpkg/xpak.py):
   write_xpak, _check_magic, keys_dict (index walk), items / keys / __getitem__ / _get_data.
   No proofs here: the model must still evaluate when a proof breaks.

   Bytes and code points are `N`; a file is `list N`.  Magic strings, the header/trailer
   struct formats and the read-side key alias table come from gen/Tables_xpak.v, which is
   regenerated from the source on every run.  The model is bug-compatible: error kinds are
   the exception class names the implementation raises. *)
From Coq Require Import List NArith ZArith Bool.
Import ListNotations.
From Verif Require Import Base.Val gen.Tables_xpak.
Local Open Scope N_scope.

Definition bytes := list N.
Definition len {A} (l : list A) : N := N.of_nat (length l).

Inductive err := EOS | EMalformed | EStruct | EUnicodeDec | EUnicodeEnc | EAssert | ENoFile | EKey | EFuel.
Inductive res (A : Type) := Ok (a : A) | Err (e : err).
Arguments Ok {A} a.
Arguments Err {A} e.

(* ------------------------------------------------------------------ struct (big-endian, "ns" and "L") *)
Definition be32 (n : N) : bytes :=
  [n / 16777216 mod 256; n / 65536 mod 256; n / 256 mod 256; n mod 256].
Definition unbe32 (b : bytes) : N :=
  match b with [a; b; c; d] => ((a * 256 + b) * 256 + c) * 256 + d | _ => 0 end.

Inductive arg := AS (b : bytes) | AL (n : N).

(* "<n>s": longer arguments are truncated, shorter ones NUL padded (struct semantics) *)
Definition fit (n : N) (b : bytes) : bytes :=
  firstn (N.to_nat n) (b ++ repeat 0 (N.to_nat n - length b)).

Definition fmt_size (fmt : list (option N)) : N :=
  fold_right (fun f acc => match f with Some n => n + acc | None => 4 + acc end) 0 fmt.

(* struct.pack; None = struct.error (argument out of range / wrong arity) *)
Fixpoint pack (fmt : list (option N)) (args : list arg) : option bytes :=
  match fmt, args with
  | [], [] => Some []
  | Some n :: f, AS b :: a =>
      match pack f a with Some r => Some (fit n b ++ r) | None => None end
  | None :: f, AL v :: a =>
      if v <? 4294967296 then match pack f a with Some r => Some (be32 v ++ r) | None => None end
      else None
  | _, _ => None
  end.

(* struct.unpack; None = struct.error (buffer not exactly the format's size) *)
Fixpoint unpack (fmt : list (option N)) (b : bytes) : option (list arg) :=
  match fmt with
  | [] => match b with [] => Some [] | _ => None end
  | Some n :: f =>
      if len b <? n then None
      else match unpack f (skipn (N.to_nat n) b) with
           | Some r => Some (AS (firstn (N.to_nat n) b) :: r) | None => None end
  | None :: f =>
      if len b <? 4 then None
      else match unpack f (skipn 4 b) with
           | Some r => Some (AL (unbe32 (firstn 4 b)) :: r) | None => None end
  end.

(* ------------------------------------------------------------------ utf-8 (str.encode() / bytes.decode()) *)
Definition enc_cp (c : N) : option bytes :=
  if c <? 128 then Some [c]
  else if c <? 2048 then Some [192 + c / 64; 128 + c mod 64]
  else if c <? 65536 then
    if (55296 <=? c) && (c <? 57344) then None   (* lone surrogate: UnicodeEncodeError *)
    else Some [224 + c / 4096; 128 + (c / 64) mod 64; 128 + c mod 64]
  else if c <? 1114112 then
    Some [240 + c / 262144; 128 + (c / 4096) mod 64; 128 + (c / 64) mod 64; 128 + c mod 64]
  else None.
Fixpoint utf8_encode (cps : list N) : option bytes :=
  match cps with
  | [] => Some []
  | c :: r =>
      match enc_cp c, utf8_encode r with Some e, Some r' => Some (e ++ r') | _, _ => None end
  end.

Definition cont (b : N) : bool := (128 <=? b) && (b <=? 191).
Definition between (lo b hi : N) : bool := (lo <=? b) && (b <=? hi).

(* strict decoder (Unicode table 3-7: no overlongs, no surrogates, nothing above U+10FFFF) *)
Fixpoint utf8_decode (b : bytes) : option (list N) :=
  match b with
  | [] => Some []
  | b0 :: r0 =>
      if b0 <? 128 then
        match utf8_decode r0 with Some t => Some (b0 :: t) | None => None end
      else if between 194 b0 223 then
        match r0 with
        | b1 :: r1 =>
            if cont b1 then
              match utf8_decode r1 with
              | Some t => Some ((b0 - 192) * 64 + (b1 - 128) :: t) | None => None end
            else None
        | _ => None
        end
      else if between 224 b0 239 then
        match r0 with
        | b1 :: b2 :: r2 =>
            if between (if b0 =? 224 then 160 else 128) b1 (if b0 =? 237 then 159 else 191) && cont b2 then
              match utf8_decode r2 with
              | Some t => Some ((b0 - 224) * 4096 + (b1 - 128) * 64 + (b2 - 128) :: t) | None => None end
            else None
        | _ => None
        end
      else if between 240 b0 244 then
        match r0 with
        | b1 :: b2 :: b3 :: r3 =>
            if between (if b0 =? 240 then 144 else 128) b1 (if b0 =? 244 then 143 else 191)
               && cont b2 && cont b3 then
              match utf8_decode r3 with
              | Some t => Some ((b0 - 240) * 262144 + (b1 - 128) * 4096 + (b2 - 128) * 64 + (b3 - 128) :: t)
              | None => None end
            else None
        | _ => None
        end
      else None
  end.

(* ------------------------------------------------------------------ writing *)
Definition kv := (bytes * bytes)%type.

(* struct.pack(f">L{len(key)}sLL", len(key), key, cur_pos, len(val)) for every item, joined *)
Fixpoint enc_entries (kvs : list kv) (pos : N) : option bytes :=
  match kvs with
  | [] => Some []
  | (k, v) :: r =>
      match pack [None; Some (len k); None; None] [AL (len k); AS k; AL pos; AL (len v)],
            enc_entries r (pos + len v) with
      | Some e, Some i => Some (e ++ i)
      | _, _ => None
      end
  end.
Definition enc_data (kvs : list kv) : bytes := concat (map snd kvs).

(* the segment write_xpak emits: header, index ++ data, trailer.  None = struct.error *)
Definition encode (kvs : list kv) : option bytes :=
  match enc_entries kvs 0 with
  | None => None
  | Some idx =>
      let dat := enc_data kvs in
      match pack header_fmt [AS header_pre_magic; AL (len idx); AL (len dat)],
            pack trailer_fmt [AS trailer_pre_magic;
                              AL (len idx + len dat + fmt_size trailer_fmt + 8);
                              AS trailer_post_magic] with
      | Some h, Some t => Some (h ++ idx ++ dat ++ t)
      | _, _ => None
      end
  end.

(* the mapping handed to write_xpak: keys and values are str (code points) or bytes *)
Inductive pystr := PS (cps : list N) | PB (b : bytes).
Definition py_encode (s : pystr) : option bytes :=
  match s with PS c => utf8_encode c | PB b => Some b end.
Fixpoint to_bytes (data : list (pystr * pystr)) : option (list kv) :=
  match data with
  | [] => Some []
  | (k, v) :: r =>
      match py_encode v, py_encode k, to_bytes r with
      | Some vb, Some kb, Some r' => Some ((kb, vb) :: r')
      | _, _, _ => None
      end
  end.

(* ------------------------------------------------------------------ reading *)
Definition read_at (file : bytes) (pos n : N) : bytes :=
  firstn (N.to_nat n) (skipn (N.to_nat pos) file).

(* Xpak._check_magic: (xpak_start, index_len, data_len) *)
Definition check_magic (file : bytes) : res (N * N * N) :=
  let flen := len file in
  if flen <? 16 then Err EOS                                      (* fd.seek(-16, 2) *)
  else
    match unpack trailer_fmt (read_at file (flen - 16) (fmt_size trailer_fmt)) with
    | Some [AS pre; AL size; AS post] =>
        if str_eqb pre trailer_pre_magic && str_eqb post trailer_post_magic then
          if flen <? size + 8 then Err EOS                        (* fd.seek(-(size + 8), 2) *)
          else
            let start := flen - (size + 8) in
            match unpack header_fmt (read_at file start (fmt_size header_fmt)) with
            | Some [AS hpre; AL ilen; AL dlen] =>
                if str_eqb hpre header_pre_magic then Ok (start, ilen, dlen) else Err EMalformed
            | _ => Err EMalformed
            end
        else Err EMalformed
    | _ => Err EMalformed
    end.

Definition entry_info := (N * N * bool)%type.     (* absolute offset, length, needs_decoding *)
Definition dict := list (bytes * entry_info).     (* OrderedDict: insertion order *)

Fixpoint od_set (d : dict) (k : bytes) (v : entry_info) : dict :=
  match d with
  | [] => [(k, v)]
  | (k', v') :: r => if str_eqb k' k then (k', v) :: r else (k', v') :: od_set r k v
  end.

Fixpoint assoc {A} (k : bytes) (d : list (bytes * A)) : option A :=
  match d with
  | [] => None
  | (k', v) :: r => if str_eqb k' k then Some v else assoc k r
  end.

(* _reading_key_rewrites.get(key, key) *)
Definition rw (k : bytes) : bytes :=
  match assoc k key_rewrites with Some k' => k' | None => k end.

Definition environment : bytes := [101;110;118;105;114;111;110;109;101;110;116].
Fixpoint startswith (p s : bytes) : bool :=
  match p, s with
  | [], _ => true
  | x :: p', y :: s' => (x =? y) && startswith p' s'
  | _, [] => false
  end.
Definition is_text (k : bytes) : bool := negb (startswith environment k).

(* the `while index_len:` loop of keys_dict.  [rest] = the bytes from the file position to EOF. *)
Fixpoint walk (fuel : nat) (rest : bytes) (ilen : Z) (data_start : N) (acc : dict) : res dict :=
  if (ilen =? 0)%Z then Ok acc
  else
    match fuel with
    | O => Err EFuel
    | S fuel' =>
        if len rest <? 4 then Err EStruct                          (* struct.unpack(">L", short read) *)
        else
          let klen := unbe32 (firstn 4 rest) in
          let r1 := skipn 4 rest in
          let short := len r1 <? klen in
          let key := if short then r1 else firstn (N.to_nat klen) r1 in
          if negb (forallb (fun b => b <? 128) key) then Err EUnicodeDec    (* key.decode("ascii") *)
          else if short then Err EMalformed
          else
            let r2 := skipn (N.to_nat klen) r1 in
            if len r2 <? 8 then Err EMalformed
            else
              let off := unbe32 (firstn 4 r2) in
              let dl := unbe32 (firstn 4 (skipn 4 r2)) in
              let key' := rw key in
              walk fuel' (skipn 8 r2) (ilen - Z.of_N (klen + 12)) data_start
                   (od_set acc key' (data_start + off, dl, is_text key'))
    end.

(* Xpak.keys_dict (with xpak_start) *)
Definition parse (file : bytes) : res (N * dict) :=
  match check_magic file with
  | Err e => Err e
  | Ok (start, ilen, _) =>
      let index_start := start + fmt_size header_fmt in
      let rest := skipn (N.to_nat index_start) file in
      match walk (S (length rest)) rest (Z.of_N ilen) (index_start + ilen) [] with
      | Ok d => Ok (start, d)
      | Err e => Err e
      end
  end.

Inductive item := IText (cps : list N) | IBytes (b : bytes).

(* Xpak._get_data *)
Definition get_data (file : bytes) (e : entry_info) : res item :=
  let '(off, dl, txt) := e in
  let r := if dl =? 0 then Some []
           else if off + dl <=? len file then Some (read_at file off dl) else None in
  match r with
  | None => Err EAssert                                            (* assert len(r) == data_len *)
  | Some r =>
      if txt then match utf8_decode r with Some c => Ok (IText c) | None => Err EUnicodeDec end
      else Ok (IBytes r)
  end.

Fixpoint get_all (file : bytes) (d : dict) : res (list (bytes * item)) :=
  match d with
  | [] => Ok []
  | (k, e) :: r =>
      match get_data file e with
      | Err x => Err x
      | Ok i => match get_all file r with Ok t => Ok ((k, i) :: t) | Err x => Err x end
      end
  end.

(* xpak_start and list(Xpak(path).items()) *)
Definition decode (file : bytes) : res (N * list (bytes * item)) :=
  match parse file with
  | Err e => Err e
  | Ok (start, d) => match get_all file d with Ok l => Ok (start, l) | Err e => Err e end
  end.

(* Xpak(path)[key] *)
Definition getitem (file : bytes) (key : bytes) : res item :=
  match parse file with
  | Err e => Err e
  | Ok (_, d) => match assoc key d with Some e => get_data file e | None => Err EKey end
  end.

(* ------------------------------------------------------------------ write_xpak on a path *)
(* where the new segment starts: the old segment's start, or the end of the file *)
Definition probe_start (file : option bytes) : res N :=
  match file with
  | None => Ok 0                                                   (* lstat: FileNotFoundError *)
  | Some f =>
      match parse f with
      | Ok (s, _) => Ok s
      | Err EOS | Err EMalformed => Ok (len f)                     (* except (OSError, MalformedXpak) *)
      | Err e => Err e
      end
  end.

(* byte-level core: the file after write_xpak *)
Definition rewrite (file : option bytes) (kvs : list kv) : res bytes :=
  match probe_start file with
  | Err e => Err e
  | Ok start =>
      match encode kvs with
      | None => Err EStruct
      | Some seg =>
          match file with
          | None => Err ENoFile                                    (* open(target, "r+b") *)
          | Some f => Ok (firstn (N.to_nat start) f ++ seg)
          end
      end
  end.

Definition write_xpak (file : option bytes) (data : list (pystr * pystr)) : res bytes :=
  match probe_start file with
  | Err e => Err e
  | Ok _ =>
      match to_bytes data with
      | None => Err EUnicodeEnc
      | Some kvs => rewrite file kvs
      end
  end.

(* repeated rewrites of one path; a failing call leaves the file as it was *)
Fixpoint write_seq (file : option bytes) (ds : list (list (pystr * pystr))) : list (res bytes) :=
  match ds with
  | [] => []
  | d :: r =>
      let x := write_xpak file d in
      x :: write_seq (match x with Ok f => Some f | Err _ => file end) r
  end.

(* ------------------------------------------------------------------ encoders for the harness *)
Definition err_name (e : err) : str :=
  match e with
  | EOS => [79;83;69;114;114;111;114]
  | EMalformed => [77;97;108;102;111;114;109;101;100;88;112;97;107]
  | EStruct => [101;114;114;111;114]
  | EUnicodeDec => [85;110;105;99;111;100;101;68;101;99;111;100;101;69;114;114;111;114]
  | EUnicodeEnc => [85;110;105;99;111;100;101;69;110;99;111;100;101;69;114;114;111;114]
  | EAssert => [65;115;115;101;114;116;105;111;110;69;114;114;111;114]
  | ENoFile => [70;105;108;101;78;111;116;70;111;117;110;100;69;114;114;111;114]
  | EKey => [75;101;121;69;114;114;111;114]
  | EFuel => [111;117;116;45;111;102;45;102;117;101;108]
  end.
Definition enc_res {A} (f : A -> val) (r : res A) : val :=
  match r with Ok a => f a | Err e => VErr (err_name e) end.
Definition enc_item (i : item) : val :=
  match i with IText c => VL [VB true; VS c] | IBytes b => VL [VB false; VS b] end.
Definition enc_items (l : list (bytes * item)) : val :=
  VL (map (fun ki => VL [VS (fst ki); enc_item (snd ki)]) l).
Definition enc_N (n : N) : val := VZ (Z.of_N n).

(* stream "read"/"readbad": [ xpak_start+keys | error ; items | error ] *)
Definition run_read (file : bytes) : val :=
  VL [enc_res (fun sd => VL [enc_N (fst sd); VL (map (fun ke => VS (fst ke)) (snd sd))]) (parse file);
      enc_res (fun sl => enc_items (snd sl)) (decode file)].
(* stream "write": the file's bytes afterwards, or the error *)
Definition run_write (i : option bytes * list (pystr * pystr)) : val :=
  enc_res VS (write_xpak (fst i) (snd i)).
(* stream "seq" *)
Definition run_seq (i : option bytes * list (list (pystr * pystr))) : val :=
  VL (map (enc_res VS) (write_seq (fst i) (snd i))).
(* stream "get" *)
Definition run_get (i : bytes * list bytes) : val :=
  VL (map (fun k => enc_res enc_item (getitem (fst i) k)) (snd i)).
(* stream "roundtrip": write_xpak on a file holding [fst i], then a fresh Xpak(path): xpak_start, items *)
Definition run_roundtrip (i : bytes * list (pystr * pystr)) : val :=
  match write_xpak (Some (fst i)) (snd i) with
  | Err e => VErr (err_name e)
  | Ok f => enc_res (fun sl => VL [enc_N (fst sl); enc_items (snd sl)]) (decode f)
  end.
