(* C32 — PROOFS.  See Prop_C32.v for the list of property theorems. *)
From Coq Require Import List NArith ZArith Bool Lia String.
From Verif Require Import Base.Val C32.Model_C32 C32.Spec_C32.
Import ListNotations.
Local Open Scope N_scope.

(* ------------------------------------------------------------------ lines *)
Lemma take_line_app l r : ~ In NL l -> take_line (l ++ NL :: r) = (l, r).
Proof.
  induction l as [|c l IH]; cbn; intro H.
  - reflexivity.
  - destruct (N.eqb_spec c NL) as [->|_]; [exfalso; apply H; now left|].
    rewrite IH; [reflexivity|]. intro; apply H; now right.
Qed.

Lemma take_line_no_nl l : ~ In NL l -> take_line l = (l, []).
Proof.
  induction l as [|c l IH]; cbn; intro H; [reflexivity|].
  destruct (N.eqb_spec c NL) as [->|_]; [exfalso; apply H; now left|].
  rewrite IH; [reflexivity|]. intro; apply H; now right.
Qed.

Lemma mem_N_In c s : mem_N c s = true <-> In c s.
Proof.
  unfold mem_N. rewrite existsb_exists. split.
  - intros [x [Hx He]]. apply N.eqb_eq in He. now subst.
  - intro H. exists c. split; [assumption|apply N.eqb_refl].
Qed.

(* ------------------------------------------------------------------ single_line *)
Lemma split_on_no_sep sep s : Forall (fun p => ~ In sep p) (split_on sep s) /\ split_on sep s <> [].
Proof.
  induction s as [|c s [IH1 IH2]]; cbn.
  - split; [repeat constructor; intros []|discriminate].
  - destruct (N.eqb_spec c sep) as [->|Hne].
    + split; [constructor; [intros []|assumption]|discriminate].
    + destruct (split_on sep s) as [|p ps]; [contradiction|].
      inversion IH1; subst. split; [|discriminate].
      constructor; [|assumption]. intros [->|H]; [now apply Hne|contradiction].
Qed.

Lemma join_no c (sep : str) l : ~ In c sep -> Forall (fun p => ~ In c p) l -> ~ In c (join_on sep l).
Proof.
  intros Hs. induction l as [|x l IH]; cbn; intro H; [intros []|].
  inversion H; subst. destruct l as [|y l]; [assumption|].
  rewrite !in_app_iff. intros [?|[?|?]]; [contradiction|contradiction|]. now apply IH.
Qed.

Lemma single_line_no_nl s : ~ In NL (single_line s).
Proof.
  unfold single_line. apply join_no.
  - cbn. intros [H|[]]. discriminate.
  - unfold nonempty. apply Forall_forall. intros p Hp. apply filter_In in Hp as [Hp _].
    destruct (split_on_no_sep NL s) as [H _]. rewrite Forall_forall in H. now apply H.
Qed.

Lemma split_on_none sep s : ~ In sep s -> split_on sep s = [s].
Proof.
  induction s as [|c s IH]; cbn; intro H; [reflexivity|].
  destruct (N.eqb_spec c sep) as [->|_]; [exfalso; apply H; now left|].
  rewrite IH; [reflexivity|]. intro; apply H; now right.
Qed.

(* a message that is already one line passes unchanged: the repair loses nothing *)
Lemma single_line_id s : ~ In NL s -> s <> [] -> single_line s = s.
Proof.
  intros H Hne. unfold single_line. rewrite split_on_none by assumption.
  cbn. destruct s; [contradiction|reflexivity].
Qed.

(* ------------------------------------------------------------------ decimal text *)
Lemma digits_fuel_chars f : forall n acc c,
  In c (digits_fuel f n acc) -> In c acc \/ (48 <= c /\ c <= 57).
Proof.
  induction f as [|f IH]; cbn [digits_fuel]; intros n acc c H; [now left|].
  assert (Hd : 48 <= 48 + n mod 10 /\ 48 + n mod 10 <= 57).
  { assert (Hm : n mod 10 < 10) by (apply N.mod_upper_bound; discriminate).
    generalize dependent (n mod 10). intros x _ Hx. lia. }
  destruct (n <? 10).
  - destruct H as [<-|H]; [now right|now left].
  - apply IH in H as [[<-|H]|H]; [now right|now left|now right].
Qed.

Lemma dec_N_chars n c : In c (dec_N n) -> 48 <= c /\ c <= 57.
Proof. unfold dec_N. intro H. apply digits_fuel_chars in H as [[]|H]; assumption. Qed.

Lemma dec_Z_chars z c : In c (dec_Z z) -> c = 45 \/ (48 <= c /\ c <= 57).
Proof.
  destruct z; cbn [dec_Z]; intro H.
  - right. now apply dec_N_chars in H.
  - right. now apply dec_N_chars in H.
  - destruct H as [<-|H]; [now left|right; now apply dec_N_chars in H].
Qed.

Lemma dec_Z_no c z : c < 45 -> ~ In c (dec_Z z).
Proof. intros Hc H. apply dec_Z_chars in H. lia. Qed.

Lemma digits_fuel_suffix f : forall n acc, exists pre, digits_fuel f n acc = pre ++ acc.
Proof.
  induction f as [|f IH]; cbn [digits_fuel]; intros n acc; [now exists []|].
  destruct (n <? 10).
  - now exists [48 + n mod 10].
  - destruct (IH (n / 10) ((48 + n mod 10) :: acc)) as [pre ->].
    exists (pre ++ [48 + n mod 10]). now rewrite <- app_assoc.
Qed.

Lemma dec_N_zero n : dec_N n = [48] -> n = 0.
Proof.
  unfold dec_N. destruct n as [|p]; [reflexivity|].
  intro H. exfalso. cbn [N.size_nat] in H.
  remember (Pos.size_nat p) as k. destruct k as [|k]; [destruct p; discriminate|].
  cbn [digits_fuel] in H.
  destruct (N.ltb_spec (N.pos p) 10) as [Hlt|Hge].
  - apply (f_equal (hd 0)) in H. cbn [hd] in H.
    rewrite (N.mod_small (N.pos p) 10 Hlt) in H. lia.
  - cbn [digits_fuel] in H.
    destruct (N.pos p / 10 <? 10).
    + discriminate.
    + destruct (digits_fuel_suffix k (N.pos p / 10 / 10)
                  [48 + (N.pos p / 10) mod 10; 48 + N.pos p mod 10]) as [pre E].
      rewrite E in H. apply (f_equal (@List.length N)) in H. rewrite app_length in H. cbn in H. lia.
Qed.

Lemma dec_Z_zero z : dec_Z z = [48] -> z = 0%Z.
Proof.
  destruct z; cbn [dec_Z]; intro H; [reflexivity| |discriminate].
  apply dec_N_zero in H. discriminate.
Qed.

Lemma dec_N_nonempty n : dec_N n <> [].
Proof.
  unfold dec_N. cbn [digits_fuel]. destruct (n <? 10); [discriminate|].
  destruct (digits_fuel_suffix (N.size_nat n) (n / 10) [48 + n mod 10]) as [pre ->].
  destruct pre; discriminate.
Qed.
Lemma dec_Z_nonempty z : dec_Z z <> [].
Proof. destruct z; cbn [dec_Z]; try apply dec_N_nonempty. discriminate. Qed.

(* ------------------------------------------------------------------ reply encoding *)
Lemma split_on_app_sep sep a b : ~ In sep a -> split_on sep (a ++ sep :: b) = a :: split_on sep b.
Proof.
  induction a as [|c a IH]; cbn; intro H.
  - now rewrite N.eqb_refl.
  - destruct (N.eqb_spec c sep) as [->|_]; [exfalso; apply H; now left|].
    rewrite IH; [reflexivity|]. intro; apply H; now right.
Qed.

Lemma status_field_err code msg : status_field (encode_err code msg) = dec_Z code.
Proof.
  unfold status_field, encode_err. rewrite split_on_app_sep; [reflexivity|].
  apply dec_Z_no. reflexivity.
Qed.
Lemma status_field_val p : status_field (encode_val p) = [48].
Proof. unfold status_field, encode_val. cbn. destruct (split_on BEL (single_line p)); reflexivity. Qed.
Lemma status_field_none : status_field encode_none = [48].
Proof. reflexivity. Qed.

Lemma encode_err_no_nl code msg : ~ In NL (encode_err code msg).
Proof.
  unfold encode_err. rewrite in_app_iff. intros [H|[H|H]].
  - revert H. apply dec_Z_no. reflexivity.
  - discriminate.
  - revert H. apply single_line_no_nl.
Qed.
Lemma encode_val_no_nl p : ~ In NL (encode_val p).
Proof.
  unfold encode_val. intros [H|[H|H]]; [discriminate|discriminate|].
  revert H. apply single_line_no_nl.
Qed.
Lemma encode_none_no_nl : ~ In NL encode_none.
Proof. intros [H|[]]. discriminate. Qed.

(* the encoding BEFORE repair C32-single-line-reply puts more than one line on the wire *)
Definition tar_stderr : str :=
  lit "tar: This does not look like a tar archive" ++ [NL] ++ lit "tar: Exiting with failure status".
Lemma one_reply_line_unrepaired_refuted_proof :
  exists code msg, In NL (encode_err_raw code msg) /\ ~ In NL (encode_err code msg).
Proof.
  exists 2%Z, tar_stderr. split.
  - vm_compute. tauto.
  - apply encode_err_no_nl.
Qed.

(* ------------------------------------------------------------------ one request (generic in the helper body) *)
Section GenericProofs.
  Variable W : Type.
  Variable body : list str -> list str -> W -> hres * W.
  Variable cwd_ok : str -> bool.

  Definition wire_of (e : call_end) : str :=
    match e with CReplied d | CFatal d | CInternal d => d ++ [NL] | CCrash => [] end.

  Lemma ipc_call_data rest w e rest' w' :
    ipc_call W body cwd_ok rest w = (e, rest', w') ->
    match e with CReplied d | CFatal d | CInternal d => ~ In NL d | CCrash => True end.
  Proof.
    unfold ipc_call.
    destruct (take_line rest) as [l1 r1]. destruct (take_line r1) as [l2 r2].
    destruct (take_line r2) as [l3 r3]. destruct (take_line r3) as [l4 r4].
    destruct (shlex_split (strip l4)) as [options|]; [|intro H; inversion H; exact I].
    destruct (take_line r4) as [l5 r5].
    destruct (cwd_ok (strip l2)); cbn [negb]; [|intro H; inversion H; exact I].
    destruct (body options (split_args l5) w) as [res w1].
    destruct res; try (destruct (str_eqb (strip l1) (lit "true"))); intro H; inversion H; subst;
      try exact I; try apply encode_err_no_nl; try apply encode_val_no_nl; try apply encode_none_no_nl.
  Qed.

  (* ONE REPLY LINE: whatever the request and however the helper ends, what reaches the wire for it
     is exactly one line - or nothing at all, and then the daemon loop has been left (CCrash) *)
  Theorem one_reply_line_proof rest w e rest' w' :
    ipc_call W body cwd_ok rest w = (e, rest', w') ->
    e = CCrash /\ wire_of e = [] \/ one_line (wire_of e).
  Proof.
    intro H. pose proof (ipc_call_data _ _ _ _ _ H) as Hd.
    destruct e; cbn [wire_of]; [right|right|right|left; split; reflexivity];
      exists data; split; (reflexivity || assumption).
  Qed.

  (* a request framed as five newline-free lines, followed by anything *)
  Definition framed (l1 l2 l3 l4 l5 tail : str) : str :=
    l1 ++ NL :: l2 ++ NL :: l3 ++ NL :: l4 ++ NL :: l5 ++ NL :: tail.

  Definition outcome (l1 : str) (res : hres) : call_end :=
    match res with
    | HNone => CReplied encode_none
    | HInt z => CReplied (encode_val (dec_Z z))
    | HStr s => CReplied (encode_val s)
    | HCmdErr code msg =>
        if str_eqb (strip l1) (lit "true") then CReplied (encode_err code msg) else CFatal (encode_err code msg)
    | HOther => CInternal (encode_err 1 (lit "internal failure"))
    | HUnmodelled => CCrash
    end.

  (* the complete input/output behaviour of one call on a framed request *)
  Lemma ipc_call_framed l1 l2 l3 l4 l5 tail w :
    ~ In NL l1 -> ~ In NL l2 -> ~ In NL l3 -> ~ In NL l4 -> ~ In NL l5 ->
    ipc_call W body cwd_ok (framed l1 l2 l3 l4 l5 tail) w =
    match shlex_split (strip l4) with
    | None => (CCrash, l5 ++ NL :: tail, w)
    | Some options =>
        if cwd_ok (strip l2)
        then let '(res, w') := body options (split_args l5) w in (outcome l1 res, tail, w')
        else (CCrash, tail, w)
    end.
  Proof.
    intros H1 H2 H3 H4 H5. unfold ipc_call, framed.
    rewrite (take_line_app l1) by assumption. rewrite (take_line_app l2) by assumption.
    rewrite (take_line_app l3) by assumption. rewrite (take_line_app l4) by assumption.
    destruct (shlex_split (strip l4)) as [options|]; [|reflexivity].
    rewrite (take_line_app l5) by assumption.
    destruct (cwd_ok (strip l2)); cbn [negb]; [|reflexivity].
    destruct (body options (split_args l5) w) as [res w1].
    destruct res; cbn [outcome]; try reflexivity.
    destruct (str_eqb (strip l1) (lit "true")); reflexivity.
  Qed.

  (* CHANNEL IN SYNC, python side: the call consumes exactly its own five lines: whatever follows
     the request on the channel is left untouched for the next read - for every outcome but an
     unparsable options line (a crash: the daemon is shut down, nothing is read any more) *)
  Theorem reads_five_lines_proof l1 l2 l3 l4 l5 tail w e rest' w' :
    ~ In NL l1 -> ~ In NL l2 -> ~ In NL l3 -> ~ In NL l4 -> ~ In NL l5 ->
    shlex_split (strip l4) <> None ->
    ipc_call W body cwd_ok (framed l1 l2 l3 l4 l5 tail) w = (e, rest', w') ->
    rest' = tail.
  Proof.
    intros H1 H2 H3 H4 H5 Hs. rewrite ipc_call_framed by assumption.
    destruct (shlex_split (strip l4)); [|contradiction].
    destruct (cwd_ok (strip l2)); [|intro H; now inversion H].
    destruct (body l (split_args l5) w). intro H; now inversion H.
  Qed.

  (* the request has no influence on later ones except through the world: framing independence *)
  Lemma ipc_call_tail_irrelevant l1 l2 l3 l4 l5 tail w :
    ~ In NL l1 -> ~ In NL l2 -> ~ In NL l3 -> ~ In NL l4 -> ~ In NL l5 ->
    shlex_split (strip l4) <> None ->
    ipc_call W body cwd_ok (framed l1 l2 l3 l4 l5 tail) w =
    let '(e, _, w') := ipc_call W body cwd_ok (framed l1 l2 l3 l4 l5 []) w in (e, tail, w').
  Proof.
    intros. rewrite !ipc_call_framed by assumption.
    destruct (shlex_split (strip l4)); [|contradiction].
    destruct (cwd_ok (strip l2)); [|reflexivity].
    destruct (body l (split_args l5) w). reflexivity.
  Qed.

  (* NONFATAL RETURNS CODE: an IpcCommandError(code, msg) of the helper is handed back as
     "code BEL msg" when the request said nonfatal, and otherwise ends the build (CFatal) with the
     very same line written by run_generic_phase *)
  Theorem nonfatal_returns_code_proof l1 l2 l3 l4 l5 tail w options code msg w1 :
    ~ In NL l1 -> ~ In NL l2 -> ~ In NL l3 -> ~ In NL l4 -> ~ In NL l5 ->
    shlex_split (strip l4) = Some options -> cwd_ok (strip l2) = true ->
    body options (split_args l5) w = (HCmdErr code msg, w1) ->
    ipc_call W body cwd_ok (framed l1 l2 l3 l4 l5 tail) w =
      ((if str_eqb (strip l1) (lit "true") then CReplied else CFatal) (encode_err code msg), tail, w1)
    /\ status_field (encode_err code msg) = dec_Z code
    /\ (code <> 0%Z -> ~ says_success (encode_err code msg)).
  Proof.
    intros H1 H2 H3 H4 H5 Hs Hc Hb. rewrite ipc_call_framed by assumption.
    rewrite Hs, Hc, Hb. cbn [outcome]. split; [|split].
    - destruct (str_eqb (strip l1) (lit "true")); reflexivity.
    - apply status_field_err.
    - intros Hne Hs0. unfold says_success in Hs0. rewrite status_field_err in Hs0.
      now apply dec_Z_zero in Hs0.
  Qed.

  (* TRUTHFUL (protocol layer): the status field of the line on the wire is "0" exactly when the
     helper body completed, provided failing bodies carry a non-zero code (shown for the install
     family below: [install_codes_nonzero]) *)
  Theorem truthful_proof l1 l2 l3 l4 l5 tail w options res w1 d :
    ~ In NL l1 -> ~ In NL l2 -> ~ In NL l3 -> ~ In NL l4 -> ~ In NL l5 ->
    shlex_split (strip l4) = Some options -> cwd_ok (strip l2) = true ->
    body options (split_args l5) w = (res, w1) ->
    (forall code msg, res = HCmdErr code msg -> code <> 0%Z) ->
    wire_of (fst (fst (ipc_call W body cwd_ok (framed l1 l2 l3 l4 l5 tail) w))) = d ++ [NL] ->
    (says_success d <-> completed res).
  Proof.
    intros H1 H2 H3 H4 H5 Hs Hc Hb Hcode. rewrite ipc_call_framed by assumption.
    rewrite Hs, Hc, Hb. cbn [fst]. unfold says_success.
    destruct res; cbn [outcome wire_of completed]; intro Hw.
    - apply app_inj_tail in Hw as [<- _]. split; [trivial|reflexivity].
    - apply app_inj_tail in Hw as [<- _]. split; [trivial|intros _; apply status_field_val].
    - apply app_inj_tail in Hw as [<- _]. split; [trivial|intros _; apply status_field_val].
    - assert (Hd : d = encode_err code msg).
      { destruct (str_eqb (strip l1) (lit "true")); cbn [wire_of] in Hw; now apply app_inj_tail in Hw as [<- _]. }
      subst d. rewrite status_field_err. split; [|intros []].
      intro Hz. apply dec_Z_zero in Hz. exact (Hcode code msg eq_refl Hz).
    - apply app_inj_tail in Hw as [<- _]. rewrite status_field_err. split; [discriminate|intros []].
    - destruct d; discriminate.
  Qed.
End GenericProofs.

(* ------------------------------------------------------------------ the daemon loop over a request stream *)
Section SessionProofs.
  Variable c : cfg.

  Definition call_alone (k : hkind) (r : req) (w : world) : call_end * world :=
    let '(e, _, w') := ipc_call world (body_of c (w_src w) k) (str_eqb (c_cwd c)) (req_body r) w in (e, w').

  (* the reference: requests handled one after the other, each seeing ONLY its own five lines *)
  Fixpoint serve (rs : list req) (w : world) (wire : str) : str * send * world :=
    match rs with
    | [] => (wire, SFinished, w)
    | r :: rs' =>
        match assoc (r_cmd r) (c_helpers c) with
        | None => (wire, SUnhandled, w)
        | Some k =>
            match call_alone k r w with
            | (CReplied d, w') => serve rs' w' (wire ++ d ++ [NL])
            | (CFatal d, w') => (wire ++ d ++ [NL], SFatal, w')
            | (CInternal d, w') => (wire ++ d ++ [NL], SInternal, w')
            | (CCrash, w') => (wire, SCrash, w')
            end
        end
    end.

  Definition stream (rs : list req) : str := flat_map req_bytes rs ++ lit "phases succeeded" ++ [NL].

  (* a request line the daemon loop dispatches to a helper *)
  Definition cmd_ok (r : req) : Prop :=
    strip (r_cmd r) = r_cmd r /\ ~ In 32 (r_cmd r) /\ r_cmd r <> [] /\ r_cmd r <> lit "phases"
    /\ shlex_split (strip (r_opts r)) <> None.

  Lemma partition_sp_none s : ~ In 32 s -> partition_sp s = (s, []).
  Proof.
    induction s as [|x s IH]; cbn; intro H; [reflexivity|].
    destruct (N.eqb_spec x 32) as [->|_]; [exfalso; apply H; now left|].
    rewrite IH; [reflexivity|]. intro; apply H; now right.
  Qed.

  Lemma req_body_framed r tail :
    req_body r ++ tail = framed (r_nonfatal r) (r_cwd r) (r_phase r) (r_opts r) (r_args r) tail.
  Proof. unfold req_body, framed. repeat (rewrite <- app_assoc; cbn [app]). reflexivity. Qed.

  Lemma req_body_framed_nil r :
    req_body r = framed (r_nonfatal r) (r_cwd r) (r_phase r) (r_opts r) (r_args r) [].
  Proof. rewrite <- (app_nil_r (req_body r)). apply req_body_framed. Qed.

  Lemma call_alone_tail k r w tail :
    req_ok r -> shlex_split (strip (r_opts r)) <> None ->
    ipc_call world (body_of c (w_src w) k) (str_eqb (c_cwd c)) (req_body r ++ tail) w
    = (fst (call_alone k r w), tail, snd (call_alone k r w)).
  Proof.
    intros [Hc [Hn [Hw [Hp [Ho Ha]]]]] Hs. unfold call_alone.
    rewrite req_body_framed. rewrite req_body_framed_nil.
    rewrite (ipc_call_tail_irrelevant world _ _ _ _ _ _ _ tail) by assumption.
    destruct (ipc_call world (body_of c (w_src w) k) (str_eqb (c_cwd c))
                (framed (r_nonfatal r) (r_cwd r) (r_phase r) (r_opts r) (r_args r) []) w) as [[e r0] w'].
    reflexivity.
  Qed.

  Lemma session_serve rs : forall fuel w wire,
    Forall req_ok rs -> Forall cmd_ok rs -> (List.length rs < fuel)%nat ->
    exists rest,
      session fuel c (flat_map req_bytes rs ++ lit "phases succeeded" ++ [NL]) w wire
      = (fst (fst (serve rs w wire)), rest, snd (fst (serve rs w wire)), snd (serve rs w wire))
      /\ (snd (fst (serve rs w wire)) = SFinished -> rest = []).
  Proof.
    induction rs as [|r rs IH]; intros fuel w wire Hok Hcmd Hf.
    - destruct fuel; [inversion Hf|]. exists []. split; [|reflexivity].
      cbn [flat_map app serve fst snd]. vm_compute (lit "phases succeeded" ++ [NL]).
      cbn. reflexivity.
    - destruct fuel; [inversion Hf|].
      inversion Hok as [|? ? Hr Hok']; subst.
      inversion Hcmd as [|? ? [Hst [Hsp [Hne [Hph Hsh]]]] Hcmd']; subst.
      assert (Hc : ~ In NL (r_cmd r)) by apply Hr.
      cbn [flat_map]. unfold req_bytes at 1.
      rewrite <- !app_assoc. cbn [session].
      change ([NL] ++ req_body r ++ flat_map req_bytes rs ++ lit "phases succeeded" ++ [NL])
        with (NL :: (req_body r ++ flat_map req_bytes rs ++ lit "phases succeeded" ++ [NL])).
      rewrite take_line_app by assumption. rewrite Hst. rewrite partition_sp_none by assumption.
      cbn [serve].
      destruct (r_cmd r) as [|c0 cmd] eqn:Ecmd; [contradiction|]. cbn [is_nil].
      destruct (str_eqb (c0 :: cmd) (lit "phases")) eqn:Eph.
      { apply str_eqb_eq in Eph. contradiction. }
      destruct (assoc (c0 :: cmd) (c_helpers c)) as [k|].
      2:{ eexists. split; [reflexivity|]. cbn. discriminate. }
      cbn [is_nil negb].
      rewrite call_alone_tail by assumption.
      destruct (call_alone k r w) as [e w']. cbn [fst snd].
      destruct e as [d|d|d|].
      + apply IH; [assumption|assumption|]. cbn in Hf. lia.
      + eexists. split; [reflexivity|]. cbn. discriminate.
      + eexists. split; [reflexivity|]. cbn. discriminate.
      + eexists. split; [reflexivity|]. cbn. discriminate.
  Qed.

  Lemma stream_length rs : (List.length rs < S (List.length (stream rs)))%nat.
  Proof.
    unfold stream. rewrite app_length.
    assert (List.length rs <= List.length (flat_map req_bytes rs))%nat; [|lia].
    induction rs as [|r rs IH]; cbn [flat_map List.length]; [lia|].
    rewrite app_length.
    assert (1 <= List.length (req_bytes r))%nat; [|lia].
    unfold req_bytes. rewrite !app_length. cbn [List.length]. lia.
  Qed.

  (* CHANNEL IN SYNC: the daemon loop over the concatenated stream behaves exactly like handling the
     requests one by one in isolation: no request sees bytes of another, and when the phase ends
     normally every byte has been consumed *)
  Theorem channel_in_sync_proof rs w :
    Forall req_ok rs -> Forall cmd_ok rs ->
    exists rest,
      run_daemon c (stream rs) w
      = (fst (fst (serve rs w [])), rest, snd (fst (serve rs w [])), snd (serve rs w []))
      /\ (snd (fst (serve rs w [])) = SFinished -> rest = []).
  Proof.
    intros Hok Hcmd. unfold run_daemon. apply session_serve; try assumption. apply stream_length.
  Qed.

  (* every line [serve] adds is the single line of one request; when the phase ends normally
     there are exactly as many lines as requests *)
  Lemma serve_lines rs : forall w wire ls0,
    k_lines wire ls0 ->
    exists ls, k_lines (fst (fst (serve rs w wire))) (ls0 ++ ls)
               /\ (List.length ls <= List.length rs)%nat
               /\ (snd (fst (serve rs w wire)) = SFinished -> List.length ls = List.length rs).
  Proof.
    induction rs as [|r rs IH]; intros w wire ls0 [Hw Hf].
    - exists []. rewrite app_nil_r. cbn. repeat split; auto.
    - cbn [serve]. destruct (assoc (r_cmd r) (c_helpers c)) as [k|].
      2:{ exists []. rewrite app_nil_r. cbn. repeat split; auto; try lia. discriminate. }
      unfold call_alone.
      destruct (ipc_call world (body_of c (w_src w) k) (str_eqb (c_cwd c)) (req_body r) w)
        as [[e rest0] w'] eqn:E.
      pose proof (ipc_call_data _ _ _ _ _ _ _ _ E) as Hd.
      assert (Hk : forall d, ~ In NL d -> k_lines (wire ++ d ++ [NL]) (ls0 ++ [d])).
      { intros d Hnl. split.
        - rewrite Hw, flat_map_app. cbn. now rewrite app_nil_r.
        - apply Forall_app. split; [assumption|now constructor]. }
      destruct e as [d|d|d|].
      + destruct (IH w' (wire ++ d ++ [NL]) (ls0 ++ [d]) (Hk d Hd)) as [ls [H1 [H2 H3]]].
        exists (d :: ls). rewrite <- app_assoc in H1. cbn [app] in H1.
        split; [assumption|]. cbn [List.length]. split; [lia|]. intro Hfin. rewrite H3; auto.
      + exists [d]. cbn. split; [apply Hk, Hd|]. split; [lia|discriminate].
      + exists [d]. cbn. split; [apply Hk, Hd|]. split; [lia|discriminate].
      + exists []. rewrite app_nil_r. cbn. split; [now split|]. split; [lia|discriminate].
  Qed.

  Theorem one_line_per_request_proof rs w :
    exists ls, k_lines (fst (fst (serve rs w []))) ls
               /\ (List.length ls <= List.length rs)%nat
               /\ (snd (fst (serve rs w [])) = SFinished -> List.length ls = List.length rs).
  Proof.
    destruct (serve_lines rs w [] []) as [ls H]; [split; [reflexivity|constructor]|].
    now exists ls.
  Qed.
End SessionProofs.

(* ------------------------------------------------------------------ bash side *)
(* __ebd_read_array takes exactly the one line of the reply off the channel *)
Theorem bash_reads_one_line_proof d up :
  ~ In NL d -> bash_read_array (d ++ NL :: up) = Some (bash_fields d, up).
Proof.
  intro H. unfold bash_read_array.
  assert (Hm : mem_N NL (d ++ NL :: up) = true).
  { apply mem_N_In. apply in_or_app. right. now left. }
  rewrite Hm. now rewrite take_line_app.
Qed.

(* k replies are read back by k reads, in order, leaving the channel empty: lock step *)
Fixpoint bash_reads (k : nat) (up : str) : option (list (list str) * str) :=
  match k with
  | O => Some ([], up)
  | S k' => match bash_read_array up with
            | None => None
            | Some (f, up') => match bash_reads k' up' with
                               | None => None
                               | Some (fs, r) => Some (f :: fs, r)
                               end
            end
  end.
Theorem lockstep_proof wire ls :
  k_lines wire ls -> bash_reads (List.length ls) wire = Some (map bash_fields ls, []).
Proof.
  intros [-> Hf]. induction ls as [|l ls IH]; [reflexivity|].
  inversion Hf; subst. cbn [List.length flat_map bash_reads].
  rewrite <- app_assoc. cbn [app]. rewrite bash_reads_one_line_proof by assumption.
  rewrite IH by assumption. reflexivity.
Qed.

Lemma filter_id {A} (p : A -> bool) l : (forall x, In x l -> p x = true) -> filter p l = l.
Proof.
  induction l as [|x l IH]; cbn; intro H; [reflexivity|].
  rewrite H by now left. rewrite IH; [reflexivity|]. intros; apply H; now right.
Qed.

Lemma hd_drop_last_empty (a : str) l : a <> [] -> hd [] (drop_last_empty (a :: l)) = a.
Proof.
  intro Ha. unfold drop_last_empty. cbn [rev].
  destruct (rev l) as [|x m] eqn:E; cbn [app].
  - destruct a; [contradiction|reflexivity].
  - destruct x; [|reflexivity]. rewrite rev_app_distr. reflexivity.
Qed.

(* the status the bash side sees is the code the python side sent *)
Theorem bash_status_proof code msg :
  hd [] (bash_fields (encode_err code msg)) = dec_Z code.
Proof.
  unfold bash_fields, encode_err. rewrite filter_app.
  rewrite (filter_id _ (dec_Z code)).
  2:{ intros x Hx. apply dec_Z_chars in Hx. destruct (N.eqb_spec x 0); [lia|reflexivity]. }
  cbn [filter]. change (negb (BEL =? 0)) with true. cbn iota.
  rewrite split_on_app_sep by (apply dec_Z_no; reflexivity).
  apply hd_drop_last_empty. apply dec_Z_nonempty.
Qed.

(* nonfatal: __ipc_exit returns that code; otherwise it dies *)
Theorem bash_exit_proof cmd nonfatal code msg :
  code <> 0%Z ->
  let '(st, _, died) := bash_ipc_exit cmd nonfatal (bash_fields (encode_err code msg)) in
  st = dec_Z code /\ died = negb nonfatal.
Proof.
  intro Hc. unfold bash_ipc_exit. rewrite bash_status_proof.
  destruct (str_eqb (dec_Z code) [48]) eqn:E.
  - apply str_eqb_eq in E. apply dec_Z_zero in E. contradiction.
  - split; reflexivity.
Qed.

(* ------------------------------------------------------------------ the install family *)
Section InstallProofs.
  Variable ed : str.
  Variable ext_effect : list str -> image -> image.

  Definition code_nonzero (r : option hres) : Prop :=
    match r with Some (HCmdErr code _) => code <> 0%Z | _ => True end.
  Definition hcode_nonzero (r : hres) : Prop :=
    match r with HCmdErr code _ => code <> 0%Z | _ => True end.

  Lemma install_dirs_int_code rels dm : forall w, code_nonzero (fst (install_dirs_int ed rels dm w)).
  Proof.
    induction rels as [|d r IH]; intro w; cbn; [exact I|].
    destruct (makedirs w d); [|cbn; discriminate].
    destruct dm; try apply IH.
    destruct (chmod_dir w0 d mode); [apply IH|cbn; discriminate].
  Qed.
  Lemma install_dirs_code rels dm w : code_nonzero (fst (install_dirs ed ext_effect rels dm w)).
  Proof.
    destruct dm; cbn [install_dirs]; try apply install_dirs_int_code.
    unfold install_dirs_ext. destruct (ask w) as [[st out] w1].
    destruct (Z.eqb_spec st 0); cbn; [exact I|assumption].
  Qed.
  Lemma install_int_code fs im : forall w, code_nonzero (fst (install_int ed fs im w)).
  Proof.
    induction fs as [|[s d] r IH]; intro w; cbn [install_int]; [exact I|].
    destruct (fault_of K_STAT (basename s) (w_faults w)); [cbn; discriminate|].
    destruct (assoc s (w_src w)) as [k|]; [|cbn; discriminate].
    destruct (match fault_of K_UNLINK (basename d) (w_faults w) with
              | Some e => Some e
              | None => match img_get (comps d) (w_img w) with Some (NDir _) => Some 21 | _ => None end
              end) eqn:Eu.
    - destruct (fault_of K_UNLINK (basename d) (w_faults w)); cbn; discriminate.
    - destruct (fault_of K_UNLINK (basename d) (w_faults w)); [discriminate|].
      destruct (match fault_of K_COPY (basename d) (w_faults w) with
                | Some e => inr e
                | None => match k with SFile cid => inl cid | SDir _ => inr 21 end
                end) as [cid|e]; [|cbn; discriminate].
      destruct im; try apply IH.
      destruct (fault_of K_CHMOD (basename d) (w_faults w)); [cbn; discriminate|apply IH].
  Qed.
  Lemma install_ext_groups_code gs ws : forall w, code_nonzero (fst (install_ext_groups ed ext_effect gs ws w)).
  Proof.
    induction gs as [|[d ss] r IH]; intro w; cbn [install_ext_groups]; [exact I|].
    destruct (ask w) as [[st out] w1].
    destruct (Z.eqb_spec st 0); [apply IH|cbn; assumption].
  Qed.
  Lemma install_files_code fs im w : code_nonzero (fst (install_files ed ext_effect fs im w)).
  Proof.
    destruct im; cbn [install_files]; try apply install_int_code. apply install_ext_groups_code.
  Qed.

  Lemma then_code a k : code_nonzero (fst a) -> (forall w, code_nonzero (fst (k w))) ->
                        code_nonzero (fst (then_ a k)).
  Proof. destruct a as [[e|] w]; cbn; auto. Qed.
  Lemma finish_code a : code_nonzero (fst a) -> hcode_nonzero (fst (finish a)).
  Proof. destruct a as [[e|] w]; cbn; auto. Qed.

  Lemma install_tree_code dest im dm d w : code_nonzero (fst (install_tree ed ext_effect dest im dm d w)).
  Proof.
    unfold install_tree. apply then_code; [apply install_dirs_code|].
    intro w1. destruct (kids_of w1 d); [exact I|apply install_files_code].
  Qed.
  Lemma fold_dirs_code dest im dm : forall (l : list str) a,
    code_nonzero (fst a) ->
    code_nonzero (fst (fold_left (fun acc d => then_ acc (install_tree ed ext_effect dest im dm d)) l a)).
  Proof.
    induction l as [|x l IH]; intros a Ha; cbn [fold_left]; [assumption|].
    apply IH. apply then_code; [assumption|intro; apply install_tree_code].
  Qed.

  Lemma install_run_code has_r de recursive targets dest im dm w :
    hcode_nonzero (fst (install_run ed ext_effect has_r de recursive targets dest im dm w)).
  Proof.
    unfold install_run.
    destruct (existsb _ targets); [exact I|].
    destruct (makedirs w dest) as [w1|e]; [|cbn; discriminate].
    match goal with |- context [if ?b then _ else _] => destruct b end; [cbn; discriminate|].
    apply finish_code. apply then_code.
    - destruct recursive; [|exact I]. apply fold_dirs_code. exact I.
    - intro. apply install_files_code.
  Qed.

  (* every IpcCommandError the install family raises carries a non-zero code (1, or the non-zero
     exit status of install(1)) - the premise of [truthful] *)
  Theorem install_codes_nonzero_proof has_r de dflt options args w :
    hcode_nonzero (fst (body_install ed ext_effect has_r de dflt options args w)).
  Proof.
    unfold body_install.
    set (o := parse_options options _).
    destruct (is_nil (o_unknown o)); cbn [negb]; [|cbn; discriminate].
    destruct (split_targets has_r args) as [[recursive targets] extras].
    destruct (is_nil targets); [cbn; discriminate|].
    destruct (find _ targets); [cbn; discriminate|].
    destruct (is_nil extras); cbn [negb]; [|cbn; discriminate].
    destruct (install_mode (o_ins o) dflt); destruct (install_mode (o_dir o) []);
      try exact I; apply install_run_code.
  Qed.

  (* ---- success post-condition of the internal path *)
  Lemma img_get_set_same k v i : img_get k (img_set k v i) = Some v.
  Proof.
    induction i as [|[k' v'] i IH]; cbn.
    - assert (path_eqb k k = true) as ->; [|reflexivity].
      induction k; cbn; [reflexivity|]. now rewrite str_eqb_refl.
    - destruct (path_eqb k k') eqn:E; cbn; [|rewrite E; exact IH].
      assert (path_eqb k k = true) as ->; [|reflexivity].
      clear. induction k; cbn; [reflexivity|]. now rewrite str_eqb_refl.
  Qed.

  Lemma path_eqb_eq a : forall b, path_eqb a b = true <-> a = b.
  Proof.
    induction a as [|x a IH]; intros [|y b]; cbn; split; intro H; try reflexivity; try discriminate.
    - apply andb_true_iff in H as [H1 H2]. apply str_eqb_eq in H1. apply IH in H2. congruence.
    - injection H as -> ->. apply andb_true_iff. split; [apply str_eqb_refl|now apply IH].
  Qed.

  Lemma img_get_set_other k k' v i : k <> k' -> img_get k (img_set k' v i) = img_get k i.
  Proof.
    intro Hne. induction i as [|[k2 v2] i IH]; cbn.
    - destruct (path_eqb k k') eqn:E; [apply path_eqb_eq in E; contradiction|reflexivity].
    - destruct (path_eqb k' k2) eqn:E2; cbn.
      + apply path_eqb_eq in E2. subst k2.
        destruct (path_eqb k k') eqn:E; [apply path_eqb_eq in E; contradiction|reflexivity].
      + destruct (path_eqb k k2); [reflexivity|exact IH].
  Qed.

  (* the internal copy loop, when it reports success, has put every regular file at its destination,
     provided two pairs aiming at the same destination carry the same source *)
  Definition file_at (w : world) (s d : str) : Prop :=
    forall cid, assoc s (w_src w) = Some (SFile cid) -> exists m, img_get (comps d) (w_img w) = Some (NFile cid m).

  Lemma install_int_src fs im : forall w r w',
    install_int ed fs im w = (r, w') -> w_src w' = w_src w /\ w_faults w' = w_faults w.
  Proof.
    induction fs as [|[s d] fs IH]; intros w r w'; cbn [install_int].
    - intro H; inversion H; auto.
    - destruct (fault_of K_STAT (basename s) (w_faults w)); [intro H; inversion H; auto|].
      destruct (assoc s (w_src w)) as [k|]; [|intro H; inversion H; auto].
      destruct (match fault_of K_UNLINK (basename d) (w_faults w) with
                | Some e => Some e
                | None => match img_get (comps d) (w_img w) with Some (NDir _) => Some 21 | _ => None end
                end); [intro H; inversion H; auto|].
      destruct (match fault_of K_COPY (basename d) (w_faults w) with
                | Some e => inr e
                | None => match k with SFile cid => inl cid | SDir _ => inr 21 end
                end) as [cid|e]; [|intro H; inversion H; auto].
      destruct im; try (intro H; apply IH in H; cbn in H; exact H).
      destruct (fault_of K_CHMOD (basename d) (w_faults w)); [intro H; inversion H; auto|].
      intro H; apply IH in H; cbn in H; exact H.
  Qed.

  Theorem install_int_post_proof fs im : forall w w',
    (forall s1 d1 s2 d2, In (s1, d1) fs -> In (s2, d2) fs -> comps d1 = comps d2 -> s1 = s2) ->
    install_int ed fs im w = (None, w') ->
    forall s d, In (s, d) fs -> file_at w' s d.
  Proof.
    induction fs as [|[s0 d0] fs IH]; intros w w' Hinj Hrun s d Hin; [destruct Hin|].
    cbn [install_int] in Hrun.
    destruct (fault_of K_STAT (basename s0) (w_faults w)); [discriminate|].
    destruct (assoc s0 (w_src w)) as [k|] eqn:Ek; [|discriminate].
    destruct (match fault_of K_UNLINK (basename d0) (w_faults w) with
              | Some e => Some e
              | None => match img_get (comps d0) (w_img w) with Some (NDir _) => Some 21 | _ => None end
              end); [discriminate|].
    destruct (match fault_of K_COPY (basename d0) (w_faults w) with
              | Some e => inr e
              | None => match k with SFile cid => inl cid | SDir _ => inr 21 end
              end) as [cid|e] eqn:Ecp; [|discriminate].
    assert (Hk : k = SFile cid).
    { destruct (fault_of K_COPY (basename d0) (w_faults w)); [discriminate|].
      destruct k; [now injection Ecp as ->|discriminate]. }
    subst k.
    (* the world the rest of the loop starts from has the file at d0 *)
    assert (Hrest : exists m0 w1, install_int ed fs im w1 = (None, w')
                               /\ w_src w1 = w_src w
                               /\ img_get (comps d0) (w_img w1) = Some (NFile cid m0)).
    { destruct im.
      - exists 420, (set_img w (img_set (comps d0) (NFile cid 420) (w_img w))).
        repeat split; [exact Hrun|cbn; apply img_get_set_same].
      - destruct (fault_of K_CHMOD (basename d0) (w_faults w)); [discriminate|].
        exists mode, (set_img w (img_set (comps d0) (NFile cid mode) (w_img w))).
        repeat split; [exact Hrun|cbn; apply img_get_set_same].
      - exists 420, (set_img w (img_set (comps d0) (NFile cid 420) (w_img w))).
        repeat split; [exact Hrun|cbn; apply img_get_set_same].
      - exists 420, (set_img w (img_set (comps d0) (NFile cid 420) (w_img w))).
        repeat split; [exact Hrun|cbn; apply img_get_set_same]. }
    destruct Hrest as [m0 [w1 [Hrun1 [Hsrc1 Hget1]]]].
    destruct (install_int_src _ _ _ _ _ Hrun1) as [Hsrc' _].
    destruct Hin as [Heq|Hin].
    - injection Heq as <- <-.
      (* either a later pair rewrites the same destination (then with the same source), or not *)
      destruct (in_dec (list_eq_dec str_eq_dec) (comps d0) (map (fun p => comps (snd p)) fs)) as [Hlater|Hnot].
      + apply in_map_iff in Hlater as [[s2 d2] [Hc Hin2]]. cbn in Hc.
        assert (s2 = s0) by (apply (Hinj s2 d2 s0 d0); [now right|now left|assumption]). subst s2.
        intros cid' Hc'.
        assert (Hfa : file_at w' s0 d2).
        { apply (IH w1 w'); [|exact Hrun1|exact Hin2].
          intros; eapply Hinj; try (right; eassumption); assumption. }
        destruct (Hfa cid' Hc') as [m Hm]. exists m. now rewrite <- Hc.
      + (* untouched by the rest *)
        intros cid' Hc'. rewrite Hsrc', Hsrc1, Ek in Hc'. injection Hc' as <-.
        assert (Hkeep : forall fs' w2 w3, install_int ed fs' im w2 = (None, w3) ->
                   ~ In (comps d0) (map (fun p => comps (snd p)) fs') ->
                   img_get (comps d0) (w_img w3) = img_get (comps d0) (w_img w2)).
        { clear. induction fs' as [|[s d] fs' IH']; intros w2 w3 H Hn; cbn [install_int] in H.
          - now inversion H.
          - destruct (fault_of K_STAT (basename s) (w_faults w2)); [discriminate|].
            destruct (assoc s (w_src w2)) as [k|]; [|discriminate].
            destruct (match fault_of K_UNLINK (basename d) (w_faults w2) with
                      | Some e => Some e
                      | None => match img_get (comps d) (w_img w2) with Some (NDir _) => Some 21 | _ => None end
                      end); [discriminate|].
            destruct (match fault_of K_COPY (basename d) (w_faults w2) with
                      | Some e => inr e
                      | None => match k with SFile cid => inl cid | SDir _ => inr 21 end
                      end) as [cid|e]; [|discriminate].
            assert (Hne : comps d0 <> comps d) by (intro E; apply Hn; left; now rewrite E).
            assert (Hn' : ~ In (comps d0) (map (fun p => comps (snd p)) fs')) by (intro; apply Hn; now right).
            destruct im.
            + rewrite (IH' _ _ H Hn'). cbn. now apply img_get_set_other.
            + destruct (fault_of K_CHMOD (basename d) (w_faults w2)); [discriminate|].
              rewrite (IH' _ _ H Hn'). cbn. now apply img_get_set_other.
            + rewrite (IH' _ _ H Hn'). cbn. now apply img_get_set_other.
            + rewrite (IH' _ _ H Hn'). cbn. now apply img_get_set_other. }
        exists m0. rewrite (Hkeep fs w1 w' Hrun1 Hnot). exact Hget1.
    - apply (IH w1 w'); [|exact Hrun1|exact Hin].
      intros; eapply Hinj; try (right; eassumption); assumption.
  Qed.
End InstallProofs.

(* ------------------------------------------------------------------ the install(1) fallback *)
Section ExtPost.
  Variable ed : str.
  Variable src : list (str * skind).
  Variable ext_effect : list str -> image -> image.
  Definition not_dir (i : image) (k : path) : Prop := forall m, img_get k i <> Some (NDir m).
  Local Notation argv_of words ss d := ([E "install"] ++ words ++ ss ++ [abs_of ed d]).
  (* THE assumption about install(1): when it exits 0 and DEST is not a directory, every SOURCE
     (here: copies of one file) is at DEST afterwards, DEST has not become a directory, and no
     other path of the image was touched *)
  Definition rel (d : str) : Prop := startswith [47] d = false.     (* a path below ED *)
  Hypothesis ext_installs : forall words ss d i s cid,
    rel d -> In s ss -> (forall s', In s' ss -> s' = s) -> assoc s src = Some (SFile cid) -> not_dir i (comps d) ->
    exists m, img_get (comps d) (ext_effect (argv_of words ss d) i) = Some (NFile cid m).
  Hypothesis ext_nodir : forall words ss d i,
    rel d -> not_dir i (comps d) -> not_dir (ext_effect (argv_of words ss d) i) (comps d).
  Hypothesis ext_frame : forall words ss d i k,
    rel d -> k <> comps d -> not_dir i (comps d) ->
    img_get k (ext_effect (argv_of words ss d) i) = img_get k i.

  Lemma ask_img w : w_img (snd (ask w)) = w_img w /\ w_src (snd (ask w)) = w_src w.
  Proof. unfold ask. destruct (w_ans w); cbn; auto. Qed.

  Lemma ext_groups_frame gs words : forall w w' k,
    install_ext_groups ed ext_effect gs words w = (None, w') ->
    (forall d ss, In (d, ss) gs -> rel d) ->
    (forall d ss, In (d, ss) gs -> not_dir (w_img w) (comps d)) ->
    (forall d ss, In (d, ss) gs -> k <> comps d) ->
    img_get k (w_img w') = img_get k (w_img w).
  Proof.
    induction gs as [|[d ss] gs IH]; intros w w' k Hrun Hrel Hnd Hk; cbn [install_ext_groups] in Hrun.
    - now inversion Hrun.
    - destruct (ask w) as [[st out] w1] eqn:Ea.
      assert (Hi : w_img w1 = w_img w) by (pose proof (ask_img w) as [H _]; now rewrite Ea in H).
      destruct (Z.eqb st 0); [|discriminate].
      assert (Hr0 : rel d) by (eapply Hrel; now left).
      rewrite (IH _ _ k Hrun).
      + cbn [set_img w_img]. rewrite Hi. apply ext_frame; [assumption|eapply Hk; now left|eapply Hnd; now left].
      + intros; eapply Hrel; right; eassumption.
      + intros d' ss' Hin. cbn [set_img w_img]. rewrite Hi.
        destruct (list_eq_dec str_eq_dec (comps d') (comps d)) as [E|Hne].
        * rewrite E. apply ext_nodir; [assumption|]. eapply Hnd; now left.
        * intros m. rewrite ext_frame; [|assumption|assumption|eapply Hnd; now left]. eapply Hnd; right; eassumption.
      + intros; eapply Hk; right; eassumption.
  Qed.

  Theorem install_ext_post_proof gs words : forall w w',
    w_src w = src ->
    (forall d ss, In (d, ss) gs -> rel d) ->
    (forall d ss, In (d, ss) gs -> not_dir (w_img w) (comps d)) ->
    (forall d ss, In (d, ss) gs -> ss <> []) ->
    (forall d1 ss1 d2 ss2 s1 s2, In (d1, ss1) gs -> In (d2, ss2) gs -> In s1 ss1 -> In s2 ss2 ->
                                  comps d1 = comps d2 -> s1 = s2) ->
    install_ext_groups ed ext_effect gs words w = (None, w') ->
    forall d ss s cid, In (d, ss) gs -> In s ss -> assoc s src = Some (SFile cid) ->
                       exists m, img_get (comps d) (w_img w') = Some (NFile cid m).
  Proof.
    induction gs as [|[d0 ss0] gs IH]; intros w w' Hsrc Hrel Hnd Hne Huni Hrun d ss s cid Hin Hs Hc; [destruct Hin|].
    cbn [install_ext_groups] in Hrun.
    destruct (ask w) as [[st out] w1] eqn:Ea.
    assert (Hi : w_img w1 = w_img w) by (pose proof (ask_img w) as [H _]; now rewrite Ea in H).
    assert (Hs1 : w_src w1 = w_src w) by (pose proof (ask_img w) as [_ H]; now rewrite Ea in H).
    destruct (Z.eqb st 0); [|discriminate].
    set (w2 := set_img w1 (ext_effect ([E "install"] ++ words ++ ss0 ++ [abs_of ed d0]) (w_img w1))) in *.
    assert (Hnd0 : not_dir (w_img w) (comps d0)) by (eapply Hnd; now left).
    assert (Hr0 : rel d0) by (eapply Hrel; now left).
    assert (Hrel2 : forall d' ss', In (d', ss') gs -> rel d') by (intros; eapply Hrel; right; eassumption).
    assert (Hnd2 : forall d' ss', In (d', ss') gs -> not_dir (w_img w2) (comps d')).
    { intros d' ss' Hin'. unfold w2. cbn [set_img w_img]. rewrite Hi.
      destruct (list_eq_dec str_eq_dec (comps d') (comps d0)) as [E|Hne'].
      - rewrite E. now apply ext_nodir.
      - intros m. rewrite ext_frame; [|assumption|assumption|assumption]. eapply Hnd; right; eassumption. }
    assert (Huni2 : forall d1 ss1 d2 ss2 s1 s2, In (d1, ss1) gs -> In (d2, ss2) gs -> In s1 ss1 -> In s2 ss2 ->
                                  comps d1 = comps d2 -> s1 = s2).
    { intros d1 ss1 d2 ss2 s1 s2 H1 H2 H3 H4 H5.
      eapply (Huni d1 ss1 d2 ss2); [right; exact H1|right; exact H2|exact H3|exact H4|exact H5]. }
    assert (Hne2 : forall d' ss', In (d', ss') gs -> ss' <> []) by (intros; eapply Hne; right; eassumption).
    assert (Hsrc2 : w_src w2 = src) by (unfold w2; cbn [set_img w_src]; now rewrite Hs1).
    destruct Hin as [Heq|Hin].
    - injection Heq as <- <-.
      destruct (in_dec (list_eq_dec str_eq_dec) (comps d0) (map (fun g => comps (fst g)) gs)) as [Hlater|Hnot].
      + apply in_map_iff in Hlater as [[d2 ss2] [Hc2 Hin2]]. cbn in Hc2.
        destruct ss2 as [|s2 ss2]; [exfalso; eapply Hne2; [exact Hin2|reflexivity]|].
        assert (s2 = s).
        { eapply (Huni d2 (s2 :: ss2) d0 ss0); [right; exact Hin2|now left|now left|exact Hs|exact Hc2]. }
        subst s2. rewrite <- Hc2.
        eapply (IH w2 w'); try eassumption. now left.
      + rewrite (ext_groups_frame gs words w2 w' (comps d0) Hrun Hrel2 Hnd2).
        * unfold w2. cbn [set_img w_img]. rewrite Hi. apply (ext_installs words ss0 d0 (w_img w) s cid); try assumption.
          intros s' Hs'. eapply (Huni d0 ss0 d0 ss0); [now left|now left|exact Hs'|exact Hs|reflexivity].
        * intros d' ss' Hin' E. apply Hnot. apply in_map_iff. exists (d', ss'). split; [now cbn|assumption].
    - eapply (IH w2 w'); try eassumption.
  Qed.

  (* ---- from the list of (source, destination) pairs to the groups *)
  Lemma in_insert_by x y l : In x (insert_by y l) <-> x = y \/ In x l.
  Proof.
    induction l as [|z l IH]; cbn; [intuition congruence|].
    destruct (str_leb (snd z) (snd y)); cbn; rewrite ?IH; intuition congruence.
  Qed.
  Lemma in_sort_by_dest x l : In x (sort_by_dest l) <-> In x l.
  Proof.
    unfold sort_by_dest. rewrite (in_rev l). generalize (rev l) as m.
    induction m as [|y m IH]; cbn [fold_right]; [reflexivity|].
    rewrite in_insert_by, IH. cbn. intuition congruence.
  Qed.
  Lemma group_sound l : forall d ss s, In (d, ss) (group_by_dest l) -> In s ss -> In (s, d) l.
  Proof.
    induction l as [|[s0 d0] l IH]; intros d ss s; cbn [group_by_dest]; [intros []|].
    destruct (group_by_dest l) as [|[d' ss'] gs] eqn:E.
    - intros [H|[]] Hs. injection H as <- <-. destruct Hs as [->|[]]. now left.
    - destruct (str_eqb d0 d') eqn:Ed.
      + apply str_eqb_eq in Ed. subst d'. intros [H|H] Hs.
        * injection H as <- <-. destruct Hs as [->|Hs]; [now left|]. right. eapply IH; [now left|exact Hs].
        * right. eapply IH; [right; exact H|exact Hs].
      + intros [H|H] Hs.
        * injection H as <- <-. destruct Hs as [->|[]]. now left.
        * right. eapply IH; [exact H|exact Hs].
  Qed.
  Lemma group_complete l : forall s d, In (s, d) l -> exists ss, In (d, ss) (group_by_dest l) /\ In s ss.
  Proof.
    induction l as [|[s0 d0] l IH]; intros s d; cbn [group_by_dest]; [intros []|].
    intros [H|H].
    - injection H as -> ->. destruct (group_by_dest l) as [|[d' ss'] gs].
      + exists [s]. split; now left.
      + destruct (str_eqb d d') eqn:Ed.
        * exists (s :: ss'). split; now left.
        * exists [s]. split; now left.
    - destruct (IH s d H) as [ss [Hg Hs]].
      destruct (group_by_dest l) as [|[d' ss'] gs]; [destruct Hg|].
      destruct (str_eqb d0 d') eqn:Ed.
      + apply str_eqb_eq in Ed. subst d'. destruct Hg as [Hg|Hg].
        * injection Hg as <- <-. exists (s0 :: ss'). split; [now left|now right].
        * exists ss. split; [now right|assumption].
      + exists ss. split; [now right|assumption].
  Qed.
  Lemma group_nonempty l : forall d ss, In (d, ss) (group_by_dest l) -> ss <> [].
  Proof.
    induction l as [|[s0 d0] l IH]; intros d ss; cbn [group_by_dest]; [intros []|].
    destruct (group_by_dest l) as [|[d' ss'] gs] eqn:E.
    - intros [H|[]]. injection H as <- <-. discriminate.
    - destruct (str_eqb d0 d'); intros [H|H]; try (injection H as <- <-; discriminate).
      + eapply IH. right. exact H.
      + eapply IH. exact H.
  Qed.

  (* SUCCESS POST-CONDITION of the install(1) fallback: reported success => every regular file is at
     its destination, with the behaviour of install(1) as the only assumption *)
  Theorem install_fallback_post_proof fs words w w' :
    w_src w = src ->
    (forall s d, In (s, d) fs -> rel d) ->
    (forall s d, In (s, d) fs -> not_dir (w_img w) (comps d)) ->
    (forall s1 d1 s2 d2, In (s1, d1) fs -> In (s2, d2) fs -> comps d1 = comps d2 -> s1 = s2) ->
    install_files ed ext_effect fs (IFallback words) w = (None, w') ->
    forall s d cid, In (s, d) fs -> assoc s src = Some (SFile cid) ->
                    exists m, img_get (comps d) (w_img w') = Some (NFile cid m).
  Proof.
    intros Hsrc Hrel Hnd Hinj Hrun s d cid Hin Hc. cbn [install_files] in Hrun.
    assert (Hin' : In (s, d) (sort_by_dest fs)) by now apply in_sort_by_dest.
    destruct (group_complete _ _ _ Hin') as [ss [Hg Hs]].
    eapply (install_ext_post_proof _ words w w' Hsrc); try eassumption.
    - intros d1 ss1 Hg1. destruct ss1 as [|s1 ss1]; [exfalso; eapply group_nonempty; [exact Hg1|reflexivity]|].
      eapply (Hrel s1). apply in_sort_by_dest. eapply group_sound; [exact Hg1|now left].
    - intros d1 ss1 Hg1. destruct ss1 as [|s1 ss1]; [exfalso; eapply group_nonempty; [exact Hg1|reflexivity]|].
      eapply (Hnd s1). apply in_sort_by_dest. eapply group_sound; [exact Hg1|now left].
    - apply group_nonempty.
    - intros d1 ss1 d2 ss2 s1 s2 H1 H2 Hs1 Hs2 E.
      eapply Hinj; [| |exact E]; apply in_sort_by_dest; eapply group_sound; eassumption.
  Qed.
End ExtPost.

(* ---- the assumptions are satisfiable: an install(1) that refuses directories as DEST *)
Section Ideal.
  Variable ed : str.
  Variable src : list (str * skind).
  Definition ideal_effect (argv : list str) (i : image) : image :=
    let d := rel_of ed (last argv []) in
    match assoc (last (removelast argv) []) src, img_get d i with
    | Some (SFile cid), Some (NDir _) => i
    | Some (SFile cid), _ => img_set d (NFile cid 493) i
    | _, _ => i
    end.

  Lemma skipn_exact {A} (a b : list A) : skipn (List.length a) (a ++ b) = b.
  Proof. induction a; cbn; auto. Qed.
  Lemma comps_slash d : comps (47 :: d) = comps d.
  Proof. unfold comps. cbn. reflexivity. Qed.
  Lemma rel_of_abs d : rel d -> rel_of ed (abs_of ed d) = comps d.
  Proof.
    unfold rel, rel_of, abs_of, pjoin, drop. intros ->.
    destruct (is_nil ed || (last ed 0 =? 47)).
    - now rewrite skipn_exact.
    - rewrite skipn_exact. apply comps_slash.
  Qed.
  Lemma last_app_ne {A} (pre ss : list A) dflt : ss <> [] -> last (pre ++ ss) dflt = last ss dflt.
  Proof.
    intro H. induction pre as [|a pre IH]; [reflexivity|].
    cbn [app]. destruct (pre ++ ss) eqn:E.
    - destruct pre; [cbn in E; contradiction|discriminate].
    - cbn [last]. exact IH.
  Qed.
  Lemma last_in {A} (ss : list A) dflt : ss <> [] -> In (last ss dflt) ss.
  Proof.
    induction ss as [|a ss IH]; [contradiction|]. intros _.
    destruct ss as [|b ss]; [now left|]. right. apply IH. discriminate.
  Qed.
  Lemma argv_decode words ss d s :
    In s ss -> (forall s', In s' ss -> s' = s) ->
    last ([E "install"] ++ words ++ ss ++ [abs_of ed d]) [] = abs_of ed d
    /\ last (removelast ([E "install"] ++ words ++ ss ++ [abs_of ed d])) [] = s.
  Proof.
    intros Hin Hall.
    assert (Hne : ss <> []) by (destruct ss; [destruct Hin|discriminate]).
    replace ([E "install"] ++ words ++ ss ++ [abs_of ed d]) with ((([E "install"] ++ words) ++ ss) ++ [abs_of ed d])
      by (now rewrite <- !app_assoc).
    rewrite last_last, removelast_last. split; [reflexivity|].
    rewrite last_app_ne by assumption. apply Hall. now apply last_in.
  Qed.
  Lemma argv_last words ss d :
    last ([E "install"] ++ words ++ ss ++ [abs_of ed d]) [] = abs_of ed d.
  Proof.
    replace ([E "install"] ++ words ++ ss ++ [abs_of ed d]) with ((([E "install"] ++ words) ++ ss) ++ [abs_of ed d])
      by (now rewrite <- !app_assoc).
    apply last_last.
  Qed.

  Lemma ideal_installs : forall words ss d i s cid,
    rel d -> In s ss -> (forall s', In s' ss -> s' = s) -> assoc s src = Some (SFile cid) -> not_dir i (comps d) ->
    exists m, img_get (comps d) (ideal_effect ([E "install"] ++ words ++ ss ++ [abs_of ed d]) i) = Some (NFile cid m).
  Proof.
    intros words ss d i s cid Hr Hin Hall Hc Hnd. unfold ideal_effect.
    destruct (argv_decode words ss d s Hin Hall) as [-> ->]. rewrite rel_of_abs by assumption. rewrite Hc.
    destruct (img_get (comps d) i) as [[m|c m]|] eqn:E.
    - exfalso. now apply (Hnd m).
    - exists 493. apply img_get_set_same.
    - exists 493. apply img_get_set_same.
  Qed.
  Lemma ideal_nodir : forall words ss d i,
    rel d -> not_dir i (comps d) -> not_dir (ideal_effect ([E "install"] ++ words ++ ss ++ [abs_of ed d]) i) (comps d).
  Proof.
    intros words ss d i Hr Hnd. unfold ideal_effect. rewrite argv_last, rel_of_abs by assumption.
    destruct (assoc _ src) as [[cid|]|]; try assumption.
    destruct (img_get (comps d) i) as [[m|c m]|] eqn:E; try assumption;
      intros m'; rewrite img_get_set_same; discriminate.
  Qed.
  Lemma ideal_frame : forall words ss d i k,
    rel d -> k <> comps d -> not_dir i (comps d) ->
    img_get k (ideal_effect ([E "install"] ++ words ++ ss ++ [abs_of ed d]) i) = img_get k i.
  Proof.
    intros words ss d i k Hr Hk Hnd. unfold ideal_effect. rewrite argv_last, rel_of_abs by assumption.
    destruct (assoc _ src) as [[cid|]|]; try reflexivity.
    destruct (img_get (comps d) i) as [[m|c m]|]; try reflexivity; now apply img_get_set_other.
  Qed.

  (* the fallback theorem without hypotheses, for this install(1) *)
  Theorem install_fallback_post_ideal fs words w w' :
    w_src w = src ->
    (forall s d, In (s, d) fs -> rel d) ->
    (forall s d, In (s, d) fs -> not_dir (w_img w) (comps d)) ->
    (forall s1 d1 s2 d2, In (s1, d1) fs -> In (s2, d2) fs -> comps d1 = comps d2 -> s1 = s2) ->
    install_files ed ideal_effect fs (IFallback words) w = (None, w') ->
    forall s d cid, In (s, d) fs -> assoc s src = Some (SFile cid) ->
                    exists m, img_get (comps d) (w_img w') = Some (NFile cid m).
  Proof.
    apply (install_fallback_post_proof ed src ideal_effect ideal_installs ideal_nodir ideal_frame).
  Qed.
End Ideal.

(* ------------------------------------------------------------------ non-vacuity *)
Definition ex_cfg : cfg :=
  {| c_ed := lit "/ED"; c_cwd := lit "/S"; c_helpers := [(lit "doins", KInstall true false [])] |}.
Definition ex_world : world :=
  {| w_src := [(lit "a", SFile 1); (lit "b", SFile 2)]; w_img := [(comps (lit "usr/b"), NDir 493)];
     w_ans := [(1%Z, [lit "install: invalid mode"; lit "Try --help"])]; w_faults := []; w_atoms := [] |}.
Definition ex_req (nf : bool) (opts args : str) : req :=
  {| r_cmd := lit "doins"; r_nonfatal := if nf then lit "true" else lit "false"; r_cwd := lit "/S";
     r_phase := lit "install"; r_opts := opts; r_args := args |}.
(* three requests: a plain success, a nonfatal failure (destination occupied by a directory), a
   fallback whose install(1) fails with two stderr lines: three single lines, all bytes consumed *)
Example session_example :
  run_daemon ex_cfg
    (stream [ex_req true (lit "--dest=/usr") (lit "a" ++ [0]);
             ex_req true (lit "--dest=/usr") (lit "b" ++ [0]);
             ex_req true (lit "--dest=/usr '--insoptions=-m u=zzz'") (lit "a" ++ [0])]) ex_world
  = (lit "0" ++ [NL]
     ++ lit "1" ++ [BEL] ++ lit "failed removing file: '/ED/usr/b': Is a directory" ++ [NL]
     ++ lit "1" ++ [BEL] ++ lit "install: invalid mode Try --help" ++ [NL],
     [], SFinished,
     {| w_src := w_src ex_world;
        w_img := [(comps (lit "usr/b"), NDir 493); (comps (lit "usr"), NDir 493);
                  (comps (lit "usr/a"), NFile 1 420)];
        w_ans := []; w_faults := []; w_atoms := [] |}).
Proof. vm_compute. reflexivity. Qed.

(* the same failing fallback under a fatal request: one line, then the build fails *)
Example fatal_example :
  fst (run_daemon ex_cfg (stream [ex_req false (lit "'--insoptions=-m u=zzz'") (lit "a" ++ [0])]) ex_world)
  = (lit "1" ++ [BEL] ++ lit "install: invalid mode Try --help" ++ [NL], lit "phases succeeded" ++ [NL], SFatal).
Proof. vm_compute. reflexivity. Qed.

Example cmd_ok_example : cmd_ok (ex_req true (lit "--dest=/usr") (lit "a" ++ [0])).
Proof. unfold cmd_ok. cbn. repeat split; try discriminate. intros [H|[H|[H|[H|[H|[]]]]]]; discriminate. Qed.

(* ------------------------------------------------------------------ known class: "\n" inside an argument *)
(* __ebd_write_array writes the arguments NUL-separated on ONE line; an argument containing a
   newline makes the request seven lines long: the python side reads five, the rest is taken for
   the next command.  Witness: dodoc $'a\nb'  ->  reply to a request for "a", then "b\0" is an
   unknown command (the daemon is torn down).  Not repaired (protocol change). *)
Definition newline_in_request (r : req) : Prop := ~ req_ok r.
Example channel_in_sync_refuted_proof :
  let r := ex_req true (lit "--dest=/usr") (lit "a" ++ [NL] ++ lit "b" ++ [0]) in
  newline_in_request r /\
  snd (fst (run_daemon ex_cfg (stream [r]) ex_world)) = SUnhandled.
Proof.
  split.
  - unfold newline_in_request, req_ok, line_ok. cbn. intro H.
    destruct H as [_ [_ [_ [_ [_ H]]]]]. apply H. right. now left.
  - vm_compute. reflexivity.
Qed.

(* the premise of the fallback post-condition is satisfiable with a non-empty file list *)
Example fallback_example :
  let src := [(lit "a", SFile 1)] in
  let w := {| w_src := src; w_img := [(comps (lit "usr"), NDir 493)]; w_ans := [(0%Z, [])];
              w_faults := []; w_atoms := [] |} in
  exists w', install_files (lit "/ED") (ideal_effect (lit "/ED") src) [(lit "a", lit "usr/a")]
                           (IFallback [lit "-m"; lit "u=rwx,go=rx"]) w = (None, w')
             /\ img_get (comps (lit "usr/a")) (w_img w') = Some (NFile 1 493).
Proof. eexists. split; vm_compute; reflexivity. Qed.
