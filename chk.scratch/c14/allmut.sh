#!/bin/sh
M=/verif/chk.scratch/c14/mut.sh
$M M1_disable_no_bump '("            object.__setattr__(self, \"_reuse_pt\", self._reuse_pt + 1)\n            return True\n\n        def request_enable", "            if enable:\n                object.__setattr__(self, \"_reuse_pt\", self._reuse_pt + 1)\n            return True\n\n        def request_enable")'
$M M2_commit_reset '("            object.__setattr__(self, \"_reuse_pt\", self._reuse_pt + 1)\n\n        def changes_count", "            object.__setattr__(self, \"_reuse_pt\", 0)\n\n        def changes_count")'
$M M3_no_ordering '("            vals = sorted(vals, key=lambda x: (x in flags) == enable)\n", "")'
$M M4_rollback_bump_only_full '("            self._configurable.rollback(point)\n            # yes, nuking objs isn'"'"'t necessarily required.  easier this way though.\n            # XXX: optimization point\n            object.__setattr__(self, \"_reuse_pt\", self._reuse_pt + 1)", "            self._configurable.rollback(point)\n            if point == 0:\n                object.__setattr__(self, \"_reuse_pt\", self._reuse_pt + 1)")'
$M M5_keyerror_not_swallowed '("                    except KeyError:\n                        # disabling a flag that is off and locked, or pinned already\n                        pass", "                    except KeyError:\n                        raise")'
$M M6_cache_cmp '("if o is None or o[0] != self._reuse_pt:", "if o is None or o[0] < self._reuse_pt - 1:")'
$M M7_sort_wrong_way '("key=lambda x: (x in flags) == enable)", "key=lambda x: (x in flags) != enable)")'
$M H1_rollback_skip_noop '("            self._configurable.rollback(point)\n", "            if point == self.changes_count():\n                return\n            self._configurable.rollback(point)\n")'
$M H2_commit_no_bump '("            object.__setattr__(self, \"_reuse_pt\", self._reuse_pt + 1)\n\n        def changes_count", "\n        def changes_count")'
$M H3_getattr_refactor '("    o = self._cached_wrapped.get(attr)\n    if o is None or o[0] != self._reuse_pt:\n", "    gen = self._reuse_pt\n    o = self._cached_wrapped.get(attr, (None, None))\n    if o[0] != gen:\n")'
