import sys; p=sys.argv[1]; s=open(p).read()
a='re.compile(r"(?:^|\\s)#")'; assert a in s
s=s.replace(a,'re.compile(r"(?:^|[ \\t])#")'); open(p,'w').write(s)
