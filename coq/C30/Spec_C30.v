(* Spec_C30.v — the statement of C30: adding / removing a package atom to the world set records /
   removes exactly its name, or name:slot when a non-zero slot is given, for any slot string; all
   other entries stay; the file is replaced atomically.  Sets are compared by membership. *)
From Coq Require Import List NArith ZArith Bool Arith Permutation.
Import ListNotations.
From Verif Require Import Base.Val C18.Fs C24.Model_C24 C30.Model_C30.

(* the text that must be recorded for an atom of category c, package p, slot s *)
Definition nonzero_slot (s : option str) : option str :=
  match s with
  | Some (x :: r) => if str_eqb (x :: r) zero then None else Some (x :: r)
  | _ => None
  end.
Definition recorded_text (c p : str) (s : option str) : str :=
  c ++ SLASH :: p ++ match nonzero_slot s with Some s' => COLON :: s' | None => [] end.

(* add: the result holds exactly the old entries and the recorded one *)
Definition add_exact_stmt (add : str -> str -> option str -> list went -> list went) : Prop :=
  forall c p s W, NoDup W ->
  let W' := add c p s W in
  NoDup W' /\ went_text (target c p s) = recorded_text c p s /\
  forall x, In x W' <-> (x = target c p s \/ In x W).

(* remove: KeyError exactly when the entry is absent; otherwise exactly that entry goes *)
Definition remove_exact_stmt : Prop :=
  forall c p s W, NoDup W ->
  match world_remove c p s W with
  | Some W' => In (target c p s) W /\ NoDup W' /\
               forall x, In x W' <-> (In x W /\ x <> target c p s)
  | None => ~ In (target c p s) W
  end.

(* flush writes exactly the entries of the set, one per line *)
Definition flush_exact_stmt : Prop :=
  forall W, exists l, flush_text W = join_nl (map went_text l) /\ Permutation l W.

Definition wflush_atomic_stmt : Prop :=
  forall s mode gid c W k, tmp_ok s P_WTMP ->
  let sk := run (firstn k (wflush_ops s mode gid c W)) s in
  (forall q, q <> P_WORLD -> q <> P_WTMP -> lookup sk q = lookup s q) /\
  (lookup sk P_WORLD = lookup s P_WORLD \/
   is_file_with (utf8 (flush_text W)) mode (lookup sk P_WORLD)).

(* names as they occur in world entries: non-empty, no whitespace, no ':' and no '/' *)
Definition name_char (c : N) : bool := negb (py_space c) && negb (N.eqb c COLON) && negb (N.eqb c SLASH).
Definition plain_name (s : str) : bool := negb (is_nil s) && forallb name_char s.
Definition plain_slot (s : str) : bool := negb (is_nil s) && forallb (fun c => negb (py_space c)) s.
Definition valid_went (e : went) : bool :=
  plain_name (wcat e) && plain_name (wpkg e)
  && negb (starts_with_c 35 (wcat e)) && negb (starts_with_c 64 (wcat e))
  && match wslot e with Some s => plain_slot s | None => true end.

(* the persisted text reads back as the same set *)
Definition persist_stmt : Prop :=
  forall W, NoDup W -> Forall (fun e => valid_went e = true) W ->
  parse_world (flush_text W) = Some (wsort W) /\ Permutation (wsort W) W.

(* acceptor for the "fault" stream (comparison B on the implementation's tree) *)
Definition spec_wfault_ok (i : wfault_in) (r : val) : bool :=
  let s := winit_fs i in
  let newn := VL [VS (utf8 (flush_text (wfault_set i))); VZ (Z.of_N (w_mode i)); VZ 0;
                  VZ (Z.of_N (w_gid i))] in
  match r with
  | VL [_; VL [c; t; o]] =>
      (val_eqb c (enc_node (lookup s P_WORLD)) || val_eqb c newn)
      && val_eqb o (enc_node (lookup s P_OTHER))
      && (negb (w_eio i && Nat.leb 1 (w_k i)) || val_eqb t VNone)
  | _ => false
  end.
