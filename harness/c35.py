"""C35 — the Python/daemon command protocol never deadlocks or desynchronises (DESIGN §6 C35).

Tie to the code
  tables   gen/Tables_protocol.v is regenerated from processor.py, ebd.py and the ebd/*.bash
           sources (harness/c35_tables.py, fail-closed); the model's alphabet, the daemon's dispatch
           and the agreement predicates cmd_ok/ack_ok/req_ok are computed from it inside Coq, and
           `literals_agree` is re-proved against it on every run.
  traces   REAL daemon sessions (metadata regen of generated ebuilds with inherit chains, environment
           dump, async/sync eclass preloading incl. a broken eclass, clear_preloaded_eclasses, die at
           global scope, unknown eclass, an unknown command, a failing env transfer, a failing phase,
           SIGTERM/SIGINT notices) are recorded line by line through the in-tree hook
           PKGCORE_VERIF_TRACE (fixes/C35-hook-trace.patch; when the tree does not have the hook yet the
           same two methods are tapped from the harness and the evidence says so).  Every session's
           trace is parsed, classified and elaborated INSIDE Coq and must be accepted by
           `Lts.accepts stepf` (Model_C35.accepts_obs); mutated traces (a reply dropped, two replies
           swapped, a reply duplicated) must be rejected.
  scripted Python side against a scripted daemon (pipes) for the handler branches no real daemon
           session reaches here (request_bashrcs, IPC helper call, sandbox summary); the three bash
           request functions against a scripted Python.
  oracle   directly on the implementation: after every operation of a live session `alive` must be
           answered by `yep!` (no stale line in the channel), clear_preloaded_eclasses() must
           succeed, and an unknown command must end the session with EbdError.
"""

from __future__ import annotations

import io
import os
import signal
import subprocess
import sys
import time

from . import c35_tables, tables
from .common import REPO, Check, Err, Raw, cstr, impl_call
from .tables import TableError

IMPORTS = ("From Coq Require Import List NArith ZArith Bool.\n"
           "From Verif Require Import Base.Val C35.Model_C35.")
ANCHORS = ["ebuild/processor.py::EbuildProcessor.write", "ebuild/processor.py::EbuildProcessor.expect",
           "ebuild/processor.py::EbuildProcessor._consume_async_expects",
           "ebuild/processor.py::EbuildProcessor.readlines", "ebuild/processor.py::EbuildProcessor.generic_handler",
           "ebuild/processor.py::EbuildProcessor.run_phase", "ebuild/processor.py::EbuildProcessor.send_env",
           "ebuild/processor.py::EbuildProcessor.clear_preloaded_eclasses",
           "ebuild/processor.py::EbuildProcessor.preload_eclasses",
           "ebuild/processor.py::EbuildProcessor._run_depend_like_phase",
           "ebuild/processor.py::EbuildProcessor.shutdown_processor", "ebuild/processor.py::inherit_handler",
           "ebuild/processor.py::chuck_DyingInterrupt", "ebuild/processor.py::chuck_StoppingCommand",
           "../../data/lib/pkgcore/ebd/ebuild-daemon.bash", "../../data/lib/pkgcore/ebd/ebuild-daemon-lib.bash",
           "../../data/lib/pkgcore/ebd/exit-handling.bash"]
MAXLINE = 64
OP_TIMEOUT = int(os.environ.get("VERIF_C35_OP_TIMEOUT", "20"))     # after this long a blocked pair is a deadlock
HARD_TIMEOUT = int(os.environ.get("VERIF_C35_HARD_TIMEOUT", "600"))  # ... and this long is too long in any case


def _group_sample(pgid):
    """(cpu ticks, states, count) of the processes whose process group is pgid"""
    ticks, states, n = 0, set(), 0
    for d in os.listdir("/proc"):
        if not d.isdigit():
            continue
        try:
            with open(f"/proc/{d}/stat") as f:
                st = f.read()
        except OSError:
            continue
        f = st[st.rfind(")") + 2:].split()
        if len(f) > 12 and f[2] == str(pgid):
            n += 1
            states.add(f[0])
            ticks += int(f[11]) + int(f[12])
    return ticks, states, n


def group_blocked(pgid):
    """every process of the group sleeps and none used CPU for 2 s (on a loaded machine a slow daemon
    is runnable or progressing, not blocked) — or the group is gone"""
    a = _group_sample(pgid)
    time.sleep(2)
    b = _group_sample(pgid)
    if b[2] == 0:
        return True
    return a[0] == b[0] and b[1] <= {"S", "Z"} and a[1] <= {"S", "Z"}


class Watchdog:
    """kills process group pgid when an operation has run for OP_TIMEOUT s AND the group is blocked
    (or for HARD_TIMEOUT s); the kill unblocks read()/waitpid() on the python side"""

    def __init__(self, pgid):
        import threading
        self.pgid, self.fired, self._done = pgid, False, threading.Event()
        self._t = threading.Thread(target=self._run, daemon=True)
        self._t.start()

    def _run(self):
        t0 = time.time()
        while not self._done.wait(2):
            el = time.time() - t0
            if el >= OP_TIMEOUT and (el >= HARD_TIMEOUT or group_blocked(self.pgid)):
                if self._done.is_set():
                    return
                self.fired = True
                try:
                    os.killpg(self.pgid, signal.SIGKILL)
                except (OSError, TypeError):
                    pass
                return

    def cancel(self):
        self._done.set()


class _NoAlarm:
    """`signal` as processor.py sees it during the sessions: expect(timeout=10)'s interval timer is
    not armed (timers are outside the line protocol; on a loaded machine the alarm would make the
    sessions nondeterministic).  The `timeout` ARGUMENT still takes its path through expect()."""

    def __getattr__(self, n):
        return getattr(signal, n)

    @staticmethod
    def setitimer(which, secs, *a):
        if which == signal.ITIMER_REAL and secs:
            return (0.0, 0.0)
        return signal.setitimer(which, secs, *a)

    @staticmethod
    def signal(signum, handler):
        if signum == signal.SIGALRM:
            return signal.getsignal(signum)
        return signal.signal(signum, handler)


def gen_tables():
    return c35_tables.gen()


class Timeout(BaseException):
    pass


def _alarm(signum, frame):
    raise Timeout()


def guard(secs, fn, *a, **kw):
    old = signal.signal(signal.SIGALRM, _alarm)
    signal.setitimer(signal.ITIMER_REAL, secs)
    try:
        return fn(*a, **kw)
    finally:
        signal.setitimer(signal.ITIMER_REAL, 0)
        signal.signal(signal.SIGALRM, old)


# ----------------------------------------------------------------------------- recording
class Recorder:
    """collects (kind, text) records of ONE processor: through the in-tree hook when the tree has it,
    else by tapping write()/readline() of that processor object"""

    def __init__(self, chk, P):
        self.P = P
        self.hook = hasattr(P, "_verif_trace")
        self.path = str(chk.scratch / "trace")     # shared by all sessions; records carry the daemon pid
        self.recs = []       # (kind, text) kinds: C W R Z E
        self.pid = None
        self._pos = 0

    def arm(self):
        if self.hook:
            open(self.path, "a").close()
            os.environ["PKGCORE_VERIF_TRACE"] = self.path

    def disarm(self):
        os.environ.pop("PKGCORE_VERIF_TRACE", None)

    def pull(self):
        """move what the hook wrote since the last pull into recs"""
        if not self.hook:
            return
        import ast as _ast
        with open(self.path) as f:
            f.seek(self._pos)
            data = f.read()
            self._pos = f.tell()
        for ln in data.splitlines():
            kind, pid, lit = ln.split(" ", 2)
            if self.pid is not None and pid != str(self.pid):
                continue
            self._add(kind, _ast.literal_eval(lit))

    def _add(self, kind, text):
        if kind == "W":
            first = text.split("\n", 1)[0]
            sized = first.split(" ")[0] in ("set_metadata_path", "gen_metadata", "gen_ebuild_env") or \
                first.startswith("start_receiving_env bytes")
            if sized:
                self.recs.append(("W", first))
            else:
                body = text[:-1] if text.endswith("\n") else text
                for part in body.split("\n"):
                    self.recs.append(("W", part))
        elif kind == "R":
            if text == "":
                self.recs.append(("Z", ""))
            else:
                self.recs.append(("R", text[:-1] if text.endswith("\n") else text))

    def mark(self, kind, text):
        self.pull()
        self.recs.append((kind, text))

    def tap(self, ebp):
        """fallback when the tree has no hook: wrap this object's write and its read file"""
        if self.hook:
            return
        rec = self
        orig_write = ebp.write

        def write(string, flush=True, disable_runtime_exceptions=False, append_newline=True):
            s = str(string)
            if append_newline and s != "\n":
                s += "\n"
            rec._add("W", s)
            return orig_write(string, flush=flush, disable_runtime_exceptions=disable_runtime_exceptions,
                              append_newline=append_newline)
        ebp.write = write
        ebp.ebd_read = _Tap(ebp.ebd_read, rec)

    def encode(self):
        out = []
        for kind, text in self.recs:
            b = text.encode("utf-8", "replace")[:MAXLINE].replace(b"\n", b" ")
            out.append(kind.encode() + b)
        return b"\n".join(out)


class _Tap:
    def __init__(self, f, rec):
        self._f, self._rec = f, rec

    def readline(self, *a):
        d = self._f.readline(*a)
        self._rec._add("R", d.decode())
        return d

    def __getattr__(self, n):
        return getattr(self._f, n)


# ----------------------------------------------------------------------------- real sessions
class Session:
    """one real EbuildProcessor whose every protocol line is recorded"""

    def __init__(self, chk, P, name):
        self.chk, self.P, self.name = chk, P, name
        self.rec = Recorder(chk, P)
        self.devnull = open(os.devnull, "w")
        self.ebp = None
        self.oracle = []      # property failures seen directly on the implementation
        self.last = None
        self.requests = 0

    def start(self):
        """spawn the daemon (called from a worker thread: all daemons of a run start concurrently)"""
        P = self.P
        self.rec.arm()
        fds = {1: self.devnull.fileno(), 2: self.devnull.fileno()}
        guard = lambda secs, fn, *a, **kw: fn(*a, **kw)  # noqa: E731 - no alarm outside the main thread
        if self.rec.hook:
            self.ebp = guard(90, P.EbuildProcessor, False, False, fd_pipes=fds)
        else:
            rec = self.rec

            class Tapped(P.EbuildProcessor):
                def write(self, string, flush=True, disable_runtime_exceptions=False, append_newline=True):
                    s = str(string)
                    if append_newline and s != "\n":
                        s += "\n"
                    rec._add("W", s)
                    return super().write(string, flush, disable_runtime_exceptions, append_newline)

                def readlines(self, lines):
                    if not isinstance(self.ebd_read, _Tap):
                        self.ebd_read = _Tap(self.ebd_read, rec)
                    return super().readlines(lines)
            self.ebp = guard(90, Tapped, False, False, fd_pipes=fds)
        self.rec.pid = self.ebp.pid
        self.daemon_pid = self.ebp.pid
        return self

    def begin(self):
        self.rec.mark("E", "1")
        return self

    def op(self, code, fn, truth=None):
        """run one public operation; code is the model's operation letter (+ fixed args);
        p/k/e get their numeric argument (number of preload_eclass lines written) from the trace"""
        self.rec.pull()
        at = len(self.rec.recs)
        self.rec.recs.append(("C", code))
        dog = Watchdog(self.daemon_pid)
        fired = []
        try:
            try:
                v = fn()
            finally:
                dog.cancel()
                if dog.fired:
                    fired.append(1)
            if fired:
                raise Timeout()
            res = "1" if (v if truth is None else truth(v)) else "0"
            self.last = res
        except Timeout:
            res = "T"
            v = Err("timeout")
            self.last = "timeout"
            self.rec.pull()
            self.oracle.append({"what": "operation %r did not return within %d s although the daemon is alive: python "
                                        "and the daemon are both waiting for a line (deadlock)" % (code, OP_TIMEOUT),
                                "session": self.name,
                                "last_lines": [f"{k} {t[:80]}" for k, t in self.rec.recs[-8:]]})
        except BaseException as e:  # noqa: BLE001
            res = "X"
            v = Err(type(e).__name__)
            self.last = type(e).__name__
            if fired:
                res, v, self.last = "T", Err("timeout"), "timeout"
                self.oracle.append({"what": "operation %r blocked for more than %d s although the daemon was alive: "
                                            "python and the daemon were both waiting (deadlock)" % (code, OP_TIMEOUT),
                                    "session": self.name,
                                    "last_lines": [f"{k} {t[:80]}" for k, t in self.rec.recs[-8:]]})
        self.rec.pull()
        seg = self.rec.recs[at + 1:]
        if code[0] in "pke":
            n = sum(1 for k, t in seg if k == "W" and t.startswith("preload_eclass "))
            self.rec.recs[at] = ("C", code + str(n))
        self.requests += sum(1 for k, t in seg if k == "R" and t.split(" ")[0] in
                             ("request_inherit", "request_bashrcs", "receive_env", "key"))
        self.rec.recs.append(("E", res))
        return v

    def probe(self):
        """is_responsive without its 10 s alarm (the machine may be heavily loaded)"""
        self.ebp.write("alive")
        return self.ebp.expect("yep!")

    def alive_probe(self, after):
        """oracle: in a live session the reply to `alive` is `yep!` (nothing stale in the channel)"""
        if self.ebp is None or not self.ebp.pid:
            return
        v = self.op("a", self.probe)
        if v is not True:
            self.oracle.append({"what": "after %s the next request (alive) was not answered by its own reply "
                                        "(yep!): the channel is desynchronised" % after,
                                "session": self.name, "got": repr(v),
                                "last_lines": [f"{k} {t[:80]}" for k, t in self.rec.recs[-6:]]})

    def stop(self):
        self.rec.pull()
        ebp, self.ebp = self.ebp, None
        try:
            if ebp is not None and ebp.pid:
                guard(20, ebp.shutdown_processor, force=True)
        except BaseException:  # noqa: BLE001
            pass
        try:
            os.killpg(self.daemon_pid, signal.SIGKILL)     # the process group of the daemon we started
        except (OSError, TypeError):
            pass
        self.devnull.close()


def ipc_stubs():
    """the IPC helper table of ebd.py with the real request/reply code (IpcCommand.__call__) and a
    no-op body"""
    from pkgcore.ebuild import ebd_ipc

    class Stub(ebd_ipc.IpcCommand):
        def __init__(self, name):
            self.name = name

        def parse_args(self, options, args):
            return args

        def run(self, args):
            return 0
    names = c35_tables.scan_extra_handlers(*_trees())["ebd.ipc"]
    return {n: Stub(n) for n in names}


def _trees():
    import ast
    from .common import SRC
    return (ast.parse((SRC / "ebuild" / "processor.py").read_text()), ast.parse((SRC / "ebuild" / "ebd.py").read_text()))


def make_repo(chk):
    from pkgcore.pytest.plugin import EbuildRepo
    path = str(chk.scratch / "repo")
    r = EbuildRepo(path, repo_id="verif")
    ecl = {"foo": "foo_x() { :; }\ninherit bar\n", "bar": "bar_x() { :; }\n", "baz": "inherit foo\nbaz_y() { :; }\n",
           "broken": "broken_x() { if ; }\n"}
    for n, body in ecl.items():
        with open(os.path.join(path, "eclass", n + ".eclass"), "w") as f:
            f.write(f"# {n}\n{body}")
    r.create_ebuild("cat/a-1", data="inherit foo\n")
    r.create_ebuild("cat/b-1", data="")
    r.create_ebuild("cat/c-1", data="die 'boom at global scope'\n")
    r.create_ebuild("cat/d-1", data="inherit nonexistent\n")
    r.create_ebuild("cat/x-1", data="exit 1\n")
    r.create_ebuild("cat/e-1", data="inherit baz bar\n")
    r.create_ebuild("cat/t-1", data="kill -TERM ${PKGCORE_EBD_PID:-$PPID}\n")
    r.create_ebuild("cat/i-1", data="kill -INT ${PKGCORE_EBD_PID:-$PPID}\n")
    r.sync()
    return r


def make_repo_odd(chk):
    """a repository whose PATH contains a single quote, a backslash and a blank: the EBUILD= value of
    every size-prefixed gen_metadata / gen_ebuild_env payload is then $'..\\'..\\\\..' quoted, i.e. the payload
    has backslashes.  (No eclasses: an eclass PATH with a backslash is mangled by the daemon's
    line reads, which is value fidelity, not framing.)"""
    from pkgcore.pytest.plugin import EbuildRepo
    path = str(chk.scratch / "od'd \\re\\po")
    r = EbuildRepo(path, repo_id="odd")
    r.create_ebuild("cat/b-1", data="")
    r.sync()
    return r


# size-prefixed payloads (set_metadata_path N / start_receiving_env bytes N): fixed corpus, run first
PAYLOAD_CORPUS = [
    ("path", ["/a\\b"]), ("env", {"A": "it's"}), ("path", ["/x'y", "/sp ace"]), ("env", {"A": "back\\slash"}),
    ("path", ["/end\\"]), ("env", {"Q": "q'\\'", "B": "plain"}), ("path", ["\\"]), ("env", {"N": "nl\nx\\\ny"}),
    ("path", ["/nl\nq\\", "/z"]), ("env", {"L": ["a'b", "c\\d", "e f"]}), ("env", {"U": "ü'\\ü"}),
    ("path", ["/\\\\\\"]), ("env", {"E": "\\"}), ("env", {"T": "tail\\", "Z": "z"}),
]


def payload_random(rng, n):
    toks = ["a", "\\", "'", " ", "\n", "\\\\", "$x", "\"", "ü", "/p", "\t", "`"]
    out = []
    for _ in range(n):
        val = "".join(rng.choice(toks) for _ in range(rng.randint(1, 6)))
        if rng.random() < 0.5:
            out.append(("path", ["/" + val.replace(":", "_")] + (["/t"] if rng.random() < 0.3 else [])))
        else:
            out.append(("env", {"V": val} if rng.random() < 0.7 else {"V": [val, "w" + val]}))
    return out


class FakePkgs:
    """package objects for get_keys without asking the repo (which would regenerate metadata through
    its own pooled processors)"""

    def __init__(self, repo):
        self.repo = repo

    def __call__(self, name):
        from pkgcore.ebuild.cpv import VersionedCPV
        return self.repo.package_class(*VersionedCPV(f"cat/{name}-1").key.split("/"), "1")


def real_sessions(chk, P, repo=None):
    """[(name, Session)] — every session is stopped; traces are in session.rec"""
    if repo is None:
        repo = make_repo(chk)
    ec = repo.eclass_cache
    pkg = lambda n: repo._repo.package_class("cat", n, "1")  # noqa: E731
    out = []
    names = ["main", "payload", "die", "unknown-eclass", "unknown-command", "phase-fails", "signal-t", "signal-i"]
    if chk.thorough or chk.fingerprint_changed:
        names += ["phase-fails-logging", "preload-failed", "env-failure"]
    import threading
    pool = {n: Session(chk, P, n) for n in names}
    ths = [threading.Thread(target=s.start, daemon=True) for s in pool.values()]
    for t in ths:
        t.start()
    deadline = time.time() + 600
    for t in ths:
        t.join(max(1, deadline - time.time()))
    dead = [n for n, s in pool.items() if s.ebp is None]
    if dead:
        for s in pool.values():
            s.stop()
        raise RuntimeError(f"ebuild daemons did not start within 600 s: {dead}")

    def session(name):
        s = pool[name].begin()
        out.append((name, s))
        return s

    def keys(s, n):
        sm = "1" if s.ebp._metadata_paths != ("/dev/null",) else "0"
        return s.op("k" + sm, lambda: s.ebp.get_keys(pkg(n), ec), truth=lambda v: True)

    def env(s, n):
        sm = "1" if s.ebp._metadata_paths != ("/dev/null",) else "0"
        return s.op("e" + sm, lambda: s.ebp.get_ebuild_environment(pkg(n), ec), truth=lambda v: True)

    class OneEclass:
        def __init__(self, names):
            self.eclasses = {n: ec.eclasses[n] for n in names}

    def preload_failed(s):
        # a broken eclass: "preload_eclass failed" is the (unaccepted) reply to that very request
        s.op("p1", lambda: s.ebp.preload_eclasses(OneEclass(["bar", "broken", "foo"]), async_req=False))
        s.alive_probe("a failed preload")

    def env_failure(s):
        # failing env transfer with async preload expects outstanding; the channel must stay aligned
        s.op("p0", lambda: s.ebp.preload_eclasses(OneEclass(["bar", "broken"]), async_req=True))
        s.op("r0", lambda: s.ebp.run_phase("setup", {"A-B": "x"}, tmpdir=None))
        s.alive_probe("a failed env transfer in run_phase")
        s.alive_probe("a failed env transfer in run_phase (second probe)")

    def queued(s, names):
        """queue async preloads; returns how many expects are outstanding afterwards"""
        s.op("p0", lambda: s.ebp.preload_eclasses(OneEclass(names), async_req=True))
        return len(s.ebp._outstanding_expects) if s.ebp is not None and s.ebp.pid else 0

    def pings_with_outstanding(s):
        """the TIMED expect (is_responsive: expect("yep!", timeout=10)) issued while asynchronous replies are
        still queued — directly, through release/request of the processor, inside
        clear_preloaded_eclasses and inside shutdown_processor: it must queue behind them"""
        def wrong(what, got):
            s.oracle.append({"what": what + " while replies to asynchronous requests were still queued: a healthy "
                                     "daemon is taken for unresponsive / the reply of another request is read as the ping's",
                             "got": repr(got), "session": s.name,
                             "last_lines": [f"{k} {t[:80]}" for k, t in s.rec.recs[-10:]]})
        s.op("c", lambda: s.ebp.clear_preloaded_eclasses())          # forget what is preloaded
        if not s.ebp.pid:
            return
        n1 = queued(s, ["foo", "bar"])
        v = s.op("a", lambda: s.ebp.is_responsive)
        if n1 and v is not True:
            wrong("is_responsive returned %r" % (v,), v)
        s.alive_probe("an is_responsive ping behind queued async replies")
        # the pool: release (keeps the processor: no custom fds claimed) and request (pings it)
        n2 = queued(s, ["baz"])
        ebp = s.ebp
        ebp.custom_fds = None
        P.active_ebp_list.append(ebp)
        try:
            P.release_ebuild_processor(ebp)
            got = []
            v = s.op("a", lambda: (got.append(P.request_ebuild_processor(userpriv=False, sandbox=False)), got[0] is ebp)[1])
            if n2 and v is not True:
                wrong("request_ebuild_processor did not hand the pooled processor back (%r)" % (v,), v)
            for other in got:
                if other is not ebp:
                    try:
                        other.shutdown_processor(force=True)
                    except BaseException:  # noqa: BLE001
                        pass
        finally:
            P.drop_ebuild_processor(ebp)
        if not s.ebp.pid:
            return
        s.alive_probe("request_ebuild_processor's ping behind queued async replies")
        s.op("c", lambda: s.ebp.clear_preloaded_eclasses())
        n3 = queued(s, ["foo"])
        v = s.op("c", lambda: s.ebp.clear_preloaded_eclasses())
        if n3 and v is not True:
            wrong("clear_preloaded_eclasses returned %r" % (v,), v)
        if not s.ebp.pid:
            return
        s.alive_probe("clear_preloaded_eclasses behind queued async replies")
        queued(s, ["bar", "baz"])
        s.op("s", lambda: s.ebp.shutdown_processor(), truth=lambda v: True)

    # 1. metadata regen with inherit chains, caching on: async preloads stay outstanding between calls
    s = session("main")
    try:
        s.ebp.allow_eclass_caching()
        nrounds = chk.n(1, 3)
        for _ in range(nrounds):
            for n in ("a", "b", "e", "a"):
                keys(s, n)
            s.alive_probe("get_keys with outstanding preload expects")
            env(s, "b")
            env(s, "a")
            s.op("p1", lambda: s.ebp.preload_eclasses(OneEclass(["baz"]), async_req=False))
            s.op("p0", lambda: s.ebp.preload_eclasses(OneEclass(["foo", "bar", "baz"]), async_req=True))
            v = s.op("c", lambda: s.ebp.clear_preloaded_eclasses())
            if v is not True:
                s.oracle.append({"what": "clear_preloaded_eclasses() on a responsive daemon returned %r and "
                                         "shut the processor down: the reply literal python expects is not the one "
                                         "the daemon sends" % (v,), "session": "main",
                                 "last_lines": [f"{k} {t[:80]}" for k, t in s.rec.recs[-8:]]})
                break
            keys(s, "e")
        if s.ebp.pid:
            s.alive_probe("clear_preloaded_eclasses")
            preload_failed(s)
            env_failure(s)
            keys(s, "b")
            odd = make_repo_odd(chk)
            oddpkg = odd._repo.package_class("cat", "b", "1")
            for code, fn in (("k0", lambda: s.ebp.get_keys(oddpkg, odd.eclass_cache)),
                             ("e0", lambda: s.ebp.get_ebuild_environment(oddpkg, odd.eclass_cache))):
                v = s.op(code, fn, truth=lambda v: True)
                if isinstance(v, Err) or (code == "k0" and v.get("SLOT") != "0"):
                    s.oracle.append({"what": "metadata request whose size-prefixed payload contains backslashes (ebuild "
                                             "path %r) did not complete: %r" % (oddpkg.ebuild.path, v), "session": "main",
                                     "last_lines": [f"{k} {t[:80]}" for k, t in s.rec.recs[-8:]]})
                    break
            if s.ebp.pid and s.last != "timeout":
                s.alive_probe("a metadata payload with backslashes")
            if s.ebp.pid:
                pings_with_outstanding(s)
    finally:
        s.stop()

    if "preload-failed" in pool:
        s = session("preload-failed")
        try:
            preload_failed(s)
            keys(s, "b")
            s.op("s", lambda: s.ebp.shutdown_processor(), truth=lambda v: True)
        finally:
            s.stop()
    if "env-failure" in pool:
        s = session("env-failure")
        try:
            env_failure(s)
            s.op("s", lambda: s.ebp.shutdown_processor(), truth=lambda v: True)
        finally:
            s.stop()

    # 2b. size-prefixed payloads on ONE long-lived daemon: the n bytes announced are the n bytes consumed,
    #     whatever they contain (backslashes, quotes, newlines, non-ASCII): each request then gets its own
    #     reply and the request after it is read from its first byte
    s = session("payload")
    try:
        steps = PAYLOAD_CORPUS + payload_random(chk.rng, chk.n(8, 60))
        for kind, val in steps:
            if not s.ebp.pid:
                break
            if kind == "path":
                def do(val=val):
                    s.ebp._metadata_paths = None
                    s.ebp._ensure_metadata_paths(tuple(val))
                    return s.ebp._metadata_paths == tuple(val)
            else:
                def do(val=val):
                    s.ebp.write("process_ebuild verif_payload")
                    ok = s.ebp.send_env(dict(val))
                    s.ebp.write("shutdown_daemon")            # leaves the phase loop: the main loop reports the phase
                    return ok and s.ebp.read().strip() == "phases succeeded"
            v = s.op("z", do)
            chk.count("payload")
            chk.nontrivial(("payload", kind, repr(val)))
            bad = v is not True
            if not bad and s.ebp.pid:
                n0 = len(s.oracle)
                s.alive_probe("a size-prefixed payload (%s %r)" % (kind, val))
                bad = len(s.oracle) > n0
            if bad:
                s.oracle.append({"what": "a size-prefixed payload is not consumed as exactly the announced bytes: the request "
                                         "with it got %r (blocked pair / wrong reply) or the next request was not read from "
                                         "its first byte" % (v,), "payload_kind": kind, "payload": val, "session": "payload",
                                 "last_lines": [f"{k} {t[:80]}" for k, t in s.rec.recs[-8:]]})
                break
        if s.ebp.pid:
            s.op("s", lambda: s.ebp.shutdown_processor(), truth=lambda v: True)
    finally:
        s.stop()

    # 3. die at global scope
    s = session("die")
    try:
        keys(s, "b")
        v = keys(s, "x")        # the metadata phase fails silently: "phases failed", daemon back in its main loop
        if v != Err("ProcessorError"):
            s.oracle.append({"what": "a silently failing metadata phase did not end with ProcessorError", "got": repr(v),
                             "session": "die"})
        if s.last != "timeout":
            s.alive_probe("a failed metadata phase")
        v = keys(s, "c")
        if v != Err("EbdError"):
            s.oracle.append({"what": "die in the daemon did not end the request with EbdError", "got": repr(v)})
    finally:
        s.stop()

    # 4. unknown eclass (python kills the daemon)
    s = session("unknown-eclass")
    try:
        keys(s, "d")
    finally:
        s.stop()

    # 5. an unknown command ends the session with an error
    s = session("unknown-command")
    try:
        s.op("x", lambda: (s.ebp.write("frobnicate now", flush=False), True)[1])
        v = s.op("a", s.probe)
        if v != Err("EbdError") or s.ebp.pid is not None:
            s.oracle.append({"what": "an unknown command did not end the session with EbdError", "got": repr(v),
                             "session": "unknown-command"})
    finally:
        s.stop()

    # 7. a phase that fails / dies, with and without logging
    for lg in (False, True):
        if "phase-fails" + ("-logging" if lg else "") not in pool:
            continue
        s = session("phase-fails" + ("-logging" if lg else ""))
        try:
            T = str(chk.scratch / f"T{int(lg)}")
            os.makedirs(T, exist_ok=True)
            envd = {"T": T, "EBUILD": "/nonexistent/verif-1.ebuild", "CATEGORY": "cat", "PF": "verif-1", "EAPI": "7"}
            s.op("r%d" % lg, lambda: s.ebp.run_phase("setup", envd, tmpdir=T if lg else None,
                                                    logging=os.path.join(T, "log") if lg else None,
                                                    additional_commands=ipc_stubs()))
            if s.last in ("0", "1", "ProcessorError"):
                s.alive_probe("a failing phase")
        finally:
            s.stop()

    # 8. SIGTERM / SIGINT notices while python reads
    for n in ("t", "i"):
        s = session("signal-" + n)
        try:
            keys(s, "b")
            old = signal.getsignal(signal.SIGINT)
            try:
                keys(s, n)
            finally:
                signal.signal(signal.SIGINT, old)
        finally:
            s.stop()
    return out


# ----------------------------------------------------------------------------- scripted sessions
class _Src:
    def __init__(self, path):
        self.path = path
        self.get_data = None


def scripted_python_session(chk, P, daemon_request_literal, unknown=False):
    """the REAL python side (EbuildProcessor.run_phase -> generic_handler, ebd._request_bashrcs,
    sandbox_summary, chuck_StoppingCommand) against a SCRIPTED daemon: the lines a daemon sends for a
    phase that sources two bashrcs, then asks for the sandbox summary (with the literal the bash
    source really writes) and fails.  Returns (Recorder, result)."""
    from types import SimpleNamespace
    from pkgcore.ebuild import ebd as ebd_mod
    script = ["ebd!", "BASHOPTS UID", "env_received", "request_bashrcs", "next", "next",
              daemon_request_literal + "/nonexistent/sandbox.log", "phases failed ebd::process_ebuild failed"]
    if unknown:       # a request no handler table lists, then lines that must never be read as commands
        script = ["ebd!", "BASHOPTS UID", "env_received", "frobnicate 1 2", "phases succeeded"]
    rec = Recorder(chk, P)
    rec.arm()
    ebp = P.EbuildProcessor.__new__(P.EbuildProcessor)
    ebp.pid = 2 ** 22 + 35 + int(unknown)   # never signalled: nothing calls shutdown here
    rec.pid = ebp.pid
    ebp._outstanding_expects = []
    ebp._readonly_vars = frozenset()
    ebp.processing_lock = False
    setattr(ebp, "_EbuildProcessor__sandbox_log", "/nonexistent/sandbox.log")
    ebp.ebd_write = open(os.devnull, "w")
    ebp.ebd_read = io.BytesIO(("\n".join(script) + "\n").encode())
    rec.tap(ebp)
    # handshake as __init__ does it
    ebp.write("ebd?")
    ok = ebp.expect("ebd!")
    ebp.write("no_sandbox")
    ebp.read()
    rec.mark("E", "1" if ok else "0")
    fake_op = SimpleNamespace(domain=SimpleNamespace(get_package_bashrcs=lambda pkg: [_Src("/etc/rc1"), _Src("/etc/rc2")]),
                              pkg=None)
    rec.mark("C", "r0")
    try:
        v = ebp.run_phase("setup", {"A": "b"}, additional_commands={
            "request_bashrcs": lambda e: ebd_mod.ebd._request_bashrcs(fake_op, e)})
        res, out = ("1" if v else "0"), v
    except BaseException as e:  # noqa: BLE001
        res, out = "X", Err(type(e).__name__)
    rec.mark("E", res)
    return rec, out


def bash_side(chk, fn_reads, fn_writes, py_writes):
    """the REAL bash request functions of ebuild-daemon-lib.bash against a SCRIPTED python that answers
    with the literals the python source writes; returns the problems found"""
    lib = REPO / "data" / "lib" / "pkgcore" / "ebd" / "ebuild-daemon-lib.bash"
    probs = []
    ecl = chk.scratch / "x.eclass"
    ecl.write_text("x_fn() { :; }\n")
    runs = [
        ("__internal_inherit", "__internal_inherit x",
         [py_writes["inherit_handler"][0], str(ecl)], [fn_writes["__internal_inherit"][0] + "x"]),
        ("__source_bashrcs", "__source_bashrcs",
         [py_writes["ebd._request_bashrcs"][0], str(ecl), py_writes["ebd._request_bashrcs"][1]],
         [fn_writes["__source_bashrcs"][0], fn_writes["__source_bashrcs"][2]]),
        ("__request_sandbox_summary", "SANDBOX_LOG=/x/log; __request_sandbox_summary",
         ["violation 1", py_writes["sandbox_summary"][0]], [fn_writes["__request_sandbox_summary"][0] + "/x/log"]),
    ]
    for name, call, answers, expect in runs:
        out = chk.scratch / f"bash_{name}.out"
        inp = chk.scratch / f"bash_{name}.in"
        inp.write_text("".join(a + "\n" for a in answers) + "LEFTOVER\n")
        code = (f'exec 8<"{inp}" 9>"{out}"; PKGCORE_EBD_READ_FD=8; PKGCORE_EBD_WRITE_FD=9; '
                f'die() {{ echo "DIED $*" >&9; exit 3; }}; __qa_invoke() {{ "$@"; }}; declare -A PKGCORE_PRELOADED_ECLASSES; '
                f'source "{lib}" || exit 4; {call} >/dev/null 2>&1; read -u 8 rest; echo "REST $rest" >&9; exit 0')
        r = subprocess.run(["timeout", "600", "bash", "-c", code], capture_output=True, text=True,
                           env={"PATH": os.environ.get("PATH", "/usr/bin:/bin")})
        lines = out.read_text().split("\n")[:-1] if out.exists() else []
        want = expect + ["REST LEFTOVER"]
        if r.returncode != 0 or lines != want:
            probs.append({"what": f"bash {name} against python's literal answers: wrote {lines!r} (exit {r.returncode}), "
                                  f"the tables/model say {want!r}", "function": name})
    return probs


# ----------------------------------------------------------------------------- IPC request framing
def _norm_ws(x):
    return " ".join(x.split())


IPC_CORPUS = [
    # (requests [(cwd name, options, args)]) — run first, fixed
    [("src\ndocs", "", ["a b", "c"])],
    [("plain", "-m 0644\n-x", ["f"])],
    [("two  spaces", "  --opt  *  -q ", ["*", "back\\slash", "tab\there", "", "z"])],
    [("plain", "", ["one"]), ("src\ndocs", "-r", ["x y"]), ("plain", "-a\n-b", [])],
    [("nl-at-end\n", "--x", ["k"]), ("a\n\nb", "", ["q"])],
]


def ipc_framing(chk, P, sessions_spec):
    """LIVE bash (__ebd_ipc_cmd of ebuild-daemon-lib.bash, several helper requests in a row from
    directories / with option strings containing newlines, tabs, runs of spaces, glob characters) against
    LIVE python (generic_handler -> IpcCommand.__call__ with a recording no-op body) over two real
    pipes.  Judged: FRAMING — every request is read as exactly one request (as many handler calls as
    requests, each with the phase and the argument list that were sent, cwd/options equal modulo the
    whitespace collapsing of unquoted expansion), every reply reaches the request that asked, the
    phase end is read as the phase end and nothing is left in the pipe.  Returns property failures."""
    import shlex
    import threading
    from pkgcore.ebuild import ebd_ipc
    lib = REPO / "data" / "lib" / "pkgcore" / "ebd" / "ebuild-daemon-lib.bash"
    fails = []
    for si, reqs in enumerate(sessions_spec):
        base = chk.scratch / f"ipc{si}"
        base.mkdir(parents=True, exist_ok=True)
        for name, _, _ in reqs:
            full = os.path.join(str(base), name)
            # the directory itself, what unquoted expansion makes of its path, what a reader that stops
            # at the first newline makes of it
            for d in {full, _norm_ws(full), full.split("\n")[0]}:
                os.makedirs(d, exist_ok=True)
        body = ["exec 2>/dev/null",
                'die() { echo "dying " >&${PKGCORE_EBD_WRITE_FD}; echo "dead" >&${PKGCORE_EBD_WRITE_FD}; exit 3; }',
                f"source {shlex.quote(str(lib))} || exit 4", "PKGCORE_NONFATAL=false", "EBUILD_PHASE=install"]
        for name, opts, args in reqs:
            body.append(f"cd {shlex.quote(os.path.join(str(base), name))} || exit 5")
            body.append("__ebd_ipc_cmd dodoc " + shlex.quote(opts) + " " + " ".join(shlex.quote(a) for a in args)
                        + " >/dev/null || exit 6")
        body.append('__ebd_write_line "phases succeeded"')
        body.append("exit 0")
        script = base / "daemon.sh"
        script.write_text("\n".join(body) + "\n")
        cread, cwrite = os.pipe()
        dread, dwrite = os.pipe()
        proc = subprocess.Popen(["bash", str(script)], pass_fds=(cread, dwrite), stdout=subprocess.DEVNULL,
                                start_new_session=True,
                                env={"PATH": os.environ.get("PATH", "/usr/bin:/bin"),
                                     "PKGCORE_EBD_READ_FD": str(cread), "PKGCORE_EBD_WRITE_FD": str(dwrite)})
        os.close(cread)
        os.close(dwrite)
        calls = []

        class Rec(ebd_ipc.IpcCommand):
            def __init__(self):
                self.name = "dodoc"

            def parse_args(self, options, args):
                calls.append({"cwd": self.cwd, "phase": self.phase, "options": options, "args": args})
                return args

            def run(self, args):
                return 0
        ebp = P.EbuildProcessor.__new__(P.EbuildProcessor)
        ebp.pid = proc.pid
        ebp._outstanding_expects = []
        ebp.processing_lock = False
        ebp.ebd_write = os.fdopen(cwrite, "w")
        ebp.ebd_read = os.fdopen(dread, "rb")
        fired = []
        dog = Watchdog(proc.pid)
        try:
            res = ebp.generic_handler(additional_commands={"dodoc": Rec()})
        except BaseException as e:  # noqa: BLE001
            res = Err(f"{type(e).__name__}: {e}"[:200])
        finally:
            dog.cancel()
            if dog.fired:
                fired.append(1)
        try:
            ebp.ebd_write.close()
        except OSError:
            pass
        try:
            proc.wait(10)
        except subprocess.TimeoutExpired:
            proc.kill()
            proc.wait()
        left = ebp.ebd_read.read()
        ebp.ebd_read.close()
        want = [{"phase": "install", "args": list(a), "cwd": _norm_ws(os.path.join(str(base), n)),
                 "options": _norm_ws(o)} for n, o, a in reqs]
        got = [{"phase": c["phase"], "args": c["args"], "cwd": _norm_ws(c["cwd"]),
                "options": _norm_ws(" ".join(c["options"]))} for c in calls]
        # strip("\0") of the argument line drops empty arguments at its ends (not a framing matter)
        for w in want:
            while w["args"] and w["args"][-1] == "":
                w["args"].pop()
            while w["args"] and w["args"][0] == "":
                w["args"].pop(0)
        ok = (res is True and not fired and got == want and left == b"" and proc.returncode == 0)
        chk.count("ipc-framing", len(reqs))
        if any("\n" in n or "\n" in o for n, o, _ in reqs):
            chk.nontrivial(("ipc", si, repr(reqs)))
        if not ok:
            fails.append({"what": "helper (IPC) requests are not framed as one request each: python read "
                                  + ("nothing for %d s while bash waited (deadlock)" % OP_TIMEOUT if fired else
                                     "%d request(s) for the %d sent / misaligned fields, handler result %r, %d byte(s) "
                                     "left unread, bash exit %r" % (len(got), len(want), res, len(left), proc.returncode)),
                          "requests": [{"cwd_name": n, "options": o, "args": a} for n, o, a in reqs],
                          "python_read": got, "sent": want, "left_in_pipe": left[:200].decode("utf-8", "replace")})
    return fails


def kf_ipc_arg_newline(requests):
    """known-finding class: a helper ARGUMENT contains a newline (the argument array is sent as one
    NUL-separated, newline-terminated line, so such an argument cannot be framed)"""
    return any("\n" in a for r in requests for a in (r["args"] if isinstance(r, dict) else r[2]))


KF_IPC_CASE = [[("plain", "", ["a\nb", "c"])]]


def ipc_random(rng, n):
    toks = ["a", "b-", "c.d", " ", "  ", "\n", "\t", "ü", "x y"]
    out = []
    for _ in range(n):
        reqs = []
        for _ in range(rng.choice((1, 1, 2, 3))):
            name = "".join(rng.choice(toks) for _ in range(rng.randint(1, 4))).replace("/", "_")
            if not name.strip() or name in (".", ".."):
                name = "d" + name
            opts = "".join(rng.choice(["-m 0644", "--x", " ", "  ", "\n", "*", "-r", "\t"]) for _ in range(rng.randint(0, 4)))
            args = [rng.choice(["f", "a b", "*", "q\\", "ü", "-n", "x  y"]) for _ in range(rng.randint(0, 3))]
            reqs.append((name, opts, args))
        out.append(reqs)
    return out


# ----------------------------------------------------------------------------- main
STRUCTURAL = (b"Ryep!", b"Rpreload_eclass", b"Rphases", b"Rmetadata_path_received", b"Rrequest_inherit",
              b"Renv_", b"Rclear_preloaded")


def mutate(trace: bytes, rng):
    """traces that must be rejected: a structural line (reply / request / phase end — not one of the
    `key` lines, any number of which is a behaviour) dropped or duplicated, two different adjacent
    ones swapped"""
    recs = trace.split(b"\n")
    ridx = [i for i, r in enumerate(recs) if r.startswith(STRUCTURAL) and i > 4]
    out = []
    if ridx:
        i = rng.choice(ridx)
        out.append(("drop", b"\n".join(recs[:i] + recs[i + 1:])))
        i = rng.choice(ridx)
        out.append(("dup", b"\n".join(recs[:i] + [recs[i]] + recs[i:])))
        pairs = [(a, a + 1) for a in ridx if a + 1 < len(recs) and recs[a + 1][:1] == b"R"
                 and recs[a + 1].split(b" ")[0] != recs[a].split(b" ")[0] and not recs[a + 1].startswith(b"Rkey")]
        if pairs:
            a, b = rng.choice(pairs)
            sw = list(recs)
            sw[a], sw[b] = sw[b], sw[a]
            out.append(("swap", b"\n".join(sw)))
    return out


def main(chk: Check):
    chk.rule("real ebuild-daemon sessions driven through the public EbuildProcessor operations (metadata regen "
             "with inherit chains and eclass caching so that async preload expects are outstanding across "
             "operations, env dump, sync/async preload incl. a broken eclass, clear, die, unknown eclass, unknown "
             "command, failing env transfer, failing phase with/without logging, SIGTERM/SIGINT notices); every "
             "line written/read is recorded and the trace must be a run of the protocol LTS; non-trivial = a "
             "session with at least one daemon-initiated request line")
    t0 = time.time()
    table_ok = True
    try:
        tables.regenerate(sys.modules[__name__])
    except TableError as e:
        table_ok = False
        chk.violation("table", {"what": "protocol literal tables cannot be regenerated from the sources "
                                        "(fail-closed scanner): " + str(e)}, no_input=True)
    ok_model = chk.build(["C35/Model_C35.vo"], what="protocol model")
    ok = ok_model and chk.build(["C35/Prop_C35.vo"])
    if ok:
        chk.check_assumptions("C35/Prop_C35.v")
    chk.lint(["C35"])
    chk.check_fingerprint(ANCHORS)
    if os.environ.get("VERIF_C35_PIN") == "1":      # self-tests: keep the quick budget although the source changed
        chk.fingerprint_changed = False
    timing = chk.cov.setdefault("timing_s", {})
    timing["build"] = round(time.time() - t0, 1)

    import logging
    logging.getLogger("pkgcore").setLevel(logging.CRITICAL)
    from pkgcore.ebuild import processor as P
    hook = hasattr(P, "_verif_trace")
    chk.cov["trace_source"] = ("in-tree hook PKGCORE_VERIF_TRACE" if hook else
                               "hook not in this tree: write()/readline() of the processor object tapped from the harness")
    if not hook:
        chk.note("PKGCORE_VERIF_TRACE hook absent from " + str(REPO) + " (apply fixes/C35-hook-trace.patch)")
    t1 = time.time()
    # the bash request functions against a scripted python run beside the daemon sessions
    import threading
    bash_probs, scanned = [], {}

    def _bash():
        try:
            b = c35_tables.scan_bash()
            _, pw, _ = c35_tables.scan_python(c35_tables.SRC / "ebuild" / "processor.py")
            _, ew, _ = c35_tables.scan_python(c35_tables.SRC / "ebuild" / "ebd.py", "ebd.")
            pw.update(ew)
            scanned["b"], scanned["pw"] = b, pw
            bash_probs.extend(bash_side(chk, b["fn_reads"], b["fn_writes"], pw))
            scanned["done"] = True
        except TableError:
            pass      # already reported above
        else:
            try:
                for f in ipc_framing(chk, P, IPC_CORPUS + ipc_random(chk.rng, chk.n(6, 40)) + KF_IPC_CASE):
                    ipc_fails.append(f)
            except Exception:  # noqa: BLE001
                import traceback
                scanned["ipc_error"] = traceback.format_exc()[-2000:]
    ipc_fails = []
    # the test repository (and with it every lazy import of pkgcore's repository machinery) is built
    # BEFORE the helper thread starts: module imports must not run while another thread opens and
    # closes pipe descriptors (a run of VERIF_SEED=33 once died with EBADF inside importlib)
    repo0 = make_repo(chk)
    bash_thread = threading.Thread(target=_bash, daemon=True)
    bash_thread.start()
    bash_thread.join(900)   # not beside the daemon sessions: keeps descriptor traffic of the two apart
    old_int, old_term = signal.getsignal(signal.SIGINT), signal.getsignal(signal.SIGTERM)
    real_signal = P.signal
    P.signal = _NoAlarm()
    chk.note("expect(timeout=10)'s interval timer is not armed during the sessions (timers are outside the line model)")
    try:
        sessions = real_sessions(chk, P, repo0)
    finally:
        P.signal = real_signal
        signal.signal(signal.SIGINT, old_int)
        signal.signal(signal.SIGTERM, old_term)
    timing["sessions"] = round(time.time() - t1, 1)

    cases, names, oracle = [], [], []
    # scripted daemon vs the real python side; the request literal is the one the bash source writes
    bash_thread.join(300)
    if "b" in scanned:
        sbx_lit = scanned["b"]["fn_writes"]["__request_sandbox_summary"][0]
        rec, res = scripted_python_session(chk, P, sbx_lit)
        rec.disarm()
        sessions.append(("scripted-daemon", type("S", (), {"rec": rec, "oracle": [], "requests": 2})()))
        if res != Err("ProcessorError"):
            oracle.append({"what": "the daemon's sandbox-summary request (%r) is not a command generic_handler lists: "
                                   "a phase with sandbox violations ends with %r instead of reporting the failed phase"
                                   % (sbx_lit.strip(), res), "session": "scripted-daemon",
                           "last_lines": [f"{k} {t[:80]}" for k, t in rec.recs[-6:]]})
        rec2, res2 = scripted_python_session(chk, P, sbx_lit, unknown=True)
        rec2.disarm()
        unknown_req_trace = rec2.encode()     # not a behaviour of the modelled daemon: must be rejected
        if res2 != Err("UnhandledCommand"):
            oracle.append({"what": "a request no handler lists did not end the phase with UnhandledCommand but with %r"
                                   % (res2,), "session": "scripted-unknown-request",
                           "last_lines": [f"{k} {t[:80]}" for k, t in rec2.recs[-6:]]})
        if not scanned.get("done"):
            chk.violation("correspondence", {"what": "the bash request functions did not finish against the scripted python"},
                          no_input=True)
        for f in ipc_fails:
            if kf_ipc_arg_newline(f["requests"]) and chk.known_finding("ipc-arg-newline", f):
                continue
            if len(oracle) < 6:
                oracle.append(f)
        if "ipc_error" in scanned:
            chk.violation("harness-exception", {"what": "the IPC framing stream raised", "traceback": scanned["ipc_error"]},
                          no_input=True)
        for pb in bash_probs:
            chk.violation("correspondence", {"what": pb["what"], "function": pb["function"]}, no_input=True)
        chk.count("bash-function", 3)
    timing["scripted+bash-join"] = round(time.time() - t1 - timing["sessions"], 1)
    for name, s in sessions:
        if name == "payload":        # judged directly (its steps are not operations of the python model)
            oracle.extend(s.oracle)
            chk.cov.setdefault("sessions_unmodelled", {})[name] = len(s.rec.recs)
            continue
        tr = s.rec.encode()
        cases.append((cstr(tr), True))
        names.append(name)
        oracle.extend(s.oracle)
        chk.count("real-session")
        chk.count("lines", len(s.rec.recs))
        if s.requests:
            chk.nontrivial((name, tr))
        if len(chk.cov["samples"]) < 3:
            chk.sample({"session": name, "trace_head": [f"{k}{t[:60]}" for k, t in s.rec.recs[:14]],
                        "lines": len(s.rec.recs)})
    neg = []
    if "b" in scanned:
        neg.append((cstr(unknown_req_trace), False))
        names_neg = ["scripted-unknown-request"]
    else:
        names_neg = []
    for (name, s) in [x for x in sessions if x[0] != "payload"][:3]:
        for kind, m in mutate(s.rec.encode(), chk.rng):
            neg.append((cstr(m), False))
            names_neg.append(f"{name}/{kind}")
            chk.count("mutated-trace")
    names += names_neg
    chk.cov["sessions"] = {n: len(s.rec.recs) for n, s in sessions}

    bad_idx = []
    if ok_model:
        r = chk.coq_eval("trace", IMPORTS, "str", cases + neg, ["mismatches run_trace cases"], shard=12)
        if r is not None:
            bad_idx = r[0]
    timing["coq"] = round(time.time() - t1 - timing["sessions"] - timing.get("scripted+bash-join", 0), 1)

    for o in oracle[:4]:
        chk.violation("property", {"what": o["what"], "input": o})
    for i in bad_idx[:4]:
        all_cases = cases + neg
        chk.violation("correspondence",
                      {"what": ("a recorded session is not a run of the protocol LTS (Model_C35.accepts_obs): the "
                                "theorems of Prop_C35 no longer speak about this code") if i < len(cases) else
                               "a mutated trace is accepted by the protocol LTS (the acceptor is too weak)",
                       "session": names[i], "trace": all_cases[i][0]},
                      no_input=not oracle)


def replay(chk, data):
    d = data.get("detail", {})
    print("what:", d.get("what"))
    tr = d.get("trace")
    if tr:
        r = chk.coq_eval("replay", IMPORTS, "str", [(tr, True)],
                         ["mismatches run_trace cases", "mismatches run_stuck cases"])
        print("trace rejected:", bool(r and r[0]), "(run_stuck differs from None: elaboration stops early)" if r and r[1] else "")
