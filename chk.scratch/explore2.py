import random, collections
from explore_lib import *

def wf_call(ps, U, a):
    """WF_api on the real state (mirror of the planned Coq WF); returns reason or None"""
    P, C, B = U
    t = a[0]
    slotted = [p for v in ps.state.slot_dict.values() for p in v]
    if t == "add":
        p = P[a[2]]
        if p in ps.pkg_choices: return "add-bound"
        if p in ps.vdb_filter: return "add-filtered"
        if a[3] and any(q.key == p.key and q.slot == p.slot for q in slotted): return "forced-dup-slot"
    if t == "rem":
        p = P[a[2]]
        if p not in ps.pkg_choices: return "rem-unbound"
        if ps.pkg_choices[p] is not C[a[1]]: return "rem-wrong-choices"
    if t == "rep":
        p = P[a[2]]
        if a[3]: return "rep-forced"
        if p in ps.pkg_choices: return "rep-bound"
        if p in ps.vdb_filter: return "rep-filtered"
        old = ps.state.get_conflicting_slot(p)
        if old is None: return "rep-noold"
        oc = ps.pkg_choices[old]
        own = [b for b, k in ps.rev_blockers.get(oc, ())]
        lim = ps.state.check_limiters(old)
        if lim and all(sum(1 for x in own if x is b) == ps.blockers_refcnt[b] for b in lim): return "rep-selfblocked"
    if t == "dec":
        if (B[a[2]], a[3]) not in ps.rev_blockers.get(C[a[1]], ()): return "dec-absent"
    return None

def run(U, h, wfonly):
    ps = st.plan_state(); live = []
    for idx, a in enumerate(h):
        if a[0] == "rb":
            bs = sorted({n for n, _ in live} | {len(ps.plan)})
            k = bs[a[1] % len(bs)]
            try: ps.backtrack(k)
            except Exception as e: return ("exc-rb", idx, repr(e))
            live = [(n, x) for n, x in live if n < k]
            fresh = st.plan_state()
            for _, x in live:
                call(fresh, U, x)
            if snap(ps) != snap(fresh):
                return ("mismatch", idx, snap(ps), snap(fresh))
        else:
            if a[0] == "blk": a = (a[0], a[1], a[2], U[2][a[2]].key)
            w = wf_call(ps, U, a)
            if w and wfonly: return ("nonwf", idx, w)
            n = len(ps.plan)
            try: call(ps, U, a)
            except Exception as e: return ("exc", idx, repr(e))
            live.append((n, a))
    return None

cnt = collections.Counter(); ex = {}
for seed in range(60000):
    rng = random.Random(seed)
    U = mkU(rng); h = gen(rng, rng.randrange(2, 9))
    r = run(U, h, True)
    k = r[0] + (":" + r[2] if r and r[0] == "nonwf" else "") if r else "ok"
    cnt[k] += 1
    if r and r[0] != "nonwf": ex.setdefault(k, (seed, h, [(b.key, b.m) for b in U[2]], r))
print(cnt)
for k, v in ex.items(): print(k, v)
