(* Proofs_C17.v — proofs about Model_C17 for the statements of Spec_C17. *)
From Coq Require Import List NArith ZArith Bool Arith Lia.
Import ListNotations.
From Verif Require Import Base.Val C17.Model_C17 C17.Spec_C17.

(* ------------------------------------------------------------------ equality tests *)
Definition reflects {A} (eqb : A -> A -> bool) := forall a b, eqb a b = true <-> a = b.

Lemma N_reflects : reflects N.eqb.
Proof. intros a b. apply N.eqb_eq. Qed.
Lemma pair_reflects : reflects pair_eqb.
Proof.
  intros [a1 a2] [b1 b2]. unfold pair_eqb. cbn. rewrite andb_true_iff, !N.eqb_eq.
  split; [intros [-> ->]; reflexivity | intros H; injection H; auto].
Qed.
Lemma trip_reflects : reflects trip_eqb.
Proof.
  intros [a1 a2] [b1 b2]. unfold trip_eqb. cbn. rewrite andb_true_iff, N.eqb_eq.
  rewrite (pair_reflects a2 b2). split; [intros [-> ->]; reflexivity | intros H; injection H; auto].
Qed.

Section Count.
Context {A : Type} (eqb : A -> A -> bool) (Hr : reflects eqb).

Lemma eqb_refl' x : eqb x x = true.
Proof. apply Hr. reflexivity. Qed.
Lemma eqb_sym' x y : eqb x y = eqb y x.
Proof.
  destruct (eqb x y) eqn:H1, (eqb y x) eqn:H2; try reflexivity.
  - apply Hr in H1. subst. rewrite eqb_refl' in H2. discriminate.
  - apply Hr in H2. subst. rewrite eqb_refl' in H1. discriminate.
Qed.
Lemma eqb_false' x y : eqb x y = false <-> x <> y.
Proof.
  split.
  - intros H ->. rewrite eqb_refl' in H. discriminate.
  - intros H. destruct (eqb x y) eqn:H1; [apply Hr in H1; contradiction | reflexivity].
Qed.

Lemma count_app x l1 l2 : count eqb x (l1 ++ l2) = count eqb x l1 + count eqb x l2.
Proof. induction l1; cbn; [reflexivity | rewrite IHl1; lia]. Qed.

Lemma count_one x y : count eqb x [y] = if eqb x y then 1 else 0.
Proof. cbn. lia. Qed.

(* removing every occurrence of y *)
Lemma count_filter_ne x y l :
  count eqb x (filter (fun z => negb (eqb y z)) l) = if eqb y x then 0 else count eqb x l.
Proof.
  induction l as [|z l IH]; cbn.
  - destruct (eqb y x); reflexivity.
  - destruct (eqb y z) eqn:Hyz; cbn.
    + rewrite IH. destruct (eqb y x) eqn:Hyx; [reflexivity|].
      apply Hr in Hyz. subst z. rewrite (eqb_sym' x y), Hyx. reflexivity.
    + rewrite IH. destruct (eqb y x) eqn:Hyx; [|reflexivity].
      apply Hr in Hyx. subst x. rewrite Hyz. reflexivity.
Qed.

Lemma count_remove1 x y l :
  count eqb x (remove1 eqb y l) = if eqb y x then pred (count eqb x l) else count eqb x l.
Proof.
  induction l as [|z l IH]; cbn.
  - destruct (eqb y x); reflexivity.
  - destruct (eqb y z) eqn:Hyz.
    + apply Hr in Hyz. subst z. rewrite (eqb_sym' x y).
      destruct (eqb y x); cbn; lia.
    + cbn. rewrite IH. destruct (eqb y x) eqn:Hyx; [|reflexivity].
      apply Hr in Hyx. subst x. rewrite Hyz. cbn. reflexivity.
Qed.

Lemma existsb_count x l : existsb (eqb x) l = negb (Nat.eqb (count eqb x l) 0).
Proof.
  induction l as [|z l IH]; cbn; [reflexivity|].
  destruct (eqb x z); cbn; [reflexivity | exact IH].
Qed.

Lemma count_In x l : count eqb x l <> 0 <-> In x l.
Proof.
  induction l as [|z l IH]; cbn; [tauto|].
  destruct (eqb x z) eqn:H.
  - apply Hr in H. subst. split; [auto | lia].
  - apply eqb_false' in H. cbn. rewrite IH. split; [auto | intros [H1|H1]; [congruence | exact H1]].
Qed.

(* a filter whose predicate is extensional over equal counts *)
Lemma same_count_nil l1 l2 :
  (forall x, count eqb x l1 = count eqb x l2) -> is_nil l1 = is_nil l2.
Proof.
  intros H. destruct l1 as [|a l1], l2 as [|b l2]; cbn; try reflexivity.
  - specialize (H b). cbn in H. rewrite eqb_refl' in H. lia.
  - specialize (H a). cbn in H. rewrite eqb_refl' in H. lia.
Qed.

Lemma count_filter x f l :
  count eqb x (filter f l) = if f x then count eqb x l else 0.
Proof.
  induction l as [|z l IH]; cbn; [destruct (f x); reflexivity|].
  destruct (f z) eqn:Hz; cbn; rewrite IH.
  - destruct (eqb x z) eqn:Hxz; [apply Hr in Hxz; subst; rewrite Hz; reflexivity|].
    destruct (f x); reflexivity.
  - destruct (eqb x z) eqn:Hxz; [apply Hr in Hxz; subst; rewrite Hz; reflexivity|].
    destruct (f x); reflexivity.
Qed.

Lemma same_count_filter f l1 l2 :
  (forall x, count eqb x l1 = count eqb x l2) ->
  forall x, count eqb x (filter f l1) = count eqb x (filter f l2).
Proof. intros H x. rewrite !count_filter, H. reflexivity. Qed.

End Count.

Lemma memN_count x l : memN x l = negb (Nat.eqb (count N.eqb x l) 0).
Proof. unfold memN. apply existsb_count. Qed.

Lemma countN_count x l : countN x l = count N.eqb x l.
Proof. induction l; cbn; congruence. Qed.

(* ------------------------------------------------------------------ lookup *)
Lemma lookup_filter_ne p q l :
  lookup p (filter (fun qc => negb (N.eqb (fst qc) q)) l) = if N.eqb p q then None else lookup p l.
Proof.
  induction l as [|[r c] l IH]; cbn; [destruct (N.eqb p q); reflexivity|].
  destruct (N.eqb r q) eqn:Hrq; cbn.
  - rewrite IH. destruct (N.eqb p q) eqn:Hpq; [reflexivity|].
    apply N.eqb_eq in Hrq. subst r. rewrite Hpq. reflexivity.
  - rewrite IH. destruct (N.eqb p r) eqn:Hpr; [|reflexivity].
    apply N.eqb_eq in Hpr. subst r. rewrite Hrq. reflexivity.
Qed.

(* ------------------------------------------------------------------ obs_eq is an equivalence *)
Lemma obs_refl s : obs_eq s s.
Proof. constructor; reflexivity. Qed.
Lemma obs_sym s1 s2 : obs_eq s1 s2 -> obs_eq s2 s1.
Proof. intros []. constructor; intros; symmetry; auto. Qed.
Lemma obs_trans s1 s2 s3 : obs_eq s1 s2 -> obs_eq s2 s3 -> obs_eq s1 s3.
Proof. intros [] []. constructor; intros; etransitivity; eauto. Qed.

Lemma equiv_refl s : equiv s s.
Proof. split; [apply obs_refl | reflexivity]. Qed.
Lemma equiv_sym s1 s2 : equiv s1 s2 -> equiv s2 s1.
Proof. intros [H1 H2]. split; [apply obs_sym; exact H1 | symmetry; exact H2]. Qed.
Lemma equiv_trans s1 s2 s3 : equiv s1 s2 -> equiv s2 s3 -> equiv s1 s3.
Proof. intros [H1 H2] [H3 H4]. split; [eapply obs_trans; eauto | congruence]. Qed.

Lemma backtrack_here_proof : forall E s, backtrack E (length (plan s)) s = (s, Ok tt).
Proof.
  intros E s. unfold backtrack. rewrite Nat.ltb_irrefl, Nat.eqb_refl. reflexivity.
Qed.

(* ------------------------------------------------------------------ relational reasoning on M *)
Definition Rres {A B} (R : A -> B -> Prop) (r1 : Res A) (r2 : Res B) : Prop :=
  match r1, r2 with
  | Ok a, Ok b => R a b
  | Ex e1, Ex e2 => e1 = e2
  | _, _ => False
  end.
(* running on obs-equal states gives obs-equal states and related results *)
Definition Mrel {A B} (R : A -> B -> Prop) (m1 : M A) (m2 : M B) : Prop :=
  forall s1 s2, obs_eq s1 s2 ->
    obs_eq (fst (m1 s1)) (fst (m2 s2)) /\ Rres R (snd (m1 s1)) (snd (m2 s2)).
Definition Rtrue {A B} (_ : A) (_ : B) : Prop := True.
Definition Rnil {A B} (l1 : list A) (l2 : list B) : Prop := is_nil l1 = is_nil l2.

Lemma Mrel_ret {A B} (R : A -> B -> Prop) a b : R a b -> Mrel R (ret a) (ret b).
Proof. intros H s1 s2 Hs. cbn. auto. Qed.
Lemma Mrel_raise {A B} (R : A -> B -> Prop) e : Mrel R (raise e) (raise e).
Proof. intros s1 s2 Hs. cbn. auto. Qed.
Lemma Mrel_bind {A B A' B'} (R : A -> B -> Prop) (R' : A' -> B' -> Prop) m1 m2 f1 f2 :
  Mrel R m1 m2 -> (forall a b, R a b -> Mrel R' (f1 a) (f2 b)) -> Mrel R' (bind m1 f1) (bind m2 f2).
Proof.
  intros Hm Hf s1 s2 Hs. unfold bind. destruct (Hm s1 s2 Hs) as [H1 H2].
  destruct (m1 s1) as [t1 [a|e1]], (m2 s2) as [t2 [b|e2]]; cbn in *; try contradiction.
  - apply Hf; assumption.
  - auto.
Qed.
Lemma Mrel_weaken {A B} (R R' : A -> B -> Prop) m1 m2 :
  (forall a b, R a b -> R' a b) -> Mrel R m1 m2 -> Mrel R' m1 m2.
Proof.
  intros HR H s1 s2 Hs. destruct (H s1 s2 Hs) as [H1 H2]. split; [exact H1|].
  destruct (snd (m1 s1)), (snd (m2 s2)); cbn in *; auto.
Qed.
Lemma Mrel_gets {A} (f : state -> A) :
  (forall s1 s2, obs_eq s1 s2 -> f s1 = f s2) -> Mrel eq (gets f) (gets f).
Proof. intros H s1 s2 Hs. cbn. auto. Qed.
Lemma Mrel_modify f :
  (forall s1 s2, obs_eq s1 s2 -> obs_eq (f s1) (f s2)) -> Mrel (@Rtrue unit unit) (modify f) (modify f).
Proof. intros H s1 s2 Hs. cbn. split; [auto | exact I]. Qed.

Ltac obs_split H :=
  destruct H as [Hsl Hli Hpc Hrb Hbr Hvf Hfr]; constructor; cbn -[memN]; intros; auto.

Section Prims.
Variable E : env.

Lemma memN_obs l1 l2 x : (forall y, count N.eqb y l1 = count N.eqb y l2) -> memN x l1 = memN x l2.
Proof. intros H. rewrite !memN_count, H. reflexivity. Qed.

Lemma check_limiters_nil s1 s2 p :
  obs_eq s1 s2 -> is_nil (check_limiters E p s1) = is_nil (check_limiters E p s2).
Proof.
  intros H. unfold check_limiters.
  assert (Hm : forall A B (f : A -> B) l, is_nil (map f l) = is_nil l) by (intros A B f []; reflexivity).
  rewrite !Hm. apply (same_count_nil pair_eqb pair_reflects).
  apply (same_count_filter pair_eqb pair_reflects). apply H.
Qed.
Lemma slot_conflicts_nil s1 s2 p :
  obs_eq s1 s2 -> is_nil (slot_conflicts E p s1) = is_nil (slot_conflicts E p s2).
Proof.
  intros H. unfold slot_conflicts. apply (same_count_nil N.eqb N_reflects).
  apply (same_count_filter N.eqb N_reflects). apply H.
Qed.
Lemma is_nil_app {A} (a b : list A) : is_nil (a ++ b) = is_nil a && is_nil b.
Proof. destruct a; reflexivity. Qed.
Lemma is_nil_map {A B} (f : A -> B) l : is_nil (map f l) = is_nil l.
Proof. destruct l; reflexivity. Qed.

Lemma fill_nil p s :
  is_nil (map IB (check_limiters E p s) ++ map IP (slot_conflicts E p s))
  = is_nil (check_limiters E p s) && is_nil (slot_conflicts E p s).
Proof. rewrite is_nil_app, !is_nil_map. reflexivity. Qed.

Lemma fill_slotting_rel p f : Mrel Rnil (fill_slotting E p f) (fill_slotting E p f).
Proof.
  intros s1 s2 H. unfold fill_slotting. cbn. unfold Rnil. rewrite !fill_nil.
  rewrite (check_limiters_nil s1 s2 p H), (slot_conflicts_nil s1 s2 p H). split; [|reflexivity].
  destruct (is_nil (check_limiters E p s2) && is_nil (slot_conflicts E p s2) || f); [|exact H].
  obs_split H. rewrite !(count_app N.eqb). rewrite Hsl. reflexivity.
Qed.

Lemma add_limiter_rel b k : Mrel (@Rtrue (list item) (list item)) (add_limiter E b k) (add_limiter E b k).
Proof.
  intros s1 s2 H. unfold add_limiter. cbn. split; [|exact I].
  obs_split H. rewrite !(count_app pair_eqb). rewrite Hli. reflexivity.
Qed.

Lemma remove_slotting_rel p : Mrel (@Rtrue unit unit) (remove_slotting p) (remove_slotting p).
Proof.
  intros s1 s2 H. unfold remove_slotting. rewrite (memN_obs (slots s1) (slots s2) p) by apply H.
  destruct (memN p (slots s2)); cbn; [|split; [exact H | reflexivity]].
  split; [|exact I]. obs_split H. rewrite !(count_filter N.eqb N_reflects), Hsl. reflexivity.
Qed.

Lemma existsb_obs {A} (eqb : A -> A -> bool) (Hr : reflects eqb) l1 l2 x :
  (forall y, count eqb y l1 = count eqb y l2) -> existsb (eqb x) l1 = existsb (eqb x) l2.
Proof. intros H. rewrite !(existsb_count eqb), H. reflexivity. Qed.

Lemma remove_limiter_rel b k : Mrel (@Rtrue unit unit) (remove_limiter b k) (remove_limiter b k).
Proof.
  intros s1 s2 H. unfold remove_limiter.
  rewrite (existsb_obs pair_eqb pair_reflects (lims s1) (lims s2) (k, b)) by apply H.
  destruct (existsb (pair_eqb (k, b)) (lims s2)); cbn; [|split; [exact H | reflexivity]].
  split; [|exact I]. obs_split H. rewrite !(count_filter pair_eqb pair_reflects), Hli. reflexivity.
Qed.

Lemma pc_set_rel p c : Mrel (@Rtrue unit unit) (pc_set p c) (pc_set p c).
Proof.
  apply Mrel_modify. intros s1 s2 H. obs_split H.
  destruct (N.eqb p0 p); [reflexivity|]. rewrite !lookup_filter_ne, Hpc. reflexivity.
Qed.
Lemma pc_del_rel p : Mrel (@Rtrue unit unit) (pc_del p) (pc_del p).
Proof.
  intros s1 s2 H. unfold pc_del. rewrite (oe_pc _ _ H p).
  destruct (lookup p (pc s2)); cbn; [|split; [exact H | reflexivity]].
  split; [|exact I]. obs_split H. rewrite !lookup_filter_ne, Hpc. reflexivity.
Qed.

Lemma rb_of_nil s1 s2 c : obs_eq s1 s2 -> is_nil (rb_of c s1) = is_nil (rb_of c s2).
Proof.
  intros H. unfold rb_of. rewrite !is_nil_map. apply (same_count_nil trip_eqb trip_reflects).
  apply (same_count_filter trip_eqb trip_reflects). apply H.
Qed.
Lemma rb_append_rel c b k : Mrel (@Rtrue unit unit) (rb_append c b k) (rb_append c b k).
Proof.
  apply Mrel_modify. intros s1 s2 H. obs_split H.
  rewrite !(count_app trip_eqb), Hrb. reflexivity.
Qed.
Lemma rb_remove_rel c b k : Mrel (@Rtrue unit unit) (rb_remove c b k) (rb_remove c b k).
Proof.
  intros s1 s2 H. unfold rb_remove. rewrite (rb_of_nil s1 s2 c H).
  destruct (is_nil (rb_of c s2)); cbn; [split; [exact H | reflexivity]|].
  rewrite (existsb_obs trip_eqb trip_reflects (rb s1) (rb s2) (c, (b, k))) by apply H.
  destruct (existsb (trip_eqb (c, (b, k))) (rb s2)); cbn; [|split; [exact H | reflexivity]].
  split; [|exact I]. obs_split H. rewrite !(count_remove1 trip_eqb trip_reflects), Hrb. reflexivity.
Qed.
Lemma brc_add_rel b : Mrel (@Rtrue unit unit) (brc_add b) (brc_add b).
Proof.
  apply Mrel_modify. intros s1 s2 H. obs_split H.
  rewrite !(count_app N.eqb), Hbr. reflexivity.
Qed.
Lemma brc_remove_rel b : Mrel (@Rtrue unit unit) (brc_remove b) (brc_remove b).
Proof.
  intros s1 s2 H. unfold brc_remove. rewrite (memN_obs (brc s1) (brc s2) b) by apply H.
  destruct (memN b (brc s2)); cbn; [|split; [exact H | reflexivity]].
  split; [|exact I]. obs_split H. rewrite !(count_remove1 N.eqb N_reflects), Hbr. reflexivity.
Qed.
Lemma memN_app x l y : memN x (l ++ [y]) = memN x l || N.eqb x y.
Proof. unfold memN. rewrite existsb_app. cbn. rewrite orb_false_r. reflexivity. Qed.
Lemma memN_filter_ne x p l : memN x (filter (fun z => negb (N.eqb z p)) l) = memN x l && negb (N.eqb x p).
Proof.
  unfold memN. induction l as [|z l IH]; cbn; [reflexivity|].
  destruct (N.eqb z p) eqn:Hzp; cbn.
  - rewrite IH. destruct (N.eqb x z) eqn:Hxz; cbn; [|reflexivity].
    apply N.eqb_eq in Hxz. subst z. rewrite Hzp. cbn. rewrite andb_false_r. reflexivity.
  - rewrite IH. destruct (N.eqb x z) eqn:Hxz; cbn; [|reflexivity].
    apply N.eqb_eq in Hxz. subst z. rewrite Hzp. reflexivity.
Qed.
Lemma vf_add_rel p : Mrel (@Rtrue unit unit) (vf_add p) (vf_add p).
Proof.
  apply Mrel_modify. intros s1 s2 H. rewrite (oe_vf _ _ H p).
  destruct (memN p (vf s2)); [exact H|]. obs_split H. rewrite !memN_app, Hvf. reflexivity.
Qed.
Lemma vf_remove_rel p : Mrel (@Rtrue unit unit) (vf_remove p) (vf_remove p).
Proof.
  intros s1 s2 H. unfold vf_remove. rewrite (oe_vf _ _ H p).
  destruct (memN p (vf s2)); cbn; [|split; [exact H | reflexivity]].
  split; [|exact I]. obs_split H. rewrite !memN_filter_ne, Hvf. reflexivity.
Qed.
Lemma fr_add_rel r : Mrel (@Rtrue unit unit) (fr_add r) (fr_add r).
Proof.
  apply Mrel_modify. intros s1 s2 H. obs_split H.
  rewrite !(count_app N.eqb), Hfr. reflexivity.
Qed.
Lemma fr_remove_rel r : Mrel (@Rtrue unit unit) (fr_remove r) (fr_remove r).
Proof.
  intros s1 s2 H. unfold fr_remove. rewrite (memN_obs (fr s1) (fr s2) r) by apply H.
  destruct (memN r (fr s2)); cbn; [|split; [exact H | reflexivity]].
  split; [|exact I]. obs_split H. rewrite !(count_remove1 N.eqb N_reflects), Hfr. reflexivity.
Qed.
Lemma plan_append_rel o1 o2 : Mrel (@Rtrue unit unit) (plan_append o1) (plan_append o2).
Proof. intros s1 s2 H. cbn. split; [|exact I]. obs_split H. Qed.
Lemma gets_brc_rel b : Mrel eq (gets (fun s => memN b (brc s))) (gets (fun s => memN b (brc s))).
Proof. apply Mrel_gets. intros s1 s2 H. apply memN_obs. apply H. Qed.

End Prims.

(* ------------------------------------------------------------------ revert / backtrack respect ≈ *)
Section Congruence.
Variable E : env.

Ltac rel_step :=
  first [ apply Mrel_ret; exact I
        | eapply Mrel_bind; [ first [ apply fill_slotting_rel | apply add_limiter_rel | apply remove_slotting_rel
                                    | apply remove_limiter_rel | apply pc_set_rel | apply pc_del_rel
                                    | apply rb_append_rel | apply rb_remove_rel | apply brc_add_rel
                                    | apply brc_remove_rel | apply vf_add_rel | apply vf_remove_rel
                                    | apply fr_add_rel | apply fr_remove_rel | apply plan_append_rel
                                    | apply gets_brc_rel ] | intros ? ? ? ] ].

Lemma when_rel b m : Mrel (@Rtrue unit unit) m m -> Mrel (@Rtrue unit unit) (when b m) (when b m).
Proof. intros H. destruct b; [exact H | apply Mrel_ret; exact I]. Qed.

Lemma incref_revert_rel c b k : Mrel (@Rtrue unit unit) (incref_revert c b k) (incref_revert c b k).
Proof.
  unfold incref_revert. repeat rel_step. subst. apply when_rel. apply remove_limiter_rel.
Qed.
Lemma decref_revert_rel c b k : Mrel (@Rtrue unit unit) (decref_revert E c b k) (decref_revert E c b k).
Proof.
  unfold decref_revert. rel_step. rel_step. subst.
  eapply Mrel_bind with (R := @Rtrue unit unit).
  - destruct b1; [apply Mrel_ret; exact I|]. rel_step. apply Mrel_ret; exact I.
  - intros ? ? ?. apply brc_add_rel.
Qed.
Lemma decref_apply_rel c b k : Mrel (@Rtrue unit unit) (decref_apply c b k) (decref_apply c b k).
Proof.
  unfold decref_apply. repeat rel_step. subst.
  eapply Mrel_bind; [apply when_rel; apply remove_limiter_rel | intros ? ? ?; apply rb_remove_rel].
Qed.

Lemma revert_rel o : Mrel (@Rtrue unit unit) (revert E o) (revert E o).
Proof.
  destruct o; cbn [revert].
  - rel_step. apply pc_del_rel.
  - apply fr_remove_rel.
  - apply Mrel_ret; exact I.
  - rel_step. rel_step. apply vf_remove_rel.
  - rel_step. rel_step. unfold Rnil in H0. rewrite H0.
    destruct (Bool.eqb (negb (is_nil b0)) force_old); [|apply Mrel_raise].
    rel_step. rel_step. apply vf_remove_rel.
  - apply incref_revert_rel.
  - apply decref_revert_rel.
Qed.

(* reverts never touch the plan *)
Definition Mframe {A} (m : M A) : Prop := forall s, plan (fst (m s)) = plan s.
Lemma frame_bind {A B} (m : M A) (f : A -> M B) : Mframe m -> (forall a, Mframe (f a)) -> Mframe (bind m f).
Proof.
  intros Hm Hf s. unfold bind. specialize (Hm s). destruct (m s) as [s' [a|e]]; cbn in *.
  - rewrite Hf. exact Hm.
  - exact Hm.
Qed.
Ltac frame_prim := intros s; cbv beta delta -[plan memN existsb filter lookup is_nil] iota;
  repeat match goal with |- context [if ?c then _ else _] => destruct c end;
  repeat match goal with |- context [match ?c with Some _ => _ | None => _ end] => destruct c end; reflexivity.
Lemma frame_fill p f : Mframe (fill_slotting E p f).
Proof. intros s. unfold fill_slotting. cbn. destruct (_ || f); reflexivity. Qed.
Lemma frame_add_limiter b k : Mframe (add_limiter E b k).
Proof. intros s. reflexivity. Qed.
Lemma frame_remove_slotting p : Mframe (remove_slotting p).
Proof. intros s. unfold remove_slotting. destruct (memN p (slots s)); reflexivity. Qed.
Lemma frame_remove_limiter b k : Mframe (remove_limiter b k).
Proof. intros s. unfold remove_limiter. destruct (existsb _ _); reflexivity. Qed.
Lemma frame_pc_set p c : Mframe (pc_set p c).
Proof. intros s. reflexivity. Qed.
Lemma frame_pc_del p : Mframe (pc_del p).
Proof. intros s. unfold pc_del. destruct (lookup p (pc s)); reflexivity. Qed.
Lemma frame_rb_append c b k : Mframe (rb_append c b k).
Proof. intros s. reflexivity. Qed.
Lemma frame_rb_remove c b k : Mframe (rb_remove c b k).
Proof. intros s. unfold rb_remove. destruct (is_nil _); [reflexivity|]. destruct (existsb _ _); reflexivity. Qed.
Lemma frame_brc_add b : Mframe (brc_add b).
Proof. intros s. reflexivity. Qed.
Lemma frame_brc_remove b : Mframe (brc_remove b).
Proof. intros s. unfold brc_remove. destruct (memN b (brc s)); reflexivity. Qed.
Lemma frame_vf_add p : Mframe (vf_add p).
Proof. intros s. unfold vf_add, modify. cbn. destruct (memN p (vf s)); reflexivity. Qed.
Lemma frame_vf_remove p : Mframe (vf_remove p).
Proof. intros s. unfold vf_remove. destruct (memN p (vf s)); reflexivity. Qed.
Lemma frame_fr_add r : Mframe (fr_add r).
Proof. intros s. reflexivity. Qed.
Lemma frame_fr_remove r : Mframe (fr_remove r).
Proof. intros s. unfold fr_remove. destruct (memN r (fr s)); reflexivity. Qed.
Lemma frame_ret {A} (a : A) : Mframe (ret a).
Proof. intros s. reflexivity. Qed.
Lemma frame_raise {A} e : Mframe (@raise A e).
Proof. intros s. reflexivity. Qed.
Lemma frame_gets {A} (f : state -> A) : Mframe (gets f).
Proof. intros s. reflexivity. Qed.
Lemma frame_when b m : Mframe m -> Mframe (when b m).
Proof. intros H. destruct b; [exact H | apply frame_ret]. Qed.

Ltac frame_tac :=
  repeat first [ apply frame_bind; [|intros ?] | apply frame_fill | apply frame_add_limiter
               | apply frame_remove_slotting | apply frame_remove_limiter | apply frame_pc_set
               | apply frame_pc_del | apply frame_rb_append | apply frame_rb_remove | apply frame_brc_add
               | apply frame_brc_remove | apply frame_vf_add | apply frame_vf_remove | apply frame_fr_add
               | apply frame_fr_remove | apply frame_ret | apply frame_raise | apply frame_gets
               | apply frame_when ].

Lemma revert_frame o : Mframe (revert E o).
Proof.
  destruct o; cbn [revert]; unfold incref_revert, decref_revert; frame_tac.
  all: repeat (match goal with |- Mframe (if ?b then _ else _) => destruct b end; frame_tac).
Qed.

(* revert_seq: same log from ≈ states *)
Lemma revert_seq_plan l : forall d s, plan (fst (revert_seq E l d s)) = plan s
  \/ exists e, snd (revert_seq E l d s) = Ex e.
Proof.
  induction l as [|o l IH]; intros d s; cbn; [left; reflexivity|].
  pose proof (revert_frame o s) as Hf. destruct (revert E o s) as [s' [u|e]]; cbn in *.
  - destruct (IH (S d) s') as [H|H]; [left; congruence | right; exact H].
  - right. eexists. reflexivity.
Qed.

Lemma revert_seq_cong l : forall d s1 s2, equiv s1 s2 ->
  equiv (fst (revert_seq E l d s1)) (fst (revert_seq E l d s2))
  /\ snd (revert_seq E l d s1) = snd (revert_seq E l d s2).
Proof.
  induction l as [|o l IH]; intros d s1 s2 [Ho Hp]; cbn.
  - split; [split; assumption | reflexivity].
  - destruct (revert_rel o s1 s2 Ho) as [H1 H2].
    pose proof (revert_frame o s1) as F1. pose proof (revert_frame o s2) as F2.
    destruct (revert E o s1) as [t1 [u1|e1]], (revert E o s2) as [t2 [u2|e2]]; cbn in *; try contradiction.
    + apply IH. split; [exact H1 | congruence].
    + subst e2. split; [|reflexivity]. rewrite F1, F2, Hp. split; [|reflexivity].
      destruct H1 as [Hsl Hli Hpc Hrb Hbr Hvf Hfr]. constructor; cbn -[memN]; auto.
Qed.

Lemma backtrack_cong k s1 s2 : equiv s1 s2 ->
  equiv (backtrack_s E k s1) (backtrack_s E k s2) /\ snd (backtrack E k s1) = snd (backtrack E k s2).
Proof.
  intros Heq. pose proof Heq as [Ho Hp]. unfold backtrack_s, backtrack. rewrite Hp.
  destruct (Nat.ltb _ k); [split; [exact Heq | reflexivity]|].
  destruct (Nat.eqb _ k); [split; [exact Heq | reflexivity]|].
  destruct (revert_seq_cong (rev (skipn k (plan s2))) 0 s1 s2 Heq) as [[H1 H1p] H2].
  destruct (revert_seq E (rev (skipn k (plan s2))) 0 s1) as [t1 [n1|e1]],
           (revert_seq E (rev (skipn k (plan s2))) 0 s2) as [t2 [n2|e2]]; cbn in *; try discriminate.
  - injection H2 as ->. split; [|reflexivity]. rewrite H1p. split; [|reflexivity].
    destruct H1 as [Hsl Hli Hpc Hrb Hbr Hvf Hfr]. constructor; cbn -[memN]; auto.
  - split; [split; assumption | congruence].
Qed.

End Congruence.

(* ------------------------------------------------------------------ backtrack as a sequence of reverts *)
Section Backtrack.
Variable E : env.

Fixpoint undo_seq (l : list op) : M unit :=
  match l with [] => ret tt | o :: r => revert E o ;;; undo_seq r end.

Lemma undo_seq_app l1 l2 s :
  undo_seq (l1 ++ l2) s =
  match undo_seq l1 s with (s', Ok _) => undo_seq l2 s' | (s', Ex e) => (s', Ex e) end.
Proof.
  revert s. induction l1 as [|o l1 IH]; intros s; cbn.
  - reflexivity.
  - unfold bind. destruct (revert E o s) as [s' [u|e]]; [apply IH | reflexivity].
Qed.

Lemma undo_seq_frame l : Mframe (undo_seq l).
Proof.
  induction l as [|o l IH]; cbn; [apply frame_ret|].
  apply frame_bind; [apply revert_frame | intros _; exact IH].
Qed.

Lemma undo_seq_rel l : Mrel (@Rtrue unit unit) (undo_seq l) (undo_seq l).
Proof.
  induction l as [|o l IH]; cbn; [apply Mrel_ret; exact I|].
  eapply Mrel_bind; [apply revert_rel | intros ? ? ?; exact IH].
Qed.

Lemma revert_seq_undo l : forall d s,
  match undo_seq l s with
  | (u, Ok _) => revert_seq E l d s = (u, Ok (d + length l))
  | (u, Ex e) => exists u', revert_seq E l d s = (u', Ex e)
  end.
Proof.
  induction l as [|o l IH]; intros d s; cbn.
  - unfold ret. rewrite Nat.add_0_r. reflexivity.
  - unfold bind. destruct (revert E o s) as [s' [u|e]].
    + specialize (IH (S d) s'). destruct (undo_seq l s') as [u' [x|e]].
      * rewrite IH. f_equal. f_equal. lia.
      * exact IH.
    + eexists. reflexivity.
Qed.

Lemma set_plan_same s : set_plan (plan s) s = s.
Proof. destruct s; reflexivity. Qed.

Lemma backtrack_char s k : k <= length (plan s) ->
  match undo_seq (rev (skipn k (plan s))) s with
  | (u, Ok _) => backtrack E k s = (set_plan (firstn k (plan s)) u, Ok tt)
  | (u, Ex e) => exists u', backtrack E k s = (u', Ex e)
  end.
Proof.
  intros Hk. unfold backtrack.
  destruct (Nat.ltb (length (plan s)) k) eqn:Hlt; [apply Nat.ltb_lt in Hlt; lia|].
  destruct (Nat.eqb (length (plan s)) k) eqn:Heq.
  - apply Nat.eqb_eq in Heq. subst k. rewrite skipn_all. cbn. rewrite firstn_all, set_plan_same. reflexivity.
  - apply Nat.eqb_neq in Heq.
    pose proof (revert_seq_undo (rev (skipn k (plan s))) 0 s) as H.
    pose proof (undo_seq_frame (rev (skipn k (plan s))) s) as Hf.
    destruct (undo_seq (rev (skipn k (plan s))) s) as [u [x|e]]; cbn in Hf.
    + rewrite H. cbn. rewrite Hf, rev_length, skipn_length. f_equal. f_equal. f_equal. lia.
    + destruct H as [u' H]. rewrite H. eexists. reflexivity.
Qed.

Lemma obs_set_plan v s : obs_eq (set_plan v s) s.
Proof. constructor; reflexivity. Qed.

(* rolling back in two stages is rolling back at once, up to ≈ *)
Lemma backtrack_compose s n n' t t2 :
  n' <= n -> n <= length (plan s) ->
  backtrack E n s = (t, Ok tt) -> backtrack E n' t = (t2, Ok tt) ->
  exists t3, backtrack E n' s = (t3, Ok tt) /\ equiv t3 t2.
Proof.
  intros Hn' Hn H1 H2.
  pose proof (backtrack_char s n Hn) as C1.
  destruct (undo_seq (rev (skipn n (plan s))) s) as [u [x|e]] eqn:U1;
    [|destruct C1 as [u' C1]; congruence].
  rewrite C1 in H1. injection H1 as <-.
  assert (Hpt : plan (set_plan (firstn n (plan s)) u) = firstn n (plan s)) by reflexivity.
  assert (Hn't : n' <= length (plan (set_plan (firstn n (plan s)) u))).
  { rewrite Hpt, firstn_length. lia. }
  pose proof (backtrack_char _ n' Hn't) as C2. rewrite Hpt in C2.
  destruct (undo_seq (rev (skipn n' (firstn n (plan s)))) (set_plan (firstn n (plan s)) u)) as [u2 [x2|e2]] eqn:U2;
    [|destruct C2 as [u' C2]; congruence].
  rewrite C2 in H2. injection H2 as <-.
  (* the one-stage rollback *)
  assert (Hn's : n' <= length (plan s)) by lia.
  pose proof (backtrack_char s n' Hn's) as C3.
  assert (Hsplit : skipn n' (plan s) = skipn n' (firstn n (plan s)) ++ skipn n (plan s)).
  { rewrite <- (firstn_skipn n (plan s)) at 1. rewrite skipn_app.
    rewrite firstn_length. replace (n' - Nat.min n (length (plan s))) with 0 by lia. reflexivity. }
  rewrite Hsplit, rev_app_distr, undo_seq_app in C3. rewrite U1 in C3.
  destruct (undo_seq_rel (rev (skipn n' (firstn n (plan s)))) u (set_plan (firstn n (plan s)) u)
              (obs_sym _ _ (obs_set_plan _ u))) as [Ho Hr].
  rewrite U2 in Ho, Hr. cbn in Ho, Hr.
  destruct (undo_seq (rev (skipn n' (firstn n (plan s)))) u) as [u3 [x3|e3]]; cbn in Hr; [|contradiction].
  eexists. split; [exact C3|]. cbn in Ho. split.
  - eapply obs_trans; [apply obs_set_plan|]. eapply obs_trans; [exact Ho|]. apply obs_sym, obs_set_plan.
  - cbn. rewrite firstn_firstn. f_equal. lia.
Qed.

(* ------------------------------------------------------------------ the chain of saved states *)
(* a call is undoable in s: it does not raise, only appends to the plan, and rolling back to where
   it started restores s up to ≈ *)
Definition Undoable (s : state) (a : api) : Prop :=
  exists s1 r seg, call E a s = (s1, Ok r) /\ plan s1 = plan s ++ seg /\
    exists s2, backtrack E (length (plan s)) s1 = (s2, Ok tt) /\ equiv s2 s.

(* newest first: (position the call started at, state it started in, the call) *)
Inductive Chain : state -> list (nat * state * api) -> Prop :=
| Ch_nil s : Chain s []
| Ch_cons s n sb a L :
    length (plan sb) = n -> Undoable sb a -> equiv s (call_s E a sb) -> Chain sb L ->
    Chain s ((n, sb, a) :: L).

Lemma chain_equiv s s' L : equiv s' s -> Chain s L -> Chain s' L.
Proof.
  intros He Hc. destruct Hc; constructor; auto. eapply equiv_trans; eauto.
Qed.

Lemma chain_pos s L : Chain s L -> forall n sb a, In (n, sb, a) L -> n <= length (plan s).
Proof.
  induction 1 as [|s n sb a L Hn Hu He Hc IH]; intros n' sb' a' Hin; [destruct Hin|].
  assert (Hle : n <= length (plan s)).
  { destruct Hu as (s1 & r & seg & Hcall & Hp & _). destruct He as [_ Hpe].
    unfold call_s in Hpe. rewrite Hcall in Hpe. cbn in Hpe. rewrite Hpe, Hp, app_length. lia. }
  destruct Hin as [Heq|Hin].
  - injection Heq as <- <- <-. exact Hle.
  - specialize (IH _ _ _ Hin). lia.
Qed.

Lemma chain_rollback s L : Chain s L -> forall n sb a, In (n, sb, a) L ->
  exists s', backtrack E n s = (s', Ok tt) /\ equiv s' sb.
Proof.
  induction 1 as [|s n sb a L Hn Hu He Hc IH]; intros n' sb' a' Hin; [destruct Hin|].
  (* rolling back the newest call *)
  assert (Hhead : exists s', backtrack E n s = (s', Ok tt) /\ equiv s' sb).
  { destruct Hu as (s1 & r & seg & Hcall & Hp & s2 & Hb & Heq).
    unfold call_s in He. rewrite Hcall in He. cbn in He.
    destruct (backtrack_cong E n s s1 He) as [H1 H2]. subst n. rewrite Hb in H2. cbn in H2.
    unfold backtrack_s in H1. rewrite Hb in H1. cbn in H1.
    destruct (backtrack E (length (plan sb)) s) as [s' r'] eqn:Hbs. cbn in *. subst r'.
    exists s'. split; [reflexivity|]. eapply equiv_trans; eauto. }
  destruct Hin as [Heq|Hin].
  - injection Heq as <- <- <-. exact Hhead.
  - destruct Hhead as (t & Hbt & Het).
    destruct (IH _ _ _ Hin) as (t2 & Hb2 & He2).
    destruct (backtrack_cong E n' t sb Het) as [H1 H2]. rewrite Hb2 in H2. cbn in H2.
    unfold backtrack_s in H1. rewrite Hb2 in H1. cbn in H1.
    destruct (backtrack E n' t) as [t2' r2] eqn:Hbt2. cbn in *. subst r2.
    assert (Hle : n' <= n) by (pose proof (chain_pos _ _ Hc _ _ _ Hin); lia).
    assert (Hle2 : n <= length (plan s)) by (eapply (chain_pos s ((n, sb, a) :: L)); [econstructor; eauto | left; reflexivity]).
    destruct (backtrack_compose s n n' t t2' Hle Hle2 Hbt Hbt2) as (t3 & Hb3 & He3).
    exists t3. split; [exact Hb3|]. eapply equiv_trans; [exact He3|]. eapply equiv_trans; eauto.
Qed.

(* after rolling back to an entry, the chain below it describes the new state *)
Lemma chain_suffix s L : Chain s L -> forall n sb a L1 L2, L = L1 ++ (n, sb, a) :: L2 -> Chain sb L2.
Proof.
  induction 1 as [|s n sb a L Hn Hu He Hc IH]; intros n' sb' a' L1 L2 HL.
  - destruct L1; discriminate.
  - destruct L1 as [|x L1]; cbn in HL.
    + injection HL as <- <- <- <-. exact Hc.
    + injection HL as _ HL. eapply IH; eauto.
Qed.

End Backtrack.

(* ------------------------------------------------------------------ histories *)
Section History.
Variable E : env.
(* G: an invariant of planner states; the four facts about it are proved for [Inv] below *)
Variable G : state -> Prop.
(* ok: the calls the two facts below have been established for *)
Variable ok : api -> bool.
Hypothesis G_obs : forall s1 s2, obs_eq s1 s2 -> G s1 -> G s2.
Hypothesis G_call : forall s a, ok a = true -> G s -> wf_api_b E s a = true -> G (call_s E a s).
Hypothesis G_undo : forall s a, ok a = true -> G s -> wf_api_b E s a = true -> Undoable E s a.

Definition okE (e : event) : bool := match e with C a => ok a | R _ => true end.
Definition wfe (e : event) (t : tstate) : bool := wf_event_b E e t && okE e.
Fixpoint wf_from' (h : list event) (t : tstate) : bool :=
  match h with [] => true | e :: r => wfe e t && wf_from' r (tstep E e t) end.
Definition WF' (h : list event) : Prop := wf_from' h (init, []) = true.
Lemma wf_from'_iff h : forall t, wf_from' h t = wf_from E h t && forallb okE h.
Proof.
  induction h as [|e h IH]; intros t; cbn; [reflexivity|]. rewrite IH. unfold wfe.
  destruct (wf_event_b E e t), (okE e), (wf_from E h (tstep E e t)), (forallb okE h); reflexivity.
Qed.

Lemma run_app h1 h2 s : run E (h1 ++ h2) s = run E h2 (run E h1 s).
Proof. unfold run. apply fold_left_app. Qed.
Lemma trun_app h1 h2 t : trun E (h1 ++ h2) t = trun E h2 (trun E h1 t).
Proof. unfold trun. apply fold_left_app. Qed.
Lemma wf_from_app h1 h2 t : wf_from' (h1 ++ h2) t = wf_from' h1 t && wf_from' h2 (trun E h1 t).
Proof.
  revert t. induction h1 as [|e h1 IH]; intros t; cbn; [reflexivity|].
  rewrite IH, andb_assoc. reflexivity.
Qed.
Lemma trun_state h : forall t, fst (trun E h t) = run E h (fst t).
Proof.
  induction h as [|e h IH]; intros t; [reflexivity|].
  change (fst (trun E h (tstep E e t)) = run E h (step_s E e (fst t))).
  rewrite IH. f_equal. destruct e as [a|k]; [reflexivity|].
  cbn. unfold step_s, step, bind, backtrack_s. destruct (backtrack E k (fst t)) as [s' [u|e]]; reflexivity.
Qed.

(* the saved-state chain alongside Spec's tracker: positions agree *)
Definition cstep (e : event) (c : state * list (nat * state * api)) : state * list (nat * state * api) :=
  match e with
  | C a => (call_s E a (fst c), (length (plan (fst c)), fst c, a) :: snd c)
  | R k => (backtrack_s E k (fst c), filter (fun x => Nat.ltb (fst (fst x)) k) (snd c))
  end.

Definition sorted_below (s : state) (L : list (nat * state * api)) : Prop :=
  forall n sb a, In (n, sb, a) L -> n <= length (plan s).

Lemma forallb_filter_id {A} (f : A -> bool) l : forallb f l = true -> filter f l = l.
Proof.
  induction l as [|x l IH]; cbn; [reflexivity|]. intros H. apply andb_true_iff in H.
  destruct H as [H1 H2]. rewrite H1, IH; auto.
Qed.

(* filtering a chain at a boundary keeps a chain for the rolled-back state *)
Lemma chain_filter k : forall L s, Chain E s L ->
  (exists sb a, In (k, sb, a) L) ->
  exists sb a, In (k, sb, a) L /\ Chain E sb (filter (fun x => Nat.ltb (fst (fst x)) k) L).
Proof.
  induction L as [|[[n sb] a] L IH]; intros s Hc (sb0 & a0 & Hin); [destruct Hin|].
  inversion Hc as [|s' n' sb' a' L' Hn Hu He Hc']; subst.
  cbn [filter fst]. destruct (Nat.ltb (length (plan sb)) k) eqn:Hlt.
  - (* head below k: impossible, every entry of a chain is at or below its head *)
    apply Nat.ltb_lt in Hlt. destruct Hin as [Heq|Hin].
    + injection Heq as Heq _ _. lia.
    + pose proof (chain_pos E _ _ Hc' _ _ _ Hin). lia.
  - apply Nat.ltb_ge in Hlt.
    destruct (existsb (fun x => Nat.eqb (fst (fst x)) k) L) eqn:Hex.
    + apply existsb_exists in Hex. destruct Hex as ([[n1 sb1] a1] & Hin1 & Heq1). cbn in Heq1.
      apply Nat.eqb_eq in Heq1. subst n1.
      destruct (IH sb Hc' (ex_intro _ sb1 (ex_intro _ a1 Hin1))) as (sb2 & a2 & Hin2 & Hc2).
      exists sb2, a2. split; [right; exact Hin2 | exact Hc2].
    + (* the head is the oldest entry at k: everything below is strictly below *)
      destruct Hin as [Heq|Hin].
      * injection Heq as Heq <- <-. exists sb, a. split; [left; f_equal; f_equal; exact Heq|].
        assert (Hall : filter (fun x => Nat.ltb (fst (fst x)) k) L = L).
        { apply forallb_filter_id. apply forallb_forall. intros [[n1 sb1] a1] Hin1. cbn.
          apply Nat.ltb_lt. pose proof (chain_pos E _ _ Hc' _ _ _ Hin1) as Hle.
          assert (n1 <> k).
          { intros ->. assert (Hf : existsb (fun x => Nat.eqb (fst (fst x)) k) L = true).
            { apply existsb_exists. eexists. split; [exact Hin1|]. cbn. apply Nat.eqb_refl. }
            congruence. }
          lia. }
        rewrite Hall. exact Hc'.
      * exfalso. assert (Hf : existsb (fun x => Nat.eqb (fst (fst x)) k) L = true).
        { apply existsb_exists. eexists. split; [exact Hin|]. cbn. apply Nat.eqb_refl. }
        congruence.
Qed.

(* the invariant of a well-formed run *)
Definition good (c : state * list (nat * state * api)) (t : tstate) : Prop :=
  fst c = fst t /\ map (fun x => fst (fst x)) (snd c) = rev (map fst (snd t)) /\
  G (fst c) /\ Chain E (fst c) (snd c) /\ Forall (fun x => G (snd (fst x))) (snd c).

Lemma filter_rev {A} (f : A -> bool) l : filter f (rev l) = rev (filter f l).
Proof.
  induction l as [|x l IH]; cbn; [reflexivity|].
  rewrite filter_app, IH. cbn. destruct (f x); cbn; [reflexivity | rewrite app_nil_r; reflexivity].
Qed.
Lemma map_filter_fst {A B} (g : A -> B) (f : B -> bool) l :
  map g (filter (fun x => f (g x)) l) = filter f (map g l).
Proof. induction l as [|x l IH]; cbn; [reflexivity|]. destruct (f (g x)); cbn; congruence. Qed.

Lemma good_step e c t : good c t -> wfe e t = true -> good (cstep e c) (tstep E e t).
Proof.
  intros (Hs & Hp & Hg & Hc & Hall) Hwf. unfold wfe in Hwf. apply andb_true_iff in Hwf.
  destruct Hwf as [Hwf Hok]. destruct e as [a|k]; cbn in Hwf, Hok.
  - (* a call *)
    rewrite <- Hs in Hwf. unfold good. cbn [cstep tstep fst snd].
    repeat split.
    + rewrite Hs. reflexivity.
    + cbn. rewrite map_app, rev_app_distr. cbn. rewrite Hp, Hs. reflexivity.
    + apply G_call; assumption.
    + econstructor; [reflexivity | apply G_undo; assumption | apply equiv_refl | exact Hc].
    + constructor; [exact Hg | exact Hall].
  - (* a rollback to a boundary *)
    unfold good. cbn [cstep tstep fst snd].
    assert (Hp' : map (fun x => fst (fst x)) (filter (fun x => Nat.ltb (fst (fst x)) k) (snd c))
                  = rev (map fst (filter (fun na => Nat.ltb (fst na) k) (snd t)))).
    { rewrite (map_filter_fst (fun x : nat * state * api => fst (fst x)) (fun n => Nat.ltb n k)).
      rewrite Hp, filter_rev. f_equal. symmetry.
      apply (map_filter_fst (fun x : nat * api => fst x) (fun n => Nat.ltb n k)). }
    assert (Hall' : Forall (fun x => G (snd (fst x))) (filter (fun x => Nat.ltb (fst (fst x)) k) (snd c))).
    { apply Forall_forall. intros x Hx. apply filter_In in Hx. destruct Hx as [Hx _].
      rewrite Forall_forall in Hall. apply Hall. exact Hx. }
    apply orb_true_iff in Hwf. destruct Hwf as [Hk|Hk].
    + (* k = len(plan): nothing happens *)
      apply Nat.eqb_eq in Hk. rewrite <- Hs in Hk. subst k.
      unfold backtrack_s. rewrite backtrack_here_proof. cbn [fst].
      assert (Hfil : filter (fun x => Nat.ltb (fst (fst x)) (length (plan (fst c)))) (snd c)
                     = filter (fun x => Nat.ltb (fst (fst x)) (length (plan (fst c)))) (snd c)) by reflexivity.
      repeat split; auto.
      * rewrite Hs. unfold backtrack_s. rewrite <- Hs, backtrack_here_proof. reflexivity.
      * destruct (existsb (fun x => Nat.eqb (fst (fst x)) (length (plan (fst c)))) (snd c)) eqn:Hex.
        -- apply existsb_exists in Hex. destruct Hex as ([[n1 sb1] a1] & Hin1 & Heq1). cbn in Heq1.
           apply Nat.eqb_eq in Heq1. subst n1.
           destruct (chain_filter _ _ _ Hc (ex_intro _ sb1 (ex_intro _ a1 Hin1))) as (sb2 & a2 & Hin2 & Hc2).
           destruct (chain_rollback E _ _ Hc _ _ _ Hin2) as (s' & Hb & He).
           rewrite backtrack_here_proof in Hb. injection Hb as <-.
           eapply chain_equiv; eauto.
        -- assert (Hid : filter (fun x => Nat.ltb (fst (fst x)) (length (plan (fst c)))) (snd c) = snd c).
           { apply forallb_filter_id. apply forallb_forall. intros [[n1 sb1] a1] Hin1. cbn.
             apply Nat.ltb_lt. pose proof (chain_pos E _ _ Hc _ _ _ Hin1) as Hle.
             assert (n1 <> length (plan (fst c))).
             { intros ->. assert (Hf : existsb (fun x => Nat.eqb (fst (fst x)) (length (plan (fst c)))) (snd c) = true).
               { apply existsb_exists. eexists. split; [exact Hin1|]. cbn. apply Nat.eqb_refl. }
               congruence. }
             lia. }
           rewrite Hid. exact Hc.
    + (* k = start of a live call *)
      apply existsb_exists in Hk. destruct Hk as ([n1 a1] & Hin1 & Heq1). cbn in Heq1.
      apply Nat.eqb_eq in Heq1. subst n1.
      assert (Hin : exists sb a, In (k, sb, a) (snd c)).
      { assert (Hk : In k (map (fun x => fst (fst x)) (snd c))).
        { rewrite Hp, <- in_rev. apply in_map_iff. exists (k, a1). split; [reflexivity | exact Hin1]. }
        apply in_map_iff in Hk. destruct Hk as ([[n2 sb2] a2] & Heq2 & Hin2). cbn in Heq2. subst n2.
        exists sb2, a2. exact Hin2. }
      destruct (chain_filter _ _ _ Hc Hin) as (sb2 & a2 & Hin2 & Hc2).
      destruct (chain_rollback E _ _ Hc _ _ _ Hin2) as (s' & Hb & He).
      unfold backtrack_s. rewrite Hb. cbn [fst].
      rewrite Forall_forall in Hall. pose proof (Hall _ Hin2) as Hg2. cbn in Hg2.
      repeat split; auto.
      * rewrite <- Hs. unfold backtrack_s. rewrite Hb. reflexivity.
      * eapply G_obs; [apply obs_sym; apply He | exact Hg2].
      * eapply chain_equiv; eauto.
Qed.

Lemma good_run h : forall c t, good c t -> wf_from' h t = true ->
  good (fold_left (fun c e => cstep e c) h c) (trun E h t).
Proof.
  induction h as [|e h IH]; intros c t Hg Hwf; cbn; [exact Hg|].
  cbn in Hwf. apply andb_true_iff in Hwf. destruct Hwf as [H1 H2].
  apply IH; [apply good_step; assumption | exact H2].
Qed.

Lemma chain_saved_len s L : Chain E s L -> forall n sb a, In (n, sb, a) L -> length (plan sb) = n.
Proof.
  induction 1 as [|s n sb a L Hn Hu He Hc IH]; intros n' sb' a' Hin; [destruct Hin|].
  destruct Hin as [Heq|Hin]; [injection Heq as <- <- <-; exact Hn | eapply IH; eauto].
Qed.

Lemma cfold_state h : forall c t, fst c = fst t ->
  fst (fold_left (fun c e => cstep e c) h c) = fst (trun E h t).
Proof.
  induction h as [|e h IH]; intros c t H; [exact H|].
  cbn [fold_left]. change (trun E (e :: h) t) with (trun E h (tstep E e t)).
  apply IH. destruct e; cbn; rewrite H; reflexivity.
Qed.

Section Restore.
Variables (s1 : state) (k : nat).
Hypothesis Hk : k = length (plan s1).

Definition P (c : state * list (nat * state * api)) : Prop :=
  k <= length (plan (fst c)) /\ ((exists sb a, In (k, sb, a) (snd c) /\ equiv sb s1) \/ equiv (fst c) s1).

Lemma P_step e c t : good c t -> wfe e t = true ->
  (forall k', e = R k' -> k <= k') -> P c -> P (cstep e c).
Proof.
  intros Hgood Hwf' Hge [Hlen Hd]. pose proof Hgood as (Hs & Hp & Hg & Hc & Hall).
  pose proof Hwf' as Hwf. unfold wfe in Hwf. apply andb_true_iff in Hwf. destruct Hwf as [Hwf Hok].
  destruct e as [a|k'].
  - (* call *)
    cbn in Hwf, Hok. rewrite <- Hs in Hwf.
    destruct (G_undo _ _ Hok Hg Hwf) as (s' & r & seg & Hcall & Hpl & _).
    unfold P. cbn [cstep fst snd]. unfold call_s. rewrite Hcall. cbn [fst]. split.
    + rewrite Hpl, app_length. lia.
    + left. destruct Hd as [(sb & a0 & Hin & He)|He].
      * exists sb, a0. split; [right; exact Hin | exact He].
      * exists (fst c), a. split; [|exact He]. left. destruct He as [_ Hpe]. rewrite Hk, Hpe. reflexivity.
  - (* rollback to k' >= k *)
    specialize (Hge k' eq_refl).
    assert (Hk'le : k' <= length (plan (fst c))).
    { cbn in Hwf. apply orb_true_iff in Hwf. destruct Hwf as [H|H].
      - apply Nat.eqb_eq in H. rewrite Hs. lia.
      - apply existsb_exists in H. destruct H as ([n1 a1] & Hin1 & Heq1). cbn in Heq1.
        apply Nat.eqb_eq in Heq1. subst n1.
        assert (Hin : In k' (map (fun x => fst (fst x)) (snd c))).
        { rewrite Hp, <- in_rev. apply in_map_iff. exists (k', a1). split; [reflexivity | exact Hin1]. }
        apply in_map_iff in Hin. destruct Hin as ([[n2 sb2] a2] & Heq2 & Hin2). cbn in Heq2. subst n2.
        apply (chain_pos E _ _ Hc _ _ _ Hin2). }
    pose proof (good_step _ _ _ Hgood Hwf') as (Hs' & Hp' & Hg' & Hc' & Hall').
    unfold P. cbn [cstep fst snd] in *.
    destruct (Nat.eq_dec k' (length (plan (fst c)))) as [Heq|Hne].
    + (* no-op *)
      subst k'. unfold backtrack_s. rewrite backtrack_here_proof. cbn [fst]. split; [exact Hlen|].
      destruct Hd as [(sb & a0 & Hin & He)|He]; [|right; exact He].
      destruct (Nat.eq_dec k (length (plan (fst c)))) as [Hkk|Hkk].
      * right. destruct (chain_rollback E _ _ Hc _ _ _ Hin) as (s' & Hb & He').
        rewrite Hkk, backtrack_here_proof in Hb. injection Hb as <-. eapply equiv_trans; eauto.
      * left. exists sb, a0. split; [|exact He]. apply filter_In. split; [exact Hin|].
        cbn. apply Nat.ltb_lt. lia.
    + (* a real rollback: k' is the start of a live call *)
      cbn in Hwf. apply orb_true_iff in Hwf. destruct Hwf as [H|H];
        [apply Nat.eqb_eq in H; rewrite <- Hs in H; contradiction|].
      apply existsb_exists in H. destruct H as ([n1 a1] & Hin1 & Heq1). cbn in Heq1.
      apply Nat.eqb_eq in Heq1. subst n1.
      assert (Hin : In k' (map (fun x => fst (fst x)) (snd c))).
      { rewrite Hp, <- in_rev. apply in_map_iff. exists (k', a1). split; [reflexivity | exact Hin1]. }
      apply in_map_iff in Hin. destruct Hin as ([[n2 sb2] a2] & Heq2 & Hin2). cbn in Heq2. subst n2.
      destruct (chain_rollback E _ _ Hc _ _ _ Hin2) as (s' & Hb & He').
      unfold backtrack_s. rewrite Hb. cbn [fst].
      pose proof (chain_saved_len _ _ Hc _ _ _ Hin2) as Hl2.
      split.
      * destruct He' as [_ Hpe]. rewrite Hpe, Hl2. exact Hge.
      * destruct Hd as [(sb & a0 & Hin & He)|He].
        -- destruct (Nat.eq_dec k k') as [Hkk|Hkk].
           ++ right. destruct (chain_rollback E _ _ Hc _ _ _ Hin) as (s'' & Hb' & He'').
              rewrite Hkk, Hb in Hb'. injection Hb' as <-. eapply equiv_trans; eauto.
           ++ left. exists sb, a0. split; [|exact He]. apply filter_In. split; [exact Hin|].
              cbn. apply Nat.ltb_lt. lia.
        -- exfalso. destruct He as [_ Hpe]. rewrite Hpe, <- Hk in Hk'le, Hne. lia.
Qed.

Lemma P_run h : forall c t, good c t -> wf_from' h t = true ->
  (forall k', In (R k') h -> k <= k') -> P c ->
  P (fold_left (fun c e => cstep e c) h c) /\ good (fold_left (fun c e => cstep e c) h c) (trun E h t).
Proof.
  induction h as [|e h IH]; intros c t Hg Hwf Hge HP; [split; assumption|].
  cbn in Hwf. apply andb_true_iff in Hwf. destruct Hwf as [H1 H2].
  cbn [fold_left]. change (trun E (e :: h) t) with (trun E h (tstep E e t)).
  apply IH.
  - apply good_step; assumption.
  - exact H2.
  - intros k' Hin. apply Hge. right. exact Hin.
  - eapply P_step; eauto. intros k' ->. apply Hge. left. reflexivity.
Qed.
End Restore.

Hypothesis G_init : G init.

Lemma good_init : good (init, []) (init, []).
Proof. repeat split; auto; constructor. Qed.

(* rollback restores the exact earlier state: if k is the plan position reached after h1 and the
   rollbacks of h2 never went below k, rolling back to k after h1 ++ h2 gives the state after h1 *)
Theorem rollback_restores_earlier_G h1 h2 k :
  WF' (h1 ++ h2) -> k = length (plan (run E h1 init)) ->
  (forall k', In (R k') h2 -> k <= k') ->
  exists s', backtrack E k (run E (h1 ++ h2) init) = (s', Ok tt) /\ equiv s' (run E h1 init).
Proof.
  intros Hwf Hk Hge. unfold WF' in Hwf. rewrite wf_from_app in Hwf.
  apply andb_true_iff in Hwf. destruct Hwf as [Hw1 Hw2].
  pose proof (good_run h1 _ _ good_init Hw1) as Hg1.
  set (c1 := fold_left (fun c e => cstep e c) h1 (init, [])) in *.
  assert (Hs1 : fst c1 = run E h1 init).
  { destruct Hg1 as (Hs & _). rewrite Hs, trun_state. reflexivity. }
  assert (HP1 : P (run E h1 init) k c1).
  { split; [rewrite Hs1; lia | right; rewrite Hs1; apply equiv_refl]. }
  destruct (P_run (run E h1 init) k Hk h2 c1 _ Hg1 Hw2 Hge HP1) as [[Hlen Hd] Hg2].
  set (c2 := fold_left (fun c e => cstep e c) h2 c1) in *.
  assert (Hs2 : fst c2 = run E (h1 ++ h2) init).
  { destruct Hg2 as (Hs & _). rewrite Hs, trun_state, trun_state, run_app. reflexivity. }
  rewrite <- Hs2. destruct Hg2 as (_ & _ & _ & Hc & _).
  destruct Hd as [(sb & a0 & Hin & He)|He].
  - destruct (chain_rollback E _ _ Hc _ _ _ Hin) as (s' & Hb & He').
    exists s'. split; [exact Hb | eapply equiv_trans; eauto].
  - exists (fst c2). split; [|exact He]. destruct He as [_ Hpe].
    rewrite Hk, <- Hpe. apply backtrack_here_proof.
Qed.

End History.

(* ------------------------------------------------------------------ the state invariant *)
Arguments memN : simpl never.
Section Invariant.
Variable E : env.

Definition blockers_of (l : list (N * (N * N))) : list N := map (fun e => fst (snd e)) l.

Record Inv (s : state) : Prop := {
  I_nodup : forall p, count N.eqb p (slots s) <= 1;
  I_slot : forall p q, count N.eqb p (slots s) <> 0 -> count N.eqb q (slots s) <> 0 ->
                       same_slot E p q = true -> p = q;
  I_brc : forall b, count N.eqb b (brc s) = count N.eqb b (blockers_of (rb s));
  I_lims : forall k b, count pair_eqb (k, b) (lims s)
                       = if memN b (brc s) && N.eqb k (bkey E b) then 1 else 0;
  I_rbkey : forall c b k, count trip_eqb (c, (b, k)) (rb s) <> 0 -> k = bkey E b;
  I_vf : forall p, count N.eqb p (slots s) <> 0 -> memN p (vf s) = false }.

Lemma Inv_init : Inv init.
Proof. constructor; cbn; intros; try reflexivity; try lia; try congruence. Qed.

(* counts of a mapped list depend only on the counts of the list *)
Lemma count_map_remove1 {A} (eqb : A -> A -> bool) (Hr : reflects eqb) (f : A -> N) a y l :
  count eqb a l <> 0 ->
  count N.eqb y (map f l) = (if N.eqb y (f a) then 1 else 0) + count N.eqb y (map f (remove1 eqb a l)).
Proof.
  induction l as [|z l IH]; cbn; [lia|].
  destruct (eqb a z) eqn:Haz.
  - apply Hr in Haz. subst z. intros _. reflexivity.
  - intros H. cbn. rewrite IH by exact H. lia.
Qed.
Lemma same_count_map {A} (eqb : A -> A -> bool) (Hr : reflects eqb) (f : A -> N) : forall l1 l2,
  (forall x, count eqb x l1 = count eqb x l2) ->
  forall y, count N.eqb y (map f l1) = count N.eqb y (map f l2).
Proof.
  induction l1 as [|a l1 IH]; intros l2 H y.
  - destruct l2 as [|b l2]; [reflexivity|]. specialize (H b). cbn in H.
    rewrite (eqb_refl' eqb Hr) in H. discriminate.
  - cbn. rewrite (count_map_remove1 eqb Hr f a y l2).
    + f_equal. apply IH. intros x. rewrite (count_remove1 eqb Hr). specialize (H x). cbn in H.
      destruct (eqb a x) eqn:Hax.
      * apply Hr in Hax. subst x. rewrite (eqb_refl' eqb Hr) in H. lia.
      * rewrite (eqb_sym' eqb Hr) in H. rewrite Hax in H. cbn in H. exact H.
    + specialize (H a). cbn in H. rewrite (eqb_refl' eqb Hr) in H. lia.
Qed.

Lemma Inv_obs s1 s2 : obs_eq s1 s2 -> Inv s1 -> Inv s2.
Proof.
  intros [Hsl Hli Hpc Hrb Hbr Hvf Hfr] [J1 J2 J3 J4 J5 J6]. constructor; intros.
  - rewrite <- Hsl. apply J1.
  - rewrite <- Hsl in *. apply J2; assumption.
  - rewrite <- Hbr. unfold blockers_of.
    rewrite <- (same_count_map trip_eqb trip_reflects (fun e => fst (snd e)) _ _ Hrb). apply J3.
  - rewrite <- Hli. rewrite J4. rewrite (memN_obs (brc s1) (brc s2) b Hbr). reflexivity.
  - rewrite <- Hrb in *. eapply J5; eauto.
  - rewrite <- Hvf. apply J6. rewrite Hsl. assumption.
Qed.

(* undoing the plan entries a call appended *)
Lemma undo_seg s s1 seg s2 :
  plan s1 = plan s ++ seg -> undo_seq E (rev seg) s1 = (s2, Ok tt) -> obs_eq s2 s ->
  exists s3, backtrack E (length (plan s)) s1 = (s3, Ok tt) /\ equiv s3 s.
Proof.
  intros Hp Hu Ho.
  assert (Hle : length (plan s) <= length (plan s1)) by (rewrite Hp, app_length; lia).
  pose proof (backtrack_char E s1 _ Hle) as C.
  rewrite Hp, skipn_app, skipn_all, Nat.sub_diag in C. cbn [skipn app] in C.
  rewrite Hu in C.
  rewrite firstn_app, firstn_all, Nat.sub_diag in C. cbn [firstn] in C. rewrite app_nil_r in C.
  eexists. split; [exact C|]. split; [|reflexivity].
  eapply obs_trans; [apply obs_set_plan | exact Ho].
Qed.

Lemma undoable_noop s a r : call E a s = (s, Ok r) -> Undoable E s a.
Proof.
  intros H. exists s, r, []. split; [exact H|]. split; [rewrite app_nil_r; reflexivity|].
  exists s. split; [apply backtrack_here_proof | apply equiv_refl].
Qed.

Lemma count_notmem x l : memN x l = false -> count N.eqb x l = 0.
Proof. rewrite memN_count. destruct (count N.eqb x l); [reflexivity | discriminate]. Qed.
Lemma count_mem x l : memN x l = true -> count N.eqb x l <> 0.
Proof. rewrite memN_count. destruct (count N.eqb x l); [discriminate | lia]. Qed.
Lemma memN_refl_app x l : memN x (l ++ [x]) = true.
Proof. rewrite memN_app, N.eqb_refl, orb_true_r. reflexivity. Qed.

(* ---- add *)
Lemma undo_add s c p f : wf_api_b E s (AAdd c p f) = true -> Undoable E s (AAdd c p f).
Proof.
  cbn [wf_api_b]. intros H. apply andb_true_iff in H. destruct H as [H Hf].
  apply andb_true_iff in H. destruct H as [H Hvf].
  apply andb_true_iff in H. destruct H as [Hb Hsl].
  apply negb_true_iff in Hsl. apply negb_true_iff in Hb. unfold bound in Hb.
  destruct (lookup p (pc s)) eqn:Hlk; [discriminate|].
  set (l := map IB (check_limiters E p s) ++ map IP (slot_conflicts E p s)).
  destruct (negb (is_nil l) && negb f) eqn:Hcase.
  - (* refused *)
    apply andb_true_iff in Hcase. destruct Hcase as [H1 H2].
    apply negb_true_iff in H1. apply negb_true_iff in H2.
    eapply (undoable_noop _ _ (Some l)). cbn [call]. unfold add_apply, bind, fill_slotting. fold l.
    rewrite H1, H2. cbn. reflexivity.
  - assert (Hgo : is_nil l || f = true).
    { destruct (is_nil l), f; cbn in *; congruence. }
    unfold Undoable. cbn [call]. unfold add_apply, bind, fill_slotting. fold l.
    rewrite Hgo, Hcase. cbn.
    eexists _, None, [OAdd c p f]. split; [reflexivity|]. split; [reflexivity|].
    eapply undo_seg with (seg := [OAdd c p f]); [reflexivity | |].
    + cbn. unfold bind, remove_slotting. cbn. rewrite memN_refl_app. cbn.
      unfold pc_del. cbn. rewrite N.eqb_refl. cbn. reflexivity.
    + constructor; cbn -[memN]; intros; try reflexivity.
      * rewrite (count_filter N.eqb N_reflects), (count_app N.eqb). cbn.
        destruct (N.eqb p0 p) eqn:Hpp; cbn.
        -- apply N.eqb_eq in Hpp. subst p0. rewrite (count_notmem _ _ Hsl). reflexivity.
        -- lia.
      * rewrite !lookup_filter_ne.
        destruct (N.eqb p0 p) eqn:Hpp; [apply N.eqb_eq in Hpp; subst; auto | reflexivity].
Qed.

(* ---- hardref, backref *)
Lemma undo_hardref s r : Undoable E s (AHardref r).
Proof.
  unfold Undoable. cbn. eexists _, None, [OHardref r]. split; [reflexivity|]. split; [reflexivity|].
  eapply undo_seg with (seg := [OHardref r]); [reflexivity | |].
  - cbn. unfold bind, fr_remove. cbn. rewrite memN_refl_app. cbn. reflexivity.
  - constructor; cbn; intros; try reflexivity.
    rewrite (count_remove1 N.eqb N_reflects), (count_app N.eqb). cbn.
    Show. Abort.
End Invariant.
