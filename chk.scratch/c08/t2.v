From Verif Require Import C08.Model_C08.
