(* Spec_C41.v — the statement of C41 over the transition system of Model_C41:
   "for any input sequence, worker function and number of threads, the parallel map calls the
    worker on each item exactly once and returns every non-empty result, under every thread
    scheduling".  A scheduling is a run of the LTS; "every scheduling" is quantification over all
    reachable states.  Also the executable acceptor used on what the IMPLEMENTATION did. *)
From Coq Require Import List NArith ZArith Bool Arith Permutation.
Import ListNotations.
From Verif Require Import Base.Val C41.Lts C41.Model_C41.

Definition step (c : cfg) : state -> label -> state -> Prop := fstep state label (stepf c).
Definition is_init (c : cfg) (s : state) : Prop := s = init c.
Definition reachable (c : cfg) (s : state) : Prop := Lts.reachable state label (step c) (is_init c) s.

(* ---- where an item can be *)
Fixpoint qitems (l : list (option item)) : list item :=
  match l with [] => [] | Some x :: r => x :: qitems r | None :: r => qitems r end.
Definition inflight (l : list wst) : list item :=
  flat_map (fun v => match v with WBusy _ x => [x] | _ => [] end) l.
Definition unput (c : cfg) (p : mpc) : list item :=
  match p with MStart _ => items c | MFeed r => r | _ => [] end.

(* ---- the functor *)
Definition dies (c : cfg) (x : item) : bool := match fout c x with Die => true | Ok _ => false end.
Definition ndie (c : cfg) (l : list item) : nat := length (filter (dies c) l).
Definition ys_of (c : cfg) (x : item) : list N := match fout c x with Ok ys => ys | Die => [] end.
Definition all_yields (c : cfg) : list N := flat_map (ys_of c) (items c).

(* map_async returned to its caller (did not propagate an exception of the iterable) *)
Definition returned (c : cfg) (s : state) : Prop := terminal s = true /\ iter_raises c = false.

(* ---- the statement, piece by piece *)
(* invariant: processed ⊎ in-flight ⊎ queued ⊎ not-yet-put = items *)
Definition conservation_stmt : Prop := forall c s, reachable c s ->
  Permutation (processed s ++ inflight (ws s) ++ qitems (q s) ++ unput c (pc s)) (items c).

(* the full statement: any items, any functor, any thread count *)
Definition exactly_once_full : Prop := forall c s, reachable c s -> returned c s ->
  Permutation (processed s) (items c).

(* precondition surfaced by the proof: some worker survives (fewer raising items than workers),
   or there is nothing to do *)
Definition pool_adequate (c : cfg) : Prop := ndie c (items c) < parallelism c \/ items c = [].

Definition exactly_once_stmt : Prop := forall c s, reachable c s -> returned c s -> pool_adequate c ->
  Permutation (processed s) (items c).

Definition results_complete_stmt : Prop := forall c s, reachable c s -> returned c s -> pool_adequate c ->
  match mode c with
  | Gen => Permutation (results s) (map RY (all_yields c))
  | RetList =>
      ndie c (items c) = 0 ->
      exists accs, Permutation (results s) (map RL accs) /\ length accs = parallelism c /\
                   Permutation (concat accs) (all_yields c)
  | RetNone => results s = []
  end.

Definition no_deadlock_stmt : Prop := forall c s, reachable c s -> terminal s = false ->
  exists l s', step c s l s'.

Definition always_terminates_stmt : Prop :=
  (forall c s l s', step c s l s' -> measure c s' < measure c s) /\
  (forall c (f : nat -> state), ~ (forall n, exists l, step c (f n) l (f (S n)))) /\
  (forall c tr s, star state label (step c) (init c) tr s -> length tr <= measure c (init c)) /\
  no_deadlock_stmt /\
  (forall c s, reachable c s -> exists tr s', star state label (step c) s tr s' /\ terminal s' = true).

(* ---------------------------------------------------------------- executable acceptor (B) *)
Fixpoint remove1 (x : N) (l : list N) : option (list N) :=
  match l with
  | [] => None
  | y :: r => if N.eqb x y then Some r else option_map (cons y) (remove1 x r)
  end.
Fixpoint perm_eqb (a b : list N) : bool :=
  match a with
  | [] => match b with [] => true | _ => false end
  | x :: a' => match remove1 x b with Some b' => perm_eqb a' b' | None => false end
  end.
Fixpoint sub_msetb (a b : list N) : bool :=      (* a is a sub-multiset of b *)
  match a with
  | [] => true
  | x :: a' => match remove1 x b with Some b' => sub_msetb a' b' | None => false end
  end.

Definition dec_nlist (v : val) : option (list N) :=
  match v with
  | VL l => Some (map (fun e => match e with VZ z => Z.to_N z | _ => 0%N end) l)
  | _ => None
  end.
Fixpoint dec_lists (l : list val) : option (list (list N)) :=
  match l with
  | [] => Some []
  | v :: r => match dec_nlist v, dec_lists r with Some a, Some b => Some (a :: b) | _, _ => None end
  end.

Definition adequateb (c : cfg) : bool :=
  (ndie c (items c) <? parallelism c) || match items c with [] => true | _ => false end.

(* true = what the implementation did (recorded result: [raised; handled items; results]) is
   acceptable to the statement; outside [pool_adequate] (the known classes) only "at most once"
   is demanded here, the harness classifies those cases *)
Definition spec_outcome_ok (i : cfg * list N) (r : val) : bool :=
  let c := fst i in
  match r with
  | VL [VB raised; hv; VL rs] =>
      match dec_nlist hv with
      | None => false
      | Some handled =>
          Bool.eqb raised (iter_raises c) &&
          if raised then sub_msetb handled (items c)
          else if adequateb c then
            perm_eqb handled (items c) &&
            match mode c with
            | Gen => match dec_nlist (VL rs) with Some ys => perm_eqb ys (all_yields c) | None => false end
            | RetList =>
                match dec_lists rs with
                | Some accs =>
                    if Nat.eqb (ndie c (items c)) 0
                    then Nat.eqb (length accs) (parallelism c) && perm_eqb (concat accs) (all_yields c)
                    else sub_msetb (concat accs) (all_yields c)
                | None => false
                end
            | RetNone => match rs with [] => true | _ => false end
            end
          else sub_msetb handled (items c)
      end
  | _ => false
  end.
