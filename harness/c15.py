"""C15 — successful resolutions produce dependency-closed, slot-consistent plans (DESIGN §6 C15).

The resolver's search (plan.py) is not transcribed.  What is proved is a CERTIFIED PLAN CHECKER
(coq/C15: check_plan sound and complete for the statement ValidPlan); what is run on every check:

  table   choice_point._reset_iters / reduce_atoms are parsed (ast) into coq/gen/Tables_choice_point.v;
          Proofs_C15.each_class_reads_its_own_attribute is re-checked by the kernel against it
  plans   random source repositories + installed databases, random targets, the three resolver
          configurations, run through the real merge_plan; every *successful* result's
          state.iter_ops(True) is exported with the universe and the match relation computed by the
          real atom.match, and Model_C15.check_plan is evaluated on it INSIDE Coq (expected: true).
          The same conditions are evaluated by a direct Python oracle to name the failing clause.
          An exception or a hang while building/running a resolver is a violation by itself.
"""

from __future__ import annotations

import ast
import signal

from .common import Check, Err, Raw, cN, cbool, clist

IMPORTS = ("From Coq Require Import List NArith ZArith Bool.\n"
           "From Verif Require Import Base.Val C15.Model_C15 C15.Spec_C15.")
ANCHORS = ["resolver/plan.py", "resolver/choice_point.py", "resolver/state.py",
           "resolver/pigeonholes.py", "ebuild/resolver.py"]
CLASSES = ("depend", "bdepend", "rdepend", "idepend", "pdepend")
KINDS = ("upgrade", "min", "empty")
VERS = ("1", "2", "3", "1.5", "2-r1", "3_rc1", "0.9")
SLOTS = ("0", "0", "0", "1", "2")
TIMEOUT_S = 2


class Hang(BaseException):
    pass


# --------------------------------------------------------------------------- generator
def _atom_text(rng, key, have=None):
    """one dependency atom on `key` (ranges, slots, revisions, globs); versions and slots are mostly
    taken from the packages that exist for the key so that most atoms have a candidate."""
    r = rng.random()
    cands = (have or {}).get(key)
    if cands and rng.random() < 0.8:
        v, sl = rng.choice(cands)
    else:
        v, sl = rng.choice(VERS), rng.choice(SLOTS)
    if r < 0.40:
        s = key
    elif r < 0.55:
        s = f">={key}-{v}"
    elif r < 0.65:
        s = f"<{key}-{v}"
    elif r < 0.72:
        s = f"={key}-{v}"
    elif r < 0.78:
        s = f"~{key}-{v.split('-r')[0]}"
    elif r < 0.83:
        s = f"<={key}-{v}"
    elif r < 0.87:
        s = f">{key}-{v}"
    elif r < 0.90:
        s = f"={key}-{v.split('-r')[0].split('_')[0].split('.')[0]}*"
    else:
        s = f"{key}:{sl}"
    if r < 0.87 and rng.random() < 0.15:
        s += ":" + sl
    return s


def _akey(a):
    """a/pN of an atom text"""
    import re
    return re.search(r"a/p\d+", a).group(0)


def _depstring(rng, keys, own_key, density, have=None):
    toks = []
    n = 0
    while rng.random() < density and n < 3:
        n += 1
        r = rng.random()
        others = [k for k in keys if k != own_key] or keys
        if r < 0.62:
            toks.append(_atom_text(rng, rng.choice(keys if rng.random() < 0.12 else others), have))
        elif r < 0.82:
            alts = [_atom_text(rng, rng.choice(others), have) for _ in range(rng.choice((2, 2, 3)))]
            toks.append("|| ( " + " ".join(alts) + " )")
        else:
            # weak / strong blocker, on another key (or an older version of our own key)
            if rng.random() < 0.2:
                b = f"<{own_key}-{rng.choice(VERS)}"
            else:
                b = _atom_text(rng, rng.choice(others), have)
            toks.append(("!!" if rng.random() < 0.35 else "!") + b)
    return " ".join(toks)


def gen_scenario(rng, big=False):
    nkeys = rng.choice((2, 3, 3, 4, 5, 6) if big else (2, 3, 3, 4, 5))
    keys = [f"a/p{i}" for i in range(nkeys)]
    density = rng.choice((0.25, 0.4, 0.55, 0.7))
    nsrc = rng.randint(2, 9 if not big else 12)
    seen = set()
    shape = []
    for _ in range(nsrc):
        k = rng.choice(keys)
        v = rng.choice(VERS)
        if (k, v) in seen:
            continue
        seen.add((k, v))
        shape.append((k, v, rng.choice(SLOTS)))
    have = {}
    for k, v, sl in shape:
        have.setdefault(k, []).append((v, sl))
    src = []
    for k, v, slot in shape:
        deps = {}
        for c in CLASSES:
            if rng.random() < (0.45 if c in ("depend", "rdepend") else 0.25):
                d = _depstring(rng, keys, k, density, have)
                if d:
                    deps[c] = d
        src.append([f"{k}-{v}", slot, deps])
    # installed database: mostly versions that also exist in the source repo (same slot and deps, or
    # drifted), sometimes packages that no longer exist upstream; one package per (key, slot)
    vdb = []
    used = set()
    for _ in range(rng.choice((0, 1, 2, 3, 4, 5))):
        if src and rng.random() < 0.7:
            cpv, slot, deps = rng.choice(src)
            deps = dict(deps) if rng.random() < 0.7 else {}
        else:
            k = rng.choice(keys)
            cpv, slot, deps = f"{k}-{rng.choice(VERS)}", rng.choice(SLOTS), {}
            for e in src:                  # one cpv has one SLOT, whichever repository holds it
                if e[0] == cpv:
                    slot = e[1]
            if rng.random() < 0.5:
                d = _depstring(rng, keys, k, density, have)
                if d:
                    deps[rng.choice(CLASSES)] = d
        k = cpv.rsplit("-", 2 if "-r" in cpv else 1)[0]
        if (k, slot) in used or (k, cpv) in used:
            continue
        used.add((k, slot))
        used.add((k, cpv))
        vdb.append([cpv, slot, deps])
    # a consistent installed database: no installed package carries a blocker on an installed key
    vkeys = {u[0] for u in used}
    for ent in vdb:
        nd = {}
        for c, d in ent[2].items():
            keep = []
            for t in _dep_tokens(d):
                t = [x for x in t if not (x.startswith("!") and _akey(x) in vkeys)]
                if len(t) == 3:          # "|| ( )" left empty
                    continue
                if t:
                    keep.append(" ".join(t))
            if keep:
                nd[c] = " ".join(keep)
        ent[2] = nd
    targets = []
    for _ in range(rng.choice((1, 1, 1, 2, 2, 3))):
        t = _atom_text(rng, rng.choice(keys), have)
        if t not in targets:
            targets.append(t)
    return {"vdb": vdb, "src": src, "targets": targets, "kind": rng.choice(KINDS), "built": rng.random() < 0.7}


def gen_built_scenario(rng):
    """structured family around `built` installed packages whose recorded dependencies differ from their
    source twins, and around candidate fallback inside one atom:
      A  the first candidate of an atom is an INSTALLED package that gets rejected (dangling
         RDEPEND/IDEPEND/PDEPEND), the next candidate is a SOURCE package whose DEPEND/BDEPEND needs a
         further merge;
      B  the converse: the first candidate is a SOURCE package that cannot be resolved, the next one is the
         INSTALLED copy whose recorded DEPEND/BDEPEND no longer resolves (irrelevant for a built package),
         and the target's highest version needs that dependency.
    The atom is a target itself or a dependency of the target; upgrade / min-install / empty-tree."""
    shape = rng.choice("AAB")
    build = rng.choice(("depend", "bdepend"))
    run = rng.choice(("rdepend", "rdepend", "idepend", "pdepend"))
    src, vdb = [], []
    if shape == "A":
        iv = rng.choice(("2", "2", "3"))                       # installed copy tied or highest
        sv = rng.choice(("2", "1")) if iv == "2" else rng.choice(("2", "1"))
        vdb.append([f"a/bar-{iv}", "0", {run: "a/zz"}])        # rejected: dangling run-time dependency
        sdeps = {build: rng.choice(("a/e", "a/e", ">=a/e-1", "|| ( a/zz a/e )"))}
        if rng.random() < 0.3:
            sdeps["rdepend"] = "a/e"
        src.append([f"a/bar-{sv}", "0", sdeps])
        if rng.random() < 0.3 and sv != "1":
            src.append(["a/bar-1", "0", {build: "a/e"}])
        src.append(["a/e-1", "0", {} if rng.random() < 0.6 else {rng.choice(CLASSES): "a/f"}])
        src.append(["a/f-1", "0", {}])
        if rng.random() < 0.25:
            vdb.append(["a/f-1", "0", {}])
        kind = rng.choice(("upgrade", "upgrade", "min"))
    else:
        src.append(["a/bar-2", "0", {rng.choice(CLASSES): "a/zz"}])      # newest source copy unresolvable
        vdb.append(["a/bar-1", "0", {build: rng.choice(("a/old", "a/old", "=a/e-0.9"))}])
        if rng.random() < 0.5:
            src.append(["a/bar-1", "0", {} if rng.random() < 0.5 else {build: "a/e"}])  # twin, other deps
        src.append(["a/e-1", "0", {}])
        kind = rng.choice(("upgrade", "upgrade", "upgrade", "min"))
    if rng.random() < 0.65 or shape == "B":
        fdep = rng.choice(CLASSES)
        src.append(["a/foo-3", "0", {fdep: rng.choice(("a/bar", "a/bar", ">=a/bar-1", "a/bar:0"))}])
        src.append(["a/foo-2", "0", {}])
        if rng.random() < 0.3:
            vdb.append(["a/foo-2", "0", {}])
        targets = ["a/foo"]
    else:
        targets = [rng.choice(("a/bar", "a/bar", ">=a/bar-1"))]
    if rng.random() < 0.3:
        src.append(["a/g-1", "0", {"rdepend": "a/e"}])
        targets.append("a/g")
        if rng.random() < 0.5:
            targets.reverse()
    rng.shuffle(src)
    return {"vdb": vdb, "src": src, "targets": targets, "kind": kind, "built": True, "family": "built"}


# --------------------------------------------------------------------------- implementation driver
def key_of(cpv):
    from pkgcore.ebuild.cpv import CPV
    return CPV(cpv, versioned=True).key


class World:
    """The real objects of one scenario: FakeRepo/FakePkg instances, atoms, the match relation."""

    def __init__(self, scn):
        from pkgcore.ebuild.atom import atom
        from pkgcore.ebuild.conditionals import DepSet
        from pkgcore.test.misc import FakePkg, FakeRepo

        self.scn = scn
        # "built": installed packages carry built=True (merge_plan then skips their DEPEND/BDEPEND unless
        # process_built_depends); absent in older corpus entries = the FakePkg default (False)
        self.built = bool(scn.get("built", False))
        self.vdb = FakeRepo(repo_id="vdb", livefs=True)
        self.src = FakeRepo(repo_id="src", livefs=False)
        self.pkgs = []      # real package objects, vdb first
        self.meta = []      # (key, slot, livefs, {class: cnf})   cnf = [[(atomtext, blocks)]]
        atoms = {}
        for repo, specs in ((self.vdb, scn["vdb"]), (self.src, scn["src"])):
            lst = []
            for cpv, slot, deps in specs:
                p = FakePkg(cpv, repo=repo, slot=slot, eapi="8")
                cnfs = {}
                for c in CLASSES:
                    ds = DepSet.parse(deps.get(c, ""), atom)
                    object.__setattr__(p, c, ds)
                    cnf = []
                    for clause in ds.cnf_solutions():
                        alts = []
                        for a in clause:
                            atoms.setdefault(str(a), a)
                            alts.append((str(a), bool(a.blocks)))
                        cnf.append(alts)
                    cnfs[c] = cnf
                if repo.livefs and self.built:
                    object.__setattr__(p, "built", True)      # installed packages are built packages
                lst.append(p)
                self.pkgs.append(p)
                self.meta.append((p.key, str(slot), repo.livefs, cnfs))
            repo.pkgs = lst
        self.targets = [atom(t) for t in scn["targets"]]
        for t in self.targets:
            atoms.setdefault(str(t), t)
        self.atom_names = sorted(atoms)
        self.atom_id = {s: i for i, s in enumerate(self.atom_names)}
        self.match = [[j for j, p in enumerate(self.pkgs) if atoms[s].match(p)] for s in self.atom_names]
        self.pid = {id(p): i for i, p in enumerate(self.pkgs)}
        self.keys = sorted({m[0] for m in self.meta})
        self.slots = sorted({m[1] for m in self.meta})

    def resolver(self):
        from pkgcore.ebuild import resolver
        kind = self.scn["kind"]
        if kind == "upgrade":
            return resolver.upgrade_resolver([self.vdb], [self.src])
        if kind == "min":
            return resolver.min_install_resolver([self.vdb], [self.src])
        return resolver.upgrade_resolver([self.vdb], [self.src], resolver_cls=resolver.empty_tree_merge_plan)

    def resolve(self):
        """-> ('ok', ops) | ('fail', None) | Err(kind).  ops = [[code, pkg, old]] (0 add 1 remove 2 replace)."""
        def on_alarm(*_):
            raise Hang()

        old = signal.signal(signal.SIGVTALRM, on_alarm)
        try:
            signal.setitimer(signal.ITIMER_VIRTUAL, TIMEOUT_S, 0.2)
            try:
                return self._resolve()
            finally:
                signal.setitimer(signal.ITIMER_VIRTUAL, 0)
        except Hang:
            return Err("Hang")
        finally:
            signal.signal(signal.SIGVTALRM, old)

    def _resolve(self):
        try:
            r = self.resolver()
            ret = r.add_atoms(list(self.targets))
            if ret:
                return ("fail", None)
            ops = []
            for op in r.state.iter_ops(True):
                code = {"add": 0, "remove": 1, "replace": 2}[op.desc]
                oldp = self.pid[id(op.old_pkg)] if code == 2 else None
                ops.append([code, self.pid[id(op.pkg)], oldp, bool(op.force)])
            return ("ok", ops)
        except RecursionError:
            return Err("RecursionError")
        except Exception as e:  # noqa: BLE001
            return Err(type(e).__name__)


# --------------------------------------------------------------------------- the statement, in Python
def final_state(w: World, ops):
    st = [i for i, m in enumerate(w.meta) if m[2]]
    for code, p, old, *_ in ops:
        if code == 0:
            if p not in st:
                st.append(p)
        elif code == 1:
            st = [x for x in st if x != p]
        else:
            st = [x for x in st if x != old]
            if p not in st:
                st.append(p)
    return st


def py_check(w: World, ops):
    """The four clauses of the statement on the final state; returns a list of failure descriptions."""
    bad = []
    fin = final_state(w, ops)
    finset = set(fin)
    planned = []
    for code, p, old, *_ in ops:
        if code in (0, 2) and p in finset and p not in planned:
            planned.append(p)
    merged = [p for p in planned if not w.meta[p][2]]
    # well-formedness of the op list
    st = {i for i, m in enumerate(w.meta) if m[2]}
    for n, (code, p, old, *_) in enumerate(ops):
        if code == 0:
            if w.meta[p][2] and p not in st:
                bad.append(("wf", f"op {n} adds an installed package that was removed"))
            st.add(p)
        elif code == 1:
            if p not in st:
                bad.append(("wf", f"op {n} removes a package that is not present"))
            st.discard(p)
        else:
            if old not in st:
                bad.append(("wf", f"op {n} replaces a package that is not present"))
            if w.meta[old][:2] != w.meta[p][:2]:
                bad.append(("wf", f"op {n} replaces across key/slot"))
            st.discard(old)
            st.add(p)
    for t in w.targets:
        if not finset & set(w.match[w.atom_id[str(t)]]):
            bad.append(("target", str(t)))
    for p in merged:
        for c in CLASSES:
            for clause in w.meta[p][3][c]:
                ok = False
                for a, blocks in clause:
                    m = set(w.match[w.atom_id[a]]) & finset
                    if blocks:
                        ok = ok or not (m - {p})
                    else:
                        ok = ok or bool(m)
                if not ok:
                    bad.append(("dep", {"pkg": w.scn_name(p), "class": c, "clause": [a for a, _ in clause]}))
    seen = {}
    for p in fin:
        ks = w.meta[p][:2]
        if ks in seen:
            bad.append(("slot", {"key": ks[0], "slot": ks[1], "pkgs": [w.scn_name(seen[ks]), w.scn_name(p)]}))
        seen[ks] = p
    for p in planned:
        for c in CLASSES:
            if w.meta[p][2] and w.built and c in ("depend", "bdepend"):
                continue        # build-time dependencies of an already built package bind nothing
            for clause in w.meta[p][3][c]:
                if len(clause) == 1 and clause[0][1]:
                    hit = (set(w.match[w.atom_id[clause[0][0]]]) & finset) - {p}
                    if hit:
                        bad.append(("blocker", {"pkg": w.scn_name(p), "class": c, "blocker": clause[0][0],
                                                "hits": [w.scn_name(h) for h in sorted(hit)]}))
    return bad


def _scn_name(self, i):
    nv = len(self.scn["vdb"])
    return ("vdb:" + self.scn["vdb"][i][0]) if i < nv else ("src:" + self.scn["src"][i - nv][0])


World.scn_name = _scn_name


# --------------------------------------------------------------------------- Coq encoding
def c_nl(xs):
    xs = list(xs)
    return "[" + ";".join(str(int(x)) for x in xs) + "]%N" if xs else "(@nil N)"


def c_world(w: World, ops):
    """compact term: mkcase pkgs match targets ops.
    pkg  = P key slot livefs [class cnfs]   clause = list of N: 2*atom + blocks"""
    kid = {k: i for i, k in enumerate(w.keys)}
    sid = {s: i for i, s in enumerate(w.slots)}
    ps = []
    for key, slot, livefs, cnfs in w.meta:
        cls = []
        for c in CLASSES:
            if livefs and w.built and c in ("depend", "bdepend"):
                cls.append(clist([], "list N"))      # see py_check: build-time classes of a built package
                continue
            cls.append(clist([c_nl(2 * w.atom_id[a] + (1 if b else 0) for a, b in clause) for clause in cnfs[c]],
                             "list N"))
        ps.append(f"P {kid[key]} {sid[slot]} {cbool(livefs)} {clist(cls)}")
    mt = clist([c_nl(r) for r in w.match], "list N")
    tg = c_nl(w.atom_id[str(t)] for t in w.targets)
    os_ = clist([f"O {code} {p} {0 if old is None else old}" for code, p, old, *_ in ops], "op")
    return f"(mkcase {clist(ps, 'pkg')} {mt} {tg} {os_})"


# --------------------------------------------------------------------------- regenerated table
def gen_tables():
    from . import tables
    from .tables import TableError

    tree = tables.parse("resolver/choice_point.py")
    fn = tables.find_func(tree, "choice_point._reset_iters")
    rows = []
    for st in fn.body:
        if isinstance(st, ast.Expr) and isinstance(st.value, ast.Constant):
            continue  # docstring
        if (isinstance(st, ast.Assign) and len(st.targets) == 1 and isinstance(st.targets[0], ast.Name)
                and st.targets[0].id == "cur"):
            v = st.value
            if not (isinstance(v, ast.Attribute) and isinstance(v.value, ast.Name) and v.value.id == "self"
                    and v.attr == "matches_cur"):
                raise TableError("_reset_iters: `cur` is no longer self.matches_cur")
            continue
        # self._X = cur.<attr>.cnf_solutions()
        try:
            (tgt,) = st.targets
            assert isinstance(st, ast.Assign)
            assert isinstance(tgt, ast.Attribute) and tgt.value.id == "self"
            call = st.value
            assert isinstance(call, ast.Call) and not call.args and not call.keywords
            assert call.func.attr == "cnf_solutions"
            src = call.func.value
            assert isinstance(src, ast.Attribute) and src.value.id == "cur"
        except (AssertionError, AttributeError, ValueError) as e:
            raise TableError(f"_reset_iters: unrecognised statement {ast.dump(st)[:160]}") from e
        rows.append((tgt.attr, src.attr))
    if not rows:
        raise TableError("_reset_iters: no assignments found")
    # the tuple of slot names reduce_atoms filters
    ra = tables.find_func(tree, "choice_point.reduce_atoms")
    names = None
    for n in ast.walk(ra):
        if isinstance(n, ast.For) and isinstance(n.target, ast.Name) and n.target.id == "depset_name":
            names = tables.literal(n.iter)
    if names is None:
        raise TableError("reduce_atoms: the `for depset_name in (...)` loop was not found")
    # which slot each public property returns
    props = []
    for pname in ("bdepend", "depend", "rdepend", "pdepend", "idepend"):
        f = tables.find_func(tree, f"choice_point.{pname}")
        ret = [s for s in f.body if isinstance(s, ast.Return)]
        try:
            (r,) = ret
            assert isinstance(r.value, ast.Attribute) and r.value.value.id == "self"
        except (AssertionError, AttributeError, ValueError) as e:
            raise TableError(f"choice_point.{pname}: unrecognised body") from e
        props.append((pname, r.value.attr))
    from .common import cstr
    txt = tables.header("resolver/choice_point.py")
    txt += "Definition reset_iters : list (str * str) :=\n  [" + ";\n   ".join(
        f"({cstr(a)}, {cstr(b)})" for a, b in rows) + "].\n"
    txt += "Definition reduce_names : list str :=\n  [" + "; ".join(cstr(a) for a in names) + "].\n"
    txt += "Definition prop_slots : list (str * str) :=\n  [" + ";\n   ".join(
        f"({cstr(a)}, {cstr(b)})" for a, b in props) + "].\n"
    return {"Tables_choice_point.v": txt}


# --------------------------------------------------------------------------- known findings
def _dep_graph(w: World):
    """p -> q when resolving p can recurse into q: q matches a non-blocker alternative of p, or q is
    another version of the key a weak blocker of p names (the resolver then tries to re-resolve that
    key to something the blocker does not match)."""
    g = {i: set() for i in range(len(w.meta))}
    for p, (_, _, _, cnfs) in enumerate(w.meta):
        for c in CLASSES:
            for clause in cnfs[c]:
                for a, blocks in clause:
                    m = set(w.match[w.atom_id[a]])
                    if not blocks:
                        g[p] |= m
                    elif not a.startswith("!!"):
                        k = _akey(a)
                        g[p] |= {q for q, mq in enumerate(w.meta) if mq[0] == k and q not in m}
    return g


def _reach(g, starts):
    seen, todo = set(), list(starts)
    while todo:
        x = todo.pop()
        if x in seen:
            continue
        seen.add(x)
        todo.extend(g[x])
    return seen


def kf_cycle_nontermination(w: World, err: str) -> bool:
    """known class `cycle-nontermination`: the resolver recursed without bound (RecursionError, or no
    answer within the time limit) AND a candidate of some target reaches a dependency cycle."""
    if err not in ("RecursionError", "Hang"):
        return False
    g = _dep_graph(w)
    starts = set()
    for t in w.targets:
        starts |= set(w.match[w.atom_id[str(t)]])
    r = _reach(g, starts)
    return any(x in _reach(g, g[x]) for x in r)


def kf_slot_contention(w: World, ops, failure) -> bool:
    """known class `slot-contention`: an unmet requirement (a target, or a clause of a merged package)
    one of whose plain alternatives is matched by a package R of the universe whose (key, slot) is held
    in the final state by a different package: two requirements competed for one slot and the resolver
    reported success although only one of them can hold."""
    kind, d = failure
    if kind == "target":
        alts = [d]
    elif kind == "dep":
        alts = [a for a in d["clause"] if not a.startswith("!")]
    else:
        return False
    fin = final_state(w, ops)
    held = {w.meta[p][:2]: p for p in fin}
    for a in alts:
        for r in w.match[w.atom_id[a]]:
            h = held.get(w.meta[r][:2])
            if h is not None and h != r:
                return True
    return False


def kf_forced_vdb_load(w: World, ops, failure) -> bool:
    """known class `forced-vdb-load`: the violated blocker belongs to an installed package that entered
    the plan through a *forced* add (plan._ensure_livefs_is_loaded side-loads installed packages without
    processing their dependencies or blockers)."""
    kind, d = failure
    if kind != "blocker" or not d["pkg"].startswith("vdb:"):
        return False
    forced = {w.scn_name(o[1]) for o in ops if o[0] == 0 and len(o) > 3 and o[3]}
    return d["pkg"] in forced


def kf_cycle_assumed(w: World, ops, failure) -> bool:
    """known class `cycle-assumed`: an unmet clause of a merged package P one of whose plain
    alternatives is matched by a package R that itself (transitively) depends on P: the dependency
    closes a cycle, check_for_cycles answers "satisfied" on the assumption that the package under
    resolution higher in the stack will be inserted, and that package is later abandoned."""
    kind, d = failure
    if kind != "dep":
        return False
    names = [w.scn_name(i) for i in range(len(w.meta))]
    p = names.index(d["pkg"])
    g = _dep_graph(w)
    for a in d["clause"]:
        if a.startswith("!"):
            continue
        for r in w.match[w.atom_id[a]]:
            if p in _reach(g, [r]):
                return True
    return False


def classify(w: World, ops, failure):
    if kf_slot_contention(w, ops, failure):
        return "slot-contention"
    if kf_cycle_assumed(w, ops, failure):
        return "cycle-assumed"
    if kf_forced_vdb_load(w, ops, failure):
        return "forced-vdb-load"
    return None


# --------------------------------------------------------------------------- main
def run_stream(chk: Check, n, big=False):
    rng = chk.rng
    out = []
    for _ in range(n):
        scn = gen_scenario(rng, big)
        out.append(scn)
    return out


def evaluate(chk: Check, scn):
    """-> (World, result) where result is ('ok', ops) / ('fail', None) / Err"""
    try:
        w = World(scn)
    except Exception as e:  # noqa: BLE001  generator produced something the parsers refuse
        return None, Err("gen:" + type(e).__name__)
    return w, w.resolve()


def main(chk: Check):
    import logging
    import sys

    from . import tables
    from .tables import TableError

    logging.disable(logging.WARNING)
    chk.rule("random source repository (2-12 packages over 2-6 keys, 7 versions, 3 slots) + installed db "
             "(0-5 packages, one per key/slot), dependency strings in all five classes (plain/ranged/slotted "
             "atoms, any-of groups, weak and strong blockers, cycles arise freely), 1-3 targets, resolver "
             "configuration upgrade/min-install/empty-tree; every successful add_atoms() is exported and "
             "check_plan evaluated in Coq.  non-trivial = successful plan with >=2 ops and >=1 dependency "
             "clause on a merged package")
    try:
        tables.regenerate(sys.modules[__name__])
    except TableError as e:
        chk.violation("table", {"what": f"Tables_choice_point.v cannot be regenerated: {e}"}, no_input=True)
    ok = chk.build(["C15/Prop_C15.vo"])
    if ok:
        chk.check_assumptions("C15/Prop_C15.v")
    chk.lint(["C15"])
    chk.check_fingerprint(ANCHORS)

    scns = (corpus_scenarios() + run_stream(chk, chk.n(600, 15000)) + run_stream(chk, chk.n(60, 2000), big=True)
            + [gen_built_scenario(chk.rng) for _ in range(chk.n(120, 3000))])
    cases, worlds = [], []
    stats = {"ok": 0, "fail": 0, "crash": 0}
    prop_bad = []          # unclassified property failures (violations)
    known_hits = {}
    for scn in scns:
        w, res = evaluate(chk, scn)
        if isinstance(res, Err):
            if res.kind.startswith("gen:"):
                chk.note(f"generator produced an input the parsers refuse: {res.kind}")
                continue
            stats["crash"] += 1
            if kf_cycle_nontermination(w, res.kind) and chk.known_finding(
                    "cycle-nontermination", {"input": scn, "error": res.kind}):
                known_hits["cycle-nontermination"] = known_hits.get("cycle-nontermination", 0) + 1
                continue
            prop_bad.append({"what": f"building/running the resolver raised {res.kind} on a well-formed repository",
                             "input": scn, "error": res.kind})
            continue
        if res[0] == "fail":
            stats["fail"] += 1
            continue
        stats["ok"] += 1
        ops = res[1]
        fails = py_check(w, ops)
        expect = not fails
        unclassified = []
        for f in fails:
            cid = classify(w, ops, f)
            if cid is not None and chk.known_finding(cid, {"input": scn, "ops": ops, "failed": f}):
                known_hits[cid] = known_hits.get(cid, 0) + 1
            else:
                unclassified.append(f)
        if unclassified:
            prop_bad.append({"what": "successful resolution whose plan violates the statement: "
                                     + ", ".join(sorted({f[0] for f in unclassified})),
                             "input": scn, "ops": ops, "failed": unclassified[:4]})
        cases.append((c_world(w, ops), Raw("(VB true)" if expect else "(VB false)")))
        worlds.append((scn, ops, fails))
        merged = {p for code, p, *_ in ops if code in (0, 2) and not w.meta[p][2]}
        if len(ops) >= 2 and any(w.meta[p][3][c] for p in merged for c in CLASSES):
            chk.nontrivial(repr((scn, ops)))
        if len(chk.cov["samples"]) < 3 and len(ops) >= 3:
            chk.sample({"stream": "plans", "input": scn, "ops": ops})
    chk.count("resolutions", stats["ok"] + stats["fail"] + stats["crash"])
    chk.cov["resolver_outcomes"] = stats
    chk.cov["known_finding_hits"] = known_hits
    chk.cov["ops_histogram"] = _hist(len(o) for _, o, _ in worlds)
    chk.cov["kinds"] = _hist2(s["kind"] for s, _, _ in worlds)

    # the verified checker, inside Coq, on every exported plan.  The recorded value is the verdict of
    # the harness's Python reading of the statement, so a mismatch is a disagreement between the two
    # readings (the Coq one is the proved one); the property verdict itself is reported below.
    if ok:
        r = chk.coq_eval("plans", IMPORTS, "case", cases, ["mismatches run_check cases"], shard=250)
        if r is not None:
            chk.count("plans_checked_in_coq", len(cases))
            for i in r[0][:3]:
                chk.violation("correspondence",
                              {"what": "Model_C15.check_plan (Coq, proved equivalent to ValidPlan) and the harness's "
                                       "Python reading of the statement disagree on an exported plan",
                               "input": worlds[i][0], "ops": worlds[i][1],
                               "python_failures": worlds[i][2][:4]}, no_input=not prop_bad)
    for b in prop_bad[:5]:
        small = b
        try:
            scn = _shrink_failure(b)
            w = World(scn)
            r = w.resolve()
            small = dict(b, input=scn)
            if not isinstance(r, Err) and r[0] == "ok":
                small["ops"] = r[1]
                small["failed"] = [f for f in py_check(w, r[1]) if classify(w, r[1], f) is None][:4]
        except Exception:  # noqa: BLE001
            pass
        chk.violation("property", small)


def _shrink_failure(b):
    """shrink a failing scenario while it keeps failing in the same way and stays unclassified"""
    crash = b.get("error")

    def fails(c):
        w = World(c)
        r = w.resolve()
        if crash is not None:
            return isinstance(r, Err) and r.kind == crash and not kf_cycle_nontermination(w, r.kind)
        if isinstance(r, Err) or r[0] != "ok":
            return False
        return any(classify(w, r[1], f) is None for f in py_check(w, r[1]))

    return shrink_scenario(b["input"], fails, budget=250)


def _hist2(xs):
    h = {}
    for x in xs:
        h[str(x)] = h.get(str(x), 0) + 1
    return dict(sorted(h.items()))


def _hist(xs):
    h = {}
    for x in xs:
        h[str(x)] = h.get(str(x), 0) + 1
    return dict(sorted(h.items(), key=lambda kv: int(kv[0])))


def corpus_scenarios():
    import json

    from .common import VERIF
    out = []
    d = VERIF / "corpus" / "C15"
    if d.is_dir():
        for p in sorted(d.glob("*.json")):
            try:
                out.append(json.loads(p.read_text())["input"])
            except Exception:  # noqa: BLE001
                pass
    return out


def replay(chk: Check, data):
    import logging
    logging.disable(logging.WARNING)
    scn = data.get("detail", {}).get("input") or data.get("input")
    if not isinstance(scn, dict):
        print("no scenario recorded in this replay file")
        return
    w, res = evaluate(chk, scn)
    print("implementation:", res)
    if not isinstance(res, Err) and res[0] == "ok":
        print("statement (python oracle):", py_check(w, res[1]) or "holds")
        r = chk.coq_eval("replay", IMPORTS, "case", [(c_world(w, res[1]), Raw("(VB true)"))],
                         ["mismatches run_check cases"])
        print("check_plan in Coq:", "rejects" if r and r[0] else "accepts")


# --------------------------------------------------------------------------- shrinking
def _dep_tokens(s):
    """split a dependency string into top-level clauses (atoms and `|| ( ... )` groups)."""
    out, toks, i = [], s.split(), 0
    while i < len(toks):
        if toks[i] == "||":
            j = toks.index(")", i)
            out.append(toks[i:j + 1])
            i = j + 1
        else:
            out.append([toks[i]])
            i += 1
    return out


def shrink_scenario(scn, fails, budget=400):
    """greedy delta-debugging over packages, targets, dependency classes, clauses and any-of members."""
    import copy
    cur = copy.deepcopy(scn)
    n = [0]

    def ok(c):
        n[0] += 1
        if n[0] > budget:
            return False
        try:
            return bool(fails(c))
        except Exception:  # noqa: BLE001
            return False

    changed = True
    while changed and n[0] <= budget:
        changed = False
        for part in ("src", "vdb", "targets"):
            i = 0
            while i < len(cur[part]):
                if part == "targets" and len(cur[part]) == 1:
                    break
                c = copy.deepcopy(cur)
                del c[part][i]
                if ok(c):
                    cur, changed = c, True
                else:
                    i += 1
        for part in ("src", "vdb"):
            for pi in range(len(cur[part])):
                for cls in list(cur[part][pi][2]):
                    c = copy.deepcopy(cur)
                    del c[part][pi][2][cls]
                    if ok(c):
                        cur, changed = c, True
                        continue
                    cl = _dep_tokens(cur[part][pi][2][cls])
                    k = 0
                    while k < len(cl) and len(cl) > 1:
                        c = copy.deepcopy(cur)
                        c[part][pi][2][cls] = " ".join(" ".join(t) for t in cl[:k] + cl[k + 1:])
                        if ok(c):
                            cur, changed = c, True
                            cl = cl[:k] + cl[k + 1:]
                        else:
                            k += 1
                    for k, t in enumerate(cl):
                        m = 2
                        while len(t) > 5 and m < len(t) - 1:      # || ( a b c ) -> drop a member
                            t2 = t[:m] + t[m + 1:]
                            c = copy.deepcopy(cur)
                            c[part][pi][2][cls] = " ".join(" ".join(x) for x in cl[:k] + [t2] + cl[k + 1:])
                            if ok(c):
                                cur, changed = c, True
                                t = cl[k] = t2
                            else:
                                m += 1
    return cur
