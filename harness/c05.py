"""C05 — atom intersection is symmetric, complete and witnessed (DESIGN §6 C05).

Streams
  isect   a.intersects(b) for ordered pairs of same-key atoms         impl vs Model_C05.intersects (A)
          (all operator cells x a 12-version pool x revision spellings, with and without
          slot / sub-slot / repository / USE constraints)
  sym     a.intersects(b) == b.intersects(a) on the implementation                            (B)
  wit     brute-force witness search on the implementation's own match():                     (B)
          a.intersects(b)  vs  exists p in U: a.match(p) and b.match(p)
          U = version universe closed under the perturbations the code reasons about (append
          _alpha / _p / a digit / a component / a letter, bump or respell the revision) x an
          attribute universe (slot, sub-slot, repo, every USE state with USE <= IUSE over 2 flags).
          Version and attribute restrictions of an atom read disjoint package attributes, so the
          two witness searches are done separately and combined.
Disagreements are classified by the predicates cls_* below (operator cell + version relation);
anything outside the listed classes is a violation.
"""

import itertools
import json

from . import c04, tables
from .c04 import OPID, OPS, atom_fields, c_atom, cls_glob, compile_pools, parse_plain, pkg_fields
from .common import VERIF, Check, Err, clist, impl_call
from .tables import TableError

IMPORTS = ("From Coq Require Import List NArith ZArith Bool.\n"
           "From Verif Require Import Base.Val C01.Model_C01 C04.Model_C04 C05.Model_C05.")
ANCHORS = ["ebuild/atom.py::atom.intersects", "ebuild/restricts.py::_VersionMatch.match"]

V12 = ["1", "1.0", "1.00", "1.1", "1.10", "1_alpha", "1_p1", "2", "10", "1a", "1.0.1", "0"]
VX = ["1_p", "1.01", "1_pre1", "1.1a", "12"]            # thorough / random extras
AREVS = ["", "", "-r0", "-r1", "-r2", "-r01"]
ATTRS = ["", ":0", ":1", ":0/1", ":0/2", ":1/1", "::gentoo", "::other", ":0::gentoo", "[x]", "[-x]", "[x(+)]",
         "[-x(+)]", "[x(-)]", "[-x(-)]", "[y]", "[x,y]", "[-x,-y]", "[x,-y]", "[-x,y(+)]", ":0[x]", ":1::other[-y]",
         ":0/1[x(+),-y]", ":="]
KEY = "a/b"
# versions equal under ver_cmp, spelt differently: every operator cell is run on every ordered
# pair of spellings of a group (an implementation that compares version TEXT where the pinned code
# compares with ver_cmp gives a wrong answer on some of these)
SPELL_GROUPS = [["1.0", "1.00"], ["1", "1-r0", "1-r00"], ["1-r1", "1-r01"], ["1_p", "1_p0"], ["1_alpha", "1_alpha0"],
                ["1.0.1-r2", "1.00.1-r02"]]


def _split_rev(v):
    base, sep, r = v.partition("-r")
    return base, (sep + r)


def parse_any(s):
    """atom(s), plain or with conditional USE deps (transitive_use_atom: intersects() is inherited
    and reads the same raw tokens)"""
    from pkgcore.ebuild.atom import atom
    try:
        return atom(s)
    except Exception:  # noqa: BLE001
        return None


def static_suffix(s):
    """an attribute suffix with its conditional USE deps (x?, !x?, x=, !x=) removed: whatever the
    parent's USE, a conditional dep only ADDS a constraint, so every package matching the evaluated
    atom matches this static part"""
    if "[" not in s:
        return s
    head, _, use = s.partition("[")
    toks = [t for t in use.rstrip("]").split(",") if t[-1] not in "?="]
    return head + ("[" + ",".join(toks) + "]" if toks else "")


def vtext(op, v, r):
    if not op:
        return KEY
    if op == "~":
        r = ""
    return ("=" if op == "=*" else op) + f"{KEY}-{v}{r}" + ("*" if op == "=*" else "")


# --------------------------------------------------------------------------- universes
def version_universe(versions):
    exts = ["", "_alpha", "_alpha_alpha", "_p", "_p1", "_pre", "0", "1", "9", "00", ".0", ".1", "a", "re"]
    revs = ["", "-r0", "-r1", "-r2", "-r3", "-r00", "-r01", "-r02", "-r03", "-r10", "-r19", "-r20", "-r29", "-r30", "-r011"]
    out = []
    seen = set()
    for v in versions:
        for e in exts:
            for r in revs:
                s = v + e + r
                if s not in seen:
                    seen.add(s)
                    out.append(s)
    return out


def attr_universe():
    out = []
    for slot, sub in (("0", "0"), ("0", "1"), ("0", "2"), ("1", "1"), ("1", "0")):
        for repo in ("gentoo", "other"):
            for iuse in ((), ("x",), ("y",), ("x", "y")):
                for k in range(len(iuse) + 1):
                    for use in itertools.combinations(iuse, k):
                        out.append((slot, sub, iuse, use, repo))
    return out


# --------------------------------------------------------------------------- classifier predicates
def _vc(v1, r1, v2, r2):
    from pkgcore.ebuild import cpv
    return cpv.ver_cmp(v1, r1, v2, r2)


def canon_version(fullver):
    """canonical spelling: zero-padded later components and suffix numbers normalised, -r0 dropped,
    leading zeros of the revision dropped"""
    ver, _, rev = fullver.partition("-r")
    parts = ver.split("_")
    nums = parts[0].split(".")
    letter = ""
    if nums[-1][-1].isalpha():
        letter, nums[-1] = nums[-1][-1], nums[-1][:-1]
    out = [str(int(nums[0]))]
    for c in nums[1:]:
        if c.startswith("0") and len(c) > 1:
            c = c.rstrip("0") or "0"
            c = c if c == "0" else c            # 0.060 -> 0.06
        out.append(c)
    ver = ".".join(out) + letter
    for sfx in parts[1:]:
        name = sfx.rstrip("0123456789")
        num = sfx[len(name):]
        ver += "_" + name + (str(int(num)) if num and int(num) else "")
    if rev and int(rev):
        ver += f"-r{int(rev)}"
    return ver


def canon_text(f):
    """the atom (fields) rewritten with canonical version spelling (attributes dropped)"""
    if f["op"] == 7:
        return KEY
    op = OPS[f["op"]]
    return ("=" if op == "=*" else op) + f"{f['cat']}/{f['pkg']}-{canon_version(f['fullver'])}" + ("*" if op == "=*" else "")


def cls_respelt(fa, fb):
    """incomplete: the cell is one where the pinned code tests version TEXT (a glob on one side, or
    two `~`), at least one atom is not canonically spelt (1.00 for 1.0, -r0, -r01) and the pair
    DOES intersect when both are written canonically.  Every other cell compares with ver_cmp and
    must be complete whatever the spelling."""
    if not (6 in (fa["op"], fb["op"]) or (fa["op"] == 5 and fb["op"] == 5)):
        return False
    ta, tb = canon_text(fa), canon_text(fb)
    if (ta, tb) == (vtext_of(fa), vtext_of(fb)):
        return False
    a, b = parse_plain(ta), parse_plain(tb)
    return a is not None and b is not None and bool(a.intersects(b))


def vtext_of(f):
    if f["op"] == 7:
        return KEY
    op = OPS[f["op"]]
    return ("=" if op == "=*" else op) + f"{f['cat']}/{f['pkg']}-{f['fullver']}" + ("*" if op == "=*" else "")


def cls_glob_nonboundary(fa, fb, witnesses):
    """incomplete: one atom is `=*` and every package matching both is matched by that glob only
    because its text ends inside a version component (C04 class glob-string-prefix)"""
    for g in (fa, fb):
        if g["op"] == 6 and witnesses and all(cls_glob(g, {"fullver": w}) for w in witnesses):
            return True
    return False


def cls_adjacent_revisions(fa, fb):
    """unwitnessed: `>V-rN` against `<V'-r(N+1)` with V == V' as versions: nothing lies between"""
    for g, l in ((fa, fb), (fb, fa)):
        if g["op"] == 4 and l["op"] == 0 and _vc(g["ver"], None, l["ver"], None) == 0 \
                and (l["rev"] or 0) == (g["rev"] or 0) + 1:
            return True
    return False


def cls_glob_revision(fa, fb):
    """unwitnessed: `=V-rN*` (a glob WITH a revision only matches version V) against `>`/`>=` of a
    strictly greater version, or against `~W` with W != V, where the code only looks at
    other.fullver.startswith(V)"""
    for g, o in ((fa, fb), (fb, fa)):
        if g["op"] != 6 or g["rev"] is None:
            continue
        if o["op"] in (3, 4) and _vc(g["ver"], None, o["ver"], None) < 0 and o["fullver"].startswith(g["ver"]):
            return True
        if o["op"] == 5 and _vc(g["ver"], None, o["ver"], None) != 0 and o["fullver"].startswith(g["ver"]):
            return True
    return False


def _tok(t):
    return c04._parse_tok(t)


def cls_use_hidden_conflict(fa, fb):
    """unwitnessed: one atom requires flag f on and the other off, but the two tokens carry
    different (+)/(-) defaults, so the textual test `"-f" in flags and "f" in flags` misses it
    (no package with USE <= IUSE satisfies both unless the positive one is f(+) and the negative
    one is not -f(+): then a package without f in IUSE does)"""
    for x, y in ((fa, fb), (fb, fa)):
        for tp in x["use"] or ():
            dp, sp, fp = _tok(tp)
            if not sp:
                continue
            for tn in y["use"] or ():
                dn, sn, fn = _tok(tn)
                if sn or fn != fp or dn == dp:
                    continue
                if not (dp is True and dn is not True):
                    return True
    return False


def cls_use_nand_witness(fa, fb, attr_witnesses):
    """incomplete: the only attribute states matching both atoms are ones C04's class
    use-negative-group-nand lets through ([-x,-y] matching a package with x on)"""
    return bool(attr_witnesses) and all(
        c04.cls_use_nand(fa, w) or c04.cls_use_nand(fb, w) for w in attr_witnesses)


# --------------------------------------------------------------------------- main
def main(chk: Check):
    from pkgcore.test.misc import FakePkg, FakeRepo

    rng = chk.rng
    chk.rule("same-key atoms: 7 operators + unversioned x a 12-version pool (1, 1.0, 1.00, 1.1, 1.10, 1_alpha, "
             "1_p1, 2, 10, 1a, 1.0.1, 0) x revision spellings (none, -r0, -r1, -r2, -r01) x 24 attribute "
             "patterns (slot, sub-slot, repo, USE with defaults); isect = ordered pairs (quick: all pairs of a "
             "core pool + random pairs; thorough: all version cells); wit = brute-force witness search on the "
             "implementation's match() over a version universe closed under the code's perturbations and an "
             "attribute universe. non-trivial = both atoms versioned")
    try:
        from . import c01
        tables.regenerate(c01)
    except TableError as e:
        chk.violation("table", {"what": f"table regeneration failed closed: {e}"}, no_input=True)
    except Exception as e:  # noqa: BLE001
        chk.note(f"C01 tables not regenerated by this run: {e!r}")
    ok = chk.build(["C05/Prop_C05.vo"])
    if ok:
        chk.check_assumptions("C05/Prop_C05.v")
    chk.lint(["C05"])
    chk.check_fingerprint(ANCHORS)

    big = chk.thorough
    versions = V12 + (VX if big else [])
    # ---- version-only atom texts (one per operator x version, revision spelling drawn; plus a
    # second spelling for a third of them)
    vts = [KEY]
    for op in OPS[:7]:
        for v in versions:
            r = rng.choice(AREVS)
            vts.append(vtext(op, v, r))
            if rng.random() < 0.35:
                vts.append(vtext(op, v, rng.choice(AREVS)))
    vts += ["=a/b-1-r0*", "~a/b-1.0", ">a/b-1", "<a/b-1-r1", "=a/b-1*", ">a/b-2", "=a/b-1.0", "=a/b-1.00*",
            "~a/b-1.00", "=a/b-1_p*", "<a/b-1", ">=a/b-1.0", "=a/b-0-r1*", ">a/b-0-r1", "=a/b-1-r1*", "~a/b-1"]
    # fixed cases that run first: the corpus pairs, then every operator cell on every ordered pair
    # of spellings of each group
    first_pairs = []
    for f in sorted((VERIF / "corpus" / "C05").glob("*.json")):
        first_pairs += [tuple(x) for x in json.loads(f.read_text()).get("pairs", [])]
    for grp in SPELL_GROUPS:
        for va in grp:
            for vb in grp:
                for opa in OPS[:7]:
                    for opb in OPS[:7]:
                        first_pairs.append((vtext(opa, *_split_rev(va)), vtext(opb, *_split_rev(vb))))
    first_pairs = list(dict.fromkeys(first_pairs))
    vts = [t for pr in first_pairs for t in pr] + vts
    vts = list(dict.fromkeys(vts))
    vatoms = {}
    for t in vts:
        a = parse_plain(t)
        if a is not None:
            vatoms[t] = (a, atom_fields(a))
    vts = [t for t in vts if t in vatoms]
    aatoms = {}
    cond_attrs = []
    for f in sorted((VERIF / "corpus" / "C05").glob("*.json")):
        cond_attrs += json.loads(f.read_text()).get("attrs", [])
    all_attrs = list(dict.fromkeys(cond_attrs + [static_suffix(s) for s in cond_attrs] + ATTRS))
    statics = {}
    for s in all_attrs:
        st = static_suffix(s)
        a = parse_plain(KEY + st)                   # the static part: judged by match()
        if a is not None and parse_any(KEY + s) is not None:
            aatoms[s] = (a, atom_fields(a))
            statics[s] = st
    attrs = [s for s in all_attrs if s in aatoms]

    first_pairs = [(ta, tb) for ta, tb in first_pairs if ta in vatoms and tb in vatoms]
    # ---- witness sets
    uni = version_universe(versions + [v.partition("-r")[0] for g in SPELL_GROUPS for v in g])
    # a glob with a revision (=V-rN*) matches V-rN followed by further digits: close the universe
    for t in vts:
        f = vatoms[t][1]
        if f["op"] == 6 and f["rev"] is not None:
            uni += [f["fullver"] + d for d in "019" if f["fullver"] + d not in uni]
    vpk = []
    for u in uni:
        try:
            vpk.append((u, FakePkg(f"{KEY}-{u}", eapi="7")))
        except Exception:  # noqa: BLE001
            pass
    vmatch = {}
    for t in vts:
        a = vatoms[t][0]
        vmatch[t] = frozenset(i for i, (_, p) in enumerate(vpk) if a.match(p))
    apk = []
    for slot, sub, iuse, use, repo in attr_universe():
        p = FakePkg(f"{KEY}-1", eapi="7", slot=slot, subslot=sub, iuse=iuse, use=use, repo=FakeRepo(repo_id=repo))
        apk.append((pkg_fields(p), p))
    amatch = {s: frozenset(i for i, (_, p) in enumerate(apk) if aatoms[s][0].match(p)) for s in attrs}
    chk.count("wit/match-evaluations", len(vts) * len(vpk) + len(attrs) * len(apk))

    # ---- pairs
    pairs = [(ta, "", tb, "") for ta, tb in first_pairs]          # (vtext_a, attr_a, vtext_b, attr_b)
    if big:
        for ta in vts:
            for tb in vts:
                pairs.append((ta, "", tb, ""))
    else:
        core = vts[-16:] + rng.sample(vts[:-16], 26)
        for ta in core:
            for tb in core:
                pairs.append((ta, "", tb, ""))
    for sa in attrs:
        for sb in attrs:
            pairs.append((KEY, sa, KEY, sb))
    for _ in range(chk.n(900, 6000)):
        pairs.append((rng.choice(vts), rng.choice(attrs) if rng.random() < 0.5 else "",
                      rng.choice(vts), rng.choice(attrs) if rng.random() < 0.5 else ""))
    pairs = list(dict.fromkeys(pairs))

    # ---- full atoms
    full = {}

    def get(t, s):
        k = (t, s)
        if k not in full:
            a = parse_any(t + s)
            full[k] = None if a is None else (a, atom_fields(a), len(full))
        return full[k]

    cases, meta = [], []
    asym, findings, unknown = [], {}, []
    for ta, sa, tb, sb in pairs:
        A, B = get(ta, sa), get(tb, sb)
        if A is None or B is None:
            continue
        a, fa, ia = A
        b, fb, ib = B
        res = impl_call(lambda: bool(a.intersects(b)))
        cases.append((f"(A {ia}%nat, A {ib}%nat)", res))
        meta.append((ta + sa, tb + sb))
        chk.count("isect")
        if fa["op"] != 7 and fb["op"] != 7:
            chk.nontrivial((ta + sa, tb + sb))
        # (B) symmetry on the implementation
        rev = impl_call(lambda: bool(b.intersects(a)))
        chk.count("sym")
        if rev != res:
            asym.append({"a": ta + sa, "b": tb + sb, "a.intersects(b)": res, "b.intersects(a)": rev})
        if isinstance(res, Err):
            continue
        # (B) witness search
        vw = vmatch[ta] & vmatch[tb]
        aw = amatch[sa] & amatch[sb]
        chk.count("wit")
        has = bool(vw) and bool(aw)
        if has == res:
            continue
        if (statics[sa] != sa or statics[sb] != sb) and not res:
            continue      # conditional USE deps: only "no package even for the static parts" is judged
        ex = {"a": ta + sa, "b": tb + sb, "intersects": res,
              "witness": (f"{KEY}-{vpk[min(vw)][0]}", apk[min(aw)][0]) if has else None}
        fva, fvb = vatoms[ta][1], vatoms[tb][1]
        faa, fab = aatoms[sa][1], aatoms[sb][1]
        cid = None
        if res and not has:                     # reported as intersecting, no package found
            if not vw and cls_adjacent_revisions(fva, fvb):
                cid = "unwitnessed-adjacent-revisions"
            elif not vw and cls_glob_revision(fva, fvb):
                cid = "unwitnessed-glob-revision-ignored"
            elif not aw and cls_use_hidden_conflict(faa, fab):
                cid = "unwitnessed-use-default-hidden-conflict"
        else:                                   # a package matches both, reported as disjoint
            vres = bool(vatoms[ta][0].intersects(vatoms[tb][0]))
            ares = bool(aatoms[sa][0].intersects(aatoms[sb][0]))
            if not vres and cls_respelt(fva, fvb):
                cid = "incomplete-respelt-version"
            elif not vres and cls_glob_nonboundary(fva, fvb, [vpk[i][0] for i in vw]):
                cid = "incomplete-glob-nonboundary-witness"
            elif not ares and cls_use_nand_witness(faa, fab, [apk[i][0] for i in aw]):
                cid = "incomplete-use-nand-witness"
        if cid is not None and chk.known_finding(cid, ex):
            findings[cid] = findings.get(cid, 0) + 1
        else:
            unknown.append(ex)
    for s in (0, len(cases) // 2, len(cases) - 1):
        chk.sample({"stream": "isect", "a": meta[s][0], "b": meta[s][1], "impl": cases[s][1]})
    chk.note("witness-search disagreements by class: " + ", ".join(f"{k}={v}" for k, v in sorted(findings.items()))
             + f"; version universe {len(vpk)} packages, attribute universe {len(apk)} states")

    for x in asym[:3]:
        chk.violation("property", {"what": "atom.intersects is not symmetric", "input": x})
    for x in unknown[:3]:
        chk.violation("property", {"what": ("atoms reported as intersecting but no package of the universe matches both"
                                            if x["intersects"] else
                                            "a package matches both atoms but they are reported as not intersecting")
                                   + " (outside the known classes)", "input": x})
    prop_fail = bool(asym or unknown)

    if not ok:
        return
    order = sorted(full.values(), key=lambda x: x[2] if x else -1)
    order = [x for x in order if x is not None]
    defs = ("Definition AS : list atom := %s.\nDefinition A n := nth n AS (%s).\n"
            % (clist([c_atom(f) for _, f, _ in order], "atom"), c_atom(order[0][1])))
    pools = compile_pools(chk, "Pools_C05", IMPORTS, defs)
    if pools:
        r = chk.coq_eval("isect", IMPORTS + "\n" + pools, "atom * atom", cases,
                         ["mismatches run_intersects cases"], shard=800)
        if r is not None:
            for k in r[0][:3]:
                chk.violation("correspondence",
                              {"what": "a.intersects(b) and Model_C05.intersects disagree (theorems of Prop_C05 no "
                                       "longer speak about this code)", "a": meta[k][0], "b": meta[k][1],
                               "implementation": cases[k][1]}, no_input=not prop_fail)


def replay(chk, data):
    d = data.get("detail", {})
    inp = d.get("input", d)
    a, b = parse_plain(inp.get("a", "")), parse_plain(inp.get("b", ""))
    if a is None or b is None:
        print("nothing to replay")
        return
    print("implementation: %s.intersects(%s) = %r ; reversed = %r" % (a, b, a.intersects(b), b.intersects(a)))
