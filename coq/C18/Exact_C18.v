(* Exact_C18.v — whole-merge exactness of the merge planner (Model_C18.merge) on the NoAlias
   domain, and the per-step blocks for every entry kind.

   walk_ok / walk_complete   path resolution on paths without symlinks is the identity
   perms_run, rename_nondir   permission ops and rename on a private node
   create_block, direct_block, staged_block, newdir_block, existingdir_block
                              what one entry's ops leave behind (all five kinds)
   ensure_dirs_ok             snakeoil ensure_dirs creates exactly the missing ancestors
   Dom / Inv                  the (Prop) domain and the induction invariant: frame w.r.t. the
                              pre-merge filesystem, created ancestors, processed entries installed
   copy_inv, nondir_step_inv, dir_step_inv, nondirs_phase_inv, dirs_phase_inv, merge_inv
   noalias                    the decidable domain predicate, noalias_dom its reflection
   merged_exact_proof         the theorem stated in Prop_C18.v *)
From Coq Require Import List NArith ZArith Bool Lia.
Import ListNotations.
From Verif Require Import Base.Val C18.Fs C18.FsLemmas C18.Model_C18 C18.Spec_C18 C18.Proofs_C18.

(* ======================================================= part 1 *)

(* ------------------------------------------------------------------ path resolution on plain paths *)
(* if no symlink is met (at the last component only when it would be followed), a successful
   walk returns the path itself and every proper prefix is a directory *)
Lemma walk_ok : forall todo fuel s cur follow cp,
  walk fuel s cur todo follow = WOk cp ->
  Forall nodot todo ->
  (forall pre suf, todo = pre ++ suf -> pre <> [] -> (suf <> [] \/ follow = true) ->
     is_symo (lookup s (cur ++ pre)) = false) ->
  cp = cur ++ todo /\
  (forall pre suf, todo = pre ++ suf -> pre <> [] -> suf <> [] -> is_diro (lookup s (cur ++ pre)) = true).
Proof.
  induction todo as [|c rest IH]; intros fuel s cur follow cp Hw Hnd Hns.
  - destruct fuel; cbn in Hw; [discriminate|]. injection Hw as <-. split; [now rewrite app_nil_r|].
    intros pre suf E. destruct pre; [congruence|discriminate].
  - destruct fuel; cbn [walk] in Hw; [discriminate|].
    inversion Hnd as [|? ? [Hd1 Hd2] Hnd']; subst. rewrite Hd1, Hd2 in Hw.
    assert (Hq : is_symo (lookup s (cur ++ [c])) = false \/ (rest = [] /\ follow = false)).
    { destruct rest as [|r0 rest].
      - destruct follow; [left|now right]. apply (Hns [c] []); auto. discriminate.
      - left. apply (Hns [c] (r0 :: rest)); auto; [discriminate|left; discriminate]. }
    assert (Hrec : forall cp', walk fuel s (cur ++ [c]) rest follow = WOk cp' ->
              cp' = cur ++ c :: rest /\
              (forall pre suf, rest = pre ++ suf -> pre <> [] -> suf <> [] ->
                 is_diro (lookup s ((cur ++ [c]) ++ pre)) = true)).
    { intros cp' Hw'. destruct (IH fuel s (cur ++ [c]) follow cp' Hw' Hnd') as [E Hd].
      - intros pre suf E Hp Hs. rewrite <- app_assoc. cbn. apply (Hns (c :: pre) suf); auto.
        + cbn. now rewrite E.
        + discriminate.
      - split; [rewrite E, <- app_assoc; reflexivity|exact Hd]. }
    assert (Hfin : rest = [] -> cp = cur ++ [c] ->
              cp = cur ++ c :: rest /\
              (forall pre suf, c :: rest = pre ++ suf -> pre <> [] -> suf <> [] ->
                 is_diro (lookup s (cur ++ pre)) = true)).
    { intros -> ->. split; [reflexivity|]. intros pre suf E Hp Hs.
      destruct pre as [|p0 pre]; [congruence|]. injection E as -> E.
      destruct pre; destruct suf; try discriminate; congruence. }
    destruct (lookup s (cur ++ [c])) as [n|] eqn:Hl.
    + destruct n.
      * (* File *) destruct (is_nil rest) eqn:Hn; [|discriminate]. destruct rest; [|discriminate].
        injection Hw as <-. now apply Hfin.
      * (* Dir *) destruct (Hrec cp Hw) as [E Hd]. split; [exact E|].
        intros pre suf E' Hp Hs. destruct pre as [|p0 pre]; [congruence|]. injection E' as -> E'.
        destruct pre as [|p1 pre].
        -- cbn. rewrite Hl. reflexivity.
        -- specialize (Hd (p1 :: pre) suf E'). rewrite <- app_assoc in Hd. cbn in Hd. apply Hd; auto. discriminate.
      * (* Sym *) destruct Hq as [Hq|[-> ->]]; [cbn in Hq; discriminate|].
        cbn in Hw. injection Hw as <-. now apply Hfin.
      * destruct (is_nil rest) eqn:Hn; [|discriminate]. destruct rest; [|discriminate].
        injection Hw as <-. now apply Hfin.
      * destruct (is_nil rest) eqn:Hn; [|discriminate]. destruct rest; [|discriminate].
        injection Hw as <-. now apply Hfin.
    + destruct (is_nil rest) eqn:Hn; [|discriminate]. destruct rest; [|discriminate].
      injection Hw as <-. now apply Hfin.
Qed.

(* ======================================================= part 2 *)

(* ------------------------------------------------------------------ private nodes, permission ops *)
Definition private (s : fs) (p : path) (n : node) : Prop :=
  forall i, ino_of n = Some i -> forall q m, q <> p -> lookup s q = Some m -> ino_of m <> Some i.

Lemma private_nonfile s p n : ino_of n = None -> private s p n.
Proof. intros H i Hi. congruence. Qed.

Lemma ino_perm_fun o n : ino_of (perm_fun o n) = ino_of n.
Proof. destruct o, n; reflexivity. Qed.
Lemma isdir_perm_fun o n : is_dir_node (perm_fun o n) = is_dir_node n.
Proof. destruct o, n; reflexivity. Qed.

Lemma perm_step fp o s s1 n :
  perm_on fp o -> apply_op s o = Some s1 -> lookup s fp = Some n -> private s fp n ->
  lookup s1 fp = Some (perm_fun o n) /\ (forall q, q <> fp -> lookup s1 q = lookup s q) /\
  private s1 fp (perm_fun o n).
Proof.
  intros Ho Ha Hl Hp.
  assert (Hu : exists f, update s fp f = Some s1 /\ perm_fun o n = f n).
  { destruct o; cbn in Ho; try contradiction; subst p; cbn in Ha; try rewrite Hl in Ha;
      try (destruct (is_sym_node n); [discriminate|]); eexists; split; eauto. }
  destruct Hu as (f & Hu & Hf).
  assert (Hfr : forall q, q <> fp -> lookup s1 q = lookup s q).
  { intros q Hq. eapply update_frame; eauto.
    intros (n1 & m & i & H1 & H2 & H3 & H4). rewrite Hl in H1. injection H1 as <-.
    eapply Hp; eauto. }
  split; [rewrite Hf; eapply update_self; eauto|]. split; [exact Hfr|].
  intros i Hi q m Hq Hm. rewrite ino_perm_fun in Hi. rewrite Hfr in Hm by exact Hq. eapply Hp; eauto.
Qed.

Definition apply_perms (perms : list op) (n : node) : node := fold_left (fun n o => perm_fun o n) perms n.

Lemma perms_run fp perms : Forall (perm_on fp) perms -> forall s s' n,
  lookup s fp = Some n -> private s fp n -> run_opt perms s = Some s' ->
  lookup s' fp = Some (apply_perms perms n) /\ (forall q, q <> fp -> lookup s' q = lookup s q) /\
  private s' fp (apply_perms perms n).
Proof.
  induction 1 as [|o perms Ho _ IH]; intros s s' n Hl Hp Hr; cbn in Hr.
  - injection Hr as <-. cbn. auto.
  - destruct (apply_op s o) as [s1|] eqn:Ha; [|discriminate].
    destruct (perm_step _ _ _ _ _ Ho Ha Hl Hp) as (H1 & H2 & H3).
    destruct (IH _ _ _ H1 H3 Hr) as (K1 & K2 & K3). cbn. split; [exact K1|]. split; [|exact K3].
    intros q Hq. rewrite K2 by exact Hq. now apply H2.
Qed.

(* every crash prefix of a run of permission ops on fp leaves the other paths alone and fp bound
   to a node of the same kind *)
Lemma perms_prefix fp perms : Forall (perm_on fp) perms -> forall s n k,
  lookup s fp = Some n -> private s fp n ->
  (forall q, q <> fp -> lookup (run (firstn k perms) s) q = lookup s q) /\
  exists n', lookup (run (firstn k perms) s) fp = Some n' /\ private (run (firstn k perms) s) fp n'
             /\ is_dir_node n' = is_dir_node n /\ ino_of n' = ino_of n.
Proof.
  intros Hperms s n k Hl Hp.
  set (I := fun st : fs => (forall q, q <> fp -> lookup st q = lookup s q) /\
        exists n', lookup st fp = Some n' /\ private st fp n' /\ is_dir_node n' = is_dir_node n /\ ino_of n' = ino_of n).
  assert (HI : Forall (fun o => forall s1 s2, I s1 -> apply_op s1 o = Some s2 -> I s2) perms).
  { eapply Forall_impl; [|exact Hperms]. intros o Ho s1 s2 [F (n1 & L1 & P1 & D1 & I1)] Ha.
    destruct (perm_step _ _ _ _ _ Ho Ha L1 P1) as (H1 & H2 & H3). split.
    - intros q Hq. rewrite H2 by exact Hq. now apply F.
    - exists (perm_fun o n1). repeat split; auto; [now rewrite isdir_perm_fun|now rewrite ino_perm_fun]. }
  apply (run_prefix_inv I perms HI s k). split; [reflexivity|]. exists n. auto.
Qed.

(* ------------------------------------------------------------------ rename of a non-directory *)
Lemma rename_nondir s a b s' n :
  apply_op s (Rename a b) = Some s' -> lookup s a = Some n -> is_dir_node n = false -> a <> b ->
  (forall i, ino_of n = Some i -> forall m, lookup s b = Some m -> ino_of m <> Some i) ->
  lookup s' b = Some n /\ lookup s' a = None /\ (forall q, q <> a -> q <> b -> lookup s' q = lookup s q).
Proof.
  intros H Ha Hd Hab Hp. cbn in H. rewrite Ha in H. destruct b as [|b0 b]; [discriminate|]. set (bb := b0 :: b) in *.
  destruct (path_eq_dec a bb) as [|_]; [contradiction|].
  destruct (negb (isdir s (parent bb))); [discriminate|]. rewrite Hd in H.
  assert (Hmv : forall s2, s2 = set_node (remove s a) bb n ->
     lookup s2 bb = Some n /\ lookup s2 a = None /\ (forall q, q <> a -> q <> bb -> lookup s2 q = lookup s q)).
  { intros s2 ->. split; [apply lookup_set_same|]. split.
    - rewrite lookup_set_other by exact Hab. apply lookup_remove_same.
    - intros q Hq1 Hq2. now rewrite lookup_set_other, lookup_remove_other. }
  destruct (lookup s bb) as [m|] eqn:Hb.
  - destruct (is_dir_node m); [discriminate|].
    destruct (ino_of n) as [i|] eqn:Hi; [|injection H as <-; now apply Hmv].
    destruct (ino_of m) as [j|] eqn:Hj; [|injection H as <-; now apply Hmv].
    destruct (N.eqb i j) eqn:E; [|injection H as <-; now apply Hmv].
    apply N.eqb_eq in E; subst j. exfalso. eapply (Hp i eq_refl m); eauto.
  - injection H as <-; now apply Hmv.
Qed.

(* ------------------------------------------------------------------ what the permission ops make of a new node *)
Lemma perms_new_on' x fp : Forall (perm_on fp) (perms_new x fp).
Proof. apply perms_new_on. Qed.

Lemma realises_sym x t fp : e_kind x = KSym t ->
  realises x (apply_perms (perms_new x fp) (Sym t ME ME NOW)).
Proof.
  destruct x as [loc kind mode uid gid mtime]; cbn. intros ->.
  unfold apply_perms, perms_new, realises, owner_ok, is_ksym; cbn.
  destruct uid, gid; cbn; repeat split; reflexivity.
Qed.
Lemma realises_fifo x m0 fp : e_kind x = KFifo ->
  (e_mode x = None -> True) ->
  match e_mode x with Some _ => True | None => True end ->
  realises x (apply_perms (perms_new x fp) (Fifo m0 ME ME NOW)).
Proof.
  destruct x as [loc kind mode uid gid mtime]; cbn. intros -> _ _.
  unfold apply_perms, perms_new, realises, mode_ok, owner_ok, mtime_ok, eff_mtime, is_ksym; cbn.
  destruct mode, uid, gid, mtime; cbn; repeat split; reflexivity.
Qed.
Lemma realises_dev x r m0 fp : e_kind x = KDev r ->
  realises x (apply_perms (perms_new x fp) (Dev m0 ME ME NOW r)).
Proof.
  destruct x as [loc kind mode uid gid mtime]; cbn. intros ->.
  unfold apply_perms, perms_new, realises, mode_ok, owner_ok, mtime_ok, eff_mtime, is_ksym; cbn.
  destruct mode, uid, gid, mtime; cbn; repeat split; reflexivity.
Qed.
Lemma realises_file x d hl m0 i fp : e_kind x = KFile d hl ->
  realises x (apply_perms (perms_new x fp) (File d m0 ME ME NOW i)).
Proof.
  destruct x as [loc kind mode uid gid mtime]; cbn. intros ->.
  unfold apply_perms, perms_new, realises, mode_ok, owner_ok, mtime_ok, eff_mtime, is_ksym; cbn.
  destruct mode, uid, gid, mtime; cbn; repeat split; reflexivity.
Qed.
Lemma realises_newdir x m0 fp : e_kind x = KDir ->
  realises x (apply_perms (perms_new x fp ++ perms_new x fp) (Dir m0 ME ME NOW)).
Proof.
  destruct x as [loc kind mode uid gid mtime]; cbn. intros ->.
  unfold apply_perms, perms_new, realises, mode_ok, owner_ok, is_ksym; cbn.
  destruct mode, uid, gid, mtime; cbn; repeat split; reflexivity.
Qed.

(* ------------------------------------------------------------------ create_ops + perms on a free name *)
Definition nondir_kind (x : entry) : Prop := is_kdir x = false.

(* the object an entry's creating ops leave at a free name fp, before the permission ops *)
Lemma create_block um s x fp c s1 :
  is_kdir x = false -> lookup s fp = None -> create_ops um s x fp = (c, None) ->
  run_opt c s = Some s1 ->
  exists n0, lookup s1 fp = Some n0 /\ private s1 fp n0 /\ is_dir_node n0 = false /\
    (forall q, q <> fp -> lookup s1 q = lookup s q) /\
    realises x (apply_perms (perms_new x fp) n0).
Proof.
  intros Hk Hl Hc Hr. unfold create_ops in Hc. rewrite Hl in Hc.
  destruct (e_kind x) as [|d hl|t| |r] eqn:Ek; try (unfold is_kdir in Hk; rewrite Ek in Hk; discriminate).
  - (* file *)
    injection Hc as <-.
    assert (Hsh : Create fp (file_create_mode um) :: (if is_nil d then [] else [Append fp d])
                  = Create fp (file_create_mode um) :: appends fp (chunks1 d) ++ [])
      by (unfold chunks1, appends; destruct (is_nil d); reflexivity).
    rewrite Hsh in Hr.
    pose proof (staged_complete _ _ _ _ _ _ (Forall_nil _) Hr) as Hn. unfold staged_node in Hn. cbn in Hn.
    rewrite concat_chunks1 in Hn.
    cbn [run_opt] in Hr. destruct (apply_op s (Create fp (file_create_mode um))) as [s0|] eqn:Hc1; [|discriminate].
    pose proof (staged_create _ _ _ _ Hc1) as H1.
    pose proof (run_inv _ _ (staged_middle s fp (chunks1 d) [] (Forall_nil _)) s0 H1) as [H2 (d' & m & u & g & t & i & Ht & Hpriv)].
    rewrite (run_opt_run _ _ _ Hr) in H2, Ht, Hpriv.
    rewrite Hn in Ht. injection Ht as <- <- <- <- <- <-.
    eexists. split; [exact Hn|]. repeat split; auto.
    + intros i0 Hi q m Hq Hm. cbn in Hi. injection Hi as <-. eapply Hpriv; eauto.
    + eapply realises_file; eauto.
  - injection Hc as <-. cbn in Hr. destruct (can_create s fp); [|discriminate]. injection Hr as <-.
    eexists. split; [apply lookup_set_same|]. repeat split; auto.
    + intros i Hi. discriminate.
    + intros q Hq. now apply lookup_set_other.
    + now apply realises_sym.
  - injection Hc as <-. cbn in Hr. destruct (can_create s fp); [|discriminate]. injection Hr as <-.
    eexists. split; [apply lookup_set_same|]. repeat split; auto.
    + intros i Hi. discriminate.
    + intros q Hq. now apply lookup_set_other.
    + apply realises_fifo; auto. destruct (e_mode x); exact I.
  - injection Hc as <-. cbn in Hr. destruct (can_create s fp); [|discriminate]. injection Hr as <-.
    eexists. split; [apply lookup_set_same|]. repeat split; auto.
    + intros i Hi. discriminate.
    + intros q Hq. now apply lookup_set_other.
    + now apply realises_dev.
Qed.

(* direct creation: create_ops ++ perms on a free name *)
Lemma direct_block um s x fp c s' :
  is_kdir x = false -> lookup s fp = None -> create_ops um s x fp = (c, None) ->
  run_opt (c ++ perms_new x fp) s = Some s' ->
  (exists n, lookup s' fp = Some n /\ realises x n /\ private s' fp n /\ is_dir_node n = false) /\
  (forall q, q <> fp -> lookup s' q = lookup s q).
Proof.
  intros Hk Hl Hc Hr. rewrite run_opt_app in Hr. destruct (run_opt c s) as [s1|] eqn:E; [|discriminate].
  destruct (create_block _ _ _ _ _ _ Hk Hl Hc E) as (n0 & L0 & P0 & D0 & F0 & R0).
  destruct (perms_run fp _ (perms_new_on x fp) _ _ _ L0 P0 Hr) as (K1 & K2 & K3).
  split.
  - eexists. split; [exact K1|]. repeat split; auto.
    clear -D0. unfold apply_perms. generalize (perms_new x fp). intro l. revert n0 D0.
    induction l as [|o l IH]; intros n0 D0; cbn; [exact D0|]. apply IH. now rewrite isdir_perm_fun.
  - intros q Hq. rewrite K2 by exact Hq. now apply F0.
Qed.

(* staged replacement: create at tmp, perms, rename onto cp *)
Lemma staged_block um s x tmp cp c s' :
  is_kdir x = false -> lookup s tmp = None -> tmp <> cp -> create_ops um s x tmp = (c, None) ->
  run_opt (c ++ perms_new x tmp ++ [Rename tmp cp]) s = Some s' ->
  (exists n, lookup s' cp = Some n /\ realises x n /\ private s' cp n /\ is_dir_node n = false) /\
  lookup s' tmp = None /\
  (forall q, q <> cp -> q <> tmp -> lookup s' q = lookup s q).
Proof.
  intros Hk Hl Hne Hc Hr. rewrite app_assoc, run_opt_app in Hr.
  destruct (run_opt (c ++ perms_new x tmp) s) as [s2|] eqn:E; [|discriminate].
  destruct (direct_block _ _ _ _ _ _ Hk Hl Hc E) as [(n & L & R & P & D) F].
  cbn [run_opt] in Hr. destruct (apply_op s2 (Rename tmp cp)) as [s3|] eqn:Hr3; [|discriminate].
  injection Hr as <-.
  destruct (rename_nondir _ _ _ _ _ Hr3 L D Hne) as (K1 & K2 & K3).
  { intros i Hi m Hm. eapply P; eauto. }
  split; [|split; [exact K2|]].
  - exists n. repeat split; auto. intros i Hi q m Hq Hm.
    destruct (path_eq_dec q tmp) as [->|Hqt]; [rewrite K2 in Hm; discriminate|].
    rewrite K3 in Hm by assumption. eapply P; eauto.
  - intros q Hq1 Hq2. rewrite K3 by assumption. now apply F.
Qed.

(* a new directory: mkdir + ensure_perms twice *)
Lemma newdir_block um s x cp s' :
  e_kind x = KDir ->
  run_opt (Mkdir cp (dir_create_mode um x) :: perms_new x cp ++ perms_new x cp) s = Some s' ->
  lookup s cp = None /\
  (exists n, lookup s' cp = Some n /\ realises x n /\ is_dir_node n = true) /\
  (forall q, q <> cp -> lookup s' q = lookup s q).
Proof.
  intros Hk Hr. cbn [run_opt] in Hr.
  destruct (apply_op s (Mkdir cp (dir_create_mode um x))) as [s1|] eqn:Hm; [|discriminate].
  cbn in Hm. destruct (can_create s cp) eqn:Hcc; [|discriminate]. injection Hm as <-.
  assert (Hl : lookup s cp = None).
  { unfold can_create in Hcc. destruct cp as [|c0 cp]; [discriminate|]. destruct (lookup s (c0 :: cp)); [discriminate|reflexivity]. }
  assert (Hon : Forall (perm_on cp) (perms_new x cp ++ perms_new x cp))
    by (apply Forall_app; split; apply perms_new_on).
  destruct (perms_run cp _ Hon _ _ (Dir (dir_create_mode um x) ME ME NOW) (lookup_set_same s cp _) (private_nonfile _ _ (Dir (dir_create_mode um x) ME ME NOW) eq_refl) Hr) as (K1 & K2 & _).
  split; [exact Hl|]. split.
  - eexists. split; [exact K1|]. split; [now apply realises_newdir|].
    unfold apply_perms. generalize (perms_new x cp ++ perms_new x cp). intro l.
    assert (G : forall n0, is_dir_node n0 = true -> is_dir_node (fold_left (fun n o => perm_fun o n) l n0) = true).
    { induction l as [|o l IH]; intros n0 D0; cbn; [exact D0|]. apply IH. now rewrite isdir_perm_fun. }
    now apply G.
  - intros q Hq. rewrite K2 by exact Hq. now apply lookup_set_other.
Qed.

(* an existing directory: owner (if it differs), then mtime; the mode is kept *)
Lemma existingdir_block s x cp m u g t s' :
  lookup s cp = Some (Dir m u g t) ->
  run_opt (perms_existing x cp cp (Dir m u g t)) s = Some s' ->
  (exists n, lookup s' cp = Some n /\ keeps_dir x (Dir m u g t) n /\ is_dir_node n = true) /\
  (forall q, q <> cp -> lookup s' q = lookup s q).
Proof.
  intros Hl Hr. unfold perms_existing in Hr. cbn [node_owner node_mtime] in Hr.
  set (ch := (negb (opt_is (e_uid x) u) || negb (opt_is (e_gid x) g)) && (is_some (e_uid x) || is_some (e_gid x))) in *.
  assert (Hon : forall l, l = (if ch then [Chown cp (e_uid x) (e_gid x)] else [])
        ++ match e_mtime x with Some t0 => if Z.eqb t0 t then [] else [Utime cp t0] | None => [] end ->
        Forall (perm_on cp) l).
  { intros l ->. apply Forall_app. split.
    - destruct ch; repeat constructor.
    - destruct (e_mtime x) as [t0|]; [destruct (Z.eqb t0 t)|]; repeat constructor. }
  destruct (perms_run cp _ (Hon _ eq_refl) _ _ _ Hl (private_nonfile _ _ (Dir m u g t) eq_refl) Hr) as (K1 & K2 & _).
  split; [|exact K2]. eexists. split; [exact K1|].
  unfold apply_perms, keeps_dir, owner_ok.
  destruct x as [loc kind mode uid gid mtime]; cbn in *.
  destruct uid as [uu|], gid as [gg|]; cbn in *; subst ch; cbn;
    repeat match goal with
    | |- context [N.eqb ?a ?b] => destruct (N.eqb a b) eqn:?E
    end; cbn;
    destruct mtime as [t0|]; try destruct (Z.eqb t0 t); cbn; repeat split; auto;
    try (intro; repeat split; auto);
    repeat match goal with H : N.eqb _ _ = true |- _ => apply N.eqb_eq in H end; subst; auto; try discriminate.
Qed.

(* ======================================================= part 3 *)

(* a path whose components are ordinary names and on which no symlink is met *)
Definition plain (s : fs) (p : path) (follow : bool) : Prop :=
  Forall nodot p /\
  forall pre suf, p = pre ++ suf -> pre <> [] -> (suf <> [] \/ follow = true) -> is_symo (lookup s pre) = false.

Lemma canon_ok s p cp follow :
  walk FUEL s [] p follow = WOk cp -> plain s p follow ->
  cp = p /\ (forall q, pprefix q p -> is_diro (lookup s q) = true).
Proof.
  intros Hw [Hnd Hns]. destruct (walk_ok p FUEL s [] follow cp Hw Hnd Hns) as [E Hd].
  split; [exact E|]. intros q (suf & -> & Hq & Hs). now apply (Hd q suf).
Qed.

Lemma isdir_parent s p : p <> [] -> (forall q, pprefix q p -> is_diro (lookup s q) = true) ->
  isdir s (parent p) = true.
Proof.
  intros Hp Hd. destruct (@exists_last _ p Hp) as (l & a & ->). unfold parent. rewrite removelast_last.
  unfold isdir. destruct l as [|l0 l]; [reflexivity|].
  specialize (Hd (l0 :: l)). unfold is_diro in Hd. destruct (lookup s (l0 :: l)).
  - apply Hd. exists [a]. repeat split; discriminate.
  - assert (false = true) by (apply Hd; exists [a]; repeat split; discriminate). discriminate.
Qed.

(* ------------------------------------------------------------------ ensure_dirs *)
Lemma ensure_dirs_cons s done c rest :
  ensure_dirs s done (c :: rest) =
  (let q := done ++ [c] in
   match rcanon s q with
   | WOk r =>
       match node_at s r with
       | Some n => if is_dir_node n then ensure_dirs s q rest else ([], s, false)
       | None =>
           match canon s q with
           | WOk cq =>
               match lookup s cq with
               | None =>
                   let o := Mkdir cq 488 in
                   let '(ops, s2, ok) := ensure_dirs (run [o] s) q rest in (o :: ops, s2, ok)
               | Some _ => ([], s, false)
               end
           | _ => ([], s, false)
           end
       end
   | _ => ([], s, false)
   end).
Proof. reflexivity. Qed.

Local Opaque walk FUEL.
Lemma ensure_dirs_ok : forall todo done s ops s1,
  ensure_dirs s done todo = (ops, s1, true) ->
  Forall nodot (done ++ todo) ->
  (forall pre suf, done ++ todo = pre ++ suf -> pre <> [] -> is_symo (lookup s pre) = false) ->
  (done = [] \/ is_diro (lookup s done) = true) ->
  (forall q, pprefix q done -> is_diro (lookup s q) = true) ->
  run_opt ops s = Some s1 /\
  (forall q, lookup s1 q = lookup s q \/
             (lookup s q = None /\ is_diro (lookup s1 q) = true /\
              exists pre suf, todo = pre ++ suf /\ pre <> [] /\ q = done ++ pre)) /\
  (forall pre suf, todo = pre ++ suf -> pre <> [] -> is_diro (lookup s1 (done ++ pre)) = true) /\
  Forall (fun o => exists q, o = Mkdir q 488 /\ lookup s q = None /\
                   exists pre suf, todo = pre ++ suf /\ pre <> [] /\ q = done ++ pre) ops.
Proof.
  induction todo as [|c rest IH]; intros done s ops s1 He Hnd Hns Hdone Hdp.
  - change (ensure_dirs s done []) with (@nil op, s, true) in He. injection He as <- <-. cbn [run_opt]. repeat split; auto.
    intros pre suf E Hp. destruct pre; [congruence|discriminate].
  - rewrite ensure_dirs_cons in He. cbv zeta in He. set (q := done ++ [c]) in *.
    assert (Eq : done ++ c :: rest = q ++ rest) by (unfold q; now rewrite <- app_assoc).
    assert (Hplq : plain s q true).
    { split.
      - rewrite Eq in Hnd. apply Forall_app in Hnd. tauto.
      - intros pre suf E Hp _. apply (Hns pre (suf ++ rest)); auto. rewrite Eq, E. now rewrite app_assoc. }
    destruct (rcanon s q) as [r| |] eqn:Hrc; try (injection He as _ _ Hf; discriminate).
    destruct (canon_ok _ _ _ _ Hrc Hplq) as [-> Hqd].
    assert (Hqne : q <> []) by (unfold q; destruct done; discriminate).
    assert (Hna : node_at s q = lookup s q) by (destruct q; [congruence|reflexivity]).
    rewrite Hna in He.
    assert (Hshift : forall pre suf, rest = pre ++ suf -> exists pre', c :: rest = pre' ++ suf /\ pre' <> [] /\ q ++ pre = done ++ pre').
    { intros pre suf ->. exists (c :: pre). repeat split; [discriminate|]. unfold q. now rewrite <- app_assoc. }
    destruct (lookup s q) as [n|] eqn:Hlq.
    + destruct (is_dir_node n) eqn:Hdn; [|injection He as _ _ Hf; discriminate].
      destruct (IH q s ops s1 He) as (R1 & R2 & R3 & R4).
      * now rewrite <- Eq.
      * intros pre suf E. apply (Hns pre suf). now rewrite Eq.
      * right. unfold is_diro. now rewrite Hlq.
      * exact Hqd.
      * split; [exact R1|]. split; [|split].
        -- intros q'. destruct (R2 q') as [H|(H1 & H2 & pre & suf & E & Hp & ->)]; [now left|right].
           repeat split; auto. destruct (Hshift _ _ E) as (pre' & E' & Hp' & Eq'). exists pre', suf. now rewrite Eq'.
        -- intros pre suf E Hp. destruct pre as [|p0 pre]; [congruence|]. injection E as -> E.
           destruct pre as [|p1 pre].
           ++ fold q. destruct (R2 q) as [H|(H1 & _)]; [|congruence]. rewrite H. unfold is_diro. now rewrite Hlq.
           ++ replace (done ++ p0 :: p1 :: pre) with (q ++ p1 :: pre) by (unfold q; now rewrite <- app_assoc).
              apply (R3 (p1 :: pre) suf); auto. discriminate.
        -- eapply Forall_impl; [|exact R4]. intros o (q' & -> & Hl' & pre & suf & E & Hp & ->).
           exists (q ++ pre). repeat split; auto. destruct (Hshift _ _ E) as (pre' & E' & Hp' & Eq'). exists pre', suf. now rewrite Eq'.
    + destruct (canon s q) as [cq| |] eqn:Hcq; try (injection He as _ _ Hf; discriminate).
      assert (Hplq' : plain s q false).
      { destruct Hplq as [A B]. split; [exact A|]. intros pre suf E Hp _. apply (B pre suf E Hp). now right. }
      destruct (canon_ok _ _ _ _ Hcq Hplq') as [-> _]. rewrite Hlq in He.
      set (o := Mkdir q 488) in *.
      assert (Hap : apply_op s o = Some (set_node s q (Dir 488 ME ME NOW))).
      { cbn. unfold can_create. destruct q as [|q0 q'] eqn:Eqq; [congruence|]. rewrite <- Eqq in *. rewrite Hlq.
        rewrite (isdir_parent s q Hqne Hqd). reflexivity. }
      assert (Hrun1 : run [o] s = set_node s q (Dir 488 ME ME NOW)) by (cbn [run]; now rewrite Hap).
      rewrite Hrun1 in He. set (s' := set_node s q (Dir 488 ME ME NOW)) in *.
      destruct (ensure_dirs s' q rest) as [[ops' s2] ok] eqn:He'. injection He as <- <- ->.
      assert (Hl' : forall p, lookup s' p = if path_eq_dec p q then Some (Dir 488 ME ME NOW) else lookup s p)
        by (intro p; apply lookup_set_node).
      destruct (IH q s' ops' s2 He') as (R1 & R2 & R3 & R4).
      * now rewrite <- Eq.
      * intros pre suf E Hp. rewrite Hl'. destruct (path_eq_dec pre q); [reflexivity|]. apply (Hns pre suf); auto. now rewrite Eq.
      * right. rewrite Hl'. destruct (path_eq_dec q q); [reflexivity|congruence].
      * intros p Hp. rewrite Hl'. destruct (path_eq_dec p q); [reflexivity|]. now apply Hqd.
      * split; [cbn [run_opt]; now rewrite Hap|]. split; [|split].
        -- intros p. destruct (path_eq_dec p q) as [->|Hpq].
           ++ right. split; [exact Hlq|]. split.
              ** destruct (R2 q) as [H|(H1 & _)]; [rewrite H, Hl'; destruct (path_eq_dec q q); [reflexivity|congruence]|].
                 rewrite Hl' in H1. destruct (path_eq_dec q q); [discriminate|congruence].
              ** exists [c], rest. repeat split; discriminate.
           ++ destruct (R2 p) as [H|(H1 & H2 & pre & suf & E & Hp & ->)].
              ** left. rewrite H, Hl'. destruct (path_eq_dec p q); [contradiction|reflexivity].
              ** right. rewrite Hl' in H1. destruct (path_eq_dec (q ++ pre) q); [discriminate|].
                 repeat split; auto. destruct (Hshift _ _ E) as (pre' & E' & Hp' & Eq'). exists pre', suf. now rewrite Eq'.
        -- intros pre suf E Hp. destruct pre as [|p0 pre]; [congruence|]. injection E as -> E.
           destruct pre as [|p1 pre].
           ++ fold q. destruct (R2 q) as [H|(H1 & _)].
              ** rewrite H, Hl'. destruct (path_eq_dec q q); [reflexivity|congruence].
              ** rewrite Hl' in H1. destruct (path_eq_dec q q); [discriminate|congruence].
           ++ replace (done ++ p0 :: p1 :: pre) with (q ++ p1 :: pre) by (unfold q; now rewrite <- app_assoc).
              apply (R3 (p1 :: pre) suf); auto. discriminate.
        -- constructor.
           ++ exists q. repeat split; auto. exists [c], rest. repeat split; discriminate.
           ++ eapply Forall_impl; [|exact R4]. intros o' (q' & -> & Hlq' & pre & suf & E & Hp & ->).
              exists (q ++ pre). rewrite Hl' in Hlq'. destruct (path_eq_dec (q ++ pre) q); [discriminate|].
              repeat split; auto. destruct (Hshift _ _ E) as (pre' & E' & Hp' & Eq'). exists pre', suf. now rewrite Eq'.
Qed.

(* ------------------------------------------------------------------ hard-link candidates *)
Lemma opt_N_eqb_eq a b : opt_N_eqb a b = true -> a = b.
Proof. destruct a, b; cbn; try discriminate; auto. intro H. apply N.eqb_eq in H. now subst. Qed.
Lemma opt_Z_eqb_eq a b : opt_Z_eqb a b = true -> a = b.
Proof. destruct a, b; cbn; try discriminate; auto. intro H. apply Z.eqb_eq in H. now subst. Qed.

Definition same_data (c x : entry) : Prop :=
  match e_kind c, e_kind x with KFile d _, KFile d' _ => d = d' | _, _ => True end.

Lemma can_hl_realises c x n : can_hl c x = true -> same_data c x -> realises c n -> realises x n.
Proof.
  unfold can_hl, same_data, realises, mode_ok, owner_ok, mtime_ok.
  destruct (e_kind c) as [|d [i|]|?| |?] eqn:Ec; try discriminate.
  destruct (e_kind x) as [|d' [j|]|?| |?] eqn:Ex; try discriminate.
  intros H Hd.
  apply andb_true_iff in H as [H Ht]. apply andb_true_iff in H as [H Hm].
  apply andb_true_iff in H as [H Hg]. apply andb_true_iff in H as [_ Hu].
  apply opt_N_eqb_eq in Hu, Hg, Hm. apply opt_Z_eqb_eq in Ht.
  unfold eff_mtime in Ht. rewrite Ec, Ex in Ht.
  rewrite <- Hu, <- Hg, <- Hm, <- Hd. unfold eff_mtime. rewrite Ec, Ex.
  destruct n; auto. intros (A & B & [C1 C2] & D). repeat split; auto.
  destruct (e_mtime c), (e_mtime x); cbn in *; congruence.
Qed.

Lemma realises_file_node x d hl n : e_kind x = KFile d hl -> realises x n -> is_file_node n = true.
Proof. unfold realises. intros ->. destruct n; try contradiction; reflexivity. Qed.

(* ======================================================= part 4 *)

Local Opaque walk FUEL.

(* ------------------------------------------------------------------ walk is complete on plain directories *)
Lemma walk_complete : forall todo fuel s cur follow,
  length todo < fuel -> Forall nodot todo ->
  (forall pre suf, todo = pre ++ suf -> pre <> [] -> suf <> [] -> is_diro (lookup s (cur ++ pre)) = true) ->
  (follow = false \/ todo = [] \/ is_symo (lookup s (cur ++ todo)) = false) ->
  walk fuel s cur todo follow = WOk (cur ++ todo).
Proof.
  Local Transparent walk.
  induction todo as [|c rest IH]; intros fuel s cur follow Hf Hnd Hd Hl.
  - destruct fuel; [cbn in Hf; lia|]. cbn. now rewrite app_nil_r.
  - destruct fuel; [cbn in Hf; lia|]. cbn [walk].
    inversion Hnd as [|? ? [Hd1 Hd2] Hnd']; subst. rewrite Hd1, Hd2.
    assert (Eq : cur ++ c :: rest = (cur ++ [c]) ++ rest) by now rewrite <- app_assoc.
    destruct rest as [|r0 rest].
    + cbn [is_nil andb]. destruct fuel; [cbn in Hf; lia|].
      destruct (lookup s (cur ++ [c])) as [[]|] eqn:El; cbn; try reflexivity.
      destruct Hl as [->|[Hl|Hl]]; [reflexivity|discriminate|]. cbn in Hl. discriminate.
    + assert (Hdq : is_diro (lookup s (cur ++ [c])) = true) by (apply (Hd [c] (r0 :: rest)); auto; discriminate).
      unfold is_diro in Hdq. destruct (lookup s (cur ++ [c])) as [[]|]; try discriminate.
      rewrite Eq. apply IH.
      * cbn in *. lia.
      * exact Hnd'.
      * intros pre suf E Hp Hs. rewrite <- app_assoc. cbn. apply (Hd (c :: pre) suf); auto; [cbn; now rewrite E|discriminate].
      * destruct Hl as [Hl|[Hl|Hl]]; [now left|discriminate|]. right; right. now rewrite <- Eq.
  Local Opaque walk.
Qed.

Lemma FUEL_val : FUEL = 120. Proof. reflexivity. Qed.

Lemma canon_complete s p follow :
  length p < 120 -> Forall nodot p ->
  (forall q, pprefix q p -> is_diro (lookup s q) = true) ->
  (follow = false \/ p = [] \/ is_symo (lookup s p) = false) ->
  walk FUEL s [] p follow = WOk p.
Proof.
  intros Hl Hnd Hd Hf. rewrite FUEL_val. apply (walk_complete p 120 s [] follow Hl Hnd); auto.
  intros pre suf E Hp Hs. apply Hd. exists suf. auto.
Qed.

(* ------------------------------------------------------------------ the domain and the invariant *)
Section Merge.
Variable um : N.
Variable C : list entry.     (* the contents set, locations already rebased on the offset *)
Variable s0 : fs.            (* the filesystem before the merge *)

Record Dom : Prop := {
  d_nodot : forall x, In x C -> Forall nodot (e_loc x) /\ e_loc x <> [] /\ length (e_loc x) < 120;
  d_distinct : forall x y, In x C -> In y C -> e_loc x = e_loc y -> x = y;
  d_new : forall x y, In x C -> In y C ->
          sibling_new (e_loc x) <> e_loc y /\ ~ pprefix (sibling_new (e_loc x)) (e_loc y);
  d_leaf : forall x y, In x C -> In y C -> is_kdir x = false -> ~ pprefix (e_loc x) (e_loc y);
  d_nosym : forall x q, In x C -> pprefix q (e_loc x) -> is_symo (lookup s0 q) = false;
  d_nosymdir : forall x, In x C -> is_kdir x = true -> is_symo (lookup s0 (e_loc x)) = false;
  d_nostale : forall x, In x C -> is_kdir x = false -> lookup s0 (sibling_new (e_loc x)) = None;
  d_symdir : forall x, In x C -> is_ksym x = true -> is_diro (lookup s0 (e_loc x)) = false;
  d_hl : forall c x, In c C -> In x C -> e_loc c <> e_loc x -> can_hl c x = true ->
         lookup s0 (e_loc x) = None /\ same_data c x;
  d_parents : forall x q, In x C -> lookup s0 (e_loc x) <> None -> pprefix q (e_loc x) ->
              is_diro (lookup s0 q) = true
}.

Definition newanc (q : path) : Prop :=
  lookup s0 q = None /\ (exists x, In x C /\ pprefix q (e_loc x)) /\ (forall y, In y C -> e_loc y <> q).

Definition good (x : entry) (n : node) : Prop :=
  realises x n \/ (is_kdir x = true /\ exists n0, lookup s0 (e_loc x) = Some n0 /\ keeps_dir x n0 n).

Record Inv (P : list entry) (s : fs) : Prop := {
  inv_frame : forall q, (forall y, In y P -> e_loc y <> q) -> ~ newanc q -> lookup s q = lookup s0 q;
  inv_anc : forall q, newanc q -> lookup s q = None \/ is_diro (lookup s q) = true;
  inv_good : forall y, In y P -> exists n, lookup s (e_loc y) = Some n /\ good y n
}.

Lemma loc_dec (L : list entry) q :
  (exists y, In y L /\ e_loc y = q) \/ (forall y, In y L -> e_loc y <> q).
Proof.
  induction L as [|z L IH]; [right; intros y []|].
  destruct (path_eq_dec (e_loc z) q) as [E|E]; [left; exists z; split; [now left|exact E]|].
  destruct IH as [(y & Hy & Ey)|H]; [left; exists y; split; [now right|exact Ey]|].
  right. intros y [<-|Hy]; auto.
Qed.

Lemma good_dir x n : is_kdir x = true -> good x n -> is_diro (Some n) = true.
Proof.
  intros Hk [R|(_ & n0 & _ & K)].
  - unfold realises in R. unfold is_kdir in Hk. destruct (e_kind x); try discriminate. destruct n; try contradiction. reflexivity.
  - unfold keeps_dir in K. destruct n0; try contradiction. destruct n; try contradiction. reflexivity.
Qed.

Hypothesis HD : Dom.

Section WithInv.
Variables (P : list entry) (s : fs).
Hypothesis HP : incl P C.
Hypothesis HI : Inv P s.

(* what the invariant says about a proper prefix of an entry location *)
Lemma prefix_cases x q : In x C -> pprefix q (e_loc x) ->
  (exists y, In y P /\ e_loc y = q /\ is_kdir y = true /\ is_diro (lookup s q) = true) \/
  ((forall y, In y P -> e_loc y <> q) /\ ~ newanc q /\ lookup s q = lookup s0 q) \/
  (newanc q /\ (lookup s q = None \/ is_diro (lookup s q) = true)).
Proof.
  intros Hx Hq. destruct (loc_dec P q) as [(y & Hy & Ey)|Hn].
  - left. exists y. split; [exact Hy|]. split; [exact Ey|].
    assert (Hk : is_kdir y = true).
    { destruct (is_kdir y) eqn:E; [reflexivity|]. exfalso. rewrite <- Ey in Hq.
      eapply (d_leaf HD y x); eauto. }
    split; [exact Hk|]. destruct (inv_good _ _ HI y Hy) as (n & Hl & Hg). rewrite <- Ey, Hl. eapply good_dir; eauto.
  - destruct (loc_dec C q) as [(y & Hy & Ey)|HnC].
    + right; left. split; [exact Hn|]. assert (Hna : ~ newanc q) by (intros (_ & _ & H); eapply H; eauto).
      split; [exact Hna|]. now apply (inv_frame _ _ HI).
    + destruct (lookup s0 q) eqn:E0.
      * right; left. split; [exact Hn|]. assert (Hna : ~ newanc q) by (intros (H & _); congruence).
        split; [exact Hna|]. rewrite <- E0. now apply (inv_frame _ _ HI).
      * right; right. assert (Hna : newanc q) by (split; [exact E0|split; [exists x; auto|exact HnC]]).
        split; [exact Hna|]. now apply (inv_anc _ _ HI).
Qed.

Lemma L_ns x q : In x C -> pprefix q (e_loc x) -> is_symo (lookup s q) = false.
Proof.
  intros Hx Hq. destruct (prefix_cases x q Hx Hq) as [(y & _ & _ & _ & Hd)|[(_ & _ & E)|(_ & [E|E])]].
  - unfold is_diro in Hd. unfold is_symo. destruct (lookup s q) as [[]|]; try discriminate; reflexivity.
  - rewrite E. eapply (d_nosym HD); eauto.
  - now rewrite E.
  - unfold is_diro in E. unfold is_symo. destruct (lookup s q) as [[]|]; try discriminate; reflexivity.
Qed.

Lemma L_dirs x q : In x C -> pprefix q (e_loc x) -> is_diro (lookup s0 q) = true -> is_diro (lookup s q) = true.
Proof.
  intros Hx Hq H0. destruct (prefix_cases x q Hx Hq) as [(y & _ & _ & _ & Hd)|[(_ & _ & E)|((E & _) & _)]].
  - exact Hd.
  - now rewrite E.
  - rewrite E in H0. discriminate.
Qed.

Lemma L_unproc x : In x C -> (forall y, In y P -> e_loc y <> e_loc x) -> lookup s (e_loc x) = lookup s0 (e_loc x).
Proof.
  intros Hx Hn. apply (inv_frame _ _ HI); [exact Hn|]. intros (_ & _ & H). eapply H; eauto.
Qed.

Lemma L_new x : In x C -> lookup s (sibling_new (e_loc x)) = lookup s0 (sibling_new (e_loc x)).
Proof.
  intros Hx. apply (inv_frame _ _ HI).
  - intros y Hy E. destruct (d_new HD x y Hx (HP y Hy)) as [H _]. congruence.
  - intros (_ & (y & Hy & Hq) & _). destruct (d_new HD x y Hx Hy) as [_ H]. contradiction.
Qed.

Lemma L_plain x follow : In x C -> (follow = true -> is_symo (lookup s (e_loc x)) = false) ->
  plain s (e_loc x) follow.
Proof.
  intros Hx Hf. destruct (d_nodot HD x Hx) as (Hnd & Hne & _). split; [exact Hnd|].
  intros pre suf E Hp Hs. destruct suf as [|s1 suf].
  - rewrite app_nil_r in E. subst pre. apply Hf. destruct Hs as [Hs|Hs]; [congruence|exact Hs].
  - eapply L_ns; eauto. exists (s1 :: suf). repeat split; auto. discriminate.
Qed.

End WithInv.
End Merge.

(* ======================================================= part 5 *)

Local Opaque walk FUEL.

Lemma sibling_new_neq' p : sibling_new p <> p.
Proof.
  unfold sibling_new. intro H. destruct p as [|c p]; [discriminate|].
  destruct (@exists_last _ (c :: p)) as (l & a & E); [discriminate|].
  rewrite E in H. rewrite removelast_last, last_last in H. apply app_inv_head in H.
  injection H as H. assert (L : length (a ++ NEW) = length a) by now rewrite H.
  rewrite app_length in L. cbn in L. lia.
Qed.

Lemma Forall_removelast {A} (Q : A -> Prop) l : Forall Q l -> Forall Q (removelast l).
Proof.
  intro H. destruct l as [|a l]; [constructor|].
  destruct (@exists_last _ (a :: l)) as (l' & b & E); [discriminate|]. rewrite E in *. rewrite removelast_last.
  apply Forall_app in H. tauto.
Qed.

Section Steps.
Variable um : N.
Variable C : list entry.
Variable s0 : fs.
Hypothesis HD : Dom C s0.

(* extending the invariant by one processed entry *)
Lemma inv_extend P s s' x :
  incl P C -> Inv C s0 P s -> In x C -> (forall y, In y P -> e_loc y <> e_loc x) ->
  (exists n, lookup s' (e_loc x) = Some n /\ good s0 x n) ->
  (forall q, q <> e_loc x ->
     (~ newanc C s0 q -> lookup s' q = lookup s q) /\
     (newanc C s0 q -> lookup s' q = lookup s q \/ is_diro (lookup s' q) = true)) ->
  Inv C s0 (x :: P) s'.
Proof.
  intros HP HI Hx Hfr H1 H2. constructor.
  - intros q Hn Hna. assert (Hq : q <> e_loc x) by (intro E; apply (Hn x); [now left|now rewrite E]).
    destruct (H2 q Hq) as [A _]. rewrite (A Hna). apply (inv_frame _ _ _ _ HI); auto.
    intros y Hy. apply Hn. now right.
  - intros q Hna. assert (Hq : q <> e_loc x) by (intro E; destruct Hna as (_ & _ & H); apply (H x Hx); now rewrite E).
    destruct (H2 q Hq) as [_ B]. destruct (B Hna) as [E|E]; [rewrite E; now apply (inv_anc _ _ _ _ HI)|now right].
  - intros y [<-|Hy]; [exact H1|].
    destruct (inv_good _ _ _ _ HI y Hy) as (n & Hl & Hg). exists n. split; [|exact Hg].
    destruct (path_eq_dec (e_loc y) (e_loc x)) as [E|E].
    + exfalso. exact (Hfr y Hy E).
    + destruct (H2 (e_loc y) E) as [A _]. rewrite A; [exact Hl|].
      intros (_ & _ & H). apply (H y (HP y Hy)). reflexivity.
Qed.

(* the location of an unprocessed non-directory entry and its '#new' sibling *)
Lemma entry_facts P s x :
  incl P C -> Inv C s0 P s -> In x C -> is_kdir x = false -> (forall y, In y P -> e_loc y <> e_loc x) ->
  let p := e_loc x in
  p <> [] /\ plain s p false /\ lookup s p = lookup s0 p /\ lookup s (sibling_new p) = None /\
  sibling_new p <> p.
Proof.
  intros HP HI Hx Hk Hfr p. destruct (d_nodot _ _ HD x Hx) as (_ & Hne & _).
  split; [exact Hne|]. split; [eapply L_plain; eauto; discriminate|].
  split; [eapply L_unproc; eauto|]. split; [|apply sibling_new_neq'].
  unfold p. erewrite L_new; eauto. eapply (d_nostale _ _ HD); eauto.
Qed.

(* one copyfile step keeps the invariant *)
Lemma copy_inv P s x ops s' :
  incl P C -> Inv C s0 P s -> In x C -> is_kdir x = false -> (forall y, In y P -> e_loc y <> e_loc x) ->
  (forall d, In d C -> is_kdir d = true -> In d P) ->
  copyfile um s x = (ops, None) -> run_opt ops s = Some s' ->
  Inv C s0 (x :: P) s'.
Proof.
  intros HP HI Hx Hk Hfr Hdirs Hcf Hrun.
  destruct (entry_facts P s x HP HI Hx Hk Hfr) as (Hne & Hpl & Hun & Hnew & Hneq).
  set (p := e_loc x) in *. set (tmp := sibling_new p) in *.
  assert (Hna : node_at s p = lookup s p) by (destruct p; [congruence|reflexivity]).
  assert (Hnotanc : ~ newanc C s0 p) by (intros (_ & _ & H); exact (H x Hx eq_refl)).
  assert (Hnotanc' : ~ newanc C s0 tmp).
  { intros (_ & (y & Hy & Hq) & _). destruct (d_new _ _ HD x y Hx Hy) as [_ H]. contradiction. }
  (* the common end of the two direct branches *)
  assert (Hdirect : forall mk s1 c,
            run_opt mk s = Some s1 -> lookup s1 p = None ->
            (forall q, lookup s1 q = lookup s q \/ (newanc C s0 q /\ is_diro (lookup s1 q) = true)) ->
            create_ops um s1 x p = (c, None) ->
            run_opt (mk ++ c ++ perms_new x p) s = Some s' -> Inv C s0 (x :: P) s').
  { intros mk s1 c Hmk Hl1 Hch Hc Hr. rewrite run_opt_app, Hmk in Hr.
    destruct (direct_block _ _ _ _ _ _ Hk Hl1 Hc Hr) as [(n & L & R & _ & _) F].
    apply (inv_extend P s s' x HP HI Hx Hfr).
    - exists n. split; [exact L|now left].
    - intros q Hq. rewrite (F q Hq). destruct (Hch q) as [E|[A B]].
      + rewrite E. split; [reflexivity|now left].
      + split; [contradiction|now right]. }
  unfold copyfile in Hcf. cbv beta zeta in Hcf. fold p in Hcf.
  destruct (canon s p) as [cp| |] eqn:Hc.
  - destruct (canon_ok _ _ _ _ Hc Hpl) as [-> Hdp]. rewrite Hna in Hcf.
    destruct (lookup s p) as [n|] eqn:Hlp.
    + destruct (is_dir_node n) eqn:Hdn; [discriminate|]. fold tmp in Hcf.
      destruct (name_too_long tmp); [discriminate|].
      destruct (create_ops um s x tmp) as [c [e|]] eqn:Hco; [discriminate|]. injection Hcf as <-.
      destruct (staged_block _ _ _ _ _ _ _ Hk Hnew Hneq Hco Hrun) as [(n' & L & R & _ & _) [Hg F]].
      apply (inv_extend P s s' x HP HI Hx Hfr).
      * exists n'. split; [exact L|now left].
      * intros q Hq. destruct (path_eq_dec q tmp) as [->|Hqt].
        -- rewrite Hg, Hnew. split; [reflexivity|now left].
        -- rewrite (F q Hq Hqt). split; [reflexivity|now left].
    + destruct (create_ops um s x p) as [c [e|]] eqn:Hco; [discriminate|]. injection Hcf as <-.
      apply (Hdirect [] s c); auto.
  - (* canon failed with ENOENT *) 
    assert (Hlp : lookup s p = None).
    { destruct (lookup s p) eqn:E; [|reflexivity]. exfalso.
      assert (H0 : lookup s0 p <> None) by (rewrite <- Hun; congruence).
      assert (Hcomp : canon s p = WOk p).
      { destruct (d_nodot _ _ HD x Hx) as (Hnd & _ & Hlen). apply canon_complete; auto.
        intros q Hq. eapply L_dirs; eauto. eapply (d_parents _ _ HD); eauto. }
      congruence. }
    destruct (match rcanon s (removelast p) with WOk r => is_some (node_at s r) | _ => false end).
    + discriminate.
    + destruct (ensure_dirs s [] (removelast p)) as [[mk s1] ok] eqn:He. destruct ok; [|discriminate].
      destruct (d_nodot _ _ HD x Hx) as (Hnd & _ & Hlen).
      assert (Epl : p = removelast p ++ [last p []]) by now apply app_removelast_last.
      assert (Hpre : forall pre suf, removelast p = pre ++ suf -> pre <> [] -> pprefix pre p).
      { intros pre suf E Hp. exists (suf ++ [last p []]). rewrite app_assoc, <- E. repeat split; auto.
        destruct suf; discriminate. }
      destruct (ensure_dirs_ok _ _ _ _ _ He) as (R1 & R2 & R3 & _).
      * cbn. now apply Forall_removelast.
      * cbn. intros pre suf E Hp. eapply L_ns; eauto.
      * now left.
      * intros q (suf & E & Hq & _). destruct q; [congruence|discriminate].
      * assert (Hch : forall q, lookup s1 q = lookup s q \/ (newanc C s0 q /\ is_diro (lookup s1 q) = true)).
        { intros q. destruct (R2 q) as [E|(E1 & E2 & pre & suf & E & Hp & ->)]; [now left|right]. cbn in *.
          split; [|exact E2]. assert (Hpp : pprefix pre p) by eauto.
          assert (HnC : forall y, In y C -> e_loc y <> pre).
          { intros y Hy Ey. assert (Hky : is_kdir y = true).
            { destruct (is_kdir y) eqn:Eky; [reflexivity|]. exfalso. rewrite <- Ey in Hpp. eapply (d_leaf _ _ HD y x); eauto. }
            destruct (inv_good _ _ _ _ HI y (Hdirs y Hy Hky)) as (ny & Hly & _). rewrite Ey in Hly. congruence. }
          split; [|split; [exists x; auto|exact HnC]].
          destruct (lookup s0 pre) eqn:E0; [|reflexivity]. exfalso.
          assert (lookup s pre = lookup s0 pre).
          { apply (inv_frame _ _ _ _ HI); [intros y Hy; apply HnC; auto|]. intros (H & _). congruence. }
          congruence. }
        assert (Hl1 : lookup s1 p = None).
        { destruct (R2 p) as [E|(_ & _ & pre & suf & E & Hp & Eq)]; [now rewrite E|]. exfalso. cbn in Eq.
          assert (length p = length pre) by now rewrite Eq. 
          assert (length p = length (removelast p) + 1) by (rewrite Epl at 1; rewrite app_length; cbn; lia).
          rewrite E in H0. rewrite app_length in H0. lia. }
        assert (Hpl1 : plain s1 p false).
        { destruct Hpl as [A B]. split; [exact A|]. intros pre suf E Hp Hs.
          destruct (Hch pre) as [E1|[_ E1]]; [rewrite E1; eapply B; eauto|].
          unfold is_diro in E1. unfold is_symo. destruct (lookup s1 pre) as [[]|]; try discriminate; reflexivity. }
        destruct (canon s1 p) as [cp| |] eqn:Hc1; try discriminate.
        destruct (canon_ok _ _ _ _ Hc1 Hpl1) as [-> _].
        destruct (create_ops um s1 x p) as [c [e|]] eqn:Hco; [discriminate|]. injection Hcf as <-.
        apply (Hdirect mk s1 c); auto.
  - (* canon failed otherwise: same reasoning *)
    assert (Hlp : lookup s p = None).
    { destruct (lookup s p) eqn:E; [|reflexivity]. exfalso.
      assert (H0 : lookup s0 p <> None) by (rewrite <- Hun; congruence).
      assert (Hcomp : canon s p = WOk p).
      { destruct (d_nodot _ _ HD x Hx) as (Hnd & _ & Hlen). apply canon_complete; auto.
        intros q Hq. eapply L_dirs; eauto. eapply (d_parents _ _ HD); eauto. }
      congruence. }
    destruct (match rcanon s (removelast p) with WOk r => is_some (node_at s r) | _ => false end).
    + discriminate.
    + destruct (ensure_dirs s [] (removelast p)) as [[mk s1] ok] eqn:He. destruct ok; [|discriminate].
      destruct (d_nodot _ _ HD x Hx) as (Hnd & _ & Hlen).
      assert (Epl : p = removelast p ++ [last p []]) by now apply app_removelast_last.
      assert (Hpre : forall pre suf, removelast p = pre ++ suf -> pre <> [] -> pprefix pre p).
      { intros pre suf E Hp. exists (suf ++ [last p []]). rewrite app_assoc, <- E. repeat split; auto.
        destruct suf; discriminate. }
      destruct (ensure_dirs_ok _ _ _ _ _ He) as (R1 & R2 & R3 & _).
      * cbn. now apply Forall_removelast.
      * cbn. intros pre suf E Hp. eapply L_ns; eauto.
      * now left.
      * intros q (suf & E & Hq & _). destruct q; [congruence|discriminate].
      * assert (Hch : forall q, lookup s1 q = lookup s q \/ (newanc C s0 q /\ is_diro (lookup s1 q) = true)).
        { intros q. destruct (R2 q) as [E|(E1 & E2 & pre & suf & E & Hp & ->)]; [now left|right]. cbn in *.
          split; [|exact E2]. assert (Hpp : pprefix pre p) by eauto.
          assert (HnC : forall y, In y C -> e_loc y <> pre).
          { intros y Hy Ey. assert (Hky : is_kdir y = true).
            { destruct (is_kdir y) eqn:Eky; [reflexivity|]. exfalso. rewrite <- Ey in Hpp. eapply (d_leaf _ _ HD y x); eauto. }
            destruct (inv_good _ _ _ _ HI y (Hdirs y Hy Hky)) as (ny & Hly & _). rewrite Ey in Hly. congruence. }
          split; [|split; [exists x; auto|exact HnC]].
          destruct (lookup s0 pre) eqn:E0; [|reflexivity]. exfalso.
          assert (lookup s pre = lookup s0 pre).
          { apply (inv_frame _ _ _ _ HI); [intros y Hy; apply HnC; auto|]. intros (H & _). congruence. }
          congruence. }
        assert (Hl1 : lookup s1 p = None).
        { destruct (R2 p) as [E|(_ & _ & pre & suf & E & Hp & Eq)]; [now rewrite E|]. exfalso. cbn in Eq.
          assert (length p = length pre) by now rewrite Eq. 
          assert (length p = length (removelast p) + 1) by (rewrite Epl at 1; rewrite app_length; cbn; lia).
          rewrite E in H0. rewrite app_length in H0. lia. }
        assert (Hpl1 : plain s1 p false).
        { destruct Hpl as [A B]. split; [exact A|]. intros pre suf E Hp Hs.
          destruct (Hch pre) as [E1|[_ E1]]; [rewrite E1; eapply B; eauto|].
          unfold is_diro in E1. unfold is_symo. destruct (lookup s1 pre) as [[]|]; try discriminate; reflexivity. }
        destruct (canon s1 p) as [cp| |] eqn:Hc1; try discriminate.
        destruct (canon_ok _ _ _ _ Hc1 Hpl1) as [-> _].
        destruct (create_ops um s1 x p) as [c [e|]] eqn:Hco; [discriminate|]. injection Hcf as <-.
        apply (Hdirect mk s1 c); auto.
Qed.

End Steps.

(* ======================================================= part 6 *)

Local Opaque walk FUEL.

Lemma create_ops_err um s x fp c e : create_ops um s x fp = (c, Some e) -> e <> E_CANNOT.
Proof.
  unfold create_ops. intros H E. subst e.
  destruct (e_kind x); destruct (lookup s fp) as [[]|]; try discriminate.
Qed.

Section Steps2.
Variable um : N.
Variable C : list entry.
Variable s0 : fs.
Hypothesis HD : Dom C s0.

(* copyfile raises CannotOverwrite only for a directory at the location *)
Lemma copyfile_cannot P s x ops :
  incl P C -> Inv C s0 P s -> In x C -> is_kdir x = false -> (forall y, In y P -> e_loc y <> e_loc x) ->
  copyfile um s x = (ops, Some E_CANNOT) -> is_diro (lookup s (e_loc x)) = true.
Proof.
  intros HP HI Hx Hk Hfr Hcf.
  destruct (entry_facts C s0 HD P s x HP HI Hx Hk Hfr) as (Hne & Hpl & Hun & Hnew & Hneq).
  set (p := e_loc x) in *.
  assert (Hna : node_at s p = lookup s p) by (destruct p; [congruence|reflexivity]).
  unfold copyfile in Hcf. cbv beta zeta in Hcf. fold p in Hcf.
  destruct (canon s p) as [cp| |] eqn:Hc.
  - destruct (canon_ok _ _ _ _ Hc Hpl) as [-> _]. rewrite Hna in Hcf.
    destruct (lookup s p) as [n|] eqn:Hlp.
    + destruct (is_dir_node n) eqn:Hdn; [cbn; exact Hdn|].
      destruct (name_too_long (sibling_new p)); [discriminate|].
      destruct (create_ops um s x (sibling_new p)) as [c [e|]] eqn:Hco; [|discriminate].
      injection Hcf as _ ->. exfalso. eapply create_ops_err; eauto.
    + destruct (create_ops um s x p) as [c [e|]] eqn:Hco; [|discriminate].
      injection Hcf as _ ->. exfalso. eapply create_ops_err; eauto.
  - destruct (match rcanon s (removelast p) with WOk r => is_some (node_at s r) | _ => false end); [discriminate|].
    destruct (ensure_dirs s [] (removelast p)) as [[mk s1] ok]. destruct ok; [|discriminate].
    destruct (canon s1 p); try discriminate.
    destruct (create_ops um s1 x p0) as [c [e|]] eqn:Hco; [|discriminate].
    injection Hcf as _ ->. exfalso. eapply create_ops_err; eauto.
  - destruct (match rcanon s (removelast p) with WOk r => is_some (node_at s r) | _ => false end); [discriminate|].
    destruct (ensure_dirs s [] (removelast p)) as [[mk s1] ok]. destruct ok; [|discriminate].
    destruct (canon s1 p); try discriminate.
    destruct (create_ops um s1 x p0) as [c [e|]] eqn:Hco; [|discriminate].
    injection Hcf as _ ->. exfalso. eapply create_ops_err; eauto.
Qed.

Definition files_in (merged P : list entry) : Prop :=
  forall c, In c merged -> In c P /\ exists d hl, e_kind c = KFile d hl.

(* one step of the non-directory pass keeps the invariant *)
Lemma nondir_step_inv P s merged x ops merged' s' :
  incl P C -> Inv C s0 P s -> In x C -> is_kdir x = false -> (forall y, In y P -> e_loc y <> e_loc x) ->
  (forall d, In d C -> is_kdir d = true -> In d P) -> files_in merged P ->
  nondir_step um s merged x = (ops, None, merged') -> run_opt ops s = Some s' ->
  Inv C s0 (x :: P) s' /\ files_in merged' (x :: P).
Proof.
  intros HP HI Hx Hk Hfr Hdirs Hm Hst Hrun.
  destruct (entry_facts C s0 HD P s x HP HI Hx Hk Hfr) as (Hne & Hpl & Hun & Hnew & Hneq).
  assert (Hmono : forall l, files_in l P -> files_in l (x :: P)).
  { intros l Hl c Hc. destruct (Hl c Hc) as [A B]. split; [now right|exact B]. }
  (* the copy branch, for any list of candidates to carry on *)
  assert (Hcopy : forall m', files_in m' (x :: P) ->
            (let '(ops0, err) := copyfile um s x in
             match err with
             | Some e => if N.eqb e E_CANNOT && is_ksym x && tolerated s x then (ops0, None, m') else (ops0, Some e, m')
             | None => (ops0, None, m') end) = (ops, None, merged') ->
            Inv C s0 (x :: P) s' /\ files_in merged' (x :: P)).
  { intros m' Hm' H. destruct (copyfile um s x) as [ops0 [e|]] eqn:Hcf.
    - destruct (N.eqb e E_CANNOT && is_ksym x && tolerated s x) eqn:Hc; [|discriminate]. exfalso.
      apply andb_true_iff in Hc as [Hc _]. apply andb_true_iff in Hc as [He Hs]. apply N.eqb_eq in He. subst e.
      pose proof (copyfile_cannot P s x ops0 HP HI Hx Hk Hfr Hcf) as Hd. rewrite Hun in Hd.
      rewrite (d_symdir _ _ HD x Hx Hs) in Hd. discriminate.
    - injection H as <- <-. split; [|exact Hm']. eapply copy_inv; eauto. }
  unfold nondir_step in Hst. cbv beta zeta in Hst.
  destruct (e_kind x) as [|d hl|t| |r] eqn:Ek; try (apply (Hcopy merged); [now apply Hmono|exact Hst]).
  destruct (find (fun c => can_hl c x) merged) as [c|] eqn:Hf.
  - (* hard link to an entry merged before *)
      apply find_some in Hf as [Hcm Hhl]. destruct (Hm c Hcm) as [HcP (dc & hlc & Ekc)].
      assert (HcC : In c C) by auto.
      assert (Hcx : e_loc c <> e_loc x) by auto.
      destruct (d_hl _ _ HD c x HcC Hx Hcx Hhl) as [Hfree Hsd].
      destruct (do_link s c x) as [ops1 err1] eqn:Hdl. injection Hst as -> -> <-.
      split; [|now apply Hmono].
      destruct (inv_good _ _ _ _ HI c HcP) as (nc & Hlc & Hgc).
      assert (Hrc : realises c nc).
      { destruct Hgc as [R|(K & _)]; [exact R|]. unfold is_kdir in K. rewrite Ekc in K. discriminate. }
      assert (Hplc : plain s (e_loc c) false) by (eapply L_plain; eauto; discriminate).
      unfold do_link in Hdl.
      destruct (canon s (e_loc c)) as [a| |] eqn:Hca; try discriminate.
      destruct (canon s (e_loc x)) as [b| |] eqn:Hcb; try discriminate.
      destruct (canon_ok _ _ _ _ Hca Hplc) as [-> _]. destruct (canon_ok _ _ _ _ Hcb Hpl) as [-> _].
      rewrite Hlc in Hdl. rewrite (realises_file_node _ _ _ _ Ekc Hrc) in Hdl. cbn [negb] in Hdl.
      assert (Hnb : node_at s (e_loc x) = None).
      { destruct (e_loc x); [congruence|]. cbn. rewrite Hun. exact Hfree. }
      rewrite Hnb in Hdl. injection Hdl as <-.
      cbn [run_opt] in Hrun. destruct (apply_op s (Link (e_loc c) (e_loc x))) as [s1|] eqn:Hap; [|discriminate].
      injection Hrun as <-. cbn in Hap. rewrite Hlc in Hap.
      destruct (is_file_node nc && can_create s (e_loc x)); [|discriminate]. injection Hap as <-.
      apply (inv_extend C s0 P s _ x HP HI Hx Hfr).
      * exists nc. split; [apply lookup_set_same|]. left. eapply can_hl_realises; eauto.
      * intros q Hq. rewrite lookup_set_other by exact Hq. split; [reflexivity|now left].
  - apply (Hcopy (merged ++ [x])); [|exact Hst]. intros c Hc. apply in_app_or in Hc as [Hc|[<-|[]]].
    + exact (Hmono merged Hm c Hc).
    + split; [now left|eauto].
Qed.

(* the whole non-directory pass *)
Lemma nondirs_phase_inv : forall xs P s merged ops sf,
  incl P C -> Inv C s0 P s -> (forall x, In x xs -> In x C /\ is_kdir x = false) ->
  NoDup (map e_loc xs) -> (forall x y, In x xs -> In y P -> e_loc y <> e_loc x) ->
  (forall d, In d C -> is_kdir d = true -> In d P) -> files_in merged P ->
  nondirs_phase um s merged xs = (ops, sf, None) -> forall s', run_opt ops s = Some s' ->
  Inv C s0 (rev xs ++ P) s'.
Proof.
  induction xs as [|x r IH]; intros P s merged ops sf HP HI Hxs Hnd Hfr Hdirs Hm Hph s' Hrun.
  - cbn in Hph. injection Hph as <- <-. cbn in Hrun. injection Hrun as <-. exact HI.
  - cbn [nondirs_phase] in Hph.
    destruct (nondir_step um s merged x) as [[ops1 err] merged'] eqn:Hst.
    destruct err as [e|]; [discriminate|].
    destruct (nondirs_phase um (run ops1 s) merged' r) as [[ops2 s2] err2] eqn:Hph2.
    injection Hph as <- <- ->. rewrite run_opt_app in Hrun.
    destruct (run_opt ops1 s) as [s1|] eqn:Hr1; [|discriminate].
    rewrite (run_opt_run _ _ _ Hr1) in Hph2.
    destruct (Hxs x (or_introl eq_refl)) as [HxC Hxk].
    destruct (nondir_step_inv P s merged x ops1 merged' s1 HP HI HxC Hxk) as [HI1 Hm1]; auto.
    { intros y Hy. apply Hfr; [now left|exact Hy]. }
    cbn [rev]. rewrite <- app_assoc. cbn [app].
    inversion Hnd as [|? ? Hnin Hnd']; subst.
    eapply (IH (x :: P)); eauto.
    + intros y [<-|Hy]; auto.
    + intros y Hy. apply Hxs. now right.
    + intros y z Hy [<-|Hz].
      * intro E. apply Hnin. rewrite E. now apply in_map.
      * apply Hfr; [now right|exact Hz].
    + intros d Hd Hk. right. auto.
Qed.

End Steps2.

(* ======================================================= part 7 *)

Local Opaque walk FUEL.

Lemma dirs_phase_cons' um s x r :
  dirs_phase um s (x :: r) =
  (let '(ops, err) := dir_step um s x in
   let s1 := run ops s in
   match err with
   | Some e => (ops, s1, Some e)
   | None => let '(ops2, s2, err2) := dirs_phase um s1 r in (ops ++ ops2, s2, err2)
   end).
Proof. reflexivity. Qed.

Section Steps3.
Variable um : N.
Variable C : list entry.
Variable s0 : fs.
Hypothesis HD : Dom C s0.

(* one step of the directory pass keeps the invariant *)
Lemma dir_step_inv P s x ops s' :
  incl P C -> Inv C s0 P s -> In x C -> is_kdir x = true -> (forall y, In y P -> e_loc y <> e_loc x) ->
  dir_step um s x = (ops, None) -> run_opt ops s = Some s' ->
  Inv C s0 (x :: P) s'.
Proof.
  intros HP HI Hx Hk Hfr Hst Hrun.
  destruct (d_nodot _ _ HD x Hx) as (Hnd & Hne & Hlen).
  assert (Hun : lookup s (e_loc x) = lookup s0 (e_loc x)) by (eapply L_unproc; eauto).
  assert (Hns : is_symo (lookup s (e_loc x)) = false) by (rewrite Hun; eapply (d_nosymdir _ _ HD); eauto).
  assert (Hplt : plain s (e_loc x) true) by (eapply L_plain; eauto).
  assert (Hplf : plain s (e_loc x) false) by (eapply L_plain; eauto; discriminate).
  assert (Ekd : e_kind x = KDir) by (unfold is_kdir in Hk; destruct (e_kind x); try discriminate; reflexivity).
  set (p := e_loc x) in *.
  assert (Hna : node_at s p = lookup s p) by (destruct p; [congruence|reflexivity]).
  (* the "make it" branch *)
  assert (Hmk : (match canon s p with
                 | WOk cp =>
                     match cp, lookup s cp with
                     | [], _ => ([], Some E_OS)
                     | _, None => (Mkdir cp (dir_create_mode um x) :: perms_new x cp ++ perms_new x cp, None)
                     | _, Some (Sym _ _ _ _) =>
                         (Unlink cp :: Mkdir cp (dir_create_mode um x) :: perms_new x cp ++ perms_new x cp, None)
                     | _, Some _ => ([], Some E_OS)
                     end
                 | _ => ([], Some E_OS) end) = (ops, None) -> Inv C s0 (x :: P) s').
  { intro H. destruct (canon s p) as [cp| |] eqn:Hc; try discriminate.
    destruct (canon_ok _ _ _ _ Hc Hplf) as [-> _].
    destruct p as [|c0 p'] eqn:Ep; [congruence|]. rewrite <- Ep in *.
    destruct (lookup s p) as [n|] eqn:Hl.
    - destruct n; discriminate.
    - injection H as <-. destruct (newdir_block _ _ _ _ _ Ekd Hrun) as (_ & (n & L & R & _) & F).
      apply (inv_extend C s0 P s s' x HP HI Hx Hfr).
      + exists n. split; [exact L|now left].
      + intros q Hq. rewrite (F q Hq). split; [reflexivity|now left]. }
  unfold dir_step in Hst. cbv beta zeta in Hst. fold p in Hst.
  destruct (rcanon s p) as [r| |] eqn:Hrc; [| |discriminate].
  - destruct (canon_ok _ _ _ _ Hrc Hplt) as [-> _]. rewrite Hna in Hst.
    destruct (lookup s p) as [n2|] eqn:Hl; [|now apply Hmk].
    destruct (is_dir_node n2) eqn:Hd2; [|discriminate].
    destruct (canon s p) as [cp| |] eqn:Hc; try discriminate.
    destruct (canon_ok _ _ _ _ Hc Hplf) as [-> _]. injection Hst as <-.
    destruct n2 as [| m u g t | | |]; try discriminate.
    destruct (existingdir_block _ _ _ _ _ _ _ _ Hl Hrun) as [(n & L & K & _) F].
    apply (inv_extend C s0 P s s' x HP HI Hx Hfr).
    + exists n. split; [exact L|]. right. split; [exact Hk|]. exists (Dir m u g t). split; [symmetry; exact Hun|exact K].
    + intros q Hq. rewrite (F q Hq). split; [reflexivity|now left].
  - now apply Hmk.
Qed.

Lemma dirs_phase_inv : forall ds P s ops sf,
  incl P C -> Inv C s0 P s -> (forall x, In x ds -> In x C /\ is_kdir x = true) ->
  NoDup (map e_loc ds) -> (forall x y, In x ds -> In y P -> e_loc y <> e_loc x) ->
  dirs_phase um s ds = (ops, sf, None) -> forall s', run_opt ops s = Some s' ->
  Inv C s0 (rev ds ++ P) s' /\ sf = s'.
Proof.
  induction ds as [|x r IH]; intros P s ops sf HP HI Hxs Hnd Hfr Hph s' Hrun.
  - change (dirs_phase um s []) with (@nil op, s, @None N) in Hph.
    injection Hph as <- <-. cbn in Hrun. injection Hrun as <-. split; [exact HI|reflexivity].
  - rewrite dirs_phase_cons' in Hph.
    destruct (dir_step um s x) as [ops1 err] eqn:Hst. destruct err as [e|]; [discriminate|].
    cbv zeta in Hph.
    destruct (dirs_phase um (run ops1 s) r) as [[ops2 s2] err2] eqn:Hph2.
    injection Hph as <- <- ->. rewrite run_opt_app in Hrun.
    destruct (run_opt ops1 s) as [s1|] eqn:Hr1; [|discriminate].
    rewrite (run_opt_run _ _ _ Hr1) in Hph2.
    destruct (Hxs x (or_introl eq_refl)) as [HxC Hxk].
    assert (HI1 : Inv C s0 (x :: P) s1).
    { eapply dir_step_inv; eauto. intros y Hy. apply Hfr; [now left|exact Hy]. }
    cbn [rev]. rewrite <- app_assoc. cbn [app].
    inversion Hnd as [|? ? Hnin Hnd']; subst.
    eapply (IH (x :: P)); eauto.
    + intros y [<-|Hy]; auto.
    + intros y Hy. apply Hxs. now right.
    + intros y z Hy [<-|Hz].
      * intro E. apply Hnin. rewrite E. now apply in_map.
      * apply Hfr; [now right|exact Hz].
Qed.

End Steps3.

(* ======================================================= part 8 *)

Local Opaque walk FUEL.

(* ------------------------------------------------------------------ the sorted directory list *)
Lemma In_insert_sorted_iff x y l : In x (insert_sorted y l) <-> x = y \/ In x l.
Proof.
  induction l as [|z l IH]; cbn.
  - split; [intros [H|[]]; auto|intros [H|[]]; auto].
  - destruct (str_ltb (path_str (e_loc y)) (path_str (e_loc z))); cbn.
    + split; [intros [H|[H|H]]; auto|intros [H|[H|H]]; auto].
    + rewrite IH. split; [intros [H|[H|H]]; auto|intros [H|[H|H]]; auto].
Qed.
Lemma In_sort_entries_iff x l : In x (sort_entries l) <-> In x l.
Proof.
  induction l as [|y l IH]; cbn; [tauto|]. rewrite In_insert_sorted_iff, IH. split; intros [H|H]; auto.
Qed.
Lemma NoDup_insert_sorted y l :
  NoDup (map e_loc l) -> ~ In (e_loc y) (map e_loc l) -> NoDup (map e_loc (insert_sorted y l)).
Proof.
  induction l as [|z l IH]; cbn; intros Hnd Hn.
  - constructor; [intros []|constructor].
  - destruct (str_ltb (path_str (e_loc y)) (path_str (e_loc z))); cbn.
    + constructor; [exact Hn|exact Hnd].
    + inversion Hnd as [|? ? Hz Hl]; subst. constructor.
      * intro H. apply in_map_iff in H as (w & Ew & Hw). apply (proj1 (In_insert_sorted_iff _ _ _)) in Hw as [->|Hw].
        -- apply Hn. left. congruence.
        -- apply Hz. rewrite <- Ew. now apply in_map.
      * apply IH; [exact Hl|]. intro H. apply Hn. now right.
Qed.
Lemma NoDup_sort_entries l : NoDup (map e_loc l) -> NoDup (map e_loc (sort_entries l)).
Proof.
  induction l as [|y l IH]; cbn; intro H; [constructor|]. inversion H as [|? ? Hy Hl]; subst.
  apply NoDup_insert_sorted; [now apply IH|]. intro Hi. apply Hy.
  apply in_map_iff in Hi as (w & Ew & Hw). apply (proj1 (In_sort_entries_iff _ _)) in Hw. rewrite <- Ew. now apply in_map.
Qed.
Lemma NoDup_map_filter (f : entry -> bool) l : NoDup (map e_loc l) -> NoDup (map e_loc (filter f l)).
Proof.
  induction l as [|y l IH]; cbn; intro H; [constructor|]. inversion H as [|? ? Hy Hl]; subst.
  destruct (f y); cbn; [|now apply IH]. constructor; [|now apply IH].
  intro Hi. apply Hy. apply in_map_iff in Hi as (w & Ew & Hw). apply filter_In in Hw as [Hw _].
  rewrite <- Ew. now apply in_map.
Qed.
Lemma NoDup_map_inj (l : list entry) x y :
  NoDup (map e_loc l) -> In x l -> In y l -> e_loc x = e_loc y -> x = y.
Proof.
  induction l as [|z l IH]; cbn; intros Hnd Hx Hy E; [destruct Hx|].
  inversion Hnd as [|? ? Hz Hl]; subst. destruct Hx as [<-|Hx], Hy as [<-|Hy]; auto.
  - exfalso. apply Hz. rewrite E. now apply in_map.
  - exfalso. apply Hz. rewrite <- E. now apply in_map.
Qed.

(* ------------------------------------------------------------------ the whole merge *)
Definition all_done (i : minput) : list entry :=
  rev (filter (fun x => negb (is_kdir x)) (cset_of i)) ++ rev (sort_entries (filter is_kdir (cset_of i))) ++ [].

Theorem merge_inv : forall i sf,
  Dom (cset_of i) (i_fs i) -> NoDup (map e_loc (cset_of i)) ->
  offset_ops (i_umask i) (i_fs i) (i_offset i) = ([], None) ->
  merge_err i = None -> run_opt (merge_ops i) (i_fs i) = Some sf ->
  Inv (cset_of i) (i_fs i) (all_done i) sf /\ (forall x, In x (cset_of i) -> In x (all_done i)).
Proof.
  intros i sf HD Hnd Hoff Herr Hrun.
  set (C := cset_of i) in *. set (s0 := i_fs i) in *. set (um := i_umask i) in *.
  unfold merge_err, merge_ops, merge in *. fold um s0 in Herr, Hrun. rewrite Hoff in Herr, Hrun.
  change (run [] s0) with s0 in Herr, Hrun. fold (cset_of i) in Herr, Hrun. fold C in Herr, Hrun.
  destruct (dirs_phase um s0 (sort_entries (filter is_kdir C))) as [[ops1 s2] err1] eqn:E1.
  destruct err1 as [e|]; [cbn in Herr; discriminate|].
  destruct (nondirs_phase um s2 [] (filter (fun x => negb (is_kdir x)) C)) as [[ops2 s3] err2] eqn:E2.
  cbn [fst snd] in Herr, Hrun. subst err2. cbn [app] in Hrun.
  rewrite run_opt_app in Hrun. destruct (run_opt ops1 s0) as [s2'|] eqn:Hr1; [|discriminate].
  assert (HI0 : Inv C s0 [] s0).
  { constructor; [reflexivity| |intros y []]. intros q (H & _). now left. }
  assert (Hds : forall x, In x (sort_entries (filter is_kdir C)) -> In x C /\ is_kdir x = true).
  { intros x Hx. apply (proj1 (In_sort_entries_iff _ _)) in Hx. apply filter_In in Hx. exact Hx. }
  assert (Hnds : NoDup (map e_loc (sort_entries (filter is_kdir C))))
    by (apply NoDup_sort_entries; now apply NoDup_map_filter).
  assert (Hfr0 : forall x y : entry, In x (sort_entries (filter is_kdir C)) -> In y [] -> e_loc y <> e_loc x)
    by (intros x y _ []).
  destruct (dirs_phase_inv um C s0 HD (sort_entries (filter is_kdir C)) [] s0 ops1 s2
              (incl_nil_l C) HI0 Hds Hnds Hfr0 E1 s2' Hr1) as [HI1 ->].
  assert (HP1 : incl (rev (sort_entries (filter is_kdir C)) ++ []) C).
  { intros y Hy. rewrite app_nil_r in Hy. apply in_rev in Hy. apply (proj1 (In_sort_entries_iff _ _)) in Hy.
      apply filter_In in Hy. tauto. }
  assert (Hdirs : forall d, In d C -> is_kdir d = true -> In d (rev (sort_entries (filter is_kdir C)) ++ [])).
  { intros d Hd Hk. rewrite app_nil_r. apply -> in_rev. apply (proj2 (In_sort_entries_iff _ _)). apply filter_In. auto. }
  split.
  - eapply (nondirs_phase_inv um C s0 HD); eauto.
    + intros x Hx. apply filter_In in Hx as [Hx Hk]. split; [exact Hx|]. now destruct (is_kdir x).
    + now apply NoDup_map_filter.
    + intros x y Hx Hy E. apply filter_In in Hx as [Hx Hk]. rewrite app_nil_r in Hy.
        apply in_rev in Hy. apply (proj1 (In_sort_entries_iff _ _)) in Hy. apply filter_In in Hy as [Hy Hky].
        assert (y = x) by exact (NoDup_map_inj C y x Hnd Hy Hx E). subst y. rewrite Hky in Hk. discriminate.
    + intros c [].
  - intros x Hx. unfold all_done. fold C. destruct (is_kdir x) eqn:Hk.
    + apply in_or_app. right. now apply Hdirs.
    + apply in_or_app. left. apply -> in_rev. apply filter_In. split; [exact Hx|]. now rewrite Hk.
Qed.

(* ======================================================= part 9 *)

Local Opaque walk FUEL.

(* ------------------------------------------------------------------ the decidable domain *)
Lemma pprefix_in q p : pprefix q p -> In q (pprefixes p).
Proof.
  intros (suf & -> & Hq & Hs). unfold pprefixes. apply in_map_iff. exists (length q). split.
  - rewrite firstn_app. replace (length q - length q) with 0 by lia. cbn. now rewrite firstn_all, app_nil_r.
  - apply in_seq. rewrite app_length. destruct q; [congruence|]. destruct suf; [congruence|]. cbn. lia.
Qed.
Lemma pprefix_b_true q p : pprefix q p -> pprefix_b q p = true.
Proof.
  intros (suf & -> & Hq & Hs). unfold pprefix_b, strict_prefix. destruct q as [|q0 q]; [congruence|]. cbn [is_nil negb andb].
  rewrite is_prefix_app. cbn [andb]. destruct (path_eq_dec (q0 :: q) ((q0 :: q) ++ suf)) as [E|]; [|reflexivity].
  exfalso. assert (L : length (q0 :: q) = length ((q0 :: q) ++ suf)) by now rewrite <- E.
  rewrite app_length in L. destruct suf; [congruence|]. cbn in L. lia.
Qed.
Lemma nodup_paths_NoDup l : nodup_paths l = true -> NoDup l.
Proof.
  induction l as [|p r IH]; cbn; intro H; [constructor|]. apply andb_true_iff in H as [H1 H2].
  constructor; [|now apply IH]. intro Hi. unfold mem_path in H1. apply negb_true_iff in H1.
  assert (existsb (fun q => if path_eq_dec p q then true else false) r = true).
  { apply existsb_exists. exists p. split; [exact Hi|]. destruct (path_eq_dec p p); congruence. }
  congruence.
Qed.
Lemma path_eqb_false a b : path_eqb a b = false -> a <> b.
Proof. unfold path_eqb. destruct (path_eq_dec a b); congruence. Qed.
Lemma nodot_b_true c : nodot_b c = true -> nodot c.
Proof. unfold nodot_b, nodot. intro H. apply andb_true_iff in H as [A B]. apply negb_true_iff in A, B. auto. Qed.

Lemma noalias_dom i : noalias i = true ->
  Dom (cset_of i) (i_fs i) /\ NoDup (map e_loc (cset_of i)) /\
  offset_ops (i_umask i) (i_fs i) (i_offset i) = ([], None).
Proof.
  unfold noalias. set (C := cset_of i). set (s0 := i_fs i). intro H.
  apply andb_true_iff in H as [H Hall]. apply andb_true_iff in H as [Hoff Hnd].
  assert (Hnd' : NoDup (map e_loc C)) by now apply nodup_paths_NoDup.
  assert (Hoff' : offset_ops (i_umask i) s0 (i_offset i) = ([], None)).
  { destruct (offset_ops (i_umask i) s0 (i_offset i)) as [[|o l] [e|]]; try discriminate. reflexivity. }
  split; [|split; [exact Hnd'|exact Hoff']].
  assert (Hx : forall x, In x C ->
    (Forall nodot (e_loc x) /\ e_loc x <> [] /\ length (e_loc x) < 120) /\
    (forall q, pprefix q (e_loc x) -> is_symo (lookup s0 q) = false) /\
    (is_kdir x = true -> is_symo (lookup s0 (e_loc x)) = false) /\
    (is_kdir x = false -> lookup s0 (sibling_new (e_loc x)) = None) /\
    (is_ksym x = true -> is_diro (lookup s0 (e_loc x)) = false) /\
    (lookup s0 (e_loc x) <> None -> forall q, pprefix q (e_loc x) -> is_diro (lookup s0 q) = true) /\
    (forall y, In y C ->
       sibling_new (e_loc x) <> e_loc y /\ ~ pprefix (sibling_new (e_loc x)) (e_loc y) /\
       (is_kdir x = false -> ~ pprefix (e_loc x) (e_loc y)) /\
       (e_loc x <> e_loc y -> can_hl x y = true -> lookup s0 (e_loc y) = None /\ same_data x y))).
  { intros x Hin. rewrite forallb_forall in Hall. specialize (Hall x Hin).
    repeat (apply andb_true_iff in Hall as [Hall ?]).
    rename H into Hpairs, H0 into Hpar, H1 into Hsd, H2 into Hkd, H3 into Hpre, H4 into Hlen, H5 into Hnil.
    split; [|split; [|split; [|split; [|split; [|split]]]]].
    - split; [|split].
      + apply Forall_forall. intros c Hc. apply nodot_b_true. rewrite forallb_forall in Hall. now apply Hall.
      + destruct (e_loc x); [discriminate|discriminate].
      + now apply Nat.ltb_lt.
    - intros q Hq. rewrite forallb_forall in Hpre. specialize (Hpre q (pprefix_in _ _ Hq)). now apply negb_true_iff.
    - intro Hk. rewrite Hk in Hkd. now apply negb_true_iff.
    - intro Hk. rewrite Hk in Hkd. destruct (lookup s0 (sibling_new (e_loc x))); [discriminate|reflexivity].
    - intro Hk. rewrite Hk in Hsd. now apply negb_true_iff.
    - intros Hb q Hq. destruct (lookup s0 (e_loc x)) eqn:E; [|congruence]. cbn in Hpar.
      rewrite forallb_forall in Hpar. apply Hpar. now apply pprefix_in.
    - intros y Hy. rewrite forallb_forall in Hpairs. specialize (Hpairs y Hy).
      repeat (apply andb_true_iff in Hpairs as [Hpairs ?]).
      split; [|split; [|split]].
      + apply path_eqb_false. now apply negb_true_iff.
      + intro Hp. apply pprefix_b_true in Hp. rewrite Hp in H1. discriminate.
      + intros Hk Hp. rewrite Hk in H0. apply pprefix_b_true in Hp. rewrite Hp in H0. discriminate.
      + intros Hne Hhl. unfold path_eqb in H. destruct (path_eq_dec (e_loc x) (e_loc y)); [contradiction|].
        rewrite Hhl in H. apply andb_true_iff in H as [A B]. split.
        * destruct (lookup s0 (e_loc y)); [discriminate|reflexivity].
        * unfold same_data_b in B. unfold same_data. destruct (e_kind x), (e_kind y); auto. now apply str_eqb_eq. }
  constructor.
  - intros x Hin. apply (Hx x Hin).
  - intros x y Hix Hiy E. eapply NoDup_map_inj; eauto.
  - intros x y Hix Hiy. destruct (Hx x Hix) as (_ & _ & _ & _ & _ & _ & H). destruct (H y Hiy) as (A & B & _). auto.
  - intros x y Hix Hiy Hk. destruct (Hx x Hix) as (_ & _ & _ & _ & _ & _ & H). destruct (H y Hiy) as (_ & _ & A & _). auto.
  - intros x q Hix. apply (Hx x Hix).
  - intros x Hix. apply (Hx x Hix).
  - intros x Hix. apply (Hx x Hix).
  - intros x Hix. apply (Hx x Hix).
  - intros c x Hic Hix Hne Hhl. destruct (Hx c Hic) as (_ & _ & _ & _ & _ & _ & H). destruct (H x Hix) as (_ & _ & _ & A). auto.
  - intros x q Hix Hb Hq. destruct (Hx x Hix) as (_ & _ & _ & _ & _ & H & _). exact (H Hb q Hq).
Qed.

(* ------------------------------------------------------------------ merged_exact *)
Lemma all_done_incl i : incl (all_done i) (cset_of i).
Proof.
  intros y Hy. unfold all_done in Hy. apply in_app_or in Hy as [Hy|Hy].
  - apply in_rev in Hy. apply filter_In in Hy. tauto.
  - rewrite app_nil_r in Hy. apply in_rev in Hy. apply (proj1 (In_sort_entries_iff _ _)) in Hy. apply filter_In in Hy. tauto.
Qed.

Definition merged_exact_stmt : Prop := forall i sf,
  noalias i = true -> merge_err i = None -> run_opt (merge_ops i) (i_fs i) = Some sf ->
  (* every entry is installed *)
  (forall x, In x (cset_of i) -> exists n, lookup sf (e_loc x) = Some n /\ installed (i_fs i) x n) /\
  (* nothing else changes ... *)
  (forall q, (forall x, In x (cset_of i) -> e_loc x <> q) ->
     ~ (lookup (i_fs i) q = None /\ exists x, In x (cset_of i) /\ pprefix q (e_loc x)) ->
     lookup sf q = lookup (i_fs i) q) /\
  (* ... except that missing parent directories may have been created *)
  (forall q, (forall x, In x (cset_of i) -> e_loc x <> q) -> lookup (i_fs i) q = None ->
     (exists x, In x (cset_of i) /\ pprefix q (e_loc x)) ->
     lookup sf q = None \/ is_diro (lookup sf q) = true).
Theorem merged_exact_proof : merged_exact_stmt.
Proof.
  intros i sf Hna Herr Hrun. destruct (noalias_dom i Hna) as (HD & Hnd & Hoff).
  destruct (merge_inv i sf HD Hnd Hoff Herr Hrun) as [HI Hall].
  split; [|split].
  - intros x Hx. destruct (inv_good _ _ _ _ HI x (Hall x Hx)) as (n & L & G). exists n. split; [exact L|exact G].
  - intros q Hq Hn. apply (inv_frame _ _ _ _ HI).
    + intros y Hy. apply Hq. now apply all_done_incl.
    + intros (A & B & _). apply Hn. split; [exact A|exact B].
  - intros q Hq H0 Hp. apply (inv_anc _ _ _ _ HI). split; [exact H0|split; [exact Hp|exact Hq]].
Qed.

(* the domain is inhabited: a directory, a file in it, a symlink, a replaced file, a missing parent *)
Definition ex_input : minput :=
  {| i_umask := 18; i_offset := Some [[111]]%N;
     i_cset := [ {| e_loc := [[100]]%N; e_kind := KDir; e_mode := Some 493%N; e_uid := Some 0%N; e_gid := Some 0%N; e_mtime := Some 5%Z |};
                 {| e_loc := [[100]; [102]]%N; e_kind := KFile [1; 2]%N (Some 7%N); e_mode := Some 420%N; e_uid := None; e_gid := None; e_mtime := Some 6%Z |};
                 {| e_loc := [[103]]%N; e_kind := KFile [1; 2]%N (Some 7%N); e_mode := Some 420%N; e_uid := None; e_gid := None; e_mtime := Some 6%Z |};
                 {| e_loc := [[108]]%N; e_kind := KSym [100]%N; e_mode := None; e_uid := Some 3%N; e_gid := None; e_mtime := None |};
                 {| e_loc := [[114]]%N; e_kind := KFile [9]%N None; e_mode := Some 384%N; e_uid := None; e_gid := None; e_mtime := None |};
                 {| e_loc := [[109]; [110]; [112]]%N; e_kind := KFifo; e_mode := Some 384%N; e_uid := None; e_gid := None; e_mtime := Some 8%Z |} ];
     i_fs := [ ([[111]]%N, Dir 493 0 0 1); ([[111]; [114]]%N, File [7; 7; 7]%N 420 0 0 2 1) ] |}.
Example noalias_inhabited :
  noalias ex_input = true /\ merge_err ex_input = None /\
  (exists sf, run_opt (merge_ops ex_input) (i_fs ex_input) = Some sf) /\ length (merge_ops ex_input) = 24.
Proof. vm_compute. repeat split; eauto. Qed.


(* ------------------------------------------------------------------ per-kind exactness, as stated in Prop_C18 *)
Definition entry_direct_exact_stmt : Prop := forall um s x fp c s',
  is_kdir x = false -> lookup s fp = None -> create_ops um s x fp = (c, None) ->
  run_opt (c ++ perms_new x fp) s = Some s' ->
  (exists n, lookup s' fp = Some n /\ realises x n) /\ (forall q, q <> fp -> lookup s' q = lookup s q).
Lemma entry_direct_exact_proof : entry_direct_exact_stmt.
Proof.
  intros um s x fp c s' Hk Hl Hc Hr. destruct (direct_block _ _ _ _ _ _ Hk Hl Hc Hr) as [(n & L & R & _) F].
  split; [eauto|exact F].
Qed.

Definition entry_staged_exact_stmt : Prop := forall um s x cp c s',
  is_kdir x = false -> lookup s (sibling_new cp) = None ->
  create_ops um s x (sibling_new cp) = (c, None) ->
  run_opt (c ++ perms_new x (sibling_new cp) ++ [Rename (sibling_new cp) cp]) s = Some s' ->
  (exists n, lookup s' cp = Some n /\ realises x n) /\ lookup s' (sibling_new cp) = None /\
  (forall q, q <> cp -> q <> sibling_new cp -> lookup s' q = lookup s q).
Lemma entry_staged_exact_proof : entry_staged_exact_stmt.
Proof.
  intros um s x cp c s' Hk Hl Hc Hr.
  destruct (staged_block _ _ _ _ _ _ _ Hk Hl (sibling_new_neq' cp) Hc Hr) as [(n & L & R & _) [G F]].
  split; [eauto|split; [exact G|exact F]].
Qed.

Definition newdir_exact_stmt : Prop := forall um s x cp s',
  e_kind x = KDir ->
  run_opt (Mkdir cp (dir_create_mode um x) :: perms_new x cp ++ perms_new x cp) s = Some s' ->
  lookup s cp = None /\ (exists n, lookup s' cp = Some n /\ realises x n) /\
  (forall q, q <> cp -> lookup s' q = lookup s q).
Lemma newdir_exact_proof : newdir_exact_stmt.
Proof.
  intros um s x cp s' Hk Hr. destruct (newdir_block _ _ _ _ _ Hk Hr) as (A & (n & L & R & _) & F).
  split; [exact A|split; [eauto|exact F]].
Qed.

Definition existingdir_exact_stmt : Prop := forall s x cp m u g t s',
  lookup s cp = Some (Dir m u g t) ->
  run_opt (perms_existing x cp cp (Dir m u g t)) s = Some s' ->
  (exists n, lookup s' cp = Some n /\ keeps_dir x (Dir m u g t) n) /\
  (forall q, q <> cp -> lookup s' q = lookup s q).
Lemma existingdir_exact_proof : existingdir_exact_stmt.
Proof.
  intros s x cp m u g t s' Hl Hr. destruct (existingdir_block _ _ _ _ _ _ _ _ Hl Hr) as [(n & L & K & _) F].
  split; [eauto|exact F].
Qed.
