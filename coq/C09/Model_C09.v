(* Model_C09.v — executable model of pkgcore's dependency-string machinery:
     DepSet.parse            (src/pkgcore/ebuild/conditionals.py:44)   -> [run] / [parse]
     stringify_boolean       (conditionals.py:292)                     -> [pr_node] / [print]
     DepSet.evaluate_depset  (conditionals.py:180)
       boolean.base.evaluate_conditionals (restrictions/boolean.py:174)
       Conditional.evaluate_conditionals  (restrictions/packages.py:250)
       atom / transitive_use_atom.evaluate_conditionals (ebuild/atom.py:680,815) -> [ev] / [evaluate]
   The model is the behaviour WITH the two repairs proposed in fixes/C09-*.patch applied
   (^^ / ?? groups are rendered as "^^ (" / "?? ("; an at-most-one-of group with a single
   member is not replaced by that member).  No proofs here. *)
From Coq Require Import List NArith ZArith Bool.
Import ListNotations.
From Verif Require Import Base.Val.
Open Scope N_scope.

(* ------------------------------------------------------------------ string constants *)
Definition s_open : str := [40].          (* "(" *)
Definition s_close : str := [41].         (* ")" *)
Definition s_arrow : str := [45; 62].     (* "->" *)
Definition s_or : str := [124; 124].      (* "||" *)
Definition s_one : str := [94; 94].       (* "^^" *)
Definition s_most : str := [63; 63].      (* "??" *)
Definition c_q : N := 63.                 (* "?" *)
Definition c_eq : N := 61.                (* "=" *)
Definition c_bang : N := 33.              (* "!" *)
Definition c_bar : N := 124.              (* "|" *)
Definition c_minus : N := 45.             (* "-" *)
Definition c_rpar : N := 41.              (* ")" *)

Definition mem (x : str) (l : list str) : bool := existsb (str_eqb x) l.
Definition is_nil {A} (l : list A) : bool := match l with [] => true | _ => false end.
Fixpoint last_is (c : N) (s : str) : bool :=
  match s with [] => false | [x] => N.eqb x c | _ :: r => last_is c r end.
Definition first_is (c : N) (s : str) : bool :=
  match s with x :: _ => N.eqb x c | [] => false end.
Definition has_bar (s : str) : bool := existsb (N.eqb c_bar) s.

(* ------------------------------------------------------------------ data *)
(* A leaf is what element_func(token) returned; the element parser itself (atom(), str,
   intern, _mk_required_use_node, the SRC_URI element) is external to this property, so the
   parser below takes it as a function [lf].  [lstr] is str(element); for atoms [lbase] is the
   text without the use-dep part and [luse] the (sorted) tuple atom.use; [lren] the SRC_URI
   rename target. *)
Record leaf := { lstr : str; lbase : str; luse : list str; lren : option str }.

Inductive node :=
| L (l : leaf)
| Op (k : str) (cs : list node)                   (* k: "" all-of, "||", "^^", "??" *)
| Cond (neg : bool) (flag : str) (cs : list node).

Record cfg := { ops : list str;       (* keys of the `operators` dict; "" = bare "( ... )" *)
                badops : list str;    (* keys whose constructor raises (?? before EAPI 5) *)
                renames : bool;       (* allow_src_uri_file_renames *)
                tua : bool }.         (* transitive_use_atoms *)

Inductive kind := KAll | KAny | KOne | KMost.
Definition kind_of (k : str) : kind :=
  if str_eqb k s_or then KAny else if str_eqb k s_one then KOne
  else if str_eqb k s_most then KMost else KAll.

(* ------------------------------------------------------------------ DepSet.parse *)
Inductive tclass := TClose | TOpen | TGroup | TBad | TPlain.
Definition classify (c : cfg) (k : str) : tclass :=
  if is_nil k then TBad                             (* k[-1] on "" : IndexError -> parse error *)
  else if str_eqb k s_close then TClose
  else if str_eqb k s_open then TOpen
  else if last_is c_q k || mem k (ops c) then TGroup
  else if has_bar k then TBad
  else TPlain.

(* the node built when a frame opened by [key] is closed over the children [cur] (non-empty) *)
Definition build (c : cfg) (key : str) (cur : list node) : option node :=
  if mem key (ops c) then
    match cur with
    | [n] => if str_eqb key s_most && negb (mem key (badops c)) then Some (Op key cur)
             else Some n                                      (* single-child collapse *)
    | _ => if mem key (badops c) then None else Some (Op key cur)
    end
  else match key with
       | [] => None                                          (* ""[0] : IndexError *)
       | x :: r => if N.eqb x c_bang then Some (Cond true (removelast r) cur)
                   else Some (Cond false (removelast key) cur)
       end.

Section Parse.
  Variable c : cfg.
  Variable lf : str -> option str -> option leaf.     (* element_func; None = it raised *)

  Fixpoint run (toks : list str) (cur : list node) (stk : list (str * list node))
    : option (list node) :=
    match toks with
    | [] => match stk with [] => Some cur | _ => None end
    | k :: rest =>
      match classify c k with
      | TClose =>
          match stk with
          | [] => None
          | (key, parent) :: stk' =>
              match cur with
              | [] => None
              | _ => match build c key cur with
                     | Some n => run rest (parent ++ [n]) stk'
                     | None => None
                     end
              end
          end
      | TOpen => run rest [] (([], cur) :: stk)
      | TGroup =>
          match rest with
          | k2 :: rest' => if str_eqb k2 s_open then run rest' [] ((k, cur) :: stk) else None
          | [] => None
          end
      | TBad => None
      | TPlain =>
          if renames c then
            match rest with
            | [] => match lf k None with Some l => run rest (cur ++ [L l]) stk | None => None end
            | k2 :: rest' =>
                if str_eqb k2 s_arrow then
                  match rest' with
                  | [] => None
                  | k3 :: rest'' =>
                      match lf k (Some k3) with
                      | Some l => run rest'' (cur ++ [L l]) stk
                      | None => None
                      end
                  end
                else match lf k None with Some l => run rest (cur ++ [L l]) stk | None => None end
            end
          else match lf k None with Some l => run rest (cur ++ [L l]) stk | None => None end
      end
    end.

  Definition parse (toks : list str) : option (list node) := run toks [] [].
End Parse.

(* str.split(): whitespace runs *)
Definition is_ws (x : N) : bool :=
  ((9 <=? x) && (x <=? 13)) || ((28 <=? x) && (x <=? 32)) || (x =? 133) || (x =? 160).
Fixpoint split_aux (s : str) (acc : str) : list str :=      (* acc: current word, reversed *)
  match s with
  | [] => if is_nil acc then [] else [rev acc]
  | x :: r => if is_ws x then (if is_nil acc then split_aux r [] else rev acc :: split_aux r [])
              else split_aux r (x :: acc)
  end.
Definition split_ws (s : str) : list str := split_aux s [].
Fixpoint join_sp (l : list str) : str :=
  match l with [] => [] | [a] => a | a :: r => a ++ [32] ++ join_sp r end.

(* ------------------------------------------------------------------ stringify_boolean *)
Definition cond_tok (neg : bool) (flag : str) : str :=
  (if neg then [c_bang] else []) ++ flag ++ [c_q].
Definition opener (k : str) : list str := if is_nil k then [s_open] else [k; s_open].
Definition pr_leaf (l : leaf) : list str :=
  match lren l with Some r => [lstr l; s_arrow; r] | None => [lstr l] end.
Fixpoint pr_node (n : node) : list str :=
  match n with
  | L l => pr_leaf l
  | Op k cs => opener k ++ flat_map pr_node cs ++ [s_close]
  | Cond neg f cs => [cond_tok neg f; s_open] ++ flat_map pr_node cs ++ [s_close]
  end.
Definition print (d : list node) : list str := flat_map pr_node d.
Definition print_str (d : list node) : str := join_sp (print d).

(* ------------------------------------------------------------------ use-dep atoms *)
Definition variable (u : str) : bool := last_is c_eq u || last_is c_q u.
Definition transitive (l : leaf) : bool := existsb variable (luse l).

Fixpoint str_leb (a b : str) : bool :=       (* Python's str order on code points *)
  match a, b with
  | [], _ => true
  | _ :: _, [] => false
  | x :: a', y :: b' => if N.ltb x y then true else if N.ltb y x then false else str_leb a' b'
  end.
Fixpoint insert (x : str) (l : list str) : list str :=
  match l with [] => [x] | y :: r => if str_leb x y then x :: l else y :: insert x r end.
Definition sort (l : list str) : list str := fold_right insert [] l.

Fixpoint join_comma (l : list str) : str :=
  match l with [] => [] | [a] => a | a :: r => a ++ [44] ++ join_comma r end.
(* atom(base + "[" + ",".join(flags) + "]"): use is sorted by atom.__init__ *)
Definition mkleaf (base : str) (flags : list str) : leaf :=
  let u := sort flags in
  {| lstr := match u with [] => base | _ => base ++ [91] ++ join_comma u ++ [93] end;
     lbase := base; luse := u; lren := None |}.

(* one variable use dep "x?", "!x?", "x=", "!x=", with optional "(+)"/"(-)" default *)
Definition u_neg (u : str) : bool := first_is c_bang u.
Definition u_iseq (u : str) : bool := last_is c_eq u.
Definition u_flag (u : str) : str :=            (* without "!" and the trailing ?/=, default kept *)
  removelast (if u_neg u then tl u else u).
Definition u_raw (u : str) : str :=             (* flag[:-3] when it ends with ")" *)
  let f := u_flag u in
  if last_is c_rpar f then firstn (length f - 3) f else f.

(* transitive_use_atom.evaluate_conditionals, tristate None *)
Fixpoint ev_flags (use : list str) (vs : list str) : list str :=
  match vs with
  | [] => []
  | u :: r =>
      let on := mem (u_raw u) use in
      if u_iseq u then
        (if Bool.eqb on (u_neg u) then c_minus :: u_flag u else u_flag u) :: ev_flags use r
      else if Bool.eqb on (u_neg u) then ev_flags use r
      else (if u_neg u then c_minus :: u_flag u else u_flag u) :: ev_flags use r
  end.
Definition ev_leaf (use : list str) (l : leaf) : leaf :=
  if transitive l then
    mkleaf (lbase l) (filter (fun u => negb (variable u)) (luse l)
                      ++ ev_flags use (filter variable (luse l)))
  else l.

(* ------------------------------------------------------------------ evaluate_conditionals *)
(* parent: None = the DepSet itself (a subclass of AndRestriction), Some k = an Op k node *)
Definition pkind (p : option str) : kind := match p with None => KAll | Some k => kind_of k end.
Definition kind_eqb (a b : kind) : bool :=
  match a, b with KAll, KAll | KAny, KAny | KOne, KOne | KMost, KMost => true | _, _ => false end.
(* issubclass(parent_cls, self.__class__) and self._evaluate_collapsible:
   And/Or are collapsible; JustOne/AtMostOne spell it `_evaluate_collapsable`, so they are not *)
Definition splice (p : option str) (k : str) : bool :=
  match kind_of k with
  | KAll => kind_eqb (pkind p) KAll
  | KAny => kind_eqb (pkind p) KAny
  | _ => false
  end.
Definition wrap (p : option str) (k : str) (l : list node) : list node :=
  match l with
  | [] => []                         (* wiped (or extend([])) *)
  | [m] => if kind_eqb (kind_of k) KMost then [Op k l] else l      (* len(l) <= 1 *)
  | _ => if splice p k then l else [Op k l]
  end.

Fixpoint ev (use : list str) (p : option str) (n : node) : list node :=
  match n with
  | L l => [L (ev_leaf use l)]
  | Op k cs => wrap p k (flat_map (ev use (Some k)) cs)
  | Cond neg f cs =>
      if Bool.eqb (mem f use) neg then []             (* not restriction.match(enabled) *)
      else wrap p [] (flat_map (ev use (Some [])) cs) (* AndRestriction of the payload *)
  end.

Fixpoint has_cond (n : node) : bool :=
  match n with L _ => false | Cond _ _ _ => true | Op _ cs => existsb has_cond cs end.
Fixpoint has_trans (n : node) : bool :=
  match n with L l => transitive l | Cond _ _ cs | Op _ cs => existsb has_trans cs end.
(* DepSet._node_conds as left by parse *)
Definition node_conds (c : cfg) (d : list node) : bool :=
  existsb has_cond d || (tua c && existsb has_trans d).
Definition evaluate (c : cfg) (use : list str) (d : list node) : list node :=
  if node_conds c d then flat_map (ev use None) d else d.

(* ------------------------------------------------------------------ configurations, encoders *)
Definition cfg_of (kindid : N) : cfg :=
  match kindid with
  | 0 => {| ops := [s_or; []]; badops := []; renames := false; tua := true |}   (* *DEPEND *)
  | 1 => {| ops := [s_or; []]; badops := []; renames := false; tua := false |}  (* default parse() *)
  | 2 => {| ops := [s_or; []]; badops := []; renames := false; tua := false |}  (* LICENSE *)
  | 3 => {| ops := []; badops := []; renames := false; tua := false |}          (* RESTRICT/PROPERTIES *)
  | 4 => {| ops := []; badops := []; renames := true; tua := false |}           (* SRC_URI *)
  | 5 => {| ops := [s_or; []; s_one; s_most]; badops := []; renames := false; tua := false |}
  | _ => {| ops := [s_or; []; s_one; s_most]; badops := [s_most]; renames := false; tua := false |}
  end.

Definition lf_id (k : str) (r : option str) : option leaf :=
  Some {| lstr := k; lbase := k; luse := []; lren := r |}.
Fixpoint lookup (k : str) (t : list (str * leaf)) : option leaf :=
  match t with [] => None | (a, l) :: r => if str_eqb a k then Some l else lookup k r end.
Definition lf_tbl (t : list (str * leaf)) (k : str) (r : option str) : option leaf :=
  match r with Some _ => None | None => lookup k t end.
(* the SRC_URI element of the harness: "->" is not a URI *)
Definition lf_uri (k : str) (r : option str) : option leaf :=
  if str_eqb k s_arrow then None else lf_id k r.
Definition lf_of (kindid : N) (t : list (str * leaf)) :=
  if (kindid <=? 1) then lf_tbl t else if (kindid =? 4) then lf_uri else lf_id.

Fixpoint enc_node (n : node) : val :=
  match n with
  | L l => VL [VZ 0; VS (lstr l); match lren l with Some r => VS r | None => VNone end]
  | Op k cs => VL [VZ 1; VS k; VL (map enc_node cs)]
  | Cond neg f cs => VL [VZ 2; VB neg; VS f; VL (map enc_node cs)]
  end.
Definition parse_error : val := VErr [68;101;112;115;101;116;80;97;114;115;101;69;114;114;111;114].
  (* "DepsetParseError" *)

(* input of both streams: attribute kind, the string, the leaf table (atoms), the USE set *)
Definition input := (N * str * list (str * leaf) * list str)%type.

(* stream "parse": [bool(node_conds); tree; str(depset)] or the error *)
Definition run_parse (i : input) : val :=
  let '(kd, s, t, _) := i in
  match parse (cfg_of kd) (lf_of kd t) (split_ws s) with
  | None => parse_error
  | Some d => VL [VB (node_conds (cfg_of kd) d); VL (map enc_node d); VS (print_str d)]
  end.
(* stream "eval": [tree of evaluate_depset(use); its str] *)
Definition run_eval (i : input) : val :=
  let '(kd, s, t, use) := i in
  match parse (cfg_of kd) (lf_of kd t) (split_ws s) with
  | None => parse_error
  | Some d => let e := evaluate (cfg_of kd) use d in VL [VL (map enc_node e); VS (print_str e)]
  end.

(* DepSet.parse on the string itself, and str(depset) *)
Definition parse_str (c : cfg) (lf : str -> option str -> option leaf) (s : str) : option (list node) :=
  parse c lf (split_ws s).
