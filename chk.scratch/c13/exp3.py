import sys; sys.path.insert(0, "/verif/chk.scratch/c13")
import logging; logging.disable(logging.WARNING)
from pkgcore.util.parserestrict import parse_match
from pkgcore.ebuild.conditionals import DepSet
from pkgcore.restrictions import boolean
for s in ["*/*","*","ca/*","*/p1","p3","ca/*:1","*/p1:0","*/*::tr","ca/p1::tr","ca/p1","=ca/p1-1",">=ca/p1-2","ca/p1:1","~cb/p3-1","=ca/p1-1*","ca/p*","*/*:1", "c*/*"]:
    try:
        r = parse_match(s); print(s, type(r).__name__, getattr(r,"attr",None), r)
    except Exception as e: print(s, "ERR", e)
for s in ["|| ( )", "( )", "|| ( L1 )", "f1? ( )", "L1 || ( L2 ( L3 L4 ) ) !f2? ( L2 )", ""]:
    try:
        d = DepSet.parse(s, str, operators={"||": boolean.OrRestriction, "": boolean.AndRestriction}, attr="LICENSE")
        print(repr(s), "->", str(d), d.dnf_solutions(), str(d.evaluate_depset(["f1"])), d.evaluate_depset(["f1"]).dnf_solutions())
    except Exception as e: print(repr(s), "ERR", type(e).__name__, e)
