#!/bin/sh
# usage: mut.sh NAME 'python-expr-of-(old,new)'
cd /tmp/wt_C14m && git checkout -q src && git apply /verif/fixes/C14-cache-invalidation.patch
/venv/bin/python - "$2" <<'PY'
import sys
old,new = eval(sys.argv[1])
p="/tmp/wt_C14m/src/pkgcore/package/conditionals.py"
s=open(p).read()
assert s.count(old)==1, s.count(old)
open(p,"w").write(s.replace(old,new))
PY
cd /verif && VERIF_REPO=/tmp/wt_C14m ./check C14 > /verif/chk.scratch/c14/mut_$1.out 2>&1; echo "$1 rc=$?" >> /verif/chk.scratch/c14/mut_summary.txt
grep -c VIOLATION /verif/chk.scratch/c14/mut_$1.out >> /verif/chk.scratch/c14/mut_summary.txt
for f in $(grep -o 'replay=[^ ]*' /verif/chk.scratch/c14/mut_$1.out | head -2 | cut -d= -f2); do /venv/bin/python -c "
import json,sys; d=json.load(open('$f')); det=d['detail']; print('   ', d['kind'], det['what'][:80], '|', det.get('input',{}).get('use'), det.get('input',{}).get('ops'))" >> /verif/chk.scratch/c14/mut_summary.txt; done
