(* Proofs2_C09.v — second batch of proofs: strings (split/join), the rejection clauses on the
   structural positions (all configurations), evaluation without transitive_use_atoms. *)
From Coq Require Import List NArith ZArith Bool Lia.
Import ListNotations.
From Verif Require Import Base.Val C09.Model_C09 C09.Spec_C09 C09.Proofs_C09.
Open Scope N_scope.

(* ================================================================== str.split / " ".join *)
Lemma split_word w : forallb (fun x => negb (is_ws x)) w = true ->
  forall rest acc, split_aux (w ++ rest) acc = split_aux rest (rev w ++ acc).
Proof.
  induction w as [|x w IH]; intros H rest acc; [reflexivity|].
  cbn in H. apply andb_true_iff in H as [Hx Hw]. apply negb_true_iff in Hx.
  cbn [app split_aux]. rewrite Hx, (IH Hw). cbn [rev]. rewrite <- app_assoc. reflexivity.
Qed.

Lemma tok_ok_inv t : tok_ok t = true -> t <> [] /\ forallb (fun x => negb (is_ws x)) t = true.
Proof.
  unfold tok_ok. intro H. apply andb_true_iff in H as [H1 H2]. split; [|exact H2].
  destruct t; [discriminate | discriminate].
Qed.

Lemma rev_nonnil {A} (l : list A) : l <> [] -> is_nil (rev l) = false.
Proof.
  intro H. destruct (rev l) eqn:E; [|reflexivity].
  apply (f_equal (@rev A)) in E. rewrite rev_involutive in E. cbn in E. contradiction.
Qed.

Theorem split_join_proof toks : forallb tok_ok toks = true -> split_ws (join_sp toks) = toks.
Proof.
  unfold split_ws. induction toks as [|t ts IH]; [reflexivity|]. intro H.
  cbn in H. apply andb_true_iff in H as [Ht Hts]. destruct (tok_ok_inv t Ht) as [NE WS].
  destruct ts as [|t2 ts'].
  - cbn [join_sp]. rewrite <- (app_nil_r t) at 1. rewrite (split_word t WS). cbn [split_aux].
    rewrite app_nil_r, (rev_nonnil t NE), rev_involutive. reflexivity.
  - cbn [join_sp]. rewrite (split_word t WS). cbn [app split_aux]. rewrite app_nil_r.
    change (is_ws 32) with true. cbn [negb]. rewrite (rev_nonnil t NE), rev_involutive.
    f_equal. apply IH. exact Hts.
Qed.

(* every token str.split() yields is a token *)
Lemma split_aux_ok s : forall acc, forallb (fun x => negb (is_ws x)) acc = true ->
  forallb tok_ok (split_aux s acc) = true.
Proof.
  induction s as [|x r IH]; intros acc H; cbn [split_aux].
  - destruct acc as [|a acc'] eqn:E; [reflexivity|]. cbn [is_nil forallb]. rewrite andb_true_r.
    unfold tok_ok. rewrite rev_nonnil by discriminate. cbn [negb andb].
    rewrite forallb_forall in *. intros y Hy. apply H. apply in_rev. exact Hy.
  - destruct (is_ws x) eqn:W.
    + destruct acc as [|a acc'] eqn:E; cbn [is_nil]; [apply IH; reflexivity|].
      cbn [forallb]. rewrite (IH [] eq_refl), andb_true_r.
      unfold tok_ok. rewrite rev_nonnil by discriminate. cbn [negb andb].
      rewrite forallb_forall in *. intros y Hy. apply H. apply in_rev. exact Hy.
    + apply IH. cbn [forallb]. rewrite W, H. reflexivity.
Qed.
Lemma split_ws_ok s : forallb tok_ok (split_ws s) = true.
Proof. apply split_aux_ok. reflexivity. Qed.

(* ---- printing a tree read from tokens prints tokens *)
Section PrintTokens.
  Variable c : cfg.
  Variable lf : str -> option str -> option leaf.
  Hypothesis LG : lf_good c lf.
  Hypothesis LT : lf_tok lf.

  Lemma forallb_app_inv {A} (P : A -> bool) a b : forallb P (a ++ b) = true ->
    forallb P a = true /\ forallb P b = true.
  Proof. rewrite forallb_app. apply andb_true_iff. Qed.

  Lemma print_tokens :
    (forall ts ns, items c lf ts ns -> forallb tok_ok ts = true -> forallb tok_ok (print ns) = true) /\
    (forall t n, item c lf t n -> forallb tok_ok t = true -> forallb tok_ok (pr_node n) = true).
  Proof.
    assert (GRP : forall key ts ns, (forallb tok_ok ts = true -> forallb tok_ok (print ns) = true) ->
              forallb tok_ok (opener key ++ ts ++ [s_close]) = true ->
              forallb tok_ok (opener key ++ print ns ++ [s_close]) = true).
    { intros key ts ns IH H. apply forallb_app_inv in H as [H1 H2]. apply forallb_app_inv in H2 as [H2 H3].
      rewrite !forallb_app, H1, (IH H2), H3. reflexivity. }
    apply gram_mind.
    - intros k l P A E H. destruct (LG k None l P A E) as (_ & _ & R & _).
      cbn [pr_node]. unfold pr_leaf. rewrite R. cbn in H |- *. rewrite andb_true_r in *.
      rewrite (LT k None l E H). reflexivity.
    - intros k r l RN P A E H. destruct (LG k (Some r) l P A E) as (_ & _ & R & _).
      cbn [pr_node]. unfold pr_leaf. rewrite R. cbn [forallb] in H |- *.
      apply andb_true_iff in H as [Hk H]. rewrite (LT k (Some r) l E Hk). exact H.
    - intros key ts n O M B _ IH H. apply forallb_app_inv in H as [_ H]. apply forallb_app_inv in H as [H _].
      specialize (IH H). unfold print in IH. cbn in IH. rewrite app_nil_r in IH. exact IH.
    - intros key ts ns O M B Hl _ IH H. cbn [pr_node]. exact (GRP key ts ns IH H).
    - intros ng f ts ns A M B NE _ IH H. cbn [pr_node].
      change [cond_tok ng f; s_open] with ([cond_tok ng f] ++ [s_open]).
      replace ([cond_tok ng f] ++ [s_open]) with (opener (cond_tok ng f))
        by (destruct (cond_tok ng f) eqn:E; [exfalso; exact (cond_tok_nonnil _ _ E) | reflexivity]).
      exact (GRP _ ts ns IH H).
    - reflexivity.
    - intros t1 n t2 ns _ IH1 _ IH2 H. apply forallb_app_inv in H as [H1 H2].
      unfold print in *. cbn [flat_map]. rewrite forallb_app, (IH1 H1), (IH2 H2). reflexivity.
  Qed.

  Hypothesis AR : arrow_reserved c lf.

  (* str(DepSet.parse(s)) parses again, to the same tree — on strings *)
  Theorem roundtrip_str_proof s d :
    parse_str c lf s = Some d -> parse_str c lf (print_str d) = Some d.
  Proof.
    unfold parse_str, print_str. intro H.
    rewrite split_join_proof.
    - exact (parse_print_roundtrip_proof c lf AR LG _ d H).
    - apply (accepted_grammatical_proof c lf AR) in H.
      exact (proj1 print_tokens _ _ H (split_ws_ok s)).
  Qed.
End PrintTokens.

Lemma lf_id_tok : lf_tok lf_id.
Proof. intros k r l E H. unfold lf_id in E. injection E as <-. exact H. Qed.
Lemma lf_uri_tok : lf_tok lf_uri.
Proof.
  intros k r l E H. unfold lf_uri in E. destruct (str_eqb k s_arrow); [discriminate|].
  unfold lf_id in E. injection E as <-. exact H.
Qed.

Theorem roundtrip_str_by_kind_proof kd s d : (2 <= kd)%N ->
  parse_str (cfg_of kd) (lf_of kd []) s = Some d ->
  parse_str (cfg_of kd) (lf_of kd []) (print_str d) = Some d.
Proof.
  intros K. unfold lf_of. destruct (kd <=? 1)%N eqn:E; [apply N.leb_le in E; lia|].
  destruct (kd =? 4)%N eqn:E4.
  - apply N.eqb_eq in E4. subst kd. apply roundtrip_str_proof;
      [apply lf_uri_good | apply lf_uri_tok | apply lf_uri_reserved; reflexivity].
  - apply roundtrip_str_proof; [apply lf_id_good | apply lf_id_tok |].
    apply no_renames_reserved. unfold cfg_of.
    destruct kd as [|[[[|[]|]|[[]|[]|]|]|[[]|[]|]|]]; try reflexivity; try (cbn in E4; discriminate); lia.
Qed.

Example ex_split : split_ws [32; 97; 32; 32; 9; 98; 99; 10] = [[97]; [98; 99]].
Proof. reflexivity. Qed.
Example ex_str_roundtrip :       (* "  ^^ (  a\tb )" -> "^^ ( a b )" -> the same tree *)
  option_map print_str (parse_str (cfg_of 5) lf_id [32;32;94;94;32;40;32;32;97;9;98;32;41])
  = Some [94;94;32;40;32;97;32;98;32;41].
Proof. reflexivity. Qed.

(* ================================================================== rejection, all configurations *)
Section Shape.
  Variable c : cfg.
  Variable lf : str -> option str -> option leaf.
  Notation run := (run c lf).

  Lemma eg_skip k r : str_eqb k s_open = false -> empty_group (k :: r) = empty_group r.
  Proof. intro H. destruct r; cbn; rewrite ?H; reflexivity. Qed.

  Lemma skel_nonplain k rest : classify c k <> TPlain -> skel c (k :: rest) = k :: skel c rest.
  Proof.
    intro H. destruct rest as [|a [|b r]]; cbn [skel]; try reflexivity.
    destruct (classify c k); try congruence; rewrite andb_false_r; reflexivity.
  Qed.
  Lemma skel_norenames k rest : renames c = false -> skel c (k :: rest) = k :: skel c rest.
  Proof. intro H. destruct rest as [|a [|b r]]; cbn [skel]; try reflexivity. rewrite H. reflexivity. Qed.
  Lemma skel_noarrow k a rest : str_eqb a s_arrow = false -> skel c (k :: a :: rest) = k :: skel c (a :: rest).
  Proof. intro H. destruct rest as [|b r]; cbn [skel]; try reflexivity. rewrite H, andb_false_r. reflexivity. Qed.
  Lemma skel_arrow k r rest : renames c = true -> classify c k = TPlain ->
    skel c (k :: s_arrow :: r :: rest) = k :: skel c rest.
  Proof. intros H1 H2. cbn [skel]. rewrite H1, H2, str_eqb_refl. reflexivity. Qed.
  Lemma skel_cons k rest : exists r, skel c (k :: rest) = k :: r.
  Proof.
    destruct rest as [|a [|b r]]; cbn [skel]; eauto.
    destruct (renames c && str_eqb a s_arrow && match classify c k with TPlain => true | _ => false end); eauto.
  Qed.
  Lemma skel_id toks : renames c = false -> skel c toks = toks.
  Proof. intro H. induction toks as [|k r IH]; [reflexivity|]. rewrite skel_norenames, IH by exact H. reflexivity. Qed.

  (* right after an opening parenthesis the next structural token is not ")" *)
  Lemma fresh_no_close toks stk d : stk <> [] -> run toks [] stk = Some d ->
    forall r, skel c toks <> s_close :: r.
  Proof.
    intros NE H r E. destruct toks as [|k rest]; [discriminate|].
    destruct (skel_cons k rest) as [r' E']. rewrite E' in E. injection E as -> _.
    cbn [Model_C09.run] in H. rewrite classify_close in H. destruct stk as [|[key parent] stk']; [congruence|discriminate].
  Qed.

  Lemma eg_open X : (forall r, X <> s_close :: r) -> empty_group (s_open :: X) = empty_group X.
  Proof.
    intro H. destruct X as [|k2 X']; [reflexivity|]. cbn [empty_group]. rewrite str_eqb_refl.
    destruct (str_eqb k2 s_close) eqn:E; [apply str_eqb_eq in E; subst; exfalso; eapply H; reflexivity|reflexivity].
  Qed.

  Lemma run_shape n : forall toks, (length toks <= n)%nat -> forall cur stk d,
    run toks cur stk = Some d ->
    balance (length stk) (skel c toks) = true /\ dangling c (skel c toks) = false /\
    empty_group (skel c toks) = false.
  Proof.
    induction n as [|n IH]; intros toks Hn cur stk d.
    - destruct toks; [|cbn in Hn; lia]. cbn. destruct stk; [|discriminate]. intros _. repeat split.
    - destruct toks as [|k rest].
      { cbn. destruct stk; [|discriminate]. intros _. repeat split. }
      cbn in Hn. cbn [Model_C09.run]. destruct (classify c k) eqn:CL.
      + (* ")" *) pose proof (close_inv c k CL). subst k.
        destruct stk as [|[key parent] stk']; [discriminate|].
        destruct cur as [|c0 cur']; [discriminate|]. destruct (build c key (c0 :: cur')); [|discriminate].
        intro H. destruct (IH rest ltac:(lia) _ _ _ H) as (B & D & E).
        rewrite skel_nonplain by (rewrite classify_close; discriminate).
        cbn [balance length]. rewrite str_eqb_refl. cbn [dangling]. rewrite classify_close.
        rewrite eg_skip by reflexivity. auto.
      + (* "(" *) pose proof (open_inv c k CL). subst k. intro H.
        destruct (IH rest ltac:(lia) _ _ _ H) as (B & D & E).
        rewrite skel_nonplain by (rewrite classify_open; discriminate).
        cbn [balance]. change (str_eqb s_open s_close) with false. rewrite str_eqb_refl.
        cbn [dangling]. rewrite classify_open.
        rewrite eg_open by (eapply fresh_no_close; [|exact H]; discriminate). auto.
      + (* operator / conditional *)
        destruct rest as [|k2 rest']; [discriminate|]. destruct (str_eqb k2 s_open) eqn:E2; [|discriminate].
        apply str_eqb_eq in E2. subst k2. intro H. cbn in Hn.
        destruct (IH rest' ltac:(lia) _ _ _ H) as (B & D & E).
        destruct (group_inv c k CL) as (G1 & G2 & _).
        rewrite skel_nonplain by congruence. rewrite skel_nonplain by (rewrite classify_open; discriminate).
        rewrite bal_tok by assumption. cbn [balance]. change (str_eqb s_open s_close) with false. rewrite str_eqb_refl.
        cbn [dangling]. rewrite CL, str_eqb_refl, classify_open. cbn [negb orb].
        rewrite eg_skip by exact G2.
        rewrite eg_open by (eapply fresh_no_close; [|exact H]; discriminate). auto.
      + discriminate.
      + (* element *)
        destruct (plain_inv c k CL) as (P1 & P2 & _).
        assert (LEAF : forall l X, run X (cur ++ [L l]) stk = Some d -> (length X <= n)%nat ->
                  balance (length stk) (k :: skel c X) = true /\ dangling c (k :: skel c X) = false /\
                  empty_group (k :: skel c X) = false).
        { intros l X H HX. destruct (IH X HX _ _ _ H) as (B & D & E).
          rewrite bal_tok by assumption. cbn [dangling]. rewrite CL. rewrite eg_skip by exact P2. auto. }
        destruct (renames c) eqn:RN.
        * destruct rest as [|k2 rest'].
          -- destruct (lf k None); [|discriminate]. intro H. apply (LEAF _ [] H). cbn; lia.
          -- destruct (str_eqb k2 s_arrow) eqn:EA.
             ++ apply str_eqb_eq in EA. subst k2. destruct rest' as [|k3 rest'']; [discriminate|].
                destruct (lf k (Some k3)); [|discriminate]. intro H. rewrite skel_arrow by assumption.
                apply (LEAF _ _ H). cbn in Hn. lia.
             ++ destruct (lf k None); [|discriminate]. intro H. rewrite skel_noarrow by exact EA.
                apply (LEAF _ _ H). lia.
        * destruct (lf k None); [|discriminate]. intro H. rewrite skel_norenames by exact RN.
          apply (LEAF _ _ H). lia.
  Qed.

  (* the three clauses, on the structural positions, for every configuration *)
  Theorem unbalanced_rejected_all_proof toks :
    balance 0 (skel c toks) = false \/ dangling c (skel c toks) = true \/ empty_group (skel c toks) = true ->
    parse c lf toks = None.
  Proof.
    intro H. destruct (parse c lf toks) as [d|] eqn:E; [|reflexivity]. exfalso.
    destruct (run_shape (length toks) toks (le_n _) [] [] d E) as (B & D & G). cbn in B.
    destruct H as [H|[H|H]]; congruence.
  Qed.

  Lemma dangling_end pre k : classify c k = TGroup -> dangling c (pre ++ [k]) = true.
  Proof.
    intro G. induction pre as [|x pre IH]; [cbn; rewrite G; reflexivity|].
    cbn [app]. remember (pre ++ [k]) as Y eqn:EY. cbn [dangling].
    destruct (classify c x); try exact IH.
    destruct Y as [|s l]; [reflexivity|]. rewrite IH. apply orb_true_r.
  Qed.

  (* an operator or conditional as the last structural token *)
  Theorem dangling_at_end_rejected_proof toks pre k :
    skel c toks = pre ++ [k] -> classify c k = TGroup -> parse c lf toks = None.
  Proof.
    intros E G. apply unbalanced_rejected_all_proof. right; left. rewrite E. apply dangling_end. exact G.
  Qed.
  (* "( )" *)
  Theorem empty_group_rejected_proof t1 t2 :
    renames c = false -> parse c lf (t1 ++ s_open :: s_close :: t2) = None.
  Proof.
    intro NR. apply unbalanced_rejected_all_proof. right; right. rewrite skel_id by exact NR.
    induction t1 as [|x t1 IH]; [reflexivity|].
    cbn [app]. remember (t1 ++ s_open :: s_close :: t2) as Y eqn:EY.
    destruct Y as [|s l]; [destruct t1; discriminate|].
    change (empty_group (x :: s :: l)) with ((str_eqb x s_open && str_eqb s s_close) || empty_group (s :: l)).
    rewrite IH. apply orb_true_r.
  Qed.
End Shape.

Example ex_skel : skel (cfg_of 4) [[117]; s_arrow; s_open; s_close] = [[117]; s_close].
Proof. reflexivity. Qed.
Example ex_rename_paren_target :    (* "x? ( u -> ( )" is accepted: the "(" is a rename target *)
  parse (cfg_of 4) lf_uri [[120;63]; s_open; [117]; s_arrow; s_open; s_close] <> None
  /\ empty_group (skel (cfg_of 4) [[120;63]; s_open; [117]; s_arrow; s_open; s_close]) = false.
Proof. split; [discriminate | reflexivity]. Qed.
Example ex_dangling_end_uri : parse (cfg_of 4) lf_uri [[117]; [120;63]] = None.
Proof. reflexivity. Qed.

(* ================================================================== evaluation, every configuration *)
Lemma flat_no_cond n : flatb n = true -> has_cond n = false.
Proof.
  induction n as [l|k cs IH|ng f cs IH] using node_ind2; cbn; intro H; try reflexivity; try discriminate.
  apply andb_true_iff in H as [_ H]. rewrite forallb_forall in H. rewrite Forall_forall in IH.
  destruct (existsb has_cond cs) eqn:E; [|reflexivity].
  apply existsb_exists in E as (x & Hx & Ex). rewrite (IH x Hx (H x Hx)) in Ex. discriminate.
Qed.

Definition with_tua (c : cfg) : cfg :=
  {| ops := ops c; badops := badops c; renames := renames c; tua := true |}.

Theorem evaluate_any_config_proof c use d :
  forallb leaves_wf d = true ->
  (* no use-conditional group is left, and read under the same flags nothing changed *)
  no_cond (evaluate c use d) = true /\
  (forall S, sat_all use S (evaluate c use d) = sat_all use S d) /\
  (* without transitive_use_atoms and with nothing else conditional the use-dep atoms are left
     alone: the structure is handed back as it is, still to be read under the flags *)
  (node_conds c d = false -> evaluate c use d = d) /\
  (* in every other case the result is conditional-free and means the same under any flags *)
  (node_conds c d = true \/ existsb has_trans d = false ->
   forallb cond_free (evaluate c use d) = true /\
   forall S use', sat_all use' S (evaluate c use d) = sat_all use S d).
Proof.
  intro W. repeat split.
  - unfold evaluate, no_cond. destruct (node_conds c d) eqn:NC.
    + assert (IH : Forall (fun n => forall p, inv use use (fun _ => true) p n (ev use p n)) d).
      { rewrite Forall_forall. intros n Hn. apply ev_inv. rewrite forallb_forall in W. apply W, Hn. }
      destruct (children_inv use use (fun _ => true) None d IH) as (F & _ & _).
      rewrite forallb_forall in *. intros x Hx. rewrite (flat_no_cond x (F x Hx)). reflexivity.
    + unfold node_conds in NC. apply orb_false_iff in NC as [NC _].
      rewrite forallb_forall. intros x Hx. destruct (has_cond x) eqn:E; [|reflexivity].
      assert (existsb has_cond d = true) by (apply existsb_exists; eauto). congruence.
  - intro S. unfold evaluate. destruct (node_conds c d); [|reflexivity].
    assert (IH : Forall (fun n => forall p, inv use use S p n (ev use p n)) d).
    { rewrite Forall_forall. intros n Hn. apply ev_inv. rewrite forallb_forall in W. apply W, Hn. }
    destruct (children_inv use use S None d IH) as (_ & _ & K).
    unfold kmatch in K. cbn [pkind] in K. unfold sat_all. rewrite <- forallb_map_id, K. apply forall_members.
  - intro NC. unfold evaluate. rewrite NC. reflexivity.
  - destruct H as [NC|NT].
    + assert (E : evaluate c use d = evaluate (with_tua c) use d).
      { unfold evaluate. rewrite NC. unfold node_conds in *. cbn [tua with_tua].
        apply orb_true_iff in NC as [NC|NC]; [rewrite NC; reflexivity|].
        apply andb_true_iff in NC as [_ NC]. rewrite NC, orb_true_r. reflexivity. }
      rewrite E. apply (evaluate_preserves_meaning_proof (with_tua c) use d W). left. reflexivity.
    + apply (evaluate_preserves_meaning_proof c use d W). right. exact NT.
  - destruct H as [NC|NT].
    + assert (E : evaluate c use d = evaluate (with_tua c) use d).
      { unfold evaluate. rewrite NC. unfold node_conds in *. cbn [tua with_tua].
        apply orb_true_iff in NC as [NC|NC]; [rewrite NC; reflexivity|].
        apply andb_true_iff in NC as [_ NC]. rewrite NC, orb_true_r. reflexivity. }
      rewrite E. apply (evaluate_preserves_meaning_proof (with_tua c) use d W). left. reflexivity.
    + apply (evaluate_preserves_meaning_proof c use d W). right. exact NT.
Qed.

(* the atoms left alone are NOT flag-independent: a/b[x?] parsed without transitive_use_atoms,
   evaluated under {x}, then read under {} asks for a/b, not for a/b[x] *)
Definition ex_ax : leaf := {| lstr := [97;47;98;91;120;63;93]; lbase := [97;47;98]; luse := [[120;63]]; lren := None |}.
Theorem evaluate_left_alone_refuted_proof :
  exists c use use' S d, forallb leaves_wf d = true /\ node_conds c d = false /\
    sat_all use' S (evaluate c use d) <> sat_all use S d.
Proof.
  exists (cfg_of 1), [[120]], [], (fun l => str_eqb (lstr l) [97;47;98;91;120;93]), [L ex_ax].
  repeat split; vm_compute; discriminate.
Qed.
