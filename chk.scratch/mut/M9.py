import sys; p=sys.argv[1]; s=open(p).read()
a='if not previous and len(entry.keywords) > 1:'; assert a in s
s=s.replace(a,'if not previous and len(entry.keywords) >= 1:'); open(p,'w').write(s)
