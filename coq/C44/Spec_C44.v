(* Spec_C44.v — what a query string DESCRIBES, written from the statement of C44:

   "A package query string using * globs in the category, package, slot or sub-slot position,
    optionally with a version operator or repository, selects exactly the packages whose fields
    match each glob as a whole-string shell pattern and satisfy the version and repository
    constraints; a plain atom string selects what the atom matches, and strings containing
    blockers are rejected."

   * [shell_match p s]  : the language of a shell pattern whose only metacharacter is the star
                          (declarative: a star stands for any string);
   * [glob_match p s]   : the classical recursive decision procedure for it;
   * [describes t pkg]  : the text is cut into its fields
                              [ops] [category "/"] package ["-" version] [":" slot ["/" sub-slot]] ["::" repo]
                          and every field is checked on the package directly: an empty field or a lone
                          star is no constraint, a field is a whole-string shell pattern on the
                          corresponding attribute, a repository is an exact name, an atom is what the
                          atom matches (C04), a package-only atom (category dropped) is what the
                          atom would match if the package were in the atom's category, and a
                          globbed target with a version operator is the version test (C01) and
                          the description of the rest.
   No restriction trees, no regular expressions here. *)
From Coq Require Import List NArith ZArith Bool Arith.
Import ListNotations.
From Verif Require Import Base.Val C01.Model_C01 C04.Model_C04.
From Verif Require Import C44.Model_C44.
From Verif Require C03.Model_C03.
Local Open Scope N_scope.

(* ------------------------------------------------------------------ shell patterns *)
Inductive shell_match : str -> str -> Prop :=
| sm_nil : shell_match [] []
| sm_lit : forall c p s, c <> c_star -> shell_match p s -> shell_match (c :: p) (c :: s)
| sm_star : forall p s1 s2, shell_match p s2 -> shell_match (c_star :: p) (s1 ++ s2).

Fixpoint glob_match (p s : str) : bool :=
  match p with
  | [] => is_nil s
  | c :: p' =>
      if c =? c_star then
        (fix star (s : str) : bool :=
           glob_match p' s || match s with _ :: s' => star s' | [] => false end) s
      else match s with x :: s' => (x =? c) && glob_match p' s' | [] => false end
  end.

(* a field of the query against an attribute: an empty field is no constraint *)
Definition field_ok (pat s : str) : bool := is_nil pat || glob_match pat s.

(* ------------------------------------------------------------------ the fields of a text *)
Record query := { q_orig : str; q_repo : option str; q_slot : str; q_sub : str; q_body : str }.

Definition split_query (t : str) : query :=
  let o := strip t in
  let '(t1, repo) := match rsplit_dcolon o with
                     | Some (a, r) => (a, Some r)
                     | None => (o, None)
                     end in
  let '(body, sl) := match Model_C03.split_last c_colon t1 with
                     | Some (a, s) => (a, s)
                     | None => (t1, [])
                     end in
  let '(slot, sub) := match Model_C03.split_first c_slash sl with
                      | Some (x, y) => (x, y)
                      | None => (sl, [])
                      end in
  {| q_orig := o; q_repo := repo; q_slot := slot; q_sub := sub; q_body := body |}.

(* the slot / sub-slot / repository fields *)
Record extras := { e_repo : option str; e_slot : str; e_sub : str }.
Definition extras_of (q : query) : extras :=
  {| e_repo := q_repo q; e_slot := q_slot q; e_sub := q_sub q |}.

Definition extras_ok (e : extras) (p : package) : bool :=
  match e_repo e with Some r => str_eqb r (p_repo p) | None => true end
  && field_ok (e_slot e) (p_slot p) && field_ok (e_sub e) (p_subslot p).

Definition with_cat (p : package) (c : str) : package :=
  {| p_cat := c; p_pkg := p_pkg p; p_ver := p_ver p; p_rev := p_rev p; p_fullver := p_fullver p;
     p_slot := p_slot p; p_subslot := p_subslot p; p_repo := p_repo p;
     p_use := p_use p; p_iuse := p_iuse p |}.

(* what the atom written as [txt] is *)
Definition atom_text (txt : str) : option atom :=
  match Model_C03.parse_atom None false txt with
  | Model_C03.Ok a => Some (bridge a)
  | _ => None
  end.

(* what a text says, as data *)
Inductive meaning :=
| MGlob (e : extras) (cat pkg : str)        (* patterns for category and package (empty = any) *)
| MAtom (a : atom)                          (* a plain atom *)
| MNoCat (e : extras) (a : atom)            (* atom syntax with the category dropped *)
| MVer (e : extras) (op : N) (v : str) (m : meaning).   (* operator, globbed target, version *)

Fixpoint means (m : meaning) (p : package) : bool :=
  match m with
  | MGlob e c n => extras_ok e p && field_ok c (p_cat p) && field_ok n (p_pkg p)
  | MAtom a => atom_match ver_cmp a p                 (* what the atom matches *)
  | MNoCat e a => extras_ok e p && atom_match ver_cmp a (with_cat p (a_cat a))
                                                      (* ... if the package were in the atom's category *)
  | MVer e op v m' => extras_ok e p && vmatch ver_cmp op false v None (p_ver p) (p_rev p) && means m' p
  end.

Fixpoint meaning_fuel (fuel : nat) (t : str) : option meaning :=
  match fuel with
  | O => None
  | S f =>
      let q := split_query t in
      let body := q_body q in
      match Model_C03.split_last c_slash body with
      | None =>
          let '(ops, name) := collect_ops body in
          if is_nil ops && mem c_star name then Some (MGlob (extras_of q) [] name)
          else match atom_text (ops ++ fake_category ++ c_slash :: name) with
               | Some a => Some (MNoCat (extras_of q) a)
               | None => None
               end
      | Some (c, n) =>
          if starts_op body || negb (mem c_star body) then
            match atom_text (q_orig q) with
            | Some a => Some (MAtom a)
            | None =>
                match longest_op body with
                | Some (op, rest) =>
                    match Model_C03.split_last c_dash rest with
                    | Some (target, v) =>
                        match meaning_fuel f target with
                        | Some m => Some (MVer (extras_of q) op (Model_C03.strip_nl v) m)
                        | None => None
                        end
                    | None => None
                    end
                | None => None
                end
            end
          else Some (MGlob (extras_of q) c n)
      end
  end.
Definition meaning_of (t : str) : option meaning := meaning_fuel (S (length t)) t.

Definition describes (t : str) (p : package) : bool :=
  match meaning_of t with Some m => means m p | None => false end.

(* ------------------------------------------------------------------ the atom clause and its boundary *)
(* a slot / sub-slot field that contains a star without being a lone star or a well-formed pattern
   (the characters of [\w+-.] and single stars): the text is rejected *)
Definition bad_tok (tok : str) : bool :=
  mem c_star tok && negb (str_eqb tok [c_star]) && negb (valid_glob tok).
Definition head_rejects (t : str) : bool :=
  let q := split_query t in bad_tok (q_slot q) || bad_tok (q_sub q).
(* the part of the text left of :slot / ::repo reads as an atom: it has a "/" and, if it contains a
   star, it begins with a version operator *)
Definition atom_shaped (t : str) : bool :=
  let body := q_body (split_query t) in
  mem c_slash body && (starts_op body || negb (mem c_star body)).
(* the known class of the atom clause (finding atom-slotop-star-use-rejected): a valid atom text whose
   slot field is rejected as a pattern — cat/pkg:*[flag] puts "*[flag]" there *)
Definition atom_class (t : str) : bool :=
  match Model_C03.parse_atom None false (strip t) with
  | Model_C03.Ok _ => head_rejects t
  | _ => false
  end.

(* package attributes are newline-free (names, slots) *)
Definition no_nl (s : str) : bool := negb (mem c_nl s).
Definition wf_pkg (p : package) : bool :=
  no_nl (p_cat p) && no_nl (p_pkg p) && no_nl (p_slot p) && no_nl (p_subslot p).

(* ------------------------------------------------------------------ (B) inside Coq *)
(* [map (describes t) pool] as a string of 0/1, the text being read once *)
Definition describes_bits (t : str) (pool : list package) : str :=
  match meaning_of t with
  | Some m => map (fun p => if means m p then 49 else 48) pool
  | None => map (fun _ => 48) pool
  end.

(* recorded result of the implementation for one text: VErr kind | VL [structure; VS bits].
   Accept iff: a text with a blocker mark is rejected, and an accepted text selects from the
   pool exactly the packages it describes. *)
Definition spec_case_ok (pool : list package) (t : str) (r : val) : bool :=
  match r with
  | VErr _ => true
  | VL [_; VS b] =>
      negb (mem c_bang t)
      && str_eqb b (describes_bits t pool)
  | _ => false
  end.
(* the model's own verdict on text acceptance is compared by (A); this is the blocker clause alone *)
(* evaluated on every generated text: a valid (non-blocker) atom text reads as an atom *)
Definition atom_unshaped (t : str) (_ : val) : bool :=
  match Model_C03.parse_atom None false (strip t) with
  | Model_C03.Ok _ => negb (mem c_bang t) && negb (head_rejects t) && negb (atom_shaped t)
  | _ => false
  end.
Definition spec_blocker_ok (t : str) (r : val) : bool :=
  if mem c_bang t then match r with VErr _ => true | _ => false end else true.

(* (B) for the glob stream: the compiled regex against the shell-pattern semantics *)
Definition spec_glob_ok (i : str * str) (r : val) : bool :=
  let '(p, s) := i in
  match r with
  | VB b => if no_nl s then Bool.eqb b (glob_match p s) else true
  | _ => true
  end.
