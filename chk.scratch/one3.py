import random, time, subprocess, shutil
from harness import c17
from harness.common import Check
from pkgcore.resolver import state as st
chk = Check("C17")
rng = random.Random(1)
cases=[]
for i in range(150):
    cfg = c17.rand_cfg(rng); h = c17.gen_wf(st, rng, cfg, 6)
    tr,f = c17.run_history(st,cfg,h)
    cases.append((f"({c17.c_case(cfg,h)}, {c17.wire(tr)})", True))
r = chk.coq_eval("t", c17.IMPORTS, "(cfg * list event) * tl", cases, ["mismatches run_hist cases", "where_ (fun i _ => negb (spec_hist_ok i)) cases"], shard=150)
shutil.copy(chk.scratch/"cases_t_0.v", "/verif/chk.scratch/cases_t_0.v")
