(* Prop_C20.v — the closed property theorems of C20. *)
From Coq Require Import List NArith ZArith Bool.
Import ListNotations.
From Verif Require Import Base.Val C18.Fs C18.Model_C18 gen.Tables_C20 C20.Model_C20 C20.Spec_C20 C20.Proofs_C20.

Theorem unmerge_never_raises : forall i t s' e, run_engine i = (t, s', e) -> e = false.
Proof. exact unmerge_never_raises_proof. Qed.
Print Assumptions unmerge_never_raises.

Theorem unmerge_trace_is_effect : forall i t s' e, run_engine i = (t, s', e) -> s' = replay (u_fs i) t.
Proof. exact unmerge_trace_is_effect_proof. Qed.
Print Assumptions unmerge_trace_is_effect.

Theorem unmerge_nondirs_gone : forall i t s' e, run_engine i = (t, s', e) -> nondirs_gone i s'.
Proof. exact unmerge_nondirs_gone_proof. Qed.
Print Assumptions unmerge_nondirs_gone.

Theorem unmerge_nothing_unlisted : forall i t s' e, run_engine i = (t, s', e) -> nothing_unlisted i s'.
Proof. exact unmerge_nothing_unlisted_proof. Qed.
Print Assumptions unmerge_nothing_unlisted.

Theorem unmerge_calls_exact : forall i t s' e, run_engine i = (t, s', e) ->
  forall x c, In x t -> ev_res x = Some c ->
    removable i (ev_lit x) /\ lstat (u_fs i) (ev_lit x) = Some (c, ev_rm x).
Proof. exact unmerge_calls_exact_proof. Qed.
Print Assumptions unmerge_calls_exact.

Theorem unmerge_dirs_iff_empty : forall i t s' e p c0, run_engine i = (t, s', e) ->
  removable i p -> lstat (u_fs i) p = Some (c0, true) ->
  exists t1 res t2, t = t1 ++ Ev true p res :: t2 /\
    let sk := replay (u_fs i) t1 in
    forall c, res = Some c <->
      (canon sk p = WOk c /\ (exists n, lookup sk c = Some n /\ is_dir_node n = true) /\ has_child sk c = false).
Proof. exact unmerge_dirs_iff_empty_proof. Qed.
Print Assumptions unmerge_dirs_iff_empty.

Theorem unmerge_symlink_targets_kept : forall i t s' e, run_engine i = (t, s', e) -> symlink_targets_kept i s'.
Proof. exact unmerge_symlink_targets_kept_proof. Qed.
Print Assumptions unmerge_symlink_targets_kept.

Theorem protected_never_listed : forall i t s' e, run_engine i = (t, s', e) ->
  forall x, In x t -> In (ev_lit x) (protected_names i) -> ev_res x = None.
Proof. exact protected_never_listed_proof. Qed.
Print Assumptions protected_never_listed.

Theorem protected_kept_partial : forall i t s' e, run_engine i = (t, s', e) ->
  ~ alias_to_protected i -> protected_kept_full i s'.
Proof. exact protected_kept_partial_proof. Qed.
Print Assumptions protected_kept_partial.

Theorem protected_kept_full_refuted :
  exists i t s' e, run_engine i = (t, s', e) /\ ~ protected_kept_full i s'.
Proof. exact protected_kept_full_refuted_proof. Qed.
Print Assumptions protected_kept_full_refuted.

Theorem replace_keeps_new : forall i t s' e, run_engine i = (t, s', e) ->
  new_kept i s' /\
  (forall n d, In n (new_names i) -> ~ In (n, d) (uninstall_cset i)) /\
  (forall x, In x t -> In (ev_lit x) (new_names i) -> ev_res x = None).
Proof. exact replace_keeps_new_proof. Qed.
Print Assumptions replace_keeps_new.

Theorem protected_covers_base_system : forall i b, In b base_system_dirs ->
  In (u_off i ++ b) (protected_names i).
Proof. exact protected_covers_base_system_proof. Qed.
Print Assumptions protected_covers_base_system.

(* completeness of the deepest-first pass, lifted to the final tree: when no listed name goes through a
   symlinked directory, a removable listed directory is either gone (its name denotes nothing) or
   still has a child in the final tree - it is never left behind empty *)
Theorem unmerge_dirs_complete : forall i t s' e p,
  run_engine i = (t, s', e) -> alias_free i ->
  removable i p -> lstat (u_fs i) p = Some (p, true) -> p <> [] ->
  lstat s' p = None \/ has_child s' p = true.
Proof. exact unmerge_dirs_complete_proof. Qed.
Print Assumptions unmerge_dirs_complete.

(* hook schedule, from the regenerated trigger table *)
Theorem protection_before_unmerge : forall m, In m engine_modes ->
  In name_unmerge (run_names m name_unmerge) ->
  runs_before name_protection name_unmerge (run_names m name_unmerge) = true.
Proof. exact protection_before_unmerge_proof. Qed.
Print Assumptions protection_before_unmerge.

Theorem unmerge_scheduled :
  In name_unmerge (run_names REPLACE_MODE name_unmerge) /\
  In name_unmerge (run_names UNINSTALL_MODE name_unmerge) /\
  run_names INSTALL_MODE name_unmerge = [] /\
  (forall m h, In m engine_modes -> In h (mode_hooks m) -> In name_unmerge (run_names m h) -> h = name_unmerge).
Proof. exact unmerge_scheduled_proof. Qed.
Print Assumptions unmerge_scheduled.

Theorem protection_applied : forall i,
  In (engine_mode i) engine_modes /\
  protect_first (engine_mode i) =
    runs_before name_protection name_unmerge (run_names (engine_mode i) name_unmerge) /\
  protect_first (engine_mode i) = true.
Proof. exact protection_applied_proof. Qed.
Print Assumptions protection_applied.
