from pkgcore.ebuild.conditionals import DepSet
from pkgcore.ebuild.atom import atom
ds = DepSet.parse("a? ( a? ( x/p1 x/p1 ) !b? ( x/p2 ) ) x/p3 !a? ( b? ( x/p4 ) )", atom)
print(str(ds)); 
for u in [set(), {"a"}, {"b"}, {"a","b"}]:
    e = ds.evaluate_depset(u); print(u, repr(str(e)), list(map(str, e)))
from pkgcore.test.misc import FakePkg
p = FakePkg("dev-util/foo-1"); print(type(p), p.__class__.__mro__[:3]); 
try:
    print(p.depend)
except Exception as ex: print("exc", ex)
