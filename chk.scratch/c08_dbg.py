import random, json
from harness import common, c08
m = c08.load_mods()
# how many generated cases (quick set) disagree with the oracle?
rng = random.Random("C08/0")
shapes = c08.shape_trees()
fixed = [{"a": {"x": [1, 2], "xy": [1]}, "ab": {"x": [3], "y": [1, 2]}, "b": {"z": [2], "yx": []}},
         {"a": {"x": [2], "y": [1]}, "ba": {"x": [1]}}]
bad = 0; cand=0
for i, t in enumerate(shapes):
    d = fixed[:1 + i % 2]
    try: robj, term = c08.make_case(m, d, t)
    except ValueError: continue
    res = c08.run_impl(m, d, robj); want = c08.oracle(m, d, robj)
    if res[1] != want[0]: bad += 1; print("SHAPE BAD", t); 
print("shapes", len(shapes), "bad", bad)
bad=0
for _ in range(6000):
    dicts = [c08.gen_repo(rng) for _ in range(rng.choice([1, 1, 2, 3]))]
    t = c08.gen_tree(rng, rng.choice([1, 2, 2, 3]))
    try: robj, term = c08.make_case(m, dicts, t)
    except ValueError: continue
    res = c08.run_impl(m, dicts, robj); want = c08.oracle(m, dicts, robj)
    if res[1] != want[0]: bad += 1; 
    if bad==1 and res[1]!=want[0]: print("RANDOM BAD", dicts, t)
print("random bad", bad)
