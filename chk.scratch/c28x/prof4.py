import cProfile, pstats
from harness.common import Check
from harness import c28
from pkgcore.ebuild import digest
chk = Check("C28")
work = chk.scratch / "c28"; work.mkdir()
pr = cProfile.Profile(); pr.enable()
rows, metas, bad = c28.stream_update(chk, digest, work)
pr.disable()
pstats.Stats(pr).sort_stats("cumulative").print_stats(28)
