(* Proofs_C24.v — proofs of the C24 theorems (closed in Prop_C24.v). *)
From Coq Require Import List NArith ZArith Bool Arith Lia Permutation.
From Coq Require Import Decimal Hexadecimal DecimalN DecimalZ HexadecimalN.
Import ListNotations.
From Verif Require Import Base.Val C22.Model_C22 C22.Proofs_C22 C18.Fs C18.FsLemmas.
From Verif Require Import C24.Model_C24 C24.Spec_C24 C24.Atomic.

(* ------------------------------------------------------------------ flush is atomic *)
Lemma chunked_fuel_concat f c d : concat (chunked_fuel f c d) = d.
Proof.
  revert d; induction f as [|f IH]; intros [|x d]; cbn [chunked_fuel concat]; try reflexivity.
  - now rewrite app_nil_r.
  - rewrite IH. apply firstn_skipn.
Qed.
Lemma chunked_concat c d : concat (chunked c d) = d.
Proof.
  destruct c; cbn [chunked]; [destruct d; cbn; [reflexivity|now rewrite app_nil_r]|].
  apply chunked_fuel_concat.
Qed.
Lemma utf8_app a b : utf8 (a ++ b) = utf8 a ++ utf8 b.
Proof. unfold utf8. now rewrite map_app, concat_app. Qed.
Lemma utf8_concat ls : utf8 (concat ls) = concat (map utf8 ls).
Proof. induction ls as [|l ls IH]; cbn [concat map]; [reflexivity|]. now rewrite utf8_app, IH. Qed.

Lemma contents_chunks_concat c d : concat (contents_chunks c d) = utf8 (write_contents d).
Proof.
  unfold contents_chunks, write_contents. rewrite utf8_concat, map_map.
  induction (sort_entries d) as [|e l IH]; cbn [map concat]; [reflexivity|].
  rewrite concat_app, chunked_concat. now rewrite IH.
Qed.

Lemma tmp_ne_contents : P_TMP <> P_CONTENTS.
Proof. discriminate. Qed.

Theorem flush_atomic_proof : flush_atomic_stmt.
Proof.
  intros s c d k Hok sk. subst sk. unfold flush_ops.
  destruct (atomic_ops_crash s P_TMP P_CONTENTS 420%N (Some 0%N) (Some 0%N) (contents_chunks c d) k
              tmp_ne_contents Hok) as [Hfr Hp].
  split; [exact Hfr|]. destruct Hp as [Hp|[Hp _]]; [now left|right].
  now rewrite contents_chunks_concat in Hp.
Qed.

(* a flush whose every call succeeded installed the new file and left no temporary *)
Theorem flush_complete_proof : forall s c d s',
  tmp_ok s P_TMP -> run_opt (flush_ops s c d) s = Some s' ->
  is_file_with (utf8 (write_contents d)) 420 (lookup s' P_CONTENTS) /\ lookup s' P_TMP = None.
Proof.
  intros s c d s' Hok H. unfold flush_ops in H.
  destruct (atomic_ops_complete _ _ _ _ _ _ _ _ tmp_ne_contents Hok H) as (H1 & H2 & _).
  rewrite contents_chunks_concat in H1. now split.
Qed.

(* an I/O error at any call after the open, followed by the discard() of the error path *)
Theorem flush_eio_proof : forall s c d k,
  tmp_ok s P_TMP -> 1 <= k ->
  let sk := fault_state s P_TMP (flush_ops s c d) k true in
  (forall q, q <> P_CONTENTS -> q <> P_TMP -> lookup sk q = lookup s q) /\
  (lookup sk P_CONTENTS = lookup s P_CONTENTS \/
   is_file_with (utf8 (write_contents d)) 420 (lookup sk P_CONTENTS)) /\
  lookup sk P_TMP = None.
Proof.
  intros s c d k Hok Hk sk. subst sk. unfold flush_ops.
  destruct (atomic_ops_eio s P_TMP P_CONTENTS 420%N (Some 0%N) (Some 0%N) (contents_chunks c d) k
              tmp_ne_contents Hok Hk) as (H1 & H2 & H3).
  rewrite contents_chunks_concat in H2. auto.
Qed.

(* non-vacuity: a directory with an old CONTENTS and a stale temporary satisfies the premise, and
   the flush of a two-entry set really runs to completion there *)
Example flush_example :
  let s := [(P_CONTENTS, File [1%N] 420%N 0%N 0%N 0%Z 1%N); (P_TMP, File [2%N] 384%N 0%N 0%N 0%Z 2%N)] in
  tmp_ok s P_TMP /\
  exists s', run_opt (flush_ops s 3 [EDir [47;97]%N; EFif [47;98]%N]) s = Some s' /\
             lookup s' P_TMP = None.
Proof.
  cbn zeta. split.
  - right. exists [2%N], 384%N, 0%N, 0%N, 0%Z, 2%N. split; [reflexivity|].
    intros q n Hq Hl. cbn in Hl. destruct (path_eq_dec q P_CONTENTS).
    + injection Hl as <-. cbn. discriminate.
    + destruct (path_eq_dec q P_TMP); [contradiction|discriminate].
  - eexists. split; [vm_compute; reflexivity|reflexivity].
Qed.

(* ------------------------------------------------------------------ the round trip *)
From Verif Require Import C24.Roundtrip.

Theorem line_roundtrip_proof : line_roundtrip_stmt WFpath.
Proof. intros e H. now apply line_roundtrip_lemma. Qed.

Theorem contents_roundtrip_exact_proof : forall d, uniq_locs d -> Forall WFpath d ->
  read_contents (write_contents d) = Ok (sort_entries d).
Proof. exact contents_roundtrip_exact. Qed.

Theorem contents_roundtrip_proof : contents_roundtrip_stmt.
Proof.
  intros d Hu Hw. exists (sort_entries d). split; [now apply contents_roundtrip_exact|apply sort_perm].
Qed.

Theorem contents_roundtrip_full_proof : forall d, uniq_locs d -> Forall WFpath d ->
  read_contents (write_contents d) = Ok (sort_entries d) /\ Permutation (sort_entries d) d.
Proof. intros d Hu Hw. split; [now apply contents_roundtrip_exact|apply sort_perm]. Qed.

Theorem the_set_invariant_proof : forall raw,
  uniq_locs (the_set raw) /\ Forall (fun e => normpath (eloc e) = eloc e) (the_set raw).
Proof. exact the_set_invariant. Qed.

(* the full statement (without the known-class exclusion) is false of the code *)
Definition sym_witness : entry := ESym [47;97;32;45;62;32;98]%N [99]%N 7.       (* /a -> b  ->  c *)
Theorem line_roundtrip_refuted_sym_proof :
  wf_base sym_witness = true /\ known_class sym_witness = true /\
  parse_line (strip (write_line sym_witness)) = Ok (ESym [47;97]%N [98;32;45;62;32;99]%N 7) /\
  ~ line_roundtrip_full.
Proof.
  split; [reflexivity|]. split; [reflexivity|]. split; [vm_compute; reflexivity|].
  intro H. specialize (H sym_witness eq_refl). vm_compute in H. discriminate.
Qed.

(* non-vacuity: the domain holds paths with embedded and doubled spaces, "->" fragments glued to
   other characters in the location and free-standing in the target, non-ASCII characters, an md5
   with leading zeros and a negative mtime; and the set really round-trips by computation *)
Example wf_examples :
  let d := [ EObj [47;97;32;98;47;99;32;32;100]%N 171 5;                  (* /a b/c  d *)
             ESym [47;120;45;62;121]%N [116;32;45;62;32;117]%N (-3);       (* /x->y -> "t -> u" *)
             EDir [47;233;47;26085]%N; EDev [47;100;32;101]%N; EFif [32;102]%N ] in
  Forall WFpath d /\ uniq_locs d /\ read_contents (write_contents d) = Ok (sort_entries d).
Proof.
  cbn zeta. split; [|split].
  - repeat constructor.
  - repeat constructor; cbn; intuition discriminate.
  - vm_compute. reflexivity.
Qed.
