import tempfile, shutil, logging, os
logging.disable(logging.CRITICAL)
from harness import c13
ws=c13.load_corpus()
root=tempfile.mkdtemp()
for k,w in enumerate(ws):
    d=os.path.join(root,"w%d"%k); overall,parts=c13.run_impl(w,d); shutil.rmtree(d)
    for p,o,pt in zip(w["pkgs"],overall,parts):
        ref=[c13.ref_mask_ok(w,p),c13.ref_kw_ok(w,p),c13.ref_lic_ok(w,p)]
        print(k,p["cat"],p["name"],p["ver"],p["kw"],c13.lic_str(p["lic"]),o,pt,ref,"" if (pt==ref and o==all(ref)) else "<<<<<")
