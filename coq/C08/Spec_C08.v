(* Spec_C08.v — what a repository query must answer, written without the candidate search:
   the brute-force filter of every package (or every category/package pair that has a version) of
   the repository by the restriction's own `match` (C06.Restr.eval, which C06 proves to be the
   propositional reading of the tree). *)
From Coq Require Import List NArith ZArith Bool Sorting.Sorted Sorting.Permutation.
Import ListNotations.
From Verif Require Import Base.Val C06.Restr C08.Ord_C08 C08.Model_C08.

(* every object a query in mode m may yield, read off the cpv_dict directly *)
Definition universe (R : repo) (m : mode) : list pobj :=
  flat_map (fun cps =>
    flat_map (fun pvs =>
      match m with
      | MVersioned => map (PV (fst cps) (fst pvs)) (snd pvs)
      | MUnvCPV => match snd pvs with [] => [] | _ => [PU (fst cps) (fst pvs)] end
      | MUnvTuple => match snd pvs with [] => [] | _ => [PT (fst cps) (fst pvs)] end
      end) (snd cps)) R.

Definition brute (w : world) (R : repo) (m : mode) (r : restr) : list pobj :=
  filter (matches w r) (universe R m).

(* a SimpleTree is built from dicts: categories are distinct, the packages of one category are
   distinct, and a version is listed once *)
Definition str_nodup (l : list str) : Prop := NoDup l.
Definition repo_wf (R : repo) : Prop :=
  NoDup (map fst R) /\
  Forall (fun cps => NoDup (map fst (snd cps)) /\ Forall (fun pvs => NoDup (snd pvs)) (snd cps)) R.

(* an ebuild atom's own restrictions are plain PackageRestrictions, never groupings (the harness
   checks this of every atom it builds); only the ROOT of a query matters here *)
Definition flat_atom (r : restr) : bool :=
  match r with
  | Node KAtom false cs => forallb (fun c => negb (has_nf c)) cs
  | _ => true
  end.

(* the object handed to `match` has category/package attributes (it is not a bare tuple) *)
Definition has_attrs (o : pobj) : bool := match o with PT _ _ => false | _ => true end.

(* same elements, each exactly once *)
Definition exact_answer (got want : list pobj) : Prop :=
  NoDup got /\ forall o, In o got <-> In o want.

Definition obj_le (a b : pobj) : Prop := obj_leb a b = true.

(* the bare-tuple reading asked of an unversioned query: the pairs whose UnversionedCPV object
   matches, as tuples *)
Definition as_tuple (o : pobj) : pobj := match o with PV c p _ | PU c p | PT c p => PT c p end.

(* ---------------------------------------------------------------- acceptors for the harness (B) *)
Definition brute_all (w : world) (Rs : list repo) (m : mode) (r : restr) : list pobj :=
  flat_map (fun R => brute w R m r) Rs.

(* the implementation's recorded answers (see Model_C08.run_query) against the brute-force filter:
   plain and unversioned answers as sorted multisets, sorted answers as exactly the sorted filter *)
Definition spec_query_ok (i : qinput) (res : val) : bool :=
  let '(t, Rs, r) := i in
  let w := mkworld t in
  match res with
  | VL [_; plain; srt; ucpv; _; usrt] =>
      let want := VL (map enc_obj (ObjSort.sort (brute_all w Rs MVersioned r))) in
      let wantu := VL (map enc_obj (ObjSort.sort (brute_all w Rs MUnvCPV r))) in
      val_eqb plain want && val_eqb srt want && val_eqb ucpv wantu && val_eqb usrt wantu
  | _ => false
  end.
Definition spec_tuple_ok (i : qinput) (res : val) : bool :=
  let '(t, Rs, r) := i in
  let w := mkworld t in
  match res with
  | VL [_; _; _; _; utup; _] =>
      val_eqb utup (VL (map enc_obj (ObjSort.sort (map as_tuple (brute_all w Rs MUnvCPV r)))))
  | _ => false
  end.
(* the known class of the bare-tuple finding: the restriction looks at some package attribute *)
Definition tuple_class (r : restr) : bool := nonempty (leaves r).
