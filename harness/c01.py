"""Source-derived tables of C01 (DESIGN §3.1): literal data of ebuild/cpv.py and ebuild/restricts.py.

Fail closed: every literal is located by `ast`, checked against the exact shape the Gallina model
assumes, and translated; anything else raises TableError (reported as a broken tie).
"""

import ast
import re

from . import tables
from .common import cZ, clist, cstr
from .tables import TableError


def _regexp_arg(tree, name):
    """the string literal X in `name = regexp(X)`."""
    call = tables.find_assign(tree, name)
    if not (isinstance(call, ast.Call) and isinstance(call.func, ast.Name) and call.func.id == "regexp"
            and len(call.args) == 1 and not call.keywords):
        raise TableError(f"{name}: expected regexp(<literal>)")
    s = tables.literal(call.args[0])
    if not isinstance(s, str):
        raise TableError(f"{name}: pattern is not a string literal")
    return s


def _alternatives(alt: str, what: str):
    """expand `a|b(?:c)?|d` into the list of alternatives in regex priority order
    (x(?:y)? tries xy first, then x).  Only plain lower-case words are accepted."""
    out = []
    for a in alt.split("|"):
        m = re.fullmatch(r"([a-z]+)(?:\(\?:([a-z]+)\)\?)?", a)
        if not m:
            raise TableError(f"{what}: unrecognised alternative {a!r}")
        if m.group(2):
            out.append(m.group(1) + m.group(2))
        out.append(m.group(1))
    if len(set(out)) != len(out):
        raise TableError(f"{what}: duplicate alternative")
    return out


def gen_tables():
    t = tables.parse("ebuild/cpv.py")
    sv = tables.literal(tables.find_assign(t, "suffix_value"))
    if not (isinstance(sv, dict) and sv and all(isinstance(k, str) and type(v) is int for k, v in sv.items())):
        raise TableError("suffix_value: expected a {str: int} literal")
    sre = _regexp_arg(t, "suffix_regexp")
    m = re.fullmatch(r"\^\(([^()]*)\)\(\\d\*\)\$", sre)
    if not m:
        raise TableError(f"suffix_regexp: unexpected shape {sre!r}")
    sre_names = _alternatives(m.group(1), "suffix_regexp")
    vre = _regexp_arg(t, "isvalid_version_re")
    m = re.fullmatch(r"\^\(\?:\\d\+\)\(\?:\\\.\\d\+\)\*\[a-zA-Z\]\?\(\?:_\((.*)\)\\d\*\)\*\$", vre)
    if not m:
        raise TableError(f"isvalid_version_re: unexpected shape {vre!r}")
    vre_names = _alternatives(m.group(1), "isvalid_version_re")

    r = tables.parse("ebuild/restricts.py")
    ops = tables.literal(tables.find_assign(r, "_convert_op2str", cls="_VersionMatch"))
    if not (isinstance(ops, dict) and ops and all(
            isinstance(k, tuple) and all(type(i) is int for i in k) and isinstance(v, str) for k, v in ops.items())):
        raise TableError("_convert_op2str: expected a {tuple[int]: str} literal")
    # _convert_str2op must be the plain inversion of _convert_op2str
    inv = tables.find_assign(r, "_convert_str2op", cls="_VersionMatch")
    if ast.dump(inv) != ast.dump(ast.parse("{v: k for k, v in _convert_op2str.items()}", mode="eval").body):
        raise TableError("_convert_str2op is no longer the inversion of _convert_op2str")

    txt = tables.header("ebuild/cpv.py (suffix_value, suffix_regexp, isvalid_version_re) and "
                        "ebuild/restricts.py (_VersionMatch._convert_op2str)")
    txt += "\n(* cpv.suffix_value, in source order *)\n"
    txt += "Definition suffix_value : list (str * Z) :=\n  %s.\n" % clist(
        ["(%s, %s)" % (cstr(k), cZ(v)) for k, v in sv.items()], "str * Z")
    txt += "\n(* alternatives of cpv.suffix_regexp's first group, in regex priority order *)\n"
    txt += "Definition suffix_regexp_names : list str :=\n  %s.\n" % clist([cstr(n) for n in sre_names], "str")
    txt += "\n(* alternatives of the suffix group of cpv.isvalid_version_re, in regex priority order *)\n"
    txt += "Definition valid_suffix_names : list str :=\n  %s.\n" % clist([cstr(n) for n in vre_names], "str")
    txt += "\n(* restricts._VersionMatch._convert_op2str: result set -> operator text, in source order *)\n"
    txt += "Definition convert_op2str : list (list Z * str) :=\n  %s.\n" % clist(
        ["(%s, %s)" % (clist([cZ(i) for i in k], "Z"), cstr(v)) for k, v in ops.items()], "list Z * str")
    return {"Tables_C01.v": txt}
