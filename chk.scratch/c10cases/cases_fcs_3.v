From Coq Require Import List NArith ZArith Bool.
From Verif Require Import Base.Val C10.Model_C10 C10.Spec_C10.
Import ListNotations.

Definition cases : list ((fcs_input) * val) := 
[
  (([(Flag true false [0%N])], ([0%N], [0%N], (@nil (N)), [0%N])),
   (sols_val false 0 nil));
  (([(Flag true false [0%N])], ([0%N], (@nil (N)), [0%N], [5%N])),
   (sols_val true 1 [0]%N));
  (([(Flag true false [0%N])], ([0%N], (@nil (N)), (@nil (N)), (@nil (N)))),
   (sols_val true 1 [0]%N));
  (([(Flag true false [0%N])], ([0%N], [0%N], (@nil (N)), [0%N])),
   (sols_val false 0 nil));
  (([(Flag true false [0%N])], ([0%N], (@nil (N)), [0%N], [5%N])),
   (sols_val true 1 [0]%N));
  (([(Flag true false [0%N])], ([0%N; 5%N], (@nil (N)), (@nil (N)), (@nil (N)))),
   (sols_val true 33 [0; 32]%N));
  (([(Flag true false [0%N])], ([0%N; 5%N], [0%N], (@nil (N)), [0%N])),
   (sols_val false 0 nil));
  (([(Flag true false [0%N])], ([0%N; 5%N], (@nil (N)), [0%N], [5%N])),
   (sols_val true 33 [0; 32]%N));
  (([(Grp KOr false [(Flag false false [0%N]); (Flag false false [1%N])])], ([0%N; 1%N], (@nil (N)), (@nil (N)), (@nil (N)))),
   (sols_val false 3 [1; 2; 3]%N));
  (([(Grp KOr false [(Flag false false [0%N]); (Flag false false [1%N])])], ([0%N; 1%N], [0%N], (@nil (N)), [0%N; 1%N])),
   (sols_val true 3 [1; 3]%N));
  (([(Grp KOr false [(Flag false false [0%N]); (Flag false false [1%N])])], ([0%N; 1%N], (@nil (N)), [0%N], [5%N])),
   (sols_val false 3 [2]%N));
  (([(Grp KOr false [(Flag false false [0%N]); (Flag false false [1%N])])], ([0%N], (@nil (N)), (@nil (N)), (@nil (N)))),
   (sols_val false 3 [1]%N));
  (([(Grp KOr false [(Flag false false [0%N]); (Flag false false [1%N])])], ([0%N], [0%N], (@nil (N)), [0%N; 1%N])),
   (sols_val true 3 [1]%N));
  (([(Grp KOr false [(Flag false false [0%N]); (Flag false false [1%N])])], ([0%N], (@nil (N)), [0%N], [5%N])),
   (sols_val false 0 nil));
  (([(Grp KOr false [(Flag false false [0%N]); (Flag false false [1%N])])], ([0%N; 1%N; 5%N], (@nil (N)), (@nil (N)), (@nil (N)))),
   (sols_val false 35 [1; 2; 3; 33; 34; 35]%N));
  (([(Grp KOr false [(Flag false false [0%N]); (Flag false false [1%N])])], ([0%N; 1%N; 5%N], [0%N], (@nil (N)), [0%N; 1%N])),
   (sols_val true 35 [1; 3; 33; 35]%N));
  (([(Grp KOr false [(Flag false false [0%N]); (Flag false false [1%N])])], ([0%N; 1%N; 5%N], (@nil (N)), [0%N], [5%N])),
   (sols_val false 35 [2; 34]%N));
  (([(Grp KOne false [(Flag false false [0%N]); (Flag false false [1%N]); (Flag false false [2%N])])], ([0%N; 1%N; 2%N], (@nil (N)), (@nil (N)), (@nil (N)))),
   (sols_val false 7 [1; 2; 4]%N));
  (([(Grp KOne false [(Flag false false [0%N]); (Flag false false [1%N]); (Flag false false [2%N])])], ([0%N; 1%N; 2%N], [0%N], (@nil (N)), [0%N; 1%N; 2%N])),
   (sols_val false 7 [1]%N));
  (([(Grp KOne false [(Flag false false [0%N]); (Flag false false [1%N]); (Flag false false [2%N])])], ([0%N; 1%N; 2%N], (@nil (N)), [0%N], [5%N])),
   (sols_val false 7 [2; 4]%N));
  (([(Grp KOne false [(Flag false false [0%N]); (Flag false false [1%N]); (Flag false false [2%N])])], ([0%N], (@nil (N)), (@nil (N)), (@nil (N)))),
   (sols_val false 7 [1]%N));
  (([(Grp KOne false [(Flag false false [0%N]); (Flag false false [1%N]); (Flag false false [2%N])])], ([0%N], [0%N], (@nil (N)), [0%N; 1%N; 2%N])),
   (sols_val true 7 [1]%N));
  (([(Grp KOne false [(Flag false false [0%N]); (Flag false false [1%N]); (Flag false false [2%N])])], ([0%N], (@nil (N)), [0%N], [5%N])),
   (sols_val false 0 nil));
  (([(Grp KOne false [(Flag false false [0%N]); (Flag false false [1%N]); (Flag false false [2%N])])], ([0%N; 1%N; 2%N; 5%N], (@nil (N)), (@nil (N)), (@nil (N)))),
   (sols_val false 39 [1; 2; 4; 33; 34; 36]%N));
  (([(Grp KOne false [(Flag false false [0%N]); (Flag false false [1%N]); (Flag false false [2%N])])], ([0%N; 1%N; 2%N; 5%N], [0%N], (@nil (N)), [0%N; 1%N; 2%N])),
   (sols_val false 39 [1; 33]%N));
  (([(Grp KOne false [(Flag false false [0%N]); (Flag false false [1%N]); (Flag false false [2%N])])], ([0%N; 1%N; 2%N; 5%N], (@nil (N)), [0%N], [5%N])),
   (sols_val false 39 [2; 4; 34; 36]%N));
  (([(Grp KAmo false [(Flag false false [0%N]); (Flag false false [1%N])])], ([0%N; 1%N], (@nil (N)), (@nil (N)), (@nil (N)))),
   (sols_val true 3 [0; 1; 2]%N));
  (([(Grp KAmo false [(Flag false false [0%N]); (Flag false false [1%N])])], ([0%N; 1%N], [0%N], (@nil (N)), [0%N; 1%N])),
   (sols_val false 3 [1]%N));
  (([(Grp KAmo false [(Flag false false [0%N]); (Flag false false [1%N])])], ([0%N; 1%N], (@nil (N)), [0%N], [5%N])),
   (sols_val true 3 [0; 2]%N));
  (([(Grp KAmo false [(Flag false false [0%N]); (Flag false false [1%N])])], ([0%N], (@nil (N)), (@nil (N)), (@nil (N)))),
   (sols_val true 3 [0; 1]%N));
  (([(Grp KAmo false [(Flag false false [0%N]); (Flag false false [1%N])])], ([0%N], [0%N], (@nil (N)), [0%N; 1%N])),
   (sols_val true 3 [1]%N));
  (([(Grp KAmo false [(Flag false false [0%N]); (Flag false false [1%N])])], ([0%N], (@nil (N)), [0%N], [5%N])),
   (sols_val true 3 [0]%N));
  (([(Grp KAmo false [(Flag false false [0%N]); (Flag false false [1%N])])], ([0%N; 1%N; 5%N], (@nil (N)), (@nil (N)), (@nil (N)))),
   (sols_val true 35 [0; 1; 2; 32; 33; 34]%N));
  (([(Grp KAmo false [(Flag false false [0%N]); (Flag false false [1%N])])], ([0%N; 1%N; 5%N], [0%N], (@nil (N)), [0%N; 1%N])),
   (sols_val false 35 [1; 33]%N));
  (([(Grp KAmo false [(Flag false false [0%N]); (Flag false false [1%N])])], ([0%N; 1%N; 5%N], (@nil (N)), [0%N], [5%N])),
   (sols_val true 35 [0; 2; 32; 34]%N));
  (([(Cond false 0%N [(Flag false false [1%N])])], ([0%N; 1%N], (@nil (N)), (@nil (N)), (@nil (N)))),
   (sols_val true 3 [0; 2; 3]%N));
  (([(Cond false 0%N [(Flag false false [1%N])])], ([0%N; 1%N], [0%N], (@nil (N)), [0%N; 1%N])),
   (sols_val true 3 [3]%N));
  (([(Cond false 0%N [(Flag false false [1%N])])], ([0%N; 1%N], (@nil (N)), [0%N], [5%N])),
   (sols_val true 3 [0; 2]%N));
  (([(Cond false 0%N [(Flag false false [1%N])])], ([0%N], (@nil (N)), (@nil (N)), (@nil (N)))),
   (sols_val true 3 [0]%N));
  (([(Cond false 0%N [(Flag false false [1%N])])], ([0%N], [0%N], (@nil (N)), [0%N; 1%N])),
   (sols_val false 0 nil));
  (([(Cond false 0%N [(Flag false false [1%N])])], ([0%N], (@nil (N)), [0%N], [5%N])),
   (sols_val true 3 [0]%N));
  (([(Cond false 0%N [(Flag false false [1%N])])], ([0%N; 1%N; 5%N], (@nil (N)), (@nil (N)), (@nil (N)))),
   (sols_val true 35 [0; 2; 3; 32; 34; 35]%N));
  (([(Cond false 0%N [(Flag false false [1%N])])], ([0%N; 1%N; 5%N], [0%N], (@nil (N)), [0%N; 1%N])),
   (sols_val true 35 [3; 35]%N));
  (([(Cond false 0%N [(Flag false false [1%N])])], ([0%N; 1%N; 5%N], (@nil (N)), [0%N], [5%N])),
   (sols_val true 35 [0; 2; 32; 34]%N));
  (([(Cond true 0%N [(Flag false false [1%N]); (Flag true false [2%N])])], ([0%N; 1%N; 2%N], (@nil (N)), (@nil (N)), (@nil (N)))),
   (sols_val false 7 [1; 2; 3; 5; 7]%N));
  (([(Cond true 0%N [(Flag false false [1%N]); (Flag true false [2%N])])], ([0%N; 1%N; 2%N], [0%N], (@nil (N)), [0%N; 1%N; 2%N])),
   (sols_val true 7 [1; 3; 5; 7]%N));
  (([(Cond true 0%N [(Flag false false [1%N]); (Flag true false [2%N])])], ([0%N; 1%N; 2%N], (@nil (N)), [0%N], [5%N])),
   (sols_val false 7 [2]%N));
  (([(Cond true 0%N [(Flag false false [1%N]); (Flag true false [2%N])])], ([0%N], (@nil (N)), (@nil (N)), (@nil (N)))),
   (sols_val false 7 [1]%N));
  (([(Cond true 0%N [(Flag false false [1%N]); (Flag true false [2%N])])], ([0%N], [0%N], (@nil (N)), [0%N; 1%N; 2%N])),
   (sols_val true 7 [1]%N));
  (([(Cond true 0%N [(Flag false false [1%N]); (Flag true false [2%N])])], ([0%N], (@nil (N)), [0%N], [5%N])),
   (sols_val false 0 nil));
  (([(Cond true 0%N [(Flag false false [1%N]); (Flag true false [2%N])])], ([0%N; 1%N; 2%N; 5%N], (@nil (N)), (@nil (N)), (@nil (N)))),
   (sols_val false 39 [1; 2; 3; 5; 7; 33; 34; 35; 37; 39]%N));
  (([(Cond true 0%N [(Flag false false [1%N]); (Flag true false [2%N])])], ([0%N; 1%N; 2%N; 5%N], [0%N], (@nil (N)), [0%N; 1%N; 2%N])),
   (sols_val true 39 [1; 3; 5; 7; 33; 35; 37; 39]%N));
  (([(Cond true 0%N [(Flag false false [1%N]); (Flag true false [2%N])])], ([0%N; 1%N; 2%N; 5%N], (@nil (N)), [0%N], [5%N])),
   (sols_val false 39 [2; 34]%N));
  (([(Cond false 0%N [(Cond false 1%N [(Flag false false [2%N])])])], ([0%N; 1%N; 2%N], (@nil (N)), (@nil (N)), (@nil (N)))),
   (sols_val true 7 [0; 1; 2; 4; 5; 6; 7]%N));
  (([(Cond false 0%N [(Cond false 1%N [(Flag false false [2%N])])])], ([0%N; 1%N; 2%N], [0%N], (@nil (N)), [0%N; 1%N; 2%N])),
   (sols_val true 7 [1; 5; 7]%N));
  (([(Cond false 0%N [(Cond false 1%N [(Flag false false [2%N])])])], ([0%N; 1%N; 2%N], (@nil (N)), [0%N], [5%N])),
   (sols_val true 7 [0; 2; 4; 6]%N));
  (([(Cond false 0%N [(Cond false 1%N [(Flag false false [2%N])])])], ([0%N], (@nil (N)), (@nil (N)), (@nil (N)))),
   (sols_val true 7 [0; 1]%N));
  (([(Cond false 0%N [(Cond false 1%N [(Flag false false [2%N])])])], ([0%N], [0%N], (@nil (N)), [0%N; 1%N; 2%N])),
   (sols_val true 7 [1]%N));
  (([(Cond false 0%N [(Cond false 1%N [(Flag false false [2%N])])])], ([0%N], (@nil (N)), [0%N], [5%N])),
   (sols_val true 7 [0]%N));
  (([(Cond false 0%N [(Cond false 1%N [(Flag false false [2%N])])])], ([0%N; 1%N; 2%N; 5%N], (@nil (N)), (@nil (N)), (@nil (N)))),
   (sols_val true 39 [0; 1; 2; 4; 5; 6; 7; 32; 33; 34; 36; 37; 38; 39]%N))
].
Eval vm_compute in (mismatches run_fcs cases).
Eval vm_compute in (where_ (fun i r => negb (spec_fcs_ok i r)) cases).
