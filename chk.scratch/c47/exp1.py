import os, sys, io, tarfile, threading, tempfile, shutil, http.server, atexit
sys.path.insert(0, "/verif")
from harness import fsx
from pkgcore.sync import tar as tarmod, base

def mk_tar(files, top="repo-1"):
    bio = io.BytesIO()
    with tarfile.open(fileobj=bio, mode="w:gz") as tf:
        ti = tarfile.TarInfo(top); ti.type = tarfile.DIRTYPE; ti.mode=0o755; tf.addfile(ti)
        for name, data in files:
            if data is None:
                ti = tarfile.TarInfo(f"{top}/{name}"); ti.type = tarfile.DIRTYPE; ti.mode=0o755; tf.addfile(ti)
            else:
                ti = tarfile.TarInfo(f"{top}/{name}"); ti.size=len(data); ti.mode=0o644; tf.addfile(ti, io.BytesIO(data))
    return bio.getvalue()

SERVE = {}
class H(http.server.BaseHTTPRequestHandler):
    def log_message(self, *a): pass
    def do_GET(self):
        ent = SERVE.get(self.path)
        if ent is None:
            self.send_error(404); return
        body, etag, declared = ent
        inm = self.headers.get("If-None-Match")
        if etag and inm == etag:
            self.send_response(304); self.end_headers(); return
        self.send_response(200)
        self.send_header("Content-Length", str(declared if declared is not None else len(body)))
        if etag: self.send_header("ETag", etag)
        self.end_headers()
        self.wfile.write(body)
srv = http.server.ThreadingHTTPServer(("127.0.0.1", 0), H)
port = srv.server_address[1]
threading.Thread(target=srv.serve_forever, daemon=True).start()

root = tempfile.mkdtemp(prefix="c47exp_")
os.makedirs(f"{root}/repos/gentoo/cat"); open(f"{root}/repos/gentoo/cat/old.txt","w").write("old")
open(f"{root}/repos/gentoo/.etag","w").write('"v1"')
os.makedirs(f"{root}/tmp")
tempfile.tempdir = f"{root}/tmp"
good = mk_tar([("cat", None), ("cat/new.txt", b"new"), ("top.txt", b"t")])
SERVE["/r.tar.gz"] = (good, '"v2"', None)
SERVE["/trunc.tar.gz"] = (good[:len(good)//2], '"v2"', len(good))
SERVE["/corrupt.tar.gz"] = (good[:len(good)//2], '"v2"', None)
SERVE["/garbage.tar.gz"] = (b"not a tarball at all", '"v2"', None)

registered = []
real_reg = atexit.register
atexit.register = lambda f, *a, **k: registered.append((f,a,k)) or f

def go(path):
    s = tarmod.tar_syncer(f"{root}/repos/gentoo", f"tar+http://127.0.0.1:{port}{path}")
    return s.sync()
for p in sys.argv[1:] or ["/r.tar.gz"]:
    r = fsx.record(lambda: go(p), root)
    print(p, "result", r.result, "exc", repr(r.exc))
    for i, c in enumerate(r.trace): print(" ", i, c, c.cpaths)
    for k, v in sorted(fsx.snapshot(root).items()): print("   ", "/".join(k), v[0], v[1] if v[0]=="file" else "")
    print("atexit:", registered)
shutil.rmtree(root)
