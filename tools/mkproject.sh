#!/bin/sh
# Regenerate coq/_CoqProject (every .v under coq/ except generated cases) and the coq_makefile Makefile.
set -e
cd "$(dirname "$0")/../coq"
{
  echo "-R . Verif"
  echo "-arg -w -arg -notation-overridden,-deprecated-hint-without-locality,-deprecated-instance-without-locality"
  find . -name '*.v' ! -path './cases/*' | sed 's|^\./||' | LC_ALL=C sort
} > _CoqProject.new
if ! cmp -s _CoqProject.new _CoqProject 2>/dev/null; then mv _CoqProject.new _CoqProject; else rm _CoqProject.new; fi
coq_makefile -f _CoqProject -o Makefile >/dev/null
