#!/bin/bash
# usage: run.sh  — applies each mutation to /tmp/wt_C28m (repaired tree), runs the check, restores
W=/tmp/wt_C28m
F=$W/src/pkgcore/ebuild/digest.py
OUT=/verif/chk.scratch/c28x/mut
cp $F $OUT/digest.repaired.py
mut() { # name  python-replace-script
  name=$1; shift
  cp $OUT/digest.repaired.py $F
  python3 - "$F" "$@" <<'PY'
import sys
f, old, new = sys.argv[1], sys.argv[2], sys.argv[3]
s = open(f).read()
assert s.count(old) >= 1, "pattern not found: " + old
s = s.replace(old, new, 1)
open(f, "w").write(s)
PY
  ( cd /verif && VERIF_REPO=$W timeout 1500 ./check C28 > $OUT/$name.out 2>&1; echo "exit=$?" >> $OUT/$name.out )
  cp /verif/evidence/C28.json $OUT/$name.evidence.json 2>/dev/null
  for r in /verif/replay/C28-0-0.json; do cp $r $OUT/$name.replay0.json 2>/dev/null; done
  tail -3 $OUT/$name.out
}
mut M1_unsorted_aux 'for path, chksums in sorted(aux.items(), key=_key_sort)' 'for path, chksums in aux.items()'
mut M2_parse_decimal 'yield chf, int(sum, 16)' 'yield chf, int(sum, 10)'
mut M3_compare_stripped 'if handle.read() == data:' 'if handle.read() == data.rstrip():'
mut M4_inplace_when_new '        handle = AtomicWriteFile(self.path)
' '        handle = AtomicWriteFile(self.path) if os.path.exists(self.path) else open(self.path, "w")
'
mut M5_thin_scans 'if not self.thin:
            filesdir' 'if True:
            filesdir'
mut M6_ebuild_suffix 'if obj.location[-7:] == ".ebuild":' 'if obj.location[-6:] == "ebuild":'
mut M7_tmp_not_excluded 'excludes = frozenset(["CVS", ".svn", "Manifest", tmp_name])' 'excludes = frozenset(["CVS", ".svn", "Manifest"])'
mut H1_refactor_line '    line = f"{chf.upper()} {filename} {size}"
    for other_chf in sorted(chksums):
        line += f" {other_chf.upper()} {get_handler(other_chf).long2str(chksums[other_chf])}"
    return line + "\n"' '    parts = [chf.upper(), filename, str(size)]
    for name in sorted(chksums.keys()):
        parts.extend((name.upper(), get_handler(name).long2str(chksums[name])))
    return " ".join(parts) + "\n"'
cp $OUT/digest.repaired.py $F
echo ALLDONE > $OUT/done
