From Coq Require Import List NArith ZArith Bool Arith Lia.
Import ListNotations.
From Verif Require Import Base.Val C17.Model_C17 C17.Spec_C17 C17.Proofs_C17.
Arguments memN : simpl never.

Lemma count_filter_last' {A} (eqb : A -> A -> bool) (Hr : reflects eqb) x y l :
  count eqb x l = 1 ->
  count eqb y (filter (fun z => negb (eqb x z)) l ++ [x]) = count eqb y l.
Proof.
  intros H1. rewrite (count_app eqb), (count_filter_ne eqb Hr). cbn.
  destruct (eqb x y) eqn:H.
  - apply Hr in H. subst. rewrite (eqb_refl' eqb Hr). lia.
  - rewrite (eqb_sym' eqb Hr), H. lia.
Qed.

Section Compound.
Variable E : env.

Lemma count_blockers_of e l :
  count trip_eqb e l <> 0 -> count N.eqb (fst (snd e)) (blockers_of l) <> 0.
Proof.
  intros H. apply (count_In trip_eqb trip_reflects) in H.
  apply (count_In N.eqb N_reflects). unfold blockers_of. apply in_map_iff. exists e. auto.
Qed.

Lemma rb_of_nonnil c bk s : count trip_eqb (c, bk) (rb s) <> 0 -> is_nil (rb_of c s) = false.
Proof.
  intros H. apply (count_In trip_eqb trip_reflects) in H. unfold rb_of.
  assert (Hin : In bk (map snd (filter (fun e : N * (N * N) => N.eqb (fst e) c) (rb s)))).
  { apply in_map_iff. exists (c, bk). split; [reflexivity|]. apply filter_In. split; [exact H|].
    cbn. apply N.eqb_refl. }
  destruct (map snd _); [destruct Hin | reflexivity].
Qed.

(* one decref: explicit effect *)
Lemma decref_apply_ok s c b k : Inv E s -> count trip_eqb (c, (b, k)) (rb s) <> 0 ->
  exists s', decref_apply c b k s = (s', Ok tt) /\
    plan s' = plan s ++ [ODecref c b k] /\ slots s' = slots s /\ pc s' = pc s /\ vf s' = vf s /\
    fr s' = fr s /\ rb s' = remove1 trip_eqb (c, (b, k)) (rb s) /\
    brc s' = remove1 N.eqb b (brc s) /\
    lims s' = (if memN b (remove1 N.eqb b (brc s)) then lims s
               else filter (fun kb => negb (pair_eqb (k, b) kb)) (lims s)).
Proof.
  intros HI Hin.
  assert (Hb : memN b (brc s) = true).
  { rewrite memN_count, (I_brc E s HI). pose proof (count_blockers_of _ _ Hin) as H. cbn in H.
    destruct (count N.eqb b (blockers_of (rb s))); [contradiction | reflexivity]. }
  assert (Hk : k = bkey E b) by (eapply (I_rbkey E s HI); eauto).
  unfold decref_apply, bind, plan_append, modify, brc_remove, gets. cbn. rewrite Hb. cbn.
  destruct (memN b (remove1 N.eqb b (brc s))) eqn:Hb'; cbn.
  - unfold rb_remove. cbn. unfold rb_of. cbn. fold (rb_of c s).
    rewrite (rb_of_nonnil c (b, k) s Hin).
    rewrite (existsb_count trip_eqb). destruct (count trip_eqb (c, (b, k)) (rb s)) eqn:Hc; [contradiction|].
    cbn. eexists. split; [reflexivity|]. cbn. repeat split; reflexivity.
  - unfold remove_limiter. cbn.
    assert (Hl : existsb (pair_eqb (k, b)) (lims s) = true).
    { rewrite (existsb_count pair_eqb), (I_lims E s HI), Hb, Hk, N.eqb_refl. reflexivity. }
    rewrite Hl. cbn. unfold rb_remove. cbn. unfold rb_of. cbn. fold (rb_of c s).
    rewrite (rb_of_nonnil c (b, k) s Hin).
    rewrite (existsb_count trip_eqb). destruct (count trip_eqb (c, (b, k)) (rb s)) eqn:Hc; [contradiction|].
    cbn. eexists. split; [reflexivity|]. cbn. repeat split; reflexivity.
Qed.

Lemma memN_remove1_other b b0 l : N.eqb b b0 = false -> memN b0 (remove1 N.eqb b l) = memN b0 l.
Proof. intros H. rewrite !memN_count, (count_remove1 N.eqb N_reflects), H. reflexivity. Qed.

Lemma inv_decref_fields s s' c b k : Inv E s -> count trip_eqb (c, (b, k)) (rb s) <> 0 ->
  slots s' = slots s -> vf s' = vf s -> rb s' = remove1 trip_eqb (c, (b, k)) (rb s) ->
  brc s' = remove1 N.eqb b (brc s) ->
  lims s' = (if memN b (remove1 N.eqb b (brc s)) then lims s
             else filter (fun kb => negb (pair_eqb (k, b) kb)) (lims s)) ->
  Inv E s'.
Proof.
  intros HI Hin Hsl Hvf Hrb Hbrc Hli. pose proof HI as [J1 J2 J3 J4 J5 J6].
  assert (Hk : k = bkey E b) by (eapply J5; eauto).
  constructor; intros.
  - rewrite Hsl. apply J1.
  - rewrite Hsl in *. apply J2; assumption.
  - rewrite Hbrc, Hrb, (count_remove1 N.eqb N_reflects). unfold blockers_of.
    pose proof (count_map_remove1 trip_eqb trip_reflects (fun e => fst (snd e)) (c, (b, k)) b0 (rb s) Hin) as Hm.
    cbn in Hm. specialize (J3 b0). unfold blockers_of in J3. rewrite (N.eqb_sym b0 b) in Hm.
    destruct (N.eqb b b0); lia.
  - rewrite Hli, Hbrc.
    destruct (N.eqb b b0) eqn:Hbb.
    + apply N.eqb_eq in Hbb. subst b0.
      destruct (memN b (remove1 N.eqb b (brc s))) eqn:Hb'.
      * rewrite J4. assert (Hb : memN b (brc s) = true).
        { rewrite memN_count, J3. pose proof (count_blockers_of _ _ Hin) as H. cbn in H.
          destruct (count N.eqb b (blockers_of (rb s))); [contradiction | reflexivity]. }
        rewrite Hb. reflexivity.
      * cbn. rewrite (count_filter_ne pair_eqb pair_reflects). unfold pair_eqb at 1. cbn.
        rewrite N.eqb_refl, andb_true_r. destruct (N.eqb k k0) eqn:Hkk; [reflexivity|].
        rewrite J4. rewrite <- Hk. rewrite (N.eqb_sym k0 k), Hkk, andb_false_r. reflexivity.
    + rewrite (memN_remove1_other b b0 _ Hbb).
      destruct (memN b (remove1 N.eqb b (brc s))); [apply J4|].
      rewrite (count_filter_ne pair_eqb pair_reflects). unfold pair_eqb at 1. cbn.
      rewrite Hbb, andb_false_r. apply J4.
  - rewrite Hrb, (count_remove1 trip_eqb trip_reflects) in H.
    eapply J5. destruct (trip_eqb (c, (b, k)) (c0, (b0, k0))); [|exact H].
    intros H0. rewrite H0 in H. cbn in H. contradiction.
  - rewrite Hvf. apply J6. rewrite <- Hsl. assumption.
Qed.

(* reverting the decref restores the observables *)
Lemma decref_revert_ok s s' c b k : Inv E s -> count trip_eqb (c, (b, k)) (rb s) <> 0 ->
  slots s' = slots s -> pc s' = pc s -> vf s' = vf s -> fr s' = fr s ->
  rb s' = remove1 trip_eqb (c, (b, k)) (rb s) -> brc s' = remove1 N.eqb b (brc s) ->
  lims s' = (if memN b (remove1 N.eqb b (brc s)) then lims s
             else filter (fun kb => negb (pair_eqb (k, b) kb)) (lims s)) ->
  exists s'', decref_revert E c b k s' = (s'', Ok tt) /\ obs_eq s'' s.
Proof.
  intros HI Hin Hsl Hpc Hvf Hfr Hrb Hbrc Hli. pose proof HI as [J1 J2 J3 J4 J5 J6].
  assert (Hk : k = bkey E b) by (eapply J5; eauto).
  assert (Hb : memN b (brc s) = true).
  { rewrite memN_count, J3. pose proof (count_blockers_of _ _ Hin) as H. cbn in H.
    destruct (count N.eqb b (blockers_of (rb s))); [contradiction | reflexivity]. }
  assert (Hcb : count N.eqb b (brc s) <> 0) by (apply count_mem; exact Hb).
  unfold decref_revert, bind, rb_append, modify, gets. cbn. rewrite Hbrc.
  destruct (memN b (remove1 N.eqb b (brc s))) eqn:Hb'; cbn.
  - eexists. split; [reflexivity|]. constructor; cbn; intros.
    + rewrite Hsl. reflexivity.
    + rewrite Hli. reflexivity.
    + rewrite Hpc. reflexivity.
    + rewrite Hrb, (count_app trip_eqb), (count_remove1 trip_eqb trip_reflects). cbn.
      destruct (trip_eqb (c, (b, k)) e) eqn:He.
      * apply trip_reflects in He. subst e. rewrite (eqb_refl' trip_eqb trip_reflects). lia.
      * rewrite (eqb_sym' trip_eqb trip_reflects), He. lia.
    + rewrite Hbrc, (count_app N.eqb), (count_remove1 N.eqb N_reflects). cbn.
      destruct (N.eqb b b0) eqn:He.
      * apply N.eqb_eq in He. subst b0. rewrite N.eqb_refl. lia.
      * rewrite N.eqb_sym, He. lia.
    + rewrite Hvf. reflexivity.
    + rewrite Hfr. reflexivity.
  - eexists. split; [reflexivity|]. constructor; cbn; intros.
    + rewrite Hsl. reflexivity.
    + rewrite Hli. apply (count_filter_last' pair_eqb pair_reflects).
      rewrite J4, Hb, Hk, N.eqb_refl. reflexivity.
    + rewrite Hpc. reflexivity.
    + rewrite Hrb, (count_app trip_eqb), (count_remove1 trip_eqb trip_reflects). cbn.
      destruct (trip_eqb (c, (b, k)) e) eqn:He.
      * apply trip_reflects in He. subst e. rewrite (eqb_refl' trip_eqb trip_reflects). lia.
      * rewrite (eqb_sym' trip_eqb trip_reflects), He. lia.
    + rewrite Hbrc, (count_app N.eqb), (count_remove1 N.eqb N_reflects). cbn.
      destruct (N.eqb b b0) eqn:He.
      * apply N.eqb_eq in He. subst b0. rewrite N.eqb_refl. lia.
      * rewrite N.eqb_sym, He. lia.
    + rewrite Hvf. reflexivity.
    + rewrite Hfr. reflexivity.
Qed.

Definition dops (c : N) (l : list (N * N)) : list op := map (fun bk => ODecref c (fst bk) (snd bk)) l.

Lemma decref_all_ok c : forall l s, Inv E s ->
  (forall e, count pair_eqb e l <= count trip_eqb (c, e) (rb s)) ->
  exists s1, decref_all c l s = (s1, Ok tt) /\ Inv E s1 /\
    plan s1 = plan s ++ dops c l /\
    slots s1 = slots s /\ pc s1 = pc s /\ vf s1 = vf s /\ fr s1 = fr s /\
    (forall t, obs_eq t s1 -> exists t', undo_seq E (rev (dops c l)) t = (t', Ok tt) /\ obs_eq t' s).
Proof.
  induction l as [|[b k] r IH]; intros s HI Hc.
  - exists s. cbn. split; [reflexivity|]. split; [exact HI|]. rewrite app_nil_r.
    repeat split; try reflexivity. intros t Ht. exists t. split; [reflexivity | exact Ht].
  - assert (Hin : count trip_eqb (c, (b, k)) (rb s) <> 0).
    { specialize (Hc (b, k)). cbn in Hc. rewrite (eqb_refl' pair_eqb pair_reflects) in Hc. lia. }
    destruct (decref_apply_ok s c b k HI Hin) as (s' & Hap & Hpl & Hsl & Hpc & Hvf & Hfr & Hrb & Hbrc & Hli).
    pose proof (inv_decref_fields s s' c b k HI Hin Hsl Hvf Hrb Hbrc Hli) as HI'.
    assert (Hc' : forall e, count pair_eqb e r <= count trip_eqb (c, e) (rb s')).
    { intros e. rewrite Hrb, (count_remove1 trip_eqb trip_reflects). specialize (Hc e). cbn in Hc.
      unfold trip_eqb at 1. cbn. rewrite N.eqb_refl. cbn.
      rewrite (eqb_sym' pair_eqb pair_reflects (b, k) e). destruct (pair_eqb e (b, k)); lia. }
    destruct (IH s' HI' Hc') as (s1 & Hall & HI1 & Hpl1 & Hsl1 & Hpc1 & Hvf1 & Hfr1 & Hundo).
    exists s1. cbn [decref_all]. unfold bind. rewrite Hap. split; [exact Hall|]. split; [exact HI1|].
    split; [rewrite Hpl1, Hpl, <- app_assoc; reflexivity|].
    split; [congruence|]. split; [congruence|]. split; [congruence|]. split; [congruence|].
    intros t Ht. cbn [dops map rev]. fold (dops c r). rewrite undo_seq_app.
    destruct (Hundo t Ht) as (t'' & Hu & Ho). rewrite Hu. cbn [undo_seq revert fst snd]. unfold bind.
    destruct (decref_revert_ok s s' c b k HI Hin Hsl Hpc Hvf Hfr Hrb Hbrc Hli) as (s'' & Hrv & Hos).
    destruct (decref_revert_rel E c b k t'' s' Ho) as [H1 H2]. rewrite Hrv in H1, H2.
    destruct (decref_revert E c b k t'') as [t3 [u|e]]; cbn [fst snd Rres] in H1, H2; [|contradiction].
    exists t3. split; [destruct u; reflexivity|]. eapply obs_trans; eauto.
Qed.

(* decrefs do not look at the slot table *)
Lemma decref_apply_slots c b k v s :
  decref_apply c b k (set_slots v s)
  = (set_slots v (fst (decref_apply c b k s)), snd (decref_apply c b k s)).
Proof.
  unfold decref_apply, bind, plan_append, modify, brc_remove, gets, when, remove_limiter, rb_remove, rb_of, ret.
  cbn. destruct (memN b (brc s)); cbn; [|reflexivity].
  destruct (memN b (remove1 N.eqb b (brc s))); cbn.
  - destruct (is_nil _); cbn; [reflexivity|]. destruct (existsb _ (rb s)); reflexivity.
  - destruct (existsb (pair_eqb (k, b)) (lims s)); cbn; [|reflexivity].
    destruct (is_nil _); cbn; [reflexivity|]. destruct (existsb _ (rb s)); reflexivity.
Qed.
Lemma decref_all_slots c v : forall l s,
  decref_all c l (set_slots v s) = (set_slots v (fst (decref_all c l s)), snd (decref_all c l s)).
Proof.
  induction l as [|[b k] r IH]; intros s; cbn [decref_all]; [reflexivity|].
  unfold bind. rewrite decref_apply_slots. destruct (decref_apply c b k s) as [s' [u|e]]; cbn [fst snd].
  - apply IH.
  - reflexivity.
Qed.

Lemma count_rb_of c e s : count pair_eqb e (rb_of c s) = count trip_eqb (c, e) (rb s).
Proof.
  unfold rb_of. induction (rb s) as [|[c0 e0] l IH]; cbn; [reflexivity|].
  unfold trip_eqb at 1. cbn. rewrite (N.eqb_sym c c0). destruct (N.eqb c0 c); cbn; [rewrite IH; reflexivity | exact IH].
Qed.

Lemma rb_of_set_slots c v s : rb_of c (set_slots v s) = rb_of c s.
Proof. reflexivity. Qed.

Lemma bind_ok {A B} (m : M A) (f : A -> M B) s s' a : m s = (s', Ok a) -> bind m f s = f a s'.
Proof. intros H. unfold bind. rewrite H. reflexivity. Qed.

(* ---- remove_op *)
Lemma undo_remove s c p : Inv E s -> wf_api_b E s (ARemove c p) = true -> Undoable E s (ARemove c p).
Proof.
  intros HI H. cbn [wf_api_b] in H. apply andb_true_iff in H. destruct H as [Hsl Hpc].
  unfold opt_eqb in Hpc. destruct (lookup p (pc s)) as [c0|] eqn:Hlk; [|discriminate].
  apply N.eqb_eq in Hpc. subst c0.
  assert (Hc1 : count N.eqb p (slots s) = 1).
  { pose proof (I_nodup E s HI p). pose proof (count_mem _ _ Hsl). lia. }
  assert (Hvf : memN p (vf s) = false) by (apply (I_vf E s HI); rewrite Hc1; lia).
  set (v := filter (fun x => negb (N.eqb x p)) (slots s)).
  assert (Hl : forall e, count pair_eqb e (rb_of c s) <= count trip_eqb (c, e) (rb s))
    by (intros e; rewrite count_rb_of; lia).
  destruct (decref_all_ok c (rb_of c s) s HI Hl) as (sb & Hall & HIb & Hplb & Hslb & Hpcb & Hvfb & Hfrb & Hundo).
  set (X0 := set_vf (vf s ++ [p])
               (set_plan (plan sb ++ [ORemove c p])
                  (set_pc (filter (fun qc : N * N => negb (N.eqb (fst qc) p)) (pc s)) (set_slots v sb)))).
  assert (Hr : exists T1, (fill_slotting E p true;;; pc_set p c;;; vf_remove p) X0 = (T1, Ok tt) /\
               obs_eq T1 sb).
  { eexists. split.
    - unfold bind, fill_slotting. cbn. rewrite orb_true_r. cbn. unfold vf_remove. cbn.
      rewrite memN_refl_app. reflexivity.
    - constructor; cbn; intros; try reflexivity.
      + rewrite (count_app N.eqb). unfold v. rewrite (count_filter N.eqb N_reflects), Hslb. cbn.
        destruct (N.eqb p0 p) eqn:Hpp; cbn; [apply N.eqb_eq in Hpp; subst; lia | lia].
      + rewrite Hpcb. destruct (N.eqb p0 p) eqn:Hpp; cbn.
        * apply N.eqb_eq in Hpp. subst. symmetry. exact Hlk.
        * rewrite !lookup_filter_ne, Hpp. reflexivity.
      + rewrite memN_filter_ne, memN_app, Hvfb. destruct (N.eqb p0 p) eqn:Hpp; cbn.
        * apply N.eqb_eq in Hpp. subst. rewrite andb_false_r. symmetry. exact Hvf.
        * rewrite orb_false_r, andb_true_r. reflexivity. }
  destruct Hr as (T1 & Hr & HoT).
  destruct (Hundo T1 HoT) as (t' & Hu & Ho).
  exists X0, None, (dops c (rb_of c s) ++ [ORemove c p]). split; [|split].
  - cbn [call]. unfold remove_apply, bind, remove_slotting. rewrite Hsl.
    unfold remove_pkg_blockers. rewrite rb_of_set_slots, decref_all_slots, Hall. cbn [fst snd]. fold v.
    unfold pc_del. cbn [pc set_slots]. rewrite Hpcb, Hlk. cbn.
    rewrite Hvfb, Hvf. cbn. reflexivity.
  - cbn. rewrite Hplb, <- app_assoc. reflexivity.
  - eapply undo_seg with (seg := dops c (rb_of c s) ++ [ORemove c p]) (s2 := t').
    + cbn. rewrite Hplb, <- app_assoc. reflexivity.
    + rewrite rev_app_distr. cbn [rev app undo_seq revert].
      rewrite (bind_ok _ _ _ _ _ Hr). exact Hu.
    + exact Ho.
Qed.

Lemma call_remove_state s c p : Inv E s -> wf_api_b E s (ARemove c p) = true ->
  exists sb, Inv E sb /\ slots sb = slots s /\ vf sb = vf s /\
    call_s E (ARemove c p) s
    = set_vf (vf s ++ [p]) (set_plan (plan sb ++ [ORemove c p])
        (set_pc (filter (fun qc : N * N => negb (N.eqb (fst qc) p)) (pc s))
           (set_slots (filter (fun x => negb (N.eqb x p)) (slots s)) sb))).
Proof.
  intros HI H. cbn [wf_api_b] in H. apply andb_true_iff in H. destruct H as [Hsl Hpc].
  unfold opt_eqb in Hpc. destruct (lookup p (pc s)) as [c0|] eqn:Hlk; [|discriminate].
  apply N.eqb_eq in Hpc. subst c0.
  assert (Hc1 : count N.eqb p (slots s) = 1).
  { pose proof (I_nodup E s HI p). pose proof (count_mem _ _ Hsl). lia. }
  assert (Hvf : memN p (vf s) = false) by (apply (I_vf E s HI); rewrite Hc1; lia).
  assert (Hl : forall e, count pair_eqb e (rb_of c s) <= count trip_eqb (c, e) (rb s))
    by (intros e; rewrite count_rb_of; lia).
  destruct (decref_all_ok c (rb_of c s) s HI Hl) as (sb & Hall & HIb & Hplb & Hslb & Hpcb & Hvfb & Hfrb & Hundo).
  exists sb. split; [exact HIb|]. split; [exact Hslb|]. split; [exact Hvfb|].
  unfold call_s. cbn [call]. unfold remove_apply, bind, remove_slotting. rewrite Hsl.
  unfold remove_pkg_blockers. rewrite rb_of_set_slots, decref_all_slots, Hall. cbn [fst snd].
  unfold pc_del. cbn [pc set_slots]. rewrite Hpcb, Hlk. cbn.
  rewrite Hvfb, Hvf. cbn. reflexivity.
Qed.

Lemma inv_remove s c p : Inv E s -> wf_api_b E s (ARemove c p) = true -> Inv E (call_s E (ARemove c p) s).
Proof.
  intros HI H. destruct (call_remove_state s c p HI H) as (sb & HIb & Hslb & Hvfb & ->).
  destruct HIb as [J1 J2 J3 J4 J5 J6]. rewrite Hslb in *. rewrite Hvfb in *.
  constructor; cbn; intros; auto.
  - rewrite (count_filter N.eqb N_reflects). specialize (J1 p0). destruct (negb (N.eqb p0 p)); lia.
  - rewrite !(count_filter N.eqb N_reflects) in *.
    destruct (negb (N.eqb p0 p)), (negb (N.eqb q p)); try contradiction. apply J2; assumption.
  - eapply J5; eauto.
  - rewrite (count_filter N.eqb N_reflects) in *. rewrite memN_app.
    destruct (N.eqb p0 p) eqn:Hpp; cbn in *; [contradiction|]. rewrite orb_false_r. apply J6. assumption.
Qed.

(* ---- a bare decref *)
Lemma undo_decref s c b k : Inv E s -> wf_api_b E s (ADecref c b k) = true -> Undoable E s (ADecref c b k).
Proof.
  intros HI H. cbn [wf_api_b] in H. apply andb_true_iff in H. destruct H as [_ Hex].
  assert (Hin : count trip_eqb (c, (b, k)) (rb s) <> 0).
  { rewrite (existsb_count trip_eqb) in Hex. destruct (count trip_eqb (c, (b, k)) (rb s)); [discriminate | lia]. }
  destruct (decref_apply_ok s c b k HI Hin) as (s' & Hap & Hpl & Hsl & Hpc & Hvf & Hfr & Hrb & Hbrc & Hli).
  destruct (decref_revert_ok s s' c b k HI Hin Hsl Hpc Hvf Hfr Hrb Hbrc Hli) as (s'' & Hrv & Hos).
  exists s', None, [ODecref c b k]. split; [|split; [exact Hpl|]].
  - cbn [call]. rewrite (bind_ok _ _ _ _ _ Hap). reflexivity.
  - eapply undo_seg with (seg := [ODecref c b k]) (s2 := s''); [exact Hpl | | exact Hos].
    cbn [rev app undo_seq revert]. rewrite (bind_ok _ _ _ _ _ Hrv). reflexivity.
Qed.
Lemma inv_decref s c b k : Inv E s -> wf_api_b E s (ADecref c b k) = true -> Inv E (call_s E (ADecref c b k) s).
Proof.
  intros HI H. cbn [wf_api_b] in H. apply andb_true_iff in H. destruct H as [_ Hex].
  assert (Hin : count trip_eqb (c, (b, k)) (rb s) <> 0).
  { rewrite (existsb_count trip_eqb) in Hex. destruct (count trip_eqb (c, (b, k)) (rb s)); [discriminate | lia]. }
  destruct (decref_apply_ok s c b k HI Hin) as (s' & Hap & Hpl & Hsl & Hpc & Hvf & Hfr & Hrb & Hbrc & Hli).
  unfold call_s. cbn [call]. rewrite (bind_ok _ _ _ _ _ Hap). cbn.
  eapply inv_decref_fields; eauto.
Qed.

(* which limiters the nested decrefs may drop *)
Lemma filter_filter {A} (f g : A -> bool) l : filter g (filter f l) = filter (fun x => f x && g x) l.
Proof. induction l as [|x l IH]; cbn; [reflexivity|]. destruct (f x); cbn; [destruct (g x); congruence | exact IH]. Qed.
Lemma filter_true {A} (l : list A) : filter (fun _ => true) l = l.
Proof. induction l; cbn; congruence. Qed.

Lemma decref_all_lims c : forall l s, Inv E s ->
  (forall e, count pair_eqb e l <= count trip_eqb (c, e) (rb s)) ->
  exists h, lims (fst (decref_all c l s)) = filter h (lims s) /\
            forall kb, h kb = false -> In (snd kb, fst kb) l.
Proof.
  induction l as [|[b k] r IH]; intros s HI Hc.
  - exists (fun _ => true). cbn. rewrite filter_true. split; [reflexivity | discriminate].
  - assert (Hin : count trip_eqb (c, (b, k)) (rb s) <> 0).
    { specialize (Hc (b, k)). cbn in Hc. rewrite (eqb_refl' pair_eqb pair_reflects) in Hc. lia. }
    destruct (decref_apply_ok s c b k HI Hin) as (s' & Hap & Hpl & Hsl & Hpc & Hvf & Hfr & Hrb & Hbrc & Hli).
    pose proof (inv_decref_fields s s' c b k HI Hin Hsl Hvf Hrb Hbrc Hli) as HI'.
    assert (Hc' : forall e, count pair_eqb e r <= count trip_eqb (c, e) (rb s')).
    { intros e. rewrite Hrb, (count_remove1 trip_eqb trip_reflects). specialize (Hc e). cbn in Hc.
      unfold trip_eqb at 1. cbn. rewrite N.eqb_refl. cbn.
      rewrite (eqb_sym' pair_eqb pair_reflects (b, k) e). destruct (pair_eqb e (b, k)); lia. }
    destruct (IH s' HI' Hc') as (h & Hh & Hhf).
    cbn [decref_all]. unfold bind. rewrite Hap. rewrite Hh, Hli.
    destruct (memN b (remove1 N.eqb b (brc s))).
    + exists h. split; [reflexivity|]. intros kb Hkb. right. apply Hhf. exact Hkb.
    + exists (fun kb => negb (pair_eqb (k, b) kb) && h kb). split; [apply filter_filter|].
      intros [k0 b0] Hkb. apply andb_false_iff in Hkb. destruct Hkb as [Hkb|Hkb].
      * apply negb_false_iff in Hkb. apply pair_reflects in Hkb. injection Hkb as <- <-. left. reflexivity.
      * right. apply Hhf. exact Hkb.
Qed.

Lemma filter_sub_nil {A} (g h : A -> bool) l : filter g l = [] -> filter g (filter h l) = [].
Proof.
  induction l as [|x l IH]; cbn; [reflexivity|]. destruct (g x) eqn:Hg; [discriminate|].
  intros H. destruct (h x); cbn; [rewrite Hg|]; apply IH; exact H.
Qed.
Lemma filter_same {A} (g h : A -> bool) l :
  (forall x, In x l -> h x = false -> g x = false) -> filter g (filter h l) = filter g l.
Proof.
  induction l as [|x l IH]; cbn; [reflexivity|]. intros H.
  destruct (h x) eqn:Hh; cbn.
  - destruct (g x); [f_equal|]; apply IH; intros; apply H; auto.
  - rewrite (H x (or_introl eq_refl) Hh). apply IH. intros; apply H; auto.
Qed.

(* ---- replace_op *)
Lemma find_some_in {A} (f : A -> bool) l x : find f l = Some x -> In x l /\ f x = true.
Proof. apply find_some. Qed.

Record ReplaceFacts (s : state) (c p : N) (old oc : N) (sb : state) : Prop := {
  rf_old_in : count N.eqb old (slots s) = 1;
  rf_same : same_slot E p old = true;
  rf_p_out : count N.eqb p (slots s) = 0;
  rf_p_unbound : lookup p (pc s) = None;
  rf_p_vf : memN p (vf s) = false;
  rf_old_vf : memN old (vf s) = false;
  rf_oc : lookup old (pc s) = Some oc;
  rf_ne : N.eqb p old = false;
  rf_inv : Inv E sb;
  rf_plan : plan sb = plan s ++ dops oc (rb_of oc s);
  rf_slots : slots sb = slots s; rf_pc : pc sb = pc s; rf_vf : vf sb = vf s; rf_fr : fr sb = fr s;
  rf_all : decref_all oc (rb_of oc s) s = (sb, Ok tt);
  rf_undo : forall t, obs_eq t sb -> exists t', undo_seq E (rev (dops oc (rb_of oc s))) t = (t', Ok tt) /\ obs_eq t' s;
  rf_lim_p : check_limiters E p sb = [];
  rf_lim_old : check_limiters E old sb = check_limiters E old s;
  rf_others : forall x, count N.eqb x (slots s) <> 0 -> N.eqb x old = false -> same_slot E p x = false;
  rf_others_old : forall x, count N.eqb x (slots s) <> 0 -> N.eqb x old = false -> same_slot E old x = false }.

Lemma replace_facts s c p : Inv E s -> wf_api_b E s (AReplace c p false) = true ->
  exists old oc sb, get_conflicting_slot E p s = Some old /\ ReplaceFacts s c p old oc sb.
Proof.
  intros HI H. cbn [wf_api_b negb andb] in H.
  apply andb_true_iff in H. destruct H as [H Hm].
  apply andb_true_iff in H. destruct H as [H Hlim].
  apply andb_true_iff in H. destruct H as [H Hvf].
  apply andb_true_iff in H. destruct H as [Hb Hsl].
  apply negb_true_iff in Hsl. apply negb_true_iff in Hvf. apply negb_true_iff in Hb.
  unfold bound in Hb. destruct (lookup p (pc s)) eqn:Hlk; [discriminate|].
  destruct (get_conflicting_slot E p s) as [old|] eqn:Hold; [|discriminate].
  destruct (lookup old (pc s)) as [oc|] eqn:Hoc; [|discriminate].
  unfold get_conflicting_slot in Hold. apply find_some_in in Hold. destruct Hold as [Hin Hsame].
  assert (Hcold : count N.eqb old (slots s) = 1).
  { pose proof (I_nodup E s HI old). apply (count_In N.eqb N_reflects) in Hin. lia. }
  assert (Hne : N.eqb p old = false).
  { destruct (N.eqb p old) eqn:Hpo; [|reflexivity]. apply N.eqb_eq in Hpo. subst old.
    rewrite (count_notmem _ _ Hsl) in Hcold. discriminate. }
  assert (Hl : forall e, count pair_eqb e (rb_of oc s) <= count trip_eqb (oc, e) (rb s))
    by (intros e; rewrite count_rb_of; lia).
  destruct (decref_all_ok oc (rb_of oc s) s HI Hl) as (sb & Hall & HIb & Hplb & Hslb & Hpcb & Hvfb & Hfrb & Hundo).
  destruct (decref_all_lims oc (rb_of oc s) s HI Hl) as (h & Hh & Hhf). rewrite Hall in Hh. cbn in Hh.
  exists old, oc, sb. split; [reflexivity|].
  assert (Hothers_old : forall x, count N.eqb x (slots s) <> 0 -> N.eqb x old = false -> same_slot E old x = false).
  { intros x Hx Hxo. destruct (same_slot E old x) eqn:Hs; [|reflexivity].
    assert (old = x) by (apply (I_slot E s HI); [lia | exact Hx | exact Hs]).
    subst x. rewrite N.eqb_refl in Hxo. discriminate. }
  constructor; auto.
  - apply count_notmem. exact Hsl.
  - apply (I_vf E s HI). lia.
  - unfold check_limiters. rewrite Hh. apply is_nil_eq in Hlim. unfold check_limiters in Hlim.
    apply map_eq_nil in Hlim. rewrite filter_sub_nil; [reflexivity | exact Hlim].
  - unfold check_limiters. rewrite Hh. f_equal. apply filter_same.
    intros [k0 b0] _ Hk0. apply Hhf in Hk0. cbn in Hk0. cbn.
    rewrite forallb_forall in Hm. specialize (Hm _ Hk0). cbn in Hm. apply negb_true_iff in Hm.
    rewrite Hm, andb_false_r. reflexivity.
  - intros x Hx Hxo. destruct (same_slot E p x) eqn:Hs; [|reflexivity].
    rewrite <- (Hothers_old x Hx Hxo). unfold same_slot in *.
    apply andb_true_iff in Hs. destruct Hs as [H1 H2]. apply andb_true_iff in Hsame. destruct Hsame as [H3 H4].
    apply N.eqb_eq in H1, H2, H3, H4. rewrite H1, H2, H3, H4, !N.eqb_refl. reflexivity.
Qed.

Lemma filter_all_false {A} (f : A -> bool) l : (forall x, In x l -> f x = false) -> filter f l = [].
Proof.
  induction l as [|x l IH]; cbn; [reflexivity|]. intros H. rewrite (H x (or_introl eq_refl)).
  apply IH. intros; apply H; auto.
Qed.
Lemma check_limiters_set_slots q v s : check_limiters E q (set_slots v s) = check_limiters E q s.
Proof. reflexivity. Qed.
Lemma In_filter_ne x old l : In x (filter (fun z => negb (N.eqb z old)) l) -> In x l /\ N.eqb x old = false.
Proof. intros H. apply filter_In in H. destruct H as [H1 H2]. apply negb_true_iff in H2. auto. Qed.

Definition replace_result (s : state) (c p old oc : N) (sb : state) : state :=
  set_vf (vf s ++ [old])
    (set_plan (plan sb ++ [OReplace c p false old oc (negb (is_nil (check_limiters E old s)))])
       (set_pc ((p, c) :: filter (fun qc : N * N => negb (N.eqb (fst qc) p))
                            (filter (fun qc : N * N => negb (N.eqb (fst qc) old)) (pc s)))
          (set_slots (filter (fun z => negb (N.eqb z old)) (slots s) ++ [p]) sb))).

Lemma call_replace s c p old oc sb :
  get_conflicting_slot E p s = Some old -> ReplaceFacts s c p old oc sb ->
  call E (AReplace c p false) s = (replace_result s c p old oc sb, Ok None).
Proof.
  intros Hold F. destruct F.
  assert (Hmem : memN old (slots s) = true).
  { rewrite memN_count, rf_old_in0. reflexivity. }
  cbn [call]. unfold replace_apply, bind, gets. rewrite Hold. cbn [fst snd].
  unfold remove_slotting. rewrite Hmem. cbn [pc set_slots]. rewrite rf_oc0.
  unfold remove_pkg_blockers. rewrite rb_of_set_slots, decref_all_slots, rf_all0. cbn [fst snd].
  unfold fill_slotting. rewrite check_limiters_set_slots, rf_lim_p0.
  assert (Hsc : slot_conflicts E p (set_slots (filter (fun x => negb (N.eqb x old)) (slots s)) sb) = []).
  { unfold slot_conflicts. cbn [slots set_slots]. apply filter_all_false. intros x Hx.
    apply In_filter_ne in Hx. destruct Hx as [Hx1 Hx2]. apply rf_others0; [|exact Hx2].
    apply (count_In N.eqb N_reflects). exact Hx1. }
  rewrite Hsc. cbn [map app is_nil negb orb]. cbn iota.
  unfold pc_del. cbn [pc set_slots]. rewrite rf_pc0, rf_oc0. cbn.
  rewrite rf_vf0, rf_old_vf0. cbn. unfold replace_result. reflexivity.
Qed.

Lemma undo_replace s c p f : Inv E s -> wf_api_b E s (AReplace c p f) = true -> Undoable E s (AReplace c p f).
Proof.
  intros HI H. assert (f = false) by (destruct f; [discriminate | reflexivity]). subst f.
  destruct (replace_facts s c p HI H) as (old & oc & sb & Hold & F).
  pose proof (call_replace s c p old oc sb Hold F) as Hcall. destruct F.
  set (fo := negb (is_nil (check_limiters E old s))) in *.
  set (v := filter (fun z => negb (N.eqb z old)) (slots s)).
  assert (Hr : exists T1, revert E (OReplace c p false old oc fo) (replace_result s c p old oc sb) = (T1, Ok tt)
               /\ obs_eq T1 sb).
  { cbn [revert]. unfold bind, remove_slotting, replace_result. cbn [slots set_vf set_plan set_pc set_slots].
    rewrite memN_refl_app. unfold fill_slotting.
    match goal with |- context [slot_conflicts E old ?X] =>
      assert (Hsc : slot_conflicts E old X = []) end.
    { unfold slot_conflicts. cbn [slots set_slots]. apply filter_all_false. intros x Hx.
      apply filter_In in Hx. destruct Hx as [Hx Hxp]. apply negb_true_iff in Hxp.
      apply in_app_or in Hx. destruct Hx as [Hx|[Hx|[]]].
      - apply In_filter_ne in Hx. destruct Hx as [Hx1 Hx2]. apply rf_others_old0; [|exact Hx2].
        apply (count_In N.eqb N_reflects). exact Hx1.
      - subst x. rewrite N.eqb_refl in Hxp. discriminate. }
    rewrite Hsc.
    match goal with |- context [check_limiters E old ?X] =>
      change (check_limiters E old X) with (check_limiters E old sb) end.
    rewrite rf_lim_old0. rewrite app_nil_r, is_nil_map.
    fold fo. assert (Hfo : is_nil (check_limiters E old s) = negb fo) by (unfold fo; rewrite negb_involutive; reflexivity).
    rewrite Hfo. replace (negb fo || fo) with true by (destruct fo; reflexivity).
    rewrite eqb_reflx.
    unfold pc_del. cbn. rewrite N.eqb_refl. cbn. unfold vf_remove. cbn. rewrite memN_refl_app.
    eexists. split; [reflexivity|].
    constructor; cbn; intros; try reflexivity.
    - rewrite (count_app N.eqb), (count_filter N.eqb N_reflects), (count_app N.eqb). fold v. cbn.
      unfold v. rewrite (count_filter N.eqb N_reflects), rf_slots0.
      destruct (N.eqb p0 p) eqn:Hpp; cbn.
      + apply N.eqb_eq in Hpp. subst p0. rewrite rf_ne0, rf_p_out0. reflexivity.
      + destruct (N.eqb p0 old) eqn:Hpo; cbn; [apply N.eqb_eq in Hpo; subst; lia | lia].
    - rewrite rf_pc0. destruct (N.eqb p0 old) eqn:Hpo; cbn.
      + apply N.eqb_eq in Hpo. subst. symmetry. exact rf_oc0.
      + rewrite !lookup_filter_ne, Hpo. cbn. destruct (N.eqb p0 p) eqn:Hpp.
        * apply N.eqb_eq in Hpp. subst. cbn. symmetry. exact rf_p_unbound0.
        * cbn. rewrite Hpp, !lookup_filter_ne, Hpp, Hpo. reflexivity.
    - rewrite memN_filter_ne, memN_app, rf_vf0. destruct (N.eqb p0 old) eqn:Hpo; cbn.
      + apply N.eqb_eq in Hpo. subst. rewrite andb_false_r. symmetry. exact rf_old_vf0.
      + rewrite orb_false_r, andb_true_r. reflexivity.
    - rewrite rf_fr0. reflexivity. }
  destruct Hr as (T1 & Hr & HoT).
  destruct (rf_undo0 T1 HoT) as (t' & Hu & Ho).
  exists (replace_result s c p old oc sb), None, (dops oc (rb_of oc s) ++ [OReplace c p false old oc fo]).
  split; [exact Hcall|]. split.
  - unfold replace_result. cbn. rewrite rf_plan0, <- app_assoc. reflexivity.
  - eapply undo_seg with (seg := dops oc (rb_of oc s) ++ [OReplace c p false old oc fo]) (s2 := t').
    + unfold replace_result. cbn. rewrite rf_plan0, <- app_assoc. reflexivity.
    + rewrite rev_app_distr. cbn [rev app undo_seq]. rewrite (bind_ok _ _ _ _ _ Hr). exact Hu.
    + exact Ho.
Qed.

End Compound.
