(* Lemmas_C34.v — walker lemmas for C34 (first half of the proofs; Proofs_C34.v builds the theorems on them). *)
From Coq Require Import List NArith ZArith Bool Lia.
Import ListNotations.
From Verif Require Import Base.Val C34.Model_C34 C34.Spec_C34.
Local Open Scope N_scope.

(* ---------------------------------------------------------------- small facts *)
Lemma slice_app (a s : str) : slice (a ++ s) s = a.
Proof.
  unfold slice. rewrite app_length.
  replace (length a + length s - length s)%nat with (length a) by lia.
  rewrite firstn_app, Nat.sub_diag, firstn_all. cbn. apply app_nil_r.
Qed.

Lemma slice_self s : slice s s = [].
Proof. unfold slice. now rewrite Nat.sub_diag. Qed.

(* the character before the position reached after consuming [a] *)
Definition lastp (p : option N) (a : str) : option N := fold_left (fun _ x => Some x) a p.
Lemma lastp_app p a b : lastp p (a ++ b) = lastp (lastp p a) b.
Proof. unfold lastp. apply fold_left_app. Qed.
Lemma lastp_cons p x a : lastp p (x :: a) = lastp (Some x) a.
Proof. reflexivity. Qed.

(* one-step unfolding equations of the scanner (all by computation) *)
Section Eqs.
Variable g : str.
Lemma walk_escaped_S n c endc :
  walk_escaped g (S n) c endc =
  match suf c with
  | [] => Ok c
  | ch :: rest =>
      if ch =? endc then Ok c
      else if ch =? cBS then walk_escaped g n (adv1 (adv1 c)) endc
      else if ch =? cLB then
        if negb (endc =? cDQ) then do c1 <- walk_escaped g n (adv1 c) cRB; walk_escaped g n (adv1 c1) endc
        else walk_escaped g n (adv1 c) endc
      else if ch =? cLP then
        if negb (endc =? cDQ) then do c1 <- walk_escaped g n (adv1 c) cRP; walk_escaped g n (adv1 c1) endc
        else walk_escaped g n (adv1 c) endc
      else if (ch =? cBQ) || (ch =? cDQ) then
        do c1 <- walk_escaped g n (adv1 c) ch; walk_escaped g n (adv1 c1) endc
      else if (ch =? cSQ) && negb (endc =? cDQ) then
        walk_escaped g n (adv1 (walk_no_parsing g (adv1 c) cSQ)) endc
      else if ch =? cDOL then
        do c1 <- walk_dollar g n (adv1 c) endc (endc =? cDQ); walk_escaped g n c1 endc
      else if (ch =? cHASH) && negb (endc =? cDQ) then
        walk_escaped g n (walk_pound g c (Some endc)) endc
      else walk_escaped g n (adv1 c) endc
  end.
Proof. reflexivity. Qed.

Lemma walk_dollar_S n c endc dq :
  walk_dollar g (S n) c endc dq =
  match suf c with
  | [] => EIndex
  | ch :: rest =>
      if ch =? cLP then
        do r <- process_scope g n (adv1 c) cRP None None (suf (adv1 c)) None []; Ok (adv1 (fst r))
      else if (ch =? cSQ) && negb dq then Ok (adv1 (walk_dollared (adv1 c) cSQ))
      else if negb (ch =? cLB) then
        if ch =? cDOL then Ok (adv1 c) else dollar_name g n c endc
      else dollar_brace g n (adv1 c) endc
  end.
Proof. reflexivity. Qed.

Lemma dollar_brace_S n c endc :
  dollar_brace g (S n) c endc =
  match suf c with
  | [] => Ok c
  | ch :: rest =>
      if ch =? cRB then Ok (adv1 c)
      else if ch =? cDOL then do c1 <- walk_dollar g n (adv1 c) endc false; dollar_brace g n c1 endc
      else dollar_brace g n (adv1 c) endc
  end.
Proof. reflexivity. Qed.

Lemma dollar_name_S n c endc :
  dollar_name g (S n) c endc =
  match suf c with
  | [] => Ok c
  | ch :: rest =>
      if ch =? endc then Ok c
      else if isspace ch then Ok c
      else if ch =? cDOL then walk_dollar g n (adv1 c) endc false
      else if negb (isalnum ch) && negb (ch =? cUS) then Ok c
      else dollar_name g n (adv1 c) endc
  end.
Proof. reflexivity. Qed.

Lemma walk_here_lt n p X :
  walk_here g (S n) (mkcur p (cLT :: cLT :: X)) = Ok (mkcur (Some cLT) X).
Proof. reflexivity. Qed.

Lemma walk_complex_S n c endc level first :
  walk_complex g (S n) c endc level first =
  match suf c with
  | [] => Ok c
  | ch :: rest =>
      if ch =? endc then
        if negb (endc =? cRB) then Ok c
        else if first then Ok c
        else if (match prev c with Some x => (x =? cSEMI) || (x =? cNL) | None => false end) then Ok c
        else walk_complex g n (adv1 c) endc level false
      else if (level && ((ch =? cSEMI) || (ch =? cNL))) || (negb level && isspace ch) then Ok c
      else if ch =? cBS then walk_complex g n (adv1 (adv1 c)) endc level false
      else if ch =? cLT then
        if level && (match rest with x :: _ => x =? cLT | [] => false end) then
          do c1 <- walk_here g n (adv1 c); walk_complex g n c1 endc level false
        else walk_complex g n (adv1 c) endc level false
      else if ch =? cHASH then
        if first || (match prev c with Some x => isspace x || (x =? cSEMI) | None => false end)
        then walk_complex g n (walk_pound g c None) endc level false
        else walk_complex g n (adv1 c) endc level false
      else if ch =? cDOL then
        do c1 <- walk_dollar g n (adv1 c) endc false; walk_complex g n c1 endc level false
      else if ch =? cLB then
        do c1 <- walk_escaped g n (adv1 c) cRB; walk_complex g n (adv1 c1) endc level false
      else if (ch =? cLP) && level then
        do c1 <- walk_escaped g n (adv1 c) cRP; walk_complex g n (adv1 c1) endc level false
      else if (ch =? cBQ) || (ch =? cDQ) then
        do c1 <- walk_escaped g n (adv1 c) ch; walk_complex g n (adv1 c1) endc level false
      else if (ch =? cSQ) && negb (endc =? cDQ) then
        walk_complex g n (adv1 (walk_no_parsing g (adv1 c) cSQ)) endc level false
      else walk_complex g n (adv1 c) endc level false
  end.
Proof. reflexivity. Qed.

Lemma env_value_S n c endc :
  env_value g (S n) c endc =
  match suf c with
  | [] => Ok c
  | ch :: rest =>
      if isspace ch || (ch =? cSEMI) then Ok c
      else if ch =? cSQ then env_value g n (adv1 (walk_no_parsing g (adv1 c) cSQ)) endc
      else if (ch =? cDQ) || (ch =? cBQ) then
        do c1 <- walk_escaped g n (adv1 c) ch; env_value g n (adv1 c1) endc
      else if ch =? cLP then
        do c1 <- walk_escaped g n (adv1 c) cRP; env_value g n (adv1 c1) endc
      else if ch =? cDOL then
        match rest with
        | [] => Ok (adv1 c)
        | _ :: _ => do c1 <- walk_dollar g n (adv1 c) endc false; env_value g n c1 endc
        end
      else do c1 <- walk_complex g n c cSP SPACE true; env_value g n c1 endc
  end.
Proof. reflexivity. Qed.

Lemma process_scope_S n c endc vm fm ws we out :
  process_scope g (S n) c endc vm fm ws we out =
  match suf c with
  | [] => Ok (c, out ++ slice ws (match we with Some e => e | None => suf c end))
  | ch :: rest =>
    if ch =? endc then Ok (c, out ++ slice ws (match we with Some e => e | None => suf c end))
    else
      let out1 := match we with Some e => out ++ slice ws e | None => out end in
      let ws1 := match we with Some _ => suf c | None => ws end in
      let com_start := suf c in
      if isspace ch then process_scope g n (adv1 c) endc vm fm ws1 None out1
      else if ch =? cHASH then process_scope g n (walk_pound g c (Some endc)) endc vm fm ws1 None out1
      else
        match is_function c with
        | Some (name, c1) =>
            do r <- process_scope g n c1 cRB None None (suf c1) None [];
            let c2 := fst r in
            let we1 := match fm with
                       | Some f => if f name then Some com_start else None
                       | None => None end in
            process_scope g n (adv1 c2) endc vm fm ws1 we1 out1
        | None =>
            match is_envvar c with
            | None =>
                do c1 <- walk_complex g n c endc COMMAND true;
                let c2 := match hd_ c1 with
                          | Some x => if x =? endc then c1 else adv1 c1
                          | None => c1 end in
                process_scope g n c2 endc vm fm ws1 None out1
            | Some (name, c1) =>
                let we1 := match vm with
                           | Some f => if f name then Some com_start else None
                           | None => None end in
                match suf c1 with
                | [] => Ok (c1, out1)
                | _ :: _ =>
                    do c2 <- env_value g n c1 endc;
                    process_scope g n c2 endc vm fm ws1 we1 out1
                end
            end
        end
  end.
Proof. reflexivity. Qed.
End Eqs.

(* ---------------------------------------------------------------- fuel-free walkers *)
Lemma adv1_cons p x r : adv1 (mkcur p (x :: r)) = mkcur (Some x) r.
Proof. reflexivity. Qed.

Lemma find_from_app ch a : forall p r,
  forallb (fun x => negb (x =? ch)) a = true ->
  find_from ch p (a ++ ch :: r) = Some (mkcur (lastp p a) (ch :: r)).
Proof.
  induction a as [|x a IH]; intros p r H; cbn.
  - now rewrite N.eqb_refl.
  - cbn in H. apply andb_true_iff in H as [H1 H2]. apply negb_true_iff in H1. rewrite H1.
    now rewrite IH.
Qed.

Lemma walk_no_parsing_app g ch a p r :
  forallb (fun x => negb (x =? ch)) a = true ->
  walk_no_parsing g (mkcur p (a ++ ch :: r)) ch = mkcur (lastp p a) (ch :: r).
Proof. intros H. unfold walk_no_parsing, find_char. cbn [prev suf]. now rewrite find_from_app. Qed.

Lemma skip_while_app f a : forall p x r,
  forallb f a = true -> f x = false ->
  skip_while f p (a ++ x :: r) = Some (mkcur (lastp p a) (x :: r)).
Proof.
  induction a as [|y a IH]; intros p x r H Hx; cbn.
  - now rewrite Hx.
  - cbn in H. apply andb_true_iff in H as [H1 H2]. rewrite H1. now apply IH.
Qed.

Lemma render_pairs_cons b c l :
  render_pairs ((b, c) :: l) = (if b then [cBS; c] else [c]) ++ render_pairs l.
Proof. reflexivity. Qed.

Lemma walk_dollared_app l : forall p r,
  forallb ansi_pair l = true ->
  walk_dollared_from cSQ p (render_pairs l ++ cSQ :: r) = mkcur (lastp p (render_pairs l)) (cSQ :: r).
Proof.
  induction l as [|[b c] l IH]; intros p r H.
  - reflexivity.
  - cbn [forallb] in H. apply andb_true_iff in H as [H1 H2]. unfold ansi_pair in H1. cbn [fst snd] in H1.
    apply andb_true_iff in H1 as [_ H1].
    rewrite render_pairs_cons. destruct b.
    + change (walk_dollared_from cSQ p (([cBS; c] ++ render_pairs l) ++ cSQ :: r))
        with (walk_dollared_from cSQ (Some c) (render_pairs l ++ cSQ :: r)).
      rewrite IH by assumption. reflexivity.
    + cbn [orb] in H1. apply andb_true_iff in H1 as [Ha Hb].
      apply negb_true_iff in Ha. apply negb_true_iff in Hb.
      change (([c] ++ render_pairs l) ++ cSQ :: r) with (c :: (render_pairs l ++ cSQ :: r)).
      cbn [walk_dollared_from]. rewrite Ha, Hb. rewrite IH by assumption. reflexivity.
Qed.

(* ---------------------------------------------------------------- tactics *)
(* decide every test "x =? constant" on a variable character; branches that contradict the
   boolean side condition H (computed on the constant) are closed *)
Ltac ctest H :=
  repeat match goal with
  | |- context [N.eqb ?x ?c] =>
      is_var x; destruct (N.eqb_spec x c);
      [ subst x; try (exfalso; cbv in H; discriminate H) | ]
  end.
Ltac lastp_norm := unfold lastp; rewrite ?fold_left_app; cbn [fold_left]; try reflexivity.

Lemma tok_ind2 (P : tok -> Prop) :
  (forall c, P (TLit c)) -> (forall c, P (TEsc c)) -> (forall s, P (TSq s)) ->
  (forall l, P (TDq l)) -> (forall s, P (TPE s)) -> (forall l, P (TAnsi l)) ->
  (forall s, P (TVar s)) -> (forall l, Forall P l -> P (TArith l)) -> (forall l, Forall P l -> P (TDqx l)) ->
  P THs -> (forall l, P (TSub l)) ->
  (forall l, Forall P l -> P (TBr l)) -> (forall l, Forall P l -> P (TPar l)) ->
  forall t, P t.
Proof.
  intros H1 H2 H3 H4 H5 H5' Hv Ha Hd Hh Hsu H6 H7. fix IH 1. intros [c|c|s|l|s|l|s|l|l| |l|l|l].
  - apply H1.
  - apply H2.
  - apply H3.
  - apply H4.
  - apply H5.
  - apply H5'.
  - apply Hv.
  - apply Ha. induction l as [|t l IHl]; constructor; [apply IH | exact IHl].
  - apply Hd. induction l as [|t l IHl]; constructor; [apply IH | exact IHl].
  - apply Hh.
  - apply Hsu.
  - apply H6. induction l as [|t l IHl]; constructor; [apply IH | exact IHl].
  - apply H7. induction l as [|t l IHl]; constructor; [apply IH | exact IHl].
Qed.

Lemma ident_facts c : is_ident c = true ->
  isspace c = false /\ isblank c = false /\ name_stop c = false /\ envvar_stop c = false
  /\ (c =? cEQ) = false /\ (c =? cHASH) = false /\ (c =? cNUL) = false.
Proof.
  unfold is_ident. intros H.
  repeat split;
    match goal with |- ?f = false => destruct f eqn:E; [|reflexivity] end; exfalso;
    unfold isspace, isblank, name_stop, envvar_stop, mem in E; cbn [existsb] in E;
    repeat (apply orb_true_iff in E as [E|E]); try discriminate E;
    repeat (apply andb_true_iff in E as [? E]);
    repeat match goal with Hq : (_ =? _) = true |- _ => apply N.eqb_eq in Hq; subst; cbv in H; discriminate H end;
    repeat match goal with Hq : (_ <=? _) = true |- _ => apply N.leb_le in Hq end;
    repeat (apply orb_true_iff in H as [H|H]); repeat (apply andb_true_iff in H as [? H]);
    repeat match goal with Hq : (_ <=? _) = true |- _ => apply N.leb_le in Hq end;
    repeat match goal with Hq : (_ =? _) = true |- _ => apply N.eqb_eq in Hq end; unfold cUS in *; lia.
Qed.

Lemma ident_alnum c : is_ident c = true -> negb (isalnum c) && negb (c =? cUS) = false.
Proof.
  unfold is_ident, isalnum. intros H.
  destruct ((48 <=? c) && (c <=? 57)), ((65 <=? c) && (c <=? 90)), ((97 <=? c) && (c <=? 122));
    cbn in *; try reflexivity.
  rewrite H. now rewrite andb_false_r.
Qed.

Lemma is_function_lp p X : is_function (mkcur p (cLP :: X)) = None.
Proof.
  unfold is_function. cbn [prev suf skip_while]. change (isblank cLP) with false. cbn [opt_bind prev suf].
  change (starts_with kw_function (cLP :: X)) with false. cbn [prev suf skip_while].
  change (isspace cLP) with false. cbn [opt_bind prev suf skip_while].
  change (name_stop cLP) with true. cbn [negb opt_bind suf]. now rewrite slice_self.
Qed.
Lemma is_envvar_lp p X : is_envvar (mkcur p (cLP :: X)) = None.
Proof. reflexivity. Qed.

Section W2.
Variable g : str.

(* inside double quotes *)
Lemma walk_dq l : forall n p rest,
  forallb dq_pair l = true -> (n > length (render_pairs l))%nat ->
  walk_escaped g n (mkcur p (render_pairs l ++ cDQ :: rest)) cDQ
  = Ok (mkcur (lastp p (render_pairs l)) (cDQ :: rest)).
Proof.
  induction l as [|[b c] l IH]; intros n p rest H Hn.
  - destruct n as [|n]; [cbn in Hn; lia|]. reflexivity.
  - cbn [forallb] in H. apply andb_true_iff in H as [H1 H2].
    rewrite render_pairs_cons in *. rewrite app_length in Hn.
    destruct n as [|n]; [lia|].
    destruct b.
    + change (([cBS; c] ++ render_pairs l) ++ cDQ :: rest) with (cBS :: c :: (render_pairs l ++ cDQ :: rest)).
      rewrite walk_escaped_S. cbn [suf].
      change (cBS =? cDQ) with false. change (cBS =? cBS) with true. cbn iota.
      rewrite !adv1_cons. rewrite IH; [|assumption|cbn in Hn; lia].
      lastp_norm.
    + change (([c] ++ render_pairs l) ++ cDQ :: rest) with (c :: (render_pairs l ++ cDQ :: rest)).
      rewrite walk_escaped_S. cbn [suf].
      change (cDQ =? cDQ) with true. cbn [negb].
      ctest H1; cbn [orb andb negb]; rewrite ?adv1_cons;
        (rewrite IH; [|assumption|cbn in Hn; lia]); lastp_norm.
Qed.

(* ${...} *)
Lemma dollar_brace_app s : forall n p rest endc,
  forallb pe_char s = true -> (n > length s)%nat ->
  dollar_brace g n (mkcur p (s ++ cRB :: rest)) endc = Ok (mkcur (Some cRB) rest).
Proof.
  induction s as [|c s IH]; intros n p rest endc H Hn; (destruct n as [|n]; [cbn in Hn; lia|]).
  - reflexivity.
  - cbn [forallb] in H. apply andb_true_iff in H as [H1 H2].
    change ((c :: s) ++ cRB :: rest) with (c :: (s ++ cRB :: rest)).
    rewrite dollar_brace_S. cbn [suf].
    ctest H1. rewrite adv1_cons. apply IH; [assumption|cbn in Hn; lia].
Qed.

Lemma walk_dollar_pe s n p rest endc dq :
  forallb pe_char s = true -> (n > S (length s))%nat ->
  walk_dollar g n (mkcur p (cLB :: s ++ cRB :: rest)) endc dq = Ok (mkcur (Some cRB) rest).
Proof.
  intros H Hn. destruct n as [|n]; [lia|]. rewrite walk_dollar_S. cbn [suf].
  change (cLB =? cLP) with false. change (cLB =? cSQ) with false. change (cLB =? cLB) with true.
  cbn [andb negb]. rewrite adv1_cons. apply dollar_brace_app; [assumption|lia].
Qed.
Lemma walk_dollar_ansi l n p rest endc :
  forallb ansi_pair l = true -> (n > 0)%nat ->
  walk_dollar g n (mkcur p (cSQ :: render_pairs l ++ cSQ :: rest)) endc false = Ok (mkcur (Some cSQ) rest).
Proof.
  intros H Hn. destruct n as [|n]; [lia|]. rewrite walk_dollar_S. cbn [suf].
  change (cSQ =? cLP) with false. change (cSQ =? cSQ) with true. cbn [andb negb].
  rewrite adv1_cons. unfold walk_dollared. cbn [prev suf]. rewrite walk_dollared_app by assumption.
  reflexivity.
Qed.


(* $name *)
Definition weak_follow (c : N) : bool := negb (isalnum c) && negb (c =? cUS) && negb (c =? cDOL).

Lemma dollar_name_app s : forall n p c Y endc,
  forallb is_ident s = true -> is_ident endc = false -> weak_follow c = true -> (n > length s)%nat ->
  dollar_name g n (mkcur p (s ++ c :: Y)) endc = Ok (mkcur (lastp p s) (c :: Y)).
Proof.
  induction s as [|x s IH]; intros n p c Y endc Hs He Hc Hn; (destruct n as [|n]; [cbn in Hn; lia|]).
  - cbn [app]. rewrite dollar_name_S. cbn [suf]. unfold weak_follow in Hc.
    apply andb_true_iff in Hc as [Hc H3]. apply negb_true_iff in H3.
    destruct (c =? endc); [reflexivity|]. destruct (isspace c); [reflexivity|]. rewrite H3, Hc. reflexivity.
  - cbn [forallb] in Hs. apply andb_true_iff in Hs as [Hx Hs].
    destruct (ident_facts x Hx) as (Hsp&_&_&_&_&_&_).
    cbn [app]. rewrite dollar_name_S. cbn [suf].
    destruct (N.eqb_spec x endc) as [->|_]; [congruence|].
    rewrite Hsp. rewrite (ident_alnum x Hx).
    assert (x =? cDOL = false) as ->.
    { destruct (N.eqb_spec x cDOL) as [->|]; [cbv in Hx; discriminate|reflexivity]. }
    rewrite adv1_cons. rewrite IH; auto. cbn in Hn; lia.
Qed.

Lemma walk_dollar_var s n p c Y endc dq :
  forallb is_ident s = true -> is_ident endc = false -> var_follow s c = true -> (n > S (length s))%nat ->
  walk_dollar g n (mkcur p (s ++ c :: Y)) endc dq = Ok (mkcur (lastp p s) (c :: Y)).
Proof.
  intros Hs He Hc Hn. destruct n as [|n]; [lia|].
  unfold var_follow in Hc. apply andb_true_iff in Hc as [Hw Hstrict].
  rewrite walk_dollar_S. destruct s as [|x s].
  - cbn [app suf]. cbn [nonempty orb] in Hstrict.
    assert (Hd : c =? cDOL = false).
    { unfold weak_follow in *. apply andb_true_iff in Hw as [_ Hw]. now apply negb_true_iff in Hw. }
    assert (c =? cLP = false /\ c =? cLB = false /\ c =? cSQ = false) as (E1&E2&E3).
    { unfold mem in Hstrict; cbn [existsb] in Hstrict. apply negb_true_iff in Hstrict.
      repeat (apply orb_false_iff in Hstrict as [? Hstrict]). auto. }
    rewrite E1, E3. cbn [andb]. rewrite E2. cbn [negb]. rewrite Hd.
    apply (dollar_name_app [] n p c Y endc); auto; cbn; lia.
  - cbn [app suf]. assert (Hx : is_ident x = true) by (cbn [forallb] in Hs; now apply andb_true_iff in Hs as [Hx _]).
    assert (x =? cLP = false /\ x =? cSQ = false /\ x =? cLB = false /\ x =? cDOL = false) as (E1&E2&E3&E4).
    { repeat split; match goal with |- (x =? ?k) = false => destruct (N.eqb_spec x k) as [->|]; [cbv in Hx; discriminate|reflexivity] end. }
    rewrite E1, E2. cbn [andb]. rewrite E3. cbn [negb]. rewrite E4.
    apply (dollar_name_app (x :: s) n p c Y endc); auto. cbn in *; lia.
Qed.
End W2.

Lemma forallb_neq_sq s : forallb sq_char s = true -> forallb (fun x => negb (x =? cSQ)) s = true.
Proof.
  induction s as [|x s IH]; cbn; [reflexivity|]. intros H. apply andb_true_iff in H as [H1 H2].
  unfold sq_char in H1. apply andb_true_iff in H1 as [H1 _]. rewrite H1. now apply IH.
Qed.

(* ---------------------------------------------------------------- statement starts *)
Lemma isblank_isspace c : isblank c = true -> isspace c = true.
Proof.
  unfold isblank. intros H. apply orb_true_iff in H as [H|H]; apply N.eqb_eq in H; subst; reflexivity.
Qed.

Lemma no_eq_app a b : no_eq_before_stop a = true -> no_eq_before_stop (a ++ b) = true.
Proof.
  induction a as [|c a IH]; cbn [no_eq_before_stop app]; [discriminate|].
  destruct (envvar_stop c); [reflexivity|]. destruct (c =? cEQ); [discriminate|]. exact IH.
Qed.
Lemma first_nonblank_app a b d : first_nonblank a = Some d -> first_nonblank (a ++ b) = Some d.
Proof.
  induction a as [|c a IH]; cbn [first_nonblank app]; [discriminate|]. destruct (isblank c); [exact IH|auto].
Qed.
Lemma word_then_app a b d : word_then a = Some d -> word_then (a ++ b) = Some d.
Proof.
  induction a as [|c a IH]; cbn [word_then app]; [discriminate|].
  destruct (name_stop c); [|exact IH].
  intros H. change (c :: a ++ b) with ((c :: a) ++ b). now apply first_nonblank_app.
Qed.
Lemma diverges_app w a b : diverges w a = true -> starts_with w (a ++ b) = false.
Proof.
  revert a; induction w as [|x w IH]; intros [|y a]; cbn; try discriminate.
  destruct (x =? y); [|reflexivity]. intros H. rewrite IH by assumption. reflexivity.
Qed.

Lemma envvar_scan_none s : forall f p, no_eq_before_stop s = true -> envvar_scan f p s = None.
Proof.
  induction s as [|c s IH]; intros f p; cbn [no_eq_before_stop envvar_scan]; [discriminate|].
  destruct (envvar_stop c); [reflexivity|]. destruct (c =? cEQ); [discriminate|]. apply IH.
Qed.

Lemma skip_blank_spec t : forall p,
  match skip_while isblank p t with
  | None => first_nonblank t = None
  | Some c => exists x r, suf c = x :: r /\ first_nonblank t = Some x
  end.
Proof.
  induction t as [|d t IH]; intros p; cbn [skip_while first_nonblank]; [reflexivity|].
  destruct (isblank d); [apply IH|]. cbn [suf]. eauto.
Qed.

Lemma word_then_skip s : forall p,
  match skip_while (fun x => negb (name_stop x)) p s with
  | None => word_then s = None
  | Some c => word_then s = first_nonblank (suf c)
  end.
Proof.
  induction s as [|c s IH]; intros p; cbn [skip_while word_then]; [reflexivity|].
  destruct (name_stop c); cbn [negb]; [reflexivity|apply IH].
Qed.

Lemma is_envvar_none p c r :
  isspace c = false -> no_eq_before_stop (c :: r) = true -> is_envvar (mkcur p (c :: r)) = None.
Proof.
  intros Hc H. unfold is_envvar. cbn [prev suf skip_while].
  destruct (isblank c) eqn:E; [apply isblank_isspace in E; congruence|].
  cbn [opt_bind prev suf]. now rewrite envvar_scan_none.
Qed.

Lemma is_function_none p c r d :
  isspace c = false -> starts_with kw_function (c :: r) = false ->
  word_then (c :: r) = Some d -> (d =? cLP) = false ->
  is_function (mkcur p (c :: r)) = None.
Proof.
  intros Hc Hk Hw Hd. unfold is_function. cbn [prev suf skip_while].
  destruct (isblank c) eqn:E; [apply isblank_isspace in E; congruence|].
  cbn [opt_bind prev suf]. rewrite Hk. cbn [prev suf skip_while]. rewrite Hc. cbn [opt_bind prev suf].
  pose proof (word_then_skip (c :: r) p) as W.
  destruct (skip_while (fun x => negb (name_stop x)) p (c :: r)) as [c4|]; [|reflexivity].
  cbn [opt_bind]. destruct (slice (c :: r) (suf c4)); [reflexivity|].
  rewrite Hw in W.
  pose proof (skip_blank_spec (suf c4) (prev c4)) as B.
  destruct (skip_while isblank (prev c4) (suf c4)) as [c5|]; [|reflexivity].
  cbn [opt_bind]. destruct B as (x & r5 & E5 & F). rewrite E5.
  rewrite F in W. injection W as ->. rewrite Hd. reflexivity.
Qed.

Lemma is_function_stop p c r :
  isspace c = false -> starts_with kw_function (c :: r) = false -> name_stop c = true ->
  is_function (mkcur p (c :: r)) = None.
Proof.
  intros Hc Hk Hs. unfold is_function. cbn [prev suf skip_while].
  destruct (isblank c) eqn:E; [apply isblank_isspace in E; congruence|].
  cbn [opt_bind prev suf]. rewrite Hk. cbn [prev suf skip_while]. rewrite Hc. cbn [opt_bind prev suf skip_while].
  rewrite Hs. cbn [negb opt_bind suf]. now rewrite slice_self.
Qed.


(* ---------------------------------------------------------------- $( one simple command ) *)
Section Sub.
Variable g : str.

(* walk_command_complex with endchar ")" over flat tokens *)
Definition WFc (l : list tok) : Prop :=
  forall n p rest first, (n > 3 * length (render_toks l))%nat ->
  walk_complex g n (mkcur p (render_toks l ++ cRP :: rest)) cRP COMMAND first
  = Ok (mkcur (lastp p (render_toks l)) (cRP :: rest)).

Lemma WFc_nil : WFc [].
Proof. intros n p rest first Hn. destruct n as [|n]; [cbn in Hn; lia|]. reflexivity. Qed.

Lemma render_toks_cons' t l : render_toks (t :: l) = render_tok t ++ render_toks l.
Proof. reflexivity. Qed.

Lemma next_char' s tl endc rest :
  follow_ok (TVar s) tl = true -> var_follow s endc = true ->
  exists c Y, render_toks tl ++ endc :: rest = c :: Y /\ var_follow s c = true.
Proof.
  unfold follow_ok. intros H He. destruct (render_toks tl) as [|c Y]; cbn [app]; eauto.
Qed.

Lemma WFc_cons t tl : flat_tok t = true -> follow_ok t tl = true -> WFc tl -> WFc (t :: tl).
Proof.
  intros Hok Hfo IH n p rest first Hn. rewrite render_toks_cons' in *.
  destruct t as [c|c|s|l|s|l|s|l|l| |l|l|l]; try discriminate Hok;
    cbn [render_tok flat_tok] in *; rewrite ?app_length in Hn; cbn [length] in Hn; (destruct n as [|n]; [lia|]).
  - (* TLit *)
    change (([c] ++ render_toks tl) ++ cRP :: rest) with (c :: (render_toks tl ++ cRP :: rest)).
    rewrite walk_complex_S. cbn [suf].
    ctest Hok; cbn [orb andb negb COMMAND]; rewrite ?adv1_cons; (rewrite IH; [|lia]); lastp_norm.
  - (* TEsc *)
    change (([cBS; c] ++ render_toks tl) ++ cRP :: rest) with (cBS :: c :: (render_toks tl ++ cRP :: rest)).
    rewrite walk_complex_S. cbn [suf]. cbn. rewrite ?adv1_cons. (rewrite IH; [|lia]); lastp_norm.
  - (* TSq *)
    replace ((([cSQ] ++ s ++ [cSQ]) ++ render_toks tl) ++ cRP :: rest)
      with (cSQ :: (s ++ cSQ :: (render_toks tl ++ cRP :: rest)))
      by (cbn; rewrite <- !app_assoc; reflexivity).
    rewrite walk_complex_S. cbn [suf]. assert (Hs' := forallb_neq_sq s Hok).
    cbn -[walk_no_parsing walk_complex]. rewrite ?adv1_cons.
    rewrite walk_no_parsing_app by assumption. rewrite adv1_cons.
    (rewrite IH; [|lia]); lastp_norm.
  - (* TDq *)
    replace ((([cDQ] ++ render_pairs l ++ [cDQ]) ++ render_toks tl) ++ cRP :: rest)
      with (cDQ :: (render_pairs l ++ cDQ :: (render_toks tl ++ cRP :: rest)))
      by (cbn; rewrite <- !app_assoc; reflexivity).
    rewrite walk_complex_S. cbn [suf].
    cbn -[walk_escaped walk_complex]. rewrite ?adv1_cons.
    (rewrite walk_dq; [|assumption|lia]). cbn [bind]. rewrite adv1_cons.
    (rewrite IH; [|lia]); lastp_norm.
  - (* TPE *)
    replace ((([cDOL; cLB] ++ s ++ [cRB]) ++ render_toks tl) ++ cRP :: rest)
      with (cDOL :: (cLB :: s ++ cRB :: (render_toks tl ++ cRP :: rest)))
      by (cbn; rewrite <- !app_assoc; reflexivity).
    rewrite walk_complex_S. cbn [suf].
    cbn -[walk_dollar walk_complex]. rewrite ?adv1_cons.
    (rewrite walk_dollar_pe; [|assumption|lia]). cbn [bind].
    (rewrite IH; [|lia]); lastp_norm.
  - (* TAnsi *)
    replace ((([cDOL; cSQ] ++ render_pairs l ++ [cSQ]) ++ render_toks tl) ++ cRP :: rest)
      with (cDOL :: (cSQ :: render_pairs l ++ cSQ :: (render_toks tl ++ cRP :: rest)))
      by (cbn; rewrite <- !app_assoc; reflexivity).
    rewrite walk_complex_S. cbn [suf].
    cbn -[walk_dollar walk_complex]. rewrite ?adv1_cons.
    (rewrite walk_dollar_ansi; [|assumption|lia]). cbn [bind].
    (rewrite IH; [|lia]); lastp_norm.
  - (* TVar *)
    assert (Hce : var_follow s cRP = true) by (unfold var_follow; cbn; now rewrite orb_true_r).
    destruct (next_char' s tl cRP rest Hfo Hce) as (c & Y & EY & Hc).
    replace (((cDOL :: s) ++ render_toks tl) ++ cRP :: rest) with (cDOL :: (s ++ (render_toks tl ++ cRP :: rest)))
      by (cbn; rewrite <- app_assoc; reflexivity).
    rewrite walk_complex_S. cbn [suf].
    cbn -[walk_dollar walk_complex]. rewrite ?adv1_cons. rewrite EY.
    (rewrite walk_dollar_var; [|assumption|reflexivity|assumption|lia]). cbn [bind]. rewrite <- EY.
    (rewrite IH; [|lia]); lastp_norm.
Qed.

Lemma WFc_all l : forallb flat_tok l = true -> follows l = true -> WFc l.
Proof.
  induction l as [|t l IH]; intros H1 H3; [apply WFc_nil|].
  cbn [forallb follows] in *. apply andb_true_iff in H1 as [A1 A2]. apply andb_true_iff in H3 as [C1 C2].
  apply WFc_cons; auto.
Qed.

(* one iteration of process_scope (endchar ")") on a statement start *)
Lemma ps_sub_step text0 rest n p ws out :
  stmt_start_ok text0 = true ->
  match text0 with c :: _ => negb (c =? cRP) | [] => false end = true ->
  process_scope g (S n) (mkcur p (text0 ++ rest)) cRP None None ws None out =
    (do c1 <- walk_complex g n (mkcur p (text0 ++ rest)) cRP COMMAND true;
     process_scope g n (match hd_ c1 with
                        | Some x => if x =? cRP then c1 else adv1 c1
                        | None => c1 end) cRP None None ws None out).
Proof.
  intros H Hrp. destruct text0 as [|c r]; [discriminate|]. unfold stmt_start_ok in H.
  apply andb_true_iff in H as [H HG]. apply andb_true_iff in H as [H HF].
  apply andb_true_iff in H as [H HE]. apply andb_true_iff in H as [H HD].
  apply andb_true_iff in H as [H HC]. apply andb_true_iff in H as [HA HB].
  apply negb_true_iff in HA, HB, HC, HD, Hrp.
  cbn [app]. rewrite process_scope_S. cbn [suf]. rewrite Hrp, HA, HB.
  assert (HF' : is_function (mkcur p (c :: r ++ rest)) = None).
  { destruct (name_stop c) eqn:Ens.
    - apply is_function_stop; auto.
      change (c :: r ++ rest) with ((c :: r) ++ rest). now apply diverges_app.
    - cbn [orb] in HG. destruct (word_then (c :: r)) as [d|] eqn:W; [|discriminate].
      apply negb_true_iff in HG. apply (is_function_none p c (r ++ rest) d); auto.
      + change (c :: r ++ rest) with ((c :: r) ++ rest). now apply diverges_app.
      + change (c :: r ++ rest) with ((c :: r) ++ rest). now apply word_then_app. }
  rewrite HF'. rewrite is_envvar_none; auto.
  change (c :: r ++ rest) with ((c :: r) ++ rest). now apply no_eq_app.
Qed.

Lemma walk_dollar_sub l n p rest endc dq :
  sub_ok l = true -> (n > 3 * length (render_toks l) + 8)%nat ->
  walk_dollar g n (mkcur p (cLP :: render_toks l ++ cRP :: rest)) endc dq = Ok (mkcur (Some cRP) rest).
Proof.
  unfold sub_ok. intros H Hn. apply andb_true_iff in H as [H Hne]. apply andb_true_iff in H as [H Hst].
  apply andb_true_iff in H as [Hfl Hfo].
  destruct n as [|n]; [lia|]. rewrite walk_dollar_S. cbn [suf].
  change (cLP =? cLP) with true. cbn iota. rewrite ?adv1_cons.
  destruct n as [|n]; [lia|].
  replace (render_toks l ++ cRP :: rest) with ((render_toks l ++ [cRP]) ++ rest) by (rewrite <- app_assoc; reflexivity).
  rewrite ps_sub_step; [|assumption|destruct (render_toks l); [discriminate|exact Hne]].
  replace ((render_toks l ++ [cRP]) ++ rest) with (render_toks l ++ cRP :: rest) by (rewrite <- app_assoc; reflexivity).
  rewrite (WFc_all l Hfl Hfo) by lia. cbn [bind hd_ suf]. change (cRP =? cRP) with true. cbn iota.
  destruct n as [|n]; [lia|]. rewrite process_scope_S. cbn [suf]. change (cRP =? cRP) with true. cbn iota.
  cbn [fst]. rewrite ?adv1_cons. reflexivity.
Qed.
End Sub.

Section W2toks.
Variable g : str.

Lemma render_toks_cons t l : render_toks (t :: l) = render_tok t ++ render_toks l.
Proof. reflexivity. Qed.

(* the balanced-delimiter walker over a token list that ends with its closer *)
Definition WEc (l : list tok) : Prop :=
  forall endc n p rest, (endc = cRB \/ endc = cRP) -> (n > 3 * length (render_toks l))%nat ->
  walk_escaped g n (mkcur p (render_toks l ++ endc :: rest)) endc
  = Ok (mkcur (lastp p (render_toks l)) (endc :: rest)).

Lemma WEc_nil : WEc [].
Proof.
  intros endc n p rest He Hn. destruct n as [|n]; [cbn in Hn; lia|].
  rewrite walk_escaped_S. cbn [render_toks flat_map app suf]. now rewrite N.eqb_refl.
Qed.

Definition WEstep (t : tok) : Prop :=
  tok_ok true t = true -> deep_follow t = true ->
  forall tl, follow_ok t tl = true -> WEc tl -> WEc (t :: tl).
(* what the induction also has to deliver for the content of $((...)) *)
Definition Inner (t : tok) : Prop :=
  match t with
  | TArith l => forallb (tok_ok true) l = true -> forallb deep_follow l = true -> follows l = true -> WEc l
  | _ => True
  end.


Lemma WEc_from_steps l : Forall WEstep l ->
  forallb (tok_ok true) l = true -> forallb deep_follow l = true -> follows l = true -> WEc l.
Proof.
  induction 1 as [|t l Ht _ IH]; intros H1 H2 H3; [apply WEc_nil|].
  cbn [forallb follows] in *. apply andb_true_iff in H1 as [A1 A2]. apply andb_true_iff in H2 as [B1 B2].
  apply andb_true_iff in H3 as [C1 C2]. apply Ht; auto.
Qed.

Lemma next_char s tl endc rest :
  follow_ok (TVar s) tl = true -> var_follow s endc = true ->
  exists c Y, render_toks tl ++ endc :: rest = c :: Y /\ var_follow s c = true.
Proof.
  unfold follow_ok. intros H He. destruct (render_toks tl) as [|c Y]; cbn [app]; eauto.
Qed.
Lemma var_follow_closer s c : mem c [cRB; cRP; cDQ; cSEMI; cNL] = true -> var_follow s c = true.
Proof.
  unfold mem. cbn [existsb]. intros H.
  repeat (apply orb_true_iff in H as [H|H]); try discriminate H;
    apply N.eqb_eq in H; subst c; unfold var_follow; cbn; now rewrite orb_true_r.
Qed.

(* $((...)): walk_dollar_expansion calls process_scope with endchar ")", which sees "(" and hands
   the content to the balanced walker *)
Lemma walk_dollar_arith l n p rest endc dq :
  WEc l -> (n > 3 * length (render_toks l) + 8)%nat ->
  walk_dollar g n (mkcur p (cLP :: cLP :: render_toks l ++ cRP :: cRP :: rest)) endc dq
  = Ok (mkcur (Some cRP) rest).
Proof.
  intros Hl Hn. destruct n as [|n]; [lia|]. rewrite walk_dollar_S. cbn [suf].
  change (cLP =? cLP) with true. cbn iota. rewrite adv1_cons.
  destruct n as [|n]; [lia|]. rewrite process_scope_S. cbn [suf].
  change (cLP =? cRP) with false. change (isspace cLP) with false. change (cLP =? cHASH) with false. cbn iota.
  rewrite is_function_lp, is_envvar_lp.
  destruct n as [|n]; [lia|]. rewrite walk_complex_S. cbn [suf].
  cbn -[walk_escaped walk_complex process_scope]. rewrite ?adv1_cons.
  rewrite Hl by (auto || lia). cbn [bind]. rewrite adv1_cons.
  destruct n as [|n]; [lia|]. rewrite walk_complex_S. cbn [suf].
  change (cRP =? cRP) with true. cbn -[process_scope]. 
  destruct n as [|n']; [lia|].
  change (process_scope g (S (S n')) ?c cRP None None ?w None ?o) with (process_scope g (S (S n')) c cRP None None w None o).
  rewrite process_scope_S. cbn [suf]. change (cRP =? cRP) with true. cbn iota. cbn [bind fst]. rewrite adv1_cons.
  reflexivity.
Qed.

(* the inside of "..." with expansions *)
Definition dtok_ok (d : tok) : bool :=
  match d with
  | TLit c => dq_char c
  | TEsc c => negb (c =? cNUL)
  | TPE s => forallb pe_char s
  | TVar s => forallb is_ident s
  | TArith l2 => forallb (tok_ok true) l2
  | TSub l2 => sub_ok l2
  | _ => false
  end.
Lemma tok_ok_dqx b l : tok_ok b (TDqx l) = forallb dtok_ok l.
Proof. reflexivity. Qed.

Definition WDc (l : list tok) : Prop :=
  forall n p rest, (n > 3 * length (render_toks l))%nat ->
  walk_escaped g n (mkcur p (render_toks l ++ cDQ :: rest)) cDQ
  = Ok (mkcur (lastp p (render_toks l)) (cDQ :: rest)).

Lemma WDc_nil : WDc [].
Proof. intros n p rest Hn. destruct n as [|n]; [cbn in Hn; lia|]. reflexivity. Qed.

Lemma WDc_cons t tl :
  dtok_ok t = true -> Inner t -> deep_follow t = true -> follow_ok t tl = true -> WDc tl -> WDc (t :: tl).
Proof.
  intros Hok Hin Hdf Hfo IH n p rest Hn. rewrite render_toks_cons in *.
  destruct t as [c|c|s|l|s|l|s|l|l| |l|l|l]; try discriminate Hok;
    cbn [render_tok dtok_ok] in *; rewrite ?app_length in Hn; cbn [length] in Hn; (destruct n as [|n]; [lia|]).
  - (* TLit *)
    change (([c] ++ render_toks tl) ++ cDQ :: rest) with (c :: (render_toks tl ++ cDQ :: rest)).
    rewrite walk_escaped_S. cbn [suf]. change (cDQ =? cDQ) with true. cbn [negb].
    unfold dq_char in Hok.
    ctest Hok; cbn [orb andb negb]; rewrite ?adv1_cons; (rewrite IH; [|lia]); lastp_norm.
  - (* TEsc *)
    change (([cBS; c] ++ render_toks tl) ++ cDQ :: rest) with (cBS :: c :: (render_toks tl ++ cDQ :: rest)).
    rewrite walk_escaped_S. cbn [suf]. cbn. rewrite ?adv1_cons. (rewrite IH; [|lia]); lastp_norm.
  - (* TPE *)
    replace ((([cDOL; cLB] ++ s ++ [cRB]) ++ render_toks tl) ++ cDQ :: rest)
      with (cDOL :: (cLB :: s ++ cRB :: (render_toks tl ++ cDQ :: rest)))
      by (cbn; rewrite <- !app_assoc; reflexivity).
    rewrite walk_escaped_S. cbn [suf]. cbn -[walk_escaped walk_dollar]. rewrite ?adv1_cons.
    (rewrite walk_dollar_pe; [|assumption|lia]). cbn [bind]. (rewrite IH; [|lia]); lastp_norm.
  - (* TVar *)
    destruct (next_char s tl cDQ rest Hfo (var_follow_closer s cDQ eq_refl)) as (c & Y & EY & Hc).
    replace (((cDOL :: s) ++ render_toks tl) ++ cDQ :: rest) with (cDOL :: (s ++ (render_toks tl ++ cDQ :: rest)))
      by (cbn; rewrite <- app_assoc; reflexivity).
    rewrite walk_escaped_S. cbn [suf]. cbn -[walk_escaped walk_dollar]. rewrite ?adv1_cons.
    rewrite EY. (rewrite walk_dollar_var; [|assumption|reflexivity|assumption|lia]). cbn [bind].
    rewrite <- EY. (rewrite IH; [|lia]); lastp_norm.
  - (* TArith *)
    cbn [deep_follow] in Hdf. apply andb_true_iff in Hdf as [D1 D2].
    assert (Hl : WEc l) by (apply Hin; assumption).
    replace ((([cDOL; cLP; cLP] ++ flat_map render_tok l ++ [cRP; cRP]) ++ render_toks tl) ++ cDQ :: rest)
      with (cDOL :: (cLP :: cLP :: render_toks l ++ cRP :: cRP :: (render_toks tl ++ cDQ :: rest)))
      by (unfold render_toks; cbn; rewrite <- !app_assoc; reflexivity).
    rewrite walk_escaped_S. cbn [suf]. cbn -[walk_escaped walk_dollar]. rewrite ?adv1_cons.
    (rewrite walk_dollar_arith; [|assumption|fold (render_toks l) in Hn; lia]). cbn [bind].
    (rewrite IH; [|lia]); fold (render_toks l); lastp_norm.
  - (* TSub *)
    replace ((([cDOL; cLP] ++ flat_map render_tok l ++ [cRP]) ++ render_toks tl) ++ cDQ :: rest)
      with (cDOL :: (cLP :: render_toks l ++ cRP :: (render_toks tl ++ cDQ :: rest)))
      by (unfold render_toks; cbn; rewrite <- !app_assoc; reflexivity).
    rewrite walk_escaped_S. cbn [suf]. cbn -[walk_escaped walk_dollar]. rewrite ?adv1_cons.
    (rewrite walk_dollar_sub; [|assumption|fold (render_toks l) in Hn; lia]). cbn [bind].
    (rewrite IH; [|lia]); fold (render_toks l); lastp_norm.
Qed.

Lemma WDc_from l : Forall Inner l ->
  forallb dtok_ok l = true -> forallb deep_follow l = true -> follows l = true -> WDc l.
Proof.
  induction 1 as [|t l Ht _ IH]; intros H1 H2 H3; [apply WDc_nil|].
  cbn [forallb follows] in *. apply andb_true_iff in H1 as [A1 A2]. apply andb_true_iff in H2 as [B1 B2].
  apply andb_true_iff in H3 as [C1 C2]. apply WDc_cons; auto.
Qed.

Lemma WEstep_all : forall t, WEstep t /\ Inner t.
Proof.
  apply tok_ind2.
  - (* TLit *) intros c. split; [|exact I]. intros Hok Hdf tl Hfo IH endc n p rest He Hn.
    rewrite render_toks_cons in *. cbn [render_tok] in *. rewrite app_length in Hn. cbn [length] in Hn.
    destruct n as [|n]; [lia|].
    change (([c] ++ render_toks tl) ++ endc :: rest) with (c :: (render_toks tl ++ endc :: rest)).
    rewrite walk_escaped_S. cbn [suf]. cbn [tok_ok] in Hok.
    destruct He; subst endc; ctest Hok; cbn [orb andb negb]; rewrite ?adv1_cons;
      (rewrite IH; [|auto|lia]); lastp_norm.
  - (* TEsc *) intros c. split; [|exact I]. intros Hok Hdf tl Hfo IH endc n p rest He Hn.
    rewrite render_toks_cons in *. cbn [render_tok] in *. rewrite app_length in Hn. cbn [length] in Hn.
    destruct n as [|n]; [lia|].
    change (([cBS; c] ++ render_toks tl) ++ endc :: rest) with (cBS :: c :: (render_toks tl ++ endc :: rest)).
    rewrite walk_escaped_S. cbn [suf].
    destruct He; subst endc; cbn; rewrite ?adv1_cons; (rewrite IH; [|auto|lia]); lastp_norm.
  - (* TSq *) intros s. split; [|exact I]. intros Hok Hdf tl Hfo IH endc n p rest He Hn.
    rewrite render_toks_cons in *. cbn [render_tok] in *. rewrite !app_length in Hn. cbn [length] in Hn.
    destruct n as [|n]; [lia|].
    replace ((([cSQ] ++ s ++ [cSQ]) ++ render_toks tl) ++ endc :: rest)
      with (cSQ :: (s ++ cSQ :: (render_toks tl ++ endc :: rest)))
      by (cbn; rewrite <- !app_assoc; reflexivity).
    rewrite walk_escaped_S. cbn [suf]. cbn [tok_ok] in Hok.
    assert (Hs := forallb_neq_sq s Hok).
    destruct He; subst endc; cbn -[walk_no_parsing walk_escaped]; rewrite ?adv1_cons;
      rewrite walk_no_parsing_app by assumption; rewrite adv1_cons;
      (rewrite IH; [|auto|lia]); lastp_norm.
  - (* TDq *) intros l. split; [|exact I]. intros Hok Hdf tl Hfo IH endc n p rest He Hn.
    rewrite render_toks_cons in *. cbn [render_tok] in *. rewrite !app_length in Hn. cbn [length] in Hn.
    destruct n as [|n]; [lia|].
    replace ((([cDQ] ++ render_pairs l ++ [cDQ]) ++ render_toks tl) ++ endc :: rest)
      with (cDQ :: (render_pairs l ++ cDQ :: (render_toks tl ++ endc :: rest)))
      by (cbn; rewrite <- !app_assoc; reflexivity).
    rewrite walk_escaped_S. cbn [suf]. cbn [tok_ok] in Hok.
    destruct He; subst endc; cbn -[walk_escaped]; rewrite ?adv1_cons;
      (rewrite walk_dq; [|assumption|lia]); cbn [bind]; rewrite adv1_cons;
      (rewrite IH; [|auto|lia]); lastp_norm.
  - (* TPE *) intros s. split; [|exact I]. intros Hok Hdf tl Hfo IH endc n p rest He Hn.
    rewrite render_toks_cons in *. cbn [render_tok] in *. rewrite !app_length in Hn. cbn [length] in Hn.
    destruct n as [|n]; [lia|].
    replace ((([cDOL; cLB] ++ s ++ [cRB]) ++ render_toks tl) ++ endc :: rest)
      with (cDOL :: (cLB :: s ++ cRB :: (render_toks tl ++ endc :: rest)))
      by (cbn; rewrite <- !app_assoc; reflexivity).
    rewrite walk_escaped_S. cbn [suf]. cbn [tok_ok] in Hok.
    destruct He; subst endc; cbn -[walk_escaped walk_dollar]; rewrite ?adv1_cons;
      (rewrite walk_dollar_pe; [|assumption|lia]); cbn [bind];
      (rewrite IH; [|auto|lia]); lastp_norm.
  - (* TAnsi *) intros l. split; [|exact I]. intros Hok Hdf tl Hfo IH endc n p rest He Hn.
    rewrite render_toks_cons in *. cbn [render_tok] in *. rewrite !app_length in Hn. cbn [length] in Hn.
    destruct n as [|n]; [lia|].
    replace ((([cDOL; cSQ] ++ render_pairs l ++ [cSQ]) ++ render_toks tl) ++ endc :: rest)
      with (cDOL :: (cSQ :: render_pairs l ++ cSQ :: (render_toks tl ++ endc :: rest)))
      by (cbn; rewrite <- !app_assoc; reflexivity).
    rewrite walk_escaped_S. cbn [suf]. cbn [tok_ok] in Hok.
    destruct He; subst endc; cbn -[walk_escaped walk_dollar]; rewrite ?adv1_cons;
      (rewrite walk_dollar_ansi; [|assumption|lia]); cbn [bind];
      (rewrite IH; [|auto|lia]); lastp_norm.
  - (* TVar *) intros s. split; [|exact I]. intros Hok Hdf tl Hfo IH endc n p rest He Hn.
    rewrite render_toks_cons in *. cbn [render_tok] in *. rewrite !app_length in Hn. cbn [length] in Hn.
    destruct n as [|n]; [lia|]. cbn [tok_ok] in Hok.
    assert (Hce : var_follow s endc = true) by (destruct He; subst endc; apply var_follow_closer; reflexivity).
    destruct (next_char s tl endc rest Hfo Hce) as (c & Y & EY & Hc).
    replace (((cDOL :: s) ++ render_toks tl) ++ endc :: rest) with (cDOL :: (s ++ (render_toks tl ++ endc :: rest)))
      by (cbn; rewrite <- app_assoc; reflexivity).
    rewrite walk_escaped_S. cbn [suf].
    destruct He; subst endc; cbn -[walk_escaped walk_dollar]; rewrite ?adv1_cons; rewrite EY;
      (rewrite walk_dollar_var; [|assumption|reflexivity|assumption|lia]); cbn [bind]; rewrite <- EY;
      (rewrite IH; [|auto|lia]); lastp_norm.
  - (* TArith *) intros l HF. split.
    + intros Hok Hdf tl Hfo IH endc n p rest He Hn.
      assert (Hl : WEc l).
      { cbn [tok_ok deep_follow] in Hok, Hdf. apply andb_true_iff in Hdf as [D1 D2].
        apply WEc_from_steps; auto. eapply Forall_impl; [|exact HF]. intros a [Ha _]; exact Ha. }
      rewrite render_toks_cons in *. cbn [render_tok] in *. rewrite !app_length in Hn. cbn [length] in Hn.
      destruct n as [|n]; [lia|].
      replace ((([cDOL; cLP; cLP] ++ flat_map render_tok l ++ [cRP; cRP]) ++ render_toks tl) ++ endc :: rest)
        with (cDOL :: (cLP :: cLP :: render_toks l ++ cRP :: cRP :: (render_toks tl ++ endc :: rest)))
        by (unfold render_toks; cbn; rewrite <- !app_assoc; reflexivity).
      rewrite walk_escaped_S. cbn [suf].
      destruct He; subst endc; cbn -[walk_escaped walk_dollar]; rewrite ?adv1_cons;
        (rewrite walk_dollar_arith; [|assumption|fold (render_toks l) in Hn; lia]); cbn [bind];
        (rewrite IH; [|auto|lia]); fold (render_toks l); lastp_norm.
    + cbn [Inner]. intros A B C. apply WEc_from_steps; auto.
      eapply Forall_impl; [|exact HF]. intros a [Ha _]; exact Ha.
  - (* TDqx *) intros l HF. split; [|exact I]. intros Hok Hdf tl Hfo IH endc n p rest He Hn.
    assert (Hl : WDc l).
    { rewrite tok_ok_dqx in Hok. cbn [deep_follow] in Hdf. apply andb_true_iff in Hdf as [D1 D2].
      apply WDc_from; auto. eapply Forall_impl; [|exact HF]. intros a [_ Ha]; exact Ha. }
    rewrite render_toks_cons in *. cbn [render_tok] in *. rewrite !app_length in Hn. cbn [length] in Hn.
    destruct n as [|n]; [lia|].
    replace ((([cDQ] ++ flat_map render_tok l ++ [cDQ]) ++ render_toks tl) ++ endc :: rest)
      with (cDQ :: (render_toks l ++ cDQ :: (render_toks tl ++ endc :: rest)))
      by (unfold render_toks; cbn; rewrite <- !app_assoc; reflexivity).
    rewrite walk_escaped_S. cbn [suf].
    destruct He; subst endc; cbn -[walk_escaped]; rewrite ?adv1_cons;
      (rewrite Hl; [|fold (render_toks l) in Hn; lia]); cbn [bind]; rewrite adv1_cons;
      (rewrite IH; [|auto|lia]); fold (render_toks l); lastp_norm.
  - (* THs *) split; [|exact I]. intros Hok. discriminate Hok.
  - (* TSub *) intros l. split; [|exact I]. intros Hok Hdf tl Hfo IH endc n p rest He Hn.
    rewrite render_toks_cons in *. cbn [render_tok] in *. rewrite !app_length in Hn. cbn [length] in Hn.
    destruct n as [|n]; [lia|]. cbn [tok_ok] in Hok.
    replace ((([cDOL; cLP] ++ flat_map render_tok l ++ [cRP]) ++ render_toks tl) ++ endc :: rest)
      with (cDOL :: (cLP :: render_toks l ++ cRP :: (render_toks tl ++ endc :: rest)))
      by (unfold render_toks; cbn; rewrite <- !app_assoc; reflexivity).
    rewrite walk_escaped_S. cbn [suf].
    destruct He; subst endc; cbn -[walk_escaped walk_dollar]; rewrite ?adv1_cons;
      (rewrite walk_dollar_sub; [|assumption|fold (render_toks l) in Hn; lia]); cbn [bind];
      (rewrite IH; [|auto|lia]); fold (render_toks l); lastp_norm.
  - (* TBr *) intros l HF. split; [|exact I]. intros Hok Hdf tl Hfo IH endc n p rest He Hn.
    assert (Hl : WEc l).
    { cbn [tok_ok deep_follow] in Hok, Hdf. apply andb_true_iff in Hdf as [D1 D2].
      apply WEc_from_steps; auto. eapply Forall_impl; [|exact HF]. intros a [Ha _]; exact Ha. }
    rewrite render_toks_cons in *. cbn [render_tok] in *. rewrite !app_length in Hn. cbn [length] in Hn.
    destruct n as [|n]; [lia|].
    replace ((([cLB] ++ flat_map render_tok l ++ [cRB]) ++ render_toks tl) ++ endc :: rest)
      with (cLB :: (render_toks l ++ cRB :: (render_toks tl ++ endc :: rest)))
      by (unfold render_toks; cbn; rewrite <- !app_assoc; reflexivity).
    rewrite walk_escaped_S. cbn [suf].
    destruct He; subst endc; cbn -[walk_escaped]; rewrite ?adv1_cons;
      (rewrite Hl; [|auto|fold (render_toks l) in Hn; lia]); cbn [bind]; rewrite adv1_cons;
      (rewrite IH; [|auto|lia]); fold (render_toks l); lastp_norm.
  - (* TPar *) intros l HF. split; [|exact I]. intros Hok Hdf tl Hfo IH endc n p rest He Hn.
    assert (Hl : WEc l).
    { cbn [tok_ok deep_follow] in Hok, Hdf. apply andb_true_iff in Hdf as [D1 D2].
      apply WEc_from_steps; auto. eapply Forall_impl; [|exact HF]. intros a [Ha _]; exact Ha. }
    rewrite render_toks_cons in *. cbn [render_tok] in *. rewrite !app_length in Hn. cbn [length] in Hn.
    destruct n as [|n]; [lia|].
    replace ((([cLP] ++ flat_map render_tok l ++ [cRP]) ++ render_toks tl) ++ endc :: rest)
      with (cLP :: (render_toks l ++ cRP :: (render_toks tl ++ endc :: rest)))
      by (unfold render_toks; cbn; rewrite <- !app_assoc; reflexivity).
    rewrite walk_escaped_S. cbn [suf].
    destruct He; subst endc; cbn -[walk_escaped]; rewrite ?adv1_cons;
      (rewrite Hl; [|auto|fold (render_toks l) in Hn; lia]); cbn [bind]; rewrite adv1_cons;
      (rewrite IH; [|auto|lia]); fold (render_toks l); lastp_norm.
Qed.

Lemma WEc_all l :
  forallb (tok_ok true) l = true -> forallb deep_follow l = true -> follows l = true -> WEc l.
Proof.
  intros. apply WEc_from_steps; auto. apply Forall_forall. intros t _. apply WEstep_all.
Qed.
Lemma WDc_all l :
  forallb dtok_ok l = true -> forallb deep_follow l = true -> follows l = true -> WDc l.
Proof.
  intros. apply WDc_from; auto. apply Forall_forall. intros t _. apply WEstep_all.
Qed.
End W2toks.

Section W1.
Variable g : str.

(* the statement walker (function level, COMMAND_PARSING, endchar "}") over one statement *)
Definition WCc (l : list tok) : Prop :=
  forall n p rest sep first, (sep = cSEMI \/ sep = cNL) -> (n > 3 * length (render_toks l))%nat ->
  walk_complex g n (mkcur p (render_toks l ++ sep :: rest)) cRB COMMAND first
  = Ok (mkcur (lastp p (render_toks l)) (sep :: rest)).

Lemma WCc_nil : WCc [].
Proof.
  intros n p rest sep first Hs Hn. destruct n as [|n]; [cbn in Hn; lia|].
  rewrite walk_complex_S. cbn [render_toks flat_map app suf].
  destruct Hs; subst sep; reflexivity.
Qed.

Lemma WCc_cons t tl :
  tok_ok1 t = true -> deep_follow t = true -> follow_ok t tl = true -> WCc tl -> WCc (t :: tl).
Proof.
  intros Hok Hdf Hfo IH n p rest sep first Hs Hn.
  rewrite render_toks_cons in *.
  destruct t as [c|c|s|l|s|l|s|l|l| |l|l|l]; cbn [render_tok] in *; rewrite ?app_length in Hn; cbn [length] in Hn;
    (destruct n as [|n]; [lia|]).
  - (* TLit *)
    change (([c] ++ render_toks tl) ++ sep :: rest) with (c :: (render_toks tl ++ sep :: rest)).
    rewrite walk_complex_S. cbn [suf]. cbn [tok_ok1] in Hok.
    ctest Hok; cbn [orb andb negb COMMAND]; rewrite ?adv1_cons;
      (rewrite IH; [|auto|lia]); lastp_norm.
  - (* TEsc *)
    change (([cBS; c] ++ render_toks tl) ++ sep :: rest) with (cBS :: c :: (render_toks tl ++ sep :: rest)).
    rewrite walk_complex_S. cbn [suf]. cbn. rewrite ?adv1_cons. (rewrite IH; [|auto|lia]); lastp_norm.
  - (* TSq *)
    replace ((([cSQ] ++ s ++ [cSQ]) ++ render_toks tl) ++ sep :: rest)
      with (cSQ :: (s ++ cSQ :: (render_toks tl ++ sep :: rest)))
      by (cbn; rewrite <- !app_assoc; reflexivity).
    rewrite walk_complex_S. cbn [suf]. cbn [tok_ok1 tok_ok] in Hok.
    assert (Hs' := forallb_neq_sq s Hok).
    cbn -[walk_no_parsing walk_complex]. rewrite ?adv1_cons.
    rewrite walk_no_parsing_app by assumption. rewrite adv1_cons.
    (rewrite IH; [|auto|lia]); lastp_norm.
  - (* TDq *)
    replace ((([cDQ] ++ render_pairs l ++ [cDQ]) ++ render_toks tl) ++ sep :: rest)
      with (cDQ :: (render_pairs l ++ cDQ :: (render_toks tl ++ sep :: rest)))
      by (cbn; rewrite <- !app_assoc; reflexivity).
    rewrite walk_complex_S. cbn [suf]. cbn [tok_ok1 tok_ok] in Hok.
    cbn -[walk_escaped walk_complex]. rewrite ?adv1_cons.
    (rewrite walk_dq; [|assumption|lia]). cbn [bind]. rewrite adv1_cons.
    (rewrite IH; [|auto|lia]); lastp_norm.
  - (* TPE *)
    replace ((([cDOL; cLB] ++ s ++ [cRB]) ++ render_toks tl) ++ sep :: rest)
      with (cDOL :: (cLB :: s ++ cRB :: (render_toks tl ++ sep :: rest)))
      by (cbn; rewrite <- !app_assoc; reflexivity).
    rewrite walk_complex_S. cbn [suf]. cbn [tok_ok1 tok_ok] in Hok.
    cbn -[walk_dollar walk_complex]. rewrite ?adv1_cons.
    (rewrite walk_dollar_pe; [|assumption|lia]). cbn [bind].
    (rewrite IH; [|auto|lia]); lastp_norm.
  - (* TAnsi *)
    replace ((([cDOL; cSQ] ++ render_pairs l ++ [cSQ]) ++ render_toks tl) ++ sep :: rest)
      with (cDOL :: (cSQ :: render_pairs l ++ cSQ :: (render_toks tl ++ sep :: rest)))
      by (cbn; rewrite <- !app_assoc; reflexivity).
    rewrite walk_complex_S. cbn [suf]. cbn [tok_ok1 tok_ok] in Hok.
    cbn -[walk_dollar walk_complex]. rewrite ?adv1_cons.
    (rewrite walk_dollar_ansi; [|assumption|lia]). cbn [bind].
    (rewrite IH; [|auto|lia]); lastp_norm.
  - (* TVar *)
    assert (Hce : var_follow s sep = true) by (destruct Hs; subst sep; apply var_follow_closer; reflexivity).
    destruct (next_char s tl sep rest Hfo Hce) as (c & Y & EY & Hc).
    replace (((cDOL :: s) ++ render_toks tl) ++ sep :: rest) with (cDOL :: (s ++ (render_toks tl ++ sep :: rest)))
      by (cbn; rewrite <- app_assoc; reflexivity).
    rewrite walk_complex_S. cbn [suf]. cbn [tok_ok1 tok_ok] in Hok.
    cbn -[walk_dollar walk_complex]. rewrite ?adv1_cons. rewrite EY.
    (rewrite walk_dollar_var; [|assumption|reflexivity|assumption|lia]). cbn [bind]. rewrite <- EY.
    (rewrite IH; [|auto|lia]); lastp_norm.
  - (* TArith *)
    cbn [deep_follow] in Hdf. apply andb_true_iff in Hdf as [D1 D2]. cbn [tok_ok1 tok_ok] in Hok.
    replace ((([cDOL; cLP; cLP] ++ flat_map render_tok l ++ [cRP; cRP]) ++ render_toks tl) ++ sep :: rest)
      with (cDOL :: (cLP :: cLP :: render_toks l ++ cRP :: cRP :: (render_toks tl ++ sep :: rest)))
      by (unfold render_toks; cbn; rewrite <- !app_assoc; reflexivity).
    rewrite walk_complex_S. cbn [suf].
    cbn -[walk_dollar walk_complex]. rewrite ?adv1_cons.
    (rewrite (walk_dollar_arith g l); [|apply WEc_all; assumption|fold (render_toks l) in Hn; lia]). cbn [bind].
    (rewrite IH; [|auto|lia]); fold (render_toks l); lastp_norm.
  - (* TDqx *)
    cbn [deep_follow] in Hdf. apply andb_true_iff in Hdf as [D1 D2]. cbn [tok_ok1] in Hok. rewrite tok_ok_dqx in Hok.
    replace ((([cDQ] ++ flat_map render_tok l ++ [cDQ]) ++ render_toks tl) ++ sep :: rest)
      with (cDQ :: (render_toks l ++ cDQ :: (render_toks tl ++ sep :: rest)))
      by (unfold render_toks; cbn; rewrite <- !app_assoc; reflexivity).
    rewrite walk_complex_S. cbn [suf].
    cbn -[walk_escaped walk_complex]. rewrite ?adv1_cons.
    (rewrite (WDc_all g l Hok D2 D1); [|fold (render_toks l) in Hn; lia]). cbn [bind]. rewrite adv1_cons.
    (rewrite IH; [|auto|lia]); fold (render_toks l); lastp_norm.
  - (* THs *)
    change (([cLT; cLT; cLT] ++ render_toks tl) ++ sep :: rest) with (cLT :: cLT :: cLT :: (render_toks tl ++ sep :: rest)).
    rewrite walk_complex_S. cbn [suf]. cbn -[walk_here walk_complex]. rewrite ?adv1_cons.
    destruct n as [|n]; [lia|]. rewrite walk_here_lt. cbn [bind].
    (rewrite IH; [|auto|lia]); lastp_norm.
  - (* TSub *)
    cbn [tok_ok1 tok_ok] in Hok.
    replace ((([cDOL; cLP] ++ flat_map render_tok l ++ [cRP]) ++ render_toks tl) ++ sep :: rest)
      with (cDOL :: (cLP :: render_toks l ++ cRP :: (render_toks tl ++ sep :: rest)))
      by (unfold render_toks; cbn; rewrite <- !app_assoc; reflexivity).
    rewrite walk_complex_S. cbn [suf].
    cbn -[walk_dollar walk_complex]. rewrite ?adv1_cons.
    (rewrite walk_dollar_sub; [|assumption|fold (render_toks l) in Hn; lia]). cbn [bind].
    (rewrite IH; [|auto|lia]); fold (render_toks l); lastp_norm.
  - (* TBr *)
    replace ((([cLB] ++ flat_map render_tok l ++ [cRB]) ++ render_toks tl) ++ sep :: rest)
      with (cLB :: (render_toks l ++ cRB :: (render_toks tl ++ sep :: rest)))
      by (unfold render_toks; cbn; rewrite <- !app_assoc; reflexivity).
    rewrite walk_complex_S. cbn [suf]. cbn [tok_ok1 tok_ok] in Hok.
    cbn -[walk_escaped walk_complex]. rewrite ?adv1_cons.
    cbn [deep_follow] in Hdf. apply andb_true_iff in Hdf as [D1 D2].
    (rewrite (WEc_all g l Hok D2 D1); [|auto|fold (render_toks l) in Hn; lia]). cbn [bind]. rewrite adv1_cons.
    (rewrite IH; [|auto|lia]); fold (render_toks l); lastp_norm.
  - (* TPar *)
    replace ((([cLP] ++ flat_map render_tok l ++ [cRP]) ++ render_toks tl) ++ sep :: rest)
      with (cLP :: (render_toks l ++ cRP :: (render_toks tl ++ sep :: rest)))
      by (unfold render_toks; cbn; rewrite <- !app_assoc; reflexivity).
    rewrite walk_complex_S. cbn [suf]. cbn [tok_ok1 tok_ok] in Hok.
    cbn -[walk_escaped walk_complex]. rewrite ?adv1_cons.
    cbn [deep_follow] in Hdf. apply andb_true_iff in Hdf as [D1 D2].
    (rewrite (WEc_all g l Hok D2 D1); [|auto|fold (render_toks l) in Hn; lia]). cbn [bind]. rewrite adv1_cons.
    (rewrite IH; [|auto|lia]); fold (render_toks l); lastp_norm.
Qed.

Lemma WCc_all l :
  forallb tok_ok1 l = true -> forallb deep_follow l = true -> follows l = true -> WCc l.
Proof.
  induction l as [|t l IH]; intros H1 H2 H3; [apply WCc_nil|].
  cbn [forallb follows] in *. apply andb_true_iff in H1 as [A1 A2]. apply andb_true_iff in H2 as [B1 B2].
  apply andb_true_iff in H3 as [C1 C2]. apply WCc_cons; auto.
Qed.
End W1.

(* ---------------------------------------------------------------- the body of a function *)
Section Body.
Variable g : str.

Lemma ps_ws w : forall n p T endc vm fm ws out,
  forallb isspace w = true -> isspace endc = false ->
  process_scope g (length w + n) (mkcur p (w ++ T)) endc vm fm ws None out
  = process_scope g n (mkcur (lastp p w) T) endc vm fm ws None out.
Proof.
  induction w as [|c w IH]; intros n p T endc vm fm ws out H He; [reflexivity|].
  cbn [forallb] in H. apply andb_true_iff in H as [H1 H2].
  cbn [length plus app]. rewrite process_scope_S. cbn [suf].
  destruct (N.eqb_spec c endc) as [->|_]; [congruence|].
  rewrite H1. cbn iota. rewrite adv1_cons. now rewrite IH.
Qed.

Lemma ps_stmt_step text0 rest n p ws out :
  stmt_start_ok text0 = true ->
  process_scope g (S n) (mkcur p (text0 ++ rest)) cRB None None ws None out =
    (do c1 <- walk_complex g n (mkcur p (text0 ++ rest)) cRB COMMAND true;
     process_scope g n (match hd_ c1 with
                        | Some x => if x =? cRB then c1 else adv1 c1
                        | None => c1 end) cRB None None ws None out).
Proof.
  intros H. destruct text0 as [|c r]; [discriminate|]. unfold stmt_start_ok in H.
  apply andb_true_iff in H as [H HG]. apply andb_true_iff in H as [H HF].
  apply andb_true_iff in H as [H HE]. apply andb_true_iff in H as [H HD].
  apply andb_true_iff in H as [H HC]. apply andb_true_iff in H as [HA HB].
  apply negb_true_iff in HA, HB, HC, HD.
  cbn [app]. rewrite process_scope_S. cbn [suf]. rewrite HC, HA, HB.
  assert (HF' : is_function (mkcur p (c :: r ++ rest)) = None).
  { destruct (name_stop c) eqn:Ens.
    - apply is_function_stop; auto.
      change (c :: r ++ rest) with ((c :: r) ++ rest). now apply diverges_app.
    - cbn [orb] in HG. destruct (word_then (c :: r)) as [d|] eqn:W; [|discriminate].
      apply negb_true_iff in HG. apply (is_function_none p c (r ++ rest) d); auto.
      + change (c :: r ++ rest) with ((c :: r) ++ rest). now apply diverges_app.
      + change (c :: r ++ rest) with ((c :: r) ++ rest). now apply word_then_app. }
  rewrite HF'. rewrite is_envvar_none; auto.
  change (c :: r ++ rest) with ((c :: r) ++ rest). now apply no_eq_app.
Qed.

Lemma PB b : forall n p rest ws out,
  body_ok b = true -> (n > 3 * length (render_body b))%nat ->
  exists out', process_scope g n (mkcur p (render_body b ++ cRB :: rest)) cRB None None ws None out
               = Ok (mkcur (lastp p (render_body b)) (cRB :: rest), out').
Proof.
  induction b as [|s b IH]; intros n p rest ws out Hb Hn.
  - destruct n as [|n]; [cbn in Hn; lia|]. rewrite process_scope_S. cbn [render_body flat_map app suf].
    change (cRB =? cRB) with true. cbn iota. eauto.
  - cbn [body_ok] in Hb. apply andb_true_iff in Hb as [Hs Hb]. unfold stmt_ok in Hs.
    apply andb_true_iff in Hs as [Hs Hst]. apply andb_true_iff in Hs as [Hs Hw].
    apply andb_true_iff in Hs as [Hs H1].
    destruct s as [toks sep sws]. cbn [s_toks s_sep s_ws] in *.
    change (render_body ({| s_toks := toks; s_sep := sep; s_ws := sws |} :: b))
      with (render_stmt {| s_toks := toks; s_sep := sep; s_ws := sws |} ++ render_body b) in *.
    unfold render_stmt in *. cbn [s_toks s_sep s_ws] in *.
    rewrite !app_length in Hn. cbn [length] in Hn.
    destruct n as [|n]; [lia|].
    replace (((render_toks toks ++ [sep] ++ sws) ++ render_body b) ++ cRB :: rest)
      with (((render_toks toks ++ [sep] ++ sws) ++ render_body b ++ [cRB]) ++ rest)
      by (rewrite <- !app_assoc; reflexivity).
    rewrite ps_stmt_step by exact Hst.
    replace (((render_toks toks ++ [sep] ++ sws) ++ render_body b ++ [cRB]) ++ rest)
      with (render_toks toks ++ sep :: (sws ++ render_body b ++ cRB :: rest))
      by (rewrite <- !app_assoc; reflexivity).
    assert (Hsep : sep = cSEMI \/ sep = cNL).
    { apply orb_true_iff in H1 as [E|E]; apply N.eqb_eq in E; auto. }
    apply andb_true_iff in Hs as [Hs Hfw]. apply andb_true_iff in Hs as [Hs Hdf].
    rewrite (WCc_all g toks Hs Hdf Hfw); [|assumption|lia]. cbn [bind hd_ suf].
    assert (sep =? cRB = false) as -> by (destruct Hsep; subst; reflexivity).
    rewrite adv1_cons.
    replace n with (length sws + (n - length sws))%nat by lia.
    rewrite ps_ws by (assumption || reflexivity).
    destruct (IH (n - length sws)%nat (lastp (Some sep) sws) rest ws out Hb ltac:(lia)) as [o Ho].
    exists o. rewrite Ho. f_equal. f_equal. f_equal.
    unfold lastp. rewrite !fold_left_app. cbn [fold_left]. reflexivity.
Qed.
End Body.

(* ---------------------------------------------------------------- values of assignments *)
Section Values.
Variable g : str.

Lemma render_vsegs_cons v l : render_vsegs (v :: l) = render_vseg v ++ render_vsegs l.
Proof. reflexivity. Qed.

(* SPACE_PARSING walk (endchar " ") over the rest of a scalar value *)
Definition WSc (l : list vseg) : Prop :=
  forall n p rest first, (n > length (render_vsegs l))%nat ->
  walk_complex g n (mkcur p (render_vsegs l ++ cNL :: rest)) cSP SPACE first
  = Ok (mkcur (lastp p (render_vsegs l)) (cNL :: rest)).

Lemma WSc_nil : WSc [].
Proof.
  intros n p rest first Hn. destruct n as [|n]; [cbn in Hn; lia|]. reflexivity.
Qed.

Lemma ws_bare s : forall m p X first,
  forallb bare_char s = true ->
  exists f', walk_complex g (length s + m) (mkcur p (s ++ X)) cSP SPACE first
             = walk_complex g m (mkcur (lastp p s) X) cSP SPACE f'.
Proof.
  induction s as [|c s IH]; intros m p X first H; [exists first; reflexivity|].
  cbn [forallb] in H. apply andb_true_iff in H as [H1 H2].
  unfold bare_char in H1. apply andb_true_iff in H1 as [Hsp Hm]. apply negb_true_iff in Hsp.
  cbn [length plus app]. rewrite walk_complex_S. cbn [suf].
  destruct (IH m (Some c) X false H2) as [f' Hf].
  exists f'. change (lastp p (c :: s)) with (lastp (Some c) s). rewrite <- Hf. clear Hf IH.
  ctest Hm; try (exfalso; cbv in Hsp; discriminate Hsp); rewrite ?Hsp; cbn [orb andb negb SPACE]; rewrite ?adv1_cons; reflexivity.
Qed.

Lemma WSc_cons v l : vseg_ok v = true -> WSc l -> WSc (v :: l).
Proof.
  intros Hok IH n p rest first Hn. rewrite render_vsegs_cons in *.
  destruct v as [s|s|c|pl|pl]; cbn [render_vseg vseg_ok] in *; rewrite ?app_length in Hn; cbn [length] in Hn.
  - (* VBare *)
    apply andb_true_iff in Hok as [_ Hok].
    rewrite <- app_assoc.
    replace n with (length s + (n - length s))%nat by lia.
    destruct (ws_bare s (n - length s)%nat p (render_vsegs l ++ cNL :: rest) first Hok) as [f' Hf].
    rewrite Hf. rewrite IH by lia. lastp_norm.
  - (* VSq *)
    destruct n as [|n]; [lia|].
    replace (([cSQ] ++ s ++ [cSQ]) ++ render_vsegs l) with (cSQ :: (s ++ cSQ :: render_vsegs l))
      by (cbn; rewrite <- !app_assoc; reflexivity).
    cbn [app]. rewrite <- app_assoc. cbn [app].
    rewrite walk_complex_S. cbn [suf]. assert (Hs' := forallb_neq_sq s Hok).
    cbn -[walk_no_parsing walk_complex]. rewrite ?adv1_cons.
    rewrite walk_no_parsing_app by assumption. rewrite adv1_cons.
    (rewrite IH; [|lia]); lastp_norm.
  - (* VEsc *)
    destruct n as [|n]; [lia|]. cbn [app].
    rewrite walk_complex_S. cbn [suf]. cbn. rewrite ?adv1_cons. (rewrite IH; [|lia]); lastp_norm.
  - (* VAnsi *)
    destruct n as [|n]; [lia|].
    replace (([cDOL; cSQ] ++ render_pairs pl ++ [cSQ]) ++ render_vsegs l)
      with (cDOL :: (cSQ :: render_pairs pl ++ cSQ :: render_vsegs l))
      by (cbn; rewrite <- !app_assoc; reflexivity).
    cbn [app]. rewrite <- app_assoc. cbn [app].
    rewrite walk_complex_S. cbn [suf].
    cbn -[walk_dollar walk_complex]. rewrite ?adv1_cons.
    (rewrite walk_dollar_ansi; [|assumption|lia]). cbn [bind].
    (rewrite IH; [|lia]); lastp_norm.
  - (* VDq *)
    destruct n as [|n]; [lia|].
    replace (([cDQ] ++ render_pairs pl ++ [cDQ]) ++ render_vsegs l)
      with (cDQ :: (render_pairs pl ++ cDQ :: render_vsegs l))
      by (cbn; rewrite <- !app_assoc; reflexivity).
    cbn [app]. rewrite <- app_assoc. cbn [app].
    rewrite walk_complex_S. cbn [suf].
    cbn -[walk_escaped walk_complex]. rewrite ?adv1_cons.
    (rewrite walk_dq; [|assumption|lia]). cbn [bind]. rewrite adv1_cons.
    (rewrite IH; [|lia]); lastp_norm.
Qed.

Lemma WSc_all l : forallb vseg_ok l = true -> WSc l.
Proof.
  induction l as [|v l IH]; intros H; [apply WSc_nil|].
  cbn [forallb] in H. apply andb_true_iff in H as [H1 H2]. apply WSc_cons; auto.
Qed.
End Values.

Section EnvValue.
Variable g : str.

Lemma env_value_else n p c r endc :
  isspace c = false -> mem c [cSEMI; cSQ; cDQ; cBQ; cLP; cDOL] = false ->
  env_value g (S n) (mkcur p (c :: r)) endc =
  (do c1 <- walk_complex g n (mkcur p (c :: r)) cSP SPACE true; env_value g n c1 endc).
Proof.
  intros Hs Hm. rewrite env_value_S. cbn [suf]. rewrite Hs.
  assert (Hm' : negb (mem c [cSEMI; cSQ; cDQ; cBQ; cLP; cDOL]) = true) by now rewrite Hm.
  ctest Hm'; reflexivity.
Qed.

Lemma env_value_nl n p rest endc : (n > 0)%nat ->
  env_value g n (mkcur p (cNL :: rest)) endc = Ok (mkcur p (cNL :: rest)).
Proof. intros Hn. destruct n; [lia|]. reflexivity. Qed.

Lemma EV l : forall n p rest endc,
  forallb vseg_ok l = true -> (n > length (render_vsegs l) + 1)%nat ->
  env_value g n (mkcur p (render_vsegs l ++ cNL :: rest)) endc
  = Ok (mkcur (lastp p (render_vsegs l)) (cNL :: rest)).
Proof.
  induction l as [|v l IH]; intros n p rest endc H Hn.
  - apply env_value_nl. lia.
  - assert (Hall := H). cbn [forallb] in H. apply andb_true_iff in H as [Hv Hl].
    destruct n as [|n]; [lia|].
    destruct v as [s|s|c|pl|pl].
    + (* VBare *)
      cbn [vseg_ok] in Hv. apply andb_true_iff in Hv as [Hne Hb].
      destruct s as [|c s]; [discriminate|]. cbn [forallb] in Hb. apply andb_true_iff in Hb as [Hc Hb].
      unfold bare_char in Hc. apply andb_true_iff in Hc as [Hsp Hm]. apply negb_true_iff in Hsp.
      assert (Hm2 : mem c [cSEMI; cSQ; cDQ; cBQ; cLP; cDOL] = false).
      { unfold mem in *. cbn [existsb] in *. apply negb_true_iff in Hm.
        repeat (apply orb_false_iff in Hm as [? Hm]).
        repeat (apply orb_false_iff; split); assumption. }
      change (render_vsegs (VBare (c :: s) :: l) ++ cNL :: rest)
        with (c :: (s ++ render_vsegs l) ++ cNL :: rest).
      rewrite env_value_else by assumption.
      change (c :: (s ++ render_vsegs l) ++ cNL :: rest)
        with (render_vsegs (VBare (c :: s) :: l) ++ cNL :: rest).
      rewrite (WSc_all g _ Hall) by lia. cbn [bind]. apply env_value_nl. lia.
    + (* VSq *)
      cbn [vseg_ok] in Hv. assert (Hs' := forallb_neq_sq s Hv).
      rewrite render_vsegs_cons in *. cbn [render_vseg] in *. rewrite !app_length in Hn. cbn [length] in Hn.
      replace ((([cSQ] ++ s ++ [cSQ]) ++ render_vsegs l) ++ cNL :: rest)
        with (cSQ :: (s ++ cSQ :: (render_vsegs l ++ cNL :: rest)))
        by (cbn; rewrite <- !app_assoc; reflexivity).
      rewrite env_value_S. cbn [suf]. cbn -[walk_no_parsing env_value]. rewrite ?adv1_cons.
      rewrite walk_no_parsing_app by assumption. rewrite ?adv1_cons.
      (rewrite IH; [|assumption|lia]). lastp_norm.
    + (* VEsc *)
      change (render_vsegs (VEsc c :: l) ++ cNL :: rest) with (cBS :: (c :: render_vsegs l) ++ cNL :: rest).
      rewrite env_value_else by reflexivity.
      change (cBS :: (c :: render_vsegs l) ++ cNL :: rest) with (render_vsegs (VEsc c :: l) ++ cNL :: rest).
      rewrite (WSc_all g _ Hall) by lia. cbn [bind]. apply env_value_nl. lia.
    + (* VAnsi *)
      cbn [vseg_ok] in Hv.
      rewrite render_vsegs_cons in *. cbn [render_vseg] in *. rewrite !app_length in Hn. cbn [length] in Hn.
      replace ((([cDOL; cSQ] ++ render_pairs pl ++ [cSQ]) ++ render_vsegs l) ++ cNL :: rest)
        with (cDOL :: (cSQ :: render_pairs pl ++ cSQ :: (render_vsegs l ++ cNL :: rest)))
        by (cbn; rewrite <- !app_assoc; reflexivity).
      rewrite env_value_S. cbn [suf]. cbn -[walk_dollar env_value]. rewrite ?adv1_cons.
      (rewrite walk_dollar_ansi; [|assumption|lia]). cbn [bind].
      (rewrite IH; [|assumption|lia]). lastp_norm.
    + (* VDq *)
      cbn [vseg_ok] in Hv.
      rewrite render_vsegs_cons in *. cbn [render_vseg] in *. rewrite !app_length in Hn. cbn [length] in Hn.
      replace ((([cDQ] ++ render_pairs pl ++ [cDQ]) ++ render_vsegs l) ++ cNL :: rest)
        with (cDQ :: (render_pairs pl ++ cDQ :: (render_vsegs l ++ cNL :: rest)))
        by (cbn; rewrite <- !app_assoc; reflexivity).
      rewrite env_value_S. cbn [suf]. cbn -[walk_escaped env_value]. rewrite ?adv1_cons.
      (rewrite walk_dq; [|assumption|lia]). cbn [bind]. rewrite ?adv1_cons.
      (rewrite IH; [|assumption|lia]). lastp_norm.
Qed.
End EnvValue.

(* ---------------------------------------------------------------- heads of definitions *)
Lemma starts_with_sep w : forall n x X,
  existsb (N.eqb x) w = false -> starts_with w (n ++ x :: X) = true -> starts_with w n = true.
Proof.
  induction w as [|a w IH]; intros n x X Hx H; [destruct n; reflexivity|].
  cbn [existsb] in Hx. apply orb_false_iff in Hx as [Hxa Hx].
  destruct n as [|b n]; cbn [app starts_with] in *.
  - apply andb_true_iff in H as [H _]. rewrite N.eqb_sym in H. congruence.
  - apply andb_true_iff in H as [H1 H2]. rewrite H1. cbn. eapply IH; eauto.
Qed.


Lemma fname_facts c : fname_char c = true ->
  isspace c = false /\ isblank c = false /\ name_stop c = false /\ (c =? cHASH) = false /\ (c =? cNUL) = false.
Proof.
  unfold fname_char. intros H. destruct (is_ident c) eqn:Hi.
  - destruct (ident_facts c Hi) as (?&?&?&?&?&?&?). auto.
  - cbn [orb] in H.
    repeat (apply orb_true_iff in H as [H|H]);
      apply N.eqb_eq in H; subst; repeat split; reflexivity.
Qed.

Lemma forallb_impl {A} (f h : A -> bool) l :
  (forall x, f x = true -> h x = true) -> forallb f l = true -> forallb h l = true.
Proof.
  intros I. induction l as [|x l IH]; cbn; [reflexivity|]. intros H.
  apply andb_true_iff in H as [H1 H2]. rewrite (I _ H1). now apply IH.
Qed.

Lemma kw_no (x : N) : x = cEQ \/ x = cSP -> existsb (N.eqb x) kw_function = false.
Proof. intros [->| ->]; reflexivity. Qed.

(* NAME=... *)
Lemma envvar_scan_ident n : forall p X,
  forallb is_ident n = true ->
  envvar_scan false p (n ++ cEQ :: X) = Some (mkcur (Some cEQ) X).
Proof.
  induction n as [|c n IH]; intros p X H.
  - reflexivity.
  - cbn [forallb] in H. apply andb_true_iff in H as [H1 H2].
    destruct (ident_facts c H1) as (_&_&_&Hs&He&_&_).
    cbn [app envvar_scan]. rewrite Hs, He. now apply IH.
Qed.

Lemma is_envvar_assign p n X :
  var_name_ok n = true ->
  is_envvar (mkcur p (n ++ cEQ :: X)) = Some (n, mkcur (Some cEQ) X).
Proof.
  unfold var_name_ok. intros H. apply andb_true_iff in H as [H _]. apply andb_true_iff in H as [Hne Hid].
  destruct n as [|c n]; [discriminate|]. cbn [forallb] in Hid. apply andb_true_iff in Hid as [Hc Hid].
  destruct (ident_facts c Hc) as (_&Hb&_&Hs&He&_&_).
  unfold is_envvar. cbn [prev suf app skip_while]. rewrite Hb. cbn [opt_bind prev suf envvar_scan].
  rewrite Hs, He. rewrite envvar_scan_ident by assumption. cbn [opt_bind suf].
  f_equal. f_equal. cbn [length]. rewrite app_length. cbn [length].
  replace (S (length n + S (length X)) - length X - 1)%nat with (S (length n)) by lia.
  change (c :: n ++ cEQ :: X) with ((c :: n) ++ cEQ :: X).
  rewrite firstn_app. replace (S (length n) - length (c :: n))%nat with 0%nat by (cbn; lia).
  rewrite firstn_all2 by (cbn; lia). cbn. f_equal. apply app_nil_r.
Qed.

Lemma skip_name n : forall p x X,
  forallb (fun c => negb (name_stop c)) n = true -> name_stop x = true ->
  skip_while (fun c => negb (name_stop c)) p (n ++ x :: X) = Some (mkcur (lastp p n) (x :: X)).
Proof. intros. apply skip_while_app; [assumption|]. now rewrite H0. Qed.

Lemma is_function_assign p n X :
  var_name_ok n = true -> is_function (mkcur p (n ++ cEQ :: X)) = None.
Proof.
  unfold var_name_ok. intros H. apply andb_true_iff in H as [H Hk]. apply andb_true_iff in H as [Hne Hid].
  apply negb_true_iff in Hk.
  assert (Hk' : starts_with kw_function (n ++ cEQ :: X) = false).
  { destruct (starts_with kw_function (n ++ cEQ :: X)) eqn:E; [|reflexivity].
    apply starts_with_sep in E; [congruence|]. apply kw_no; auto. }
  assert (Hns : forallb (fun c => negb (name_stop c)) n = true).
  { eapply forallb_impl; [|exact Hid]. intros x Hx. destruct (ident_facts x Hx) as (_&_&E&_). now rewrite E. }
  destruct n as [|c n]; [discriminate|]. cbn [forallb] in Hid. apply andb_true_iff in Hid as [Hc Hid].
  destruct (ident_facts c Hc) as (Hsp&Hb&_).
  unfold is_function. cbn [prev suf app skip_while]. rewrite Hb. cbn [opt_bind prev suf].
  change (c :: n ++ cEQ :: X) with ((c :: n) ++ cEQ :: X). rewrite Hk'.
  cbn [prev suf]. cbn [app skip_while]. rewrite Hsp. cbn [opt_bind prev suf].
  change (c :: n ++ cEQ :: X) with ((c :: n) ++ cEQ :: X).
  rewrite skip_name by (assumption || reflexivity). cbn [opt_bind suf prev].
  rewrite slice_app. cbn [skip_while]. change (isblank cEQ) with false. cbn [opt_bind suf].
  reflexivity.
Qed.

(* NAME () newline { *)
Lemma is_function_head p n Y :
  func_name_ok n = true ->
  is_function (mkcur p (func_head n ++ Y)) = Some (n, mkcur (Some cLB) Y).
Proof.
  unfold func_name_ok. intros H. apply andb_true_iff in H as [H Hk]. apply andb_true_iff in H as [Hne Hid].
  apply negb_true_iff in Hk. unfold func_head. rewrite <- app_assoc.
  set (T := [cSP; cLP; cRP; cSP; cNL; cLB] ++ Y).
  assert (Hk' : starts_with kw_function (n ++ T) = false).
  { destruct (starts_with kw_function (n ++ T)) eqn:E; [|reflexivity].
    unfold T in E. cbn [app] in E. apply starts_with_sep in E; [congruence|]. apply kw_no; auto. }
  assert (Hns : forallb (fun c => negb (name_stop c)) n = true).
  { eapply forallb_impl; [|exact Hid]. intros x Hx. destruct (fname_facts x Hx) as (_&_&E&_). now rewrite E. }
  destruct n as [|c n]; [discriminate|]. cbn [forallb] in Hid. apply andb_true_iff in Hid as [Hc Hid].
  destruct (fname_facts c Hc) as (Hsp&Hb&_).
  unfold is_function. cbn [prev suf app skip_while]. rewrite Hb. cbn [opt_bind prev suf].
  change (c :: n ++ T) with ((c :: n) ++ T). rewrite Hk'.
  cbn [prev suf]. cbn [app skip_while]. rewrite Hsp. cbn [opt_bind prev suf].
  change (c :: n ++ T) with ((c :: n) ++ cSP :: [cLP; cRP; cSP; cNL; cLB] ++ Y).
  rewrite skip_name by (assumption || reflexivity). cbn [opt_bind suf prev].
  rewrite slice_app. reflexivity.
Qed.
