"""C48 — cached metadata is used only while it is still valid (DESIGN §6 C48).

Stream "read": random small repositories on disk (one ebuild, up to five eclasses in one or two
stacked repositories, 1-3 metadata caches of either layout, writable / read-only / unwritable),
then a history of random edits, each followed by one metadata read through the real
package_factory._get_metadata with real cache and eclass-cache objects built afresh (a new
process).  Only the ebuild daemon is replaced: `processor.reuse_or_request` yields a stub whose
get_keys() parses the ebuild text and counts its calls.
  (A) outcome (index of the cache used / regenerated, payload returned) and the entry found in
      every cache afterwards                                    impl vs Model_C48.get_metadata
  (B) in Coq: Spec_C48.spec_read_ok on the implementation's recorded result;
      directly in Python, from the raw files only (own parser, os.stat, hashlib): the cache was used
      iff some cache held an entry recording the ebuild's current validation value and, for
      every recorded eclass, the current file's values; the returned metadata equals metadata
      regenerated from scratch whenever every edit changed the validation values; after a
      regeneration a second read is served from the cache.
"""

from __future__ import annotations

import contextlib
import hashlib
import os
import shutil
import tempfile
from types import SimpleNamespace

from .common import Check, Err, cN, cbool, clist, copt, cpair, impl_call

IMPORTS = ("From Coq Require Import List NArith ZArith Bool.\n"
           "From Verif Require Import Base.Val C48.Model_C48 C48.Spec_C48.")
ANCHORS = ["cache/__init__.py::base.validate_entry", "ebuild/eclass_cache.py::base.rebuild_cache_entry",
           "ebuild/eclass_cache.py::StackedCaches._load_eclasses", "ebuild/eclass_cache.py::cache._load_eclasses",
           "ebuild/ebuild_src.py::package_factory._get_metadata",
           "ebuild/ebuild_src.py::package_factory._update_metadata"]
CPV = "cat/pkg-1"
ECL = ["e0", "e1", "e2", "e3", "e4"]
T0 = 1_600_000_000


def md5_of(path):
    with open(path, "rb") as f:
        return int(hashlib.md5(f.read()).hexdigest(), 16)


class Repo:
    """the on-disk fixture and the objects built over it"""

    def __init__(self, root, rng):
        self.root, self.rng = root, rng
        self.dirs = [os.path.join(root, "repoA", "eclass"), os.path.join(root, "repoB", "eclass")]
        self.nstack = rng.choice([1, 2, 2])
        for d in self.dirs:
            os.makedirs(d)
        self.ebuild = os.path.join(root, "repoA", "cat", "pkg", "pkg-1.ebuild")
        os.makedirs(os.path.dirname(self.ebuild))
        self.clock = T0
        self.payload = 0
        self.inherit_key = rng.random() < 0.85
        self.dirty = False          # an edit kept a validation value although the content changed
        ncache = rng.choice([1, 1, 2, 2, 3])
        self.caches = []
        for i in range(ncache):
            lay = rng.choice(["flat", "md5"])
            ro = rng.random() < 0.25
            wfail = (not ro) and rng.random() < 0.12
            loc = os.path.join(root, f"cache{i}")
            os.makedirs(loc)
            if wfail:
                with open(os.path.join(loc, "cat"), "w") as f:      # the category "directory" is a file
                    f.write("")
            self.caches.append({"lay": lay, "ro": ro, "wfail": wfail, "loc": loc})
        for n in rng.sample(ECL, rng.randint(1, 4)):
            self.write_eclass(rng.randrange(self.nstack), n)
        self.write_ebuild(rng.sample(ECL, rng.randint(0, 3)))

    # ---------------------------------------------------------------- files
    def tick(self):
        self.clock += self.rng.randint(1, 50)
        return self.clock

    def write_ebuild(self, inherits, keep_mtime=False):
        old = os.stat(self.ebuild).st_mtime if os.path.exists(self.ebuild) else None
        self.payload += 1
        with open(self.ebuild, "w") as f:
            f.write(f"EAPI=8\nDESCRIPTION=d{self.payload}\ninherit {' '.join(inherits)}\n")
        t = old if (keep_mtime and old is not None) else self.tick()
        os.utime(self.ebuild, (t, t))

    def ebuild_inherits(self):
        with open(self.ebuild) as f:
            for l in f:
                if l.startswith("inherit"):
                    return l.split()[1:]
        return []

    def write_eclass(self, repo, name, keep_mtime=False, content=None):
        p = os.path.join(self.dirs[repo], name + ".eclass")
        old = os.stat(p).st_mtime if os.path.exists(p) else None
        with open(p, "w") as f:
            f.write(content if content is not None else f"# {name} {self.rng.randrange(10**9)}\n")
        t = old if (keep_mtime and old is not None) else self.tick()
        os.utime(p, (t, t))

    def eclass_files(self):
        out = []
        for r in range(self.nstack):
            for fn in sorted(os.listdir(self.dirs[r])):
                if fn.endswith(".eclass"):
                    out.append((r, fn[:-7]))
        return out

    def entry_path(self, i):
        return os.path.join(self.caches[i]["loc"], CPV)

    # ---------------------------------------------------------------- observation (model input / output)
    def dir_id(self, d):
        d = os.path.normpath(d)
        for i, x in enumerate(self.dirs):
            if d == x:
                return i + 1
        return 90 + (sum(d.encode()) % 9)

    def world(self):
        st = os.stat(self.ebuild)
        eb = (0, int(st.st_mtime), md5_of(self.ebuild))
        stack = []
        for r in range(self.nstack):
            repo = []
            for fn in sorted(os.listdir(self.dirs[r])):
                if fn.endswith(".eclass"):
                    p = os.path.join(self.dirs[r], fn)
                    repo.append((ECL.index(fn[:-7]), (r + 1, int(os.stat(p).st_mtime), md5_of(p))))
            stack.append(repo)
        visible = {n for repo in stack for n, _ in repo}
        inh = [ECL.index(n) for n in self.ebuild_inherits() if ECL.index(n) in visible]
        return {"ebuild": eb, "stack": stack, "inherited": inh, "inherit_key": bool(self.inherit_key and inh),
                "payload": self.payload}

    def mk_cache(self, i):
        from pkgcore.cache import flat_hash
        c = self.caches[i]
        if c["lay"] == "flat":
            return flat_hash.database(c["loc"], readonly=c["ro"])
        o = flat_hash.md5_cache(c["loc"], readonly=c["ro"])
        o.location = c["loc"]
        return o

    def slot(self, i):
        """what cache[cpv] gives for cache i, canonicalised"""
        from pkgcore.cache import errors
        try:
            d = self.mk_cache(i)[CPV]
        except KeyError:
            return None
        except errors.CacheError:
            return Err("C")
        lay = self.caches[i]["lay"]
        chf = d["_mtime_" if lay == "flat" else "_md5_"]
        ecl = d.get("_eclasses_")
        if ecl is not None:
            out = []
            for n, chfs in ecl:
                v = dict(chfs)
                nid = ECL.index(n) if n in ECL else 50
                out.append([nid, self.dir_id(v["eclassdir"]), v["mtime"]] if lay == "flat" else [nid, v["md5"]])
            ecl = out
        desc = d.get("DESCRIPTION", "d0")
        pay = int(desc[1:]) if desc[1:].isdigit() else 0
        return [chf, ecl, d.get("INHERIT") is not None, pay]

    # ---------------------------------------------------------------- the read
    def read(self):
        from pkgcore.ebuild import ebuild_src, eclass_cache
        from pkgcore.ebuild.eapi import get_eapi

        ecs = [eclass_cache.cache(self.dirs[r]) for r in range(self.nstack)]
        ec = ecs[0] if self.nstack == 1 else eclass_cache.StackedCaches(ecs)
        caches = [self.mk_cache(i) for i in range(len(self.caches))]
        log = []
        for i, c in enumerate(caches):
            real = c.validate_entry

            def wrapped(item, h, e, real=real, i=i):
                r = real(item, h, e)
                log.append((i, bool(r)))
                return r
            c.validate_entry = wrapped
        repo = SimpleNamespace(_get_ebuild_path=lambda pkg: self.ebuild)
        pf = ebuild_src.package_factory(repo, tuple(caches), ec, {}, {})
        pkg = SimpleNamespace(cpvstr=CPV, path=self.ebuild, eapi=get_eapi("8"))
        stub = Stub(self, ec)

        @contextlib.contextmanager
        def fake_request(ebp=None):
            yield stub
        saved = ebuild_src.processor.reuse_or_request
        ebuild_src.processor.reuse_or_request = fake_request
        try:
            data = pf._get_metadata(pkg)
        finally:
            ebuild_src.processor.reuse_or_request = saved
        used = [i for i, r in log if r]
        desc = data.get("DESCRIPTION", "d0")
        pay = int(desc[1:])
        idx = used[0] if used else -1
        if (idx == -1) != (stub.calls == 1) or stub.calls > 1:
            raise AssertionError(f"validate log {log} vs regeneration count {stub.calls}")
        return [idx, pay], data


class Stub:
    """stands in for the ebuild daemon: metadata straight from the ebuild text"""

    def __init__(self, repo, ec):
        self.repo, self.ec, self.calls = repo, ec, 0

    def get_keys(self, pkg, ecache):
        self.calls += 1
        d = {"EAPI": "8", "SLOT": "0", "DEFINED_PHASES": "-", "KEYWORDS": "~amd64"}
        inh = []
        with open(pkg.path) as f:
            for l in f:
                l = l.rstrip("\n")
                if l.startswith("DESCRIPTION="):
                    d["DESCRIPTION"] = l.split("=", 1)[1]
                elif l.startswith("inherit"):
                    inh = [n for n in l.split()[1:] if n in ecache.eclasses]
        if inh:
            d["INHERITED"] = " ".join(inh)
            if self.repo.inherit_key:
                d["INHERIT"] = " ".join(inh)
        return d


# ------------------------------------------------------------------ the statement, from raw files only
def raw_entry(path, lay):
    """own reader of an entry file: (chf, eclasses or None, has_inherit) or None when unusable"""
    try:
        with open(path, encoding="utf8") as f:
            lines = [l.strip() for l in f]
    except (FileNotFoundError, NotADirectoryError):
        return None
    d = {}
    for l in lines:
        if "=" not in l:
            return None
        k, v = l.split("=", 1)
        d[k] = v
    ck = "_mtime_" if lay == "flat" else "_md5_"
    try:
        chf = int(d[ck]) if lay == "flat" else int(d[ck], 16)
    except (KeyError, ValueError):
        return None
    ecl = None
    if "_eclasses_" in d:
        parts = d["_eclasses_"].strip().split("\t")
        ecl = []
        if parts != [""]:
            n = 3 if lay == "flat" else 2
            if len(parts) % n:
                return None
            try:
                for i in range(0, len(parts), n):
                    ecl.append((parts[i], (parts[i + 1], int(parts[i + 2])) if lay == "flat" else (int(parts[i + 1], 16),)))
            except ValueError:
                return None
    return chf, ecl, "INHERIT" in d


def raw_valid(repo, i):
    lay = repo.caches[i]["lay"]
    e = raw_entry(repo.entry_path(i), lay)
    if e is None:
        return False
    chf, ecl, has_inherit = e
    now = int(os.stat(repo.ebuild).st_mtime) if lay == "flat" else md5_of(repo.ebuild)
    if chf != now:
        return False
    if ecl is None:
        return True
    if not has_inherit:
        return False
    for name, rec in ecl:
        found = None
        for r in range(repo.nstack):
            p = os.path.join(repo.dirs[r], name + ".eclass")
            if os.path.isfile(p):
                found = p
                break
        if found is None:
            return False
        if lay == "flat":
            if os.path.normpath(rec[0]) != os.path.dirname(found) or rec[1] != int(os.stat(found).st_mtime):
                return False
        elif rec[0] != md5_of(found):
            return False
    return True


# ------------------------------------------------------------------ edits
def edit(repo, rng):
    files = repo.eclass_files()
    kinds = ["ebuild_content", "ebuild_touch", "ebuild_same_mtime", "ebuild_inherits", "eclass_edit", "eclass_touch",
             "eclass_same_mtime", "eclass_remove", "eclass_move", "eclass_shadow", "eclass_add", "drop_inherit_key",
             "corrupt", "delete", "copy", "empty_eclasses", "none", "none", "toggle_ro", "stale_eclass_value",
             "ebuild_older", "eclass_older"]
    k = rng.choice(kinds)
    inh = repo.ebuild_inherits()
    if k == "ebuild_content":
        repo.write_ebuild(inh)
    elif k == "ebuild_touch":
        t = repo.tick()
        os.utime(repo.ebuild, (t, t))
    elif k == "ebuild_older":                            # the mtime moves backwards (e.g. a restored file)
        t = os.stat(repo.ebuild).st_mtime - rng.randint(1, 1000)
        os.utime(repo.ebuild, (t, t))
    elif k == "eclass_older" and files:
        r, n = rng.choice(files)
        p = os.path.join(repo.dirs[r], n + ".eclass")
        t = os.stat(p).st_mtime - rng.randint(1, 1000)
        os.utime(p, (t, t))
    elif k == "ebuild_same_mtime":
        repo.write_ebuild(inh, keep_mtime=True)
        repo.dirty = True
    elif k == "ebuild_inherits":
        repo.write_ebuild(rng.sample(ECL, rng.randint(0, 3)))
    elif k in ("eclass_edit", "eclass_touch", "eclass_same_mtime", "eclass_remove", "eclass_move") and files:
        r, n = rng.choice(files)
        p = os.path.join(repo.dirs[r], n + ".eclass")
        if k == "eclass_edit":
            repo.write_eclass(r, n)
        elif k == "eclass_touch":
            t = repo.tick()
            os.utime(p, (t, t))
        elif k == "eclass_same_mtime":
            repo.write_eclass(r, n, keep_mtime=True)
            repo.dirty = True
        elif k == "eclass_remove":
            os.unlink(p)
        elif repo.nstack == 2:                           # moved between the stacked repositories
            q = os.path.join(repo.dirs[1 - r], n + ".eclass")
            if not os.path.exists(q):
                t = os.stat(p).st_mtime
                shutil.move(p, q)
                os.utime(q, (t, t))
    elif k == "eclass_shadow" and repo.nstack == 2:      # the same name appears in the other repository
        n = rng.choice(ECL)
        r = rng.randrange(2)
        if not os.path.exists(os.path.join(repo.dirs[r], n + ".eclass")):
            repo.write_eclass(r, n)
    elif k == "eclass_add":
        repo.write_eclass(rng.randrange(repo.nstack), rng.choice(ECL))
    elif k in ("drop_inherit_key", "corrupt", "delete", "empty_eclasses", "stale_eclass_value"):
        i = rng.randrange(len(repo.caches))
        p = repo.entry_path(i)
        if os.path.isfile(p):
            with open(p) as f:
                lines = f.read().split("\n")
            if k == "drop_inherit_key":
                lines = [l for l in lines if not l.startswith("INHERIT=")]
            elif k == "corrupt":
                lines.insert(rng.randrange(len(lines)), "garbage-without-equals")
            elif k == "empty_eclasses":
                lines = [l for l in lines if not l.startswith("_eclasses_=")] + ["_eclasses_="]
            elif k == "stale_eclass_value":
                lines = [l.replace("\t", "\t1", 1) if l.startswith("_eclasses_=") else l for l in lines]
            if k == "delete":
                os.unlink(p)
            else:
                with open(p, "w") as f:
                    f.write("\n".join(l for l in lines if l) + "\n")
    elif k == "copy" and len(repo.caches) > 1:
        i, j = rng.sample(range(len(repo.caches)), 2)
        if (repo.caches[i]["lay"] == repo.caches[j]["lay"] and os.path.isfile(repo.entry_path(i))
                and not repo.caches[j]["wfail"]):
            os.makedirs(os.path.dirname(repo.entry_path(j)), exist_ok=True)
            shutil.copy(repo.entry_path(i), repo.entry_path(j))
    elif k == "toggle_ro":
        c = rng.choice(repo.caches)
        if not c["wfail"]:
            c["ro"] = not c["ro"]
    return k


# ------------------------------------------------------------------ Coq rendering
def c_f(f):
    return f"(mk_f {cN(f[0])} {cN(f[1])} {cN(f[2])})"


def c_world(w):
    stack = clist([clist([cpair(cN(n), c_f(f)) for n, f in repo], "N * efile") for repo in w["stack"]],
                  "list (N * efile)")
    return (f"(mk_w {c_f(w['ebuild'])} {stack} {clist([cN(n) for n in w['inherited']], 'N')} "
            f"{cbool(w['inherit_key'])} {cN(w['payload'])})")


def c_slot(s, lay):
    if s is None:
        return "Absent"
    if isinstance(s, Err):
        return "Corrupt"
    chf, ecl, inh, pay = s
    if ecl is None:
        e = "(@None (list (N * efile)))"
    else:
        e = "(Some " + clist([cpair(cN(r[0]), c_f((r[1], r[2], 0) if lay == "flat" else (0, 0, r[1]))) for r in ecl],
                             "N * efile") + ")"
    return f"(mk_e {cN(chf)} {e} {cbool(inh)} {cN(pay)})"


def c_caches(repo, slots):
    return clist([f"(mk_c {'Flat' if c['lay'] == 'flat' else 'Md5'} {cbool(c['ro'])} {cbool(c['wfail'])} {c_slot(s, c['lay'])})"
                  for c, s in zip(repo.caches, slots)], "cache")


def main(chk: Check):
    rng = chk.rng
    chk.rule("histories over random on-disk repositories (1-2 stacked eclass dirs, 1-3 caches of either layout, "
             "read-only / unwritable ones included): 22 kinds of edit (ebuild content/touch/older mtime/content-with-same-mtime/"
             "inherit list, eclass edit/touch/same-mtime/removal/move between stacked repos/shadowing/addition, "
             "entry without INHERIT, corrupt/deleted/copied entry, empty or stale _eclasses_, read-only toggle), "
             "one metadata read after each; non-trivial = distinct (world, cache states) in which at least one "
             "cache holds an entry")
    ok = chk.build(["C48/Prop_C48.vo"])
    if ok:
        chk.check_assumptions("C48/Prop_C48.v")
    chk.lint(["C48"])
    chk.check_fingerprint(ANCHORS)

    import logging
    logging.getLogger("pkgcore").setLevel(logging.CRITICAL)
    cases, py_bad, kinds_seen = [], [], {}
    n_hist = chk.n(36, 250)
    base = tempfile.mkdtemp(prefix="verif_c48_")
    try:
        for h in range(n_hist):
            root = os.path.join(base, f"h{h}")
            os.makedirs(root)
            repo = Repo(root, rng)
            hist = []
            for step in range(rng.randint(4, 8)):
                k = "init" if step == 0 else edit(repo, rng)
                hist.append(k)
                kinds_seen[k] = kinds_seen.get(k, 0) + 1
                w = repo.world()
                pre = [repo.slot(i) for i in range(len(repo.caches))]
                valid_now = [raw_valid(repo, i) for i in range(len(repo.caches))]
                res, data = repo.read()
                post = [repo.slot(i) for i in range(len(repo.caches))]
                term = cpair(c_world(w), c_caches(repo, pre))
                cases.append((term, [res, post]))
                if any(s is not None for s in pre):
                    chk.nontrivial(term)
                # ---- (B) directly on the implementation
                ctx = {"history": hist, "world": w, "caches": [dict(c, entry=s) for c, s in zip(repo.caches, pre)],
                       "result": res, "after": post}
                first_valid = next((i for i, v in enumerate(valid_now) if v), -1)
                if res[0] != first_valid:
                    py_bad.append(dict(ctx, what=(f"cache {res[0]} was used" if res[0] >= 0 else "metadata was regenerated")
                                       + f" but the first cache whose entry is still valid is {first_valid} "
                                         "(validity computed from the raw files)"))
                elif not repo.dirty and res[1] != repo.payload:
                    py_bad.append(dict(ctx, what=f"returned metadata d{res[1]} differs from metadata regenerated "
                                                 f"from scratch d{repo.payload}"))
                elif res[0] == -1:
                    writable = [i for i, c in enumerate(repo.caches) if not c["ro"] and not c["wfail"]]
                    stale_left = [i for i, c in enumerate(repo.caches)
                                  if not c["ro"] and not c["wfail"] and os.path.isfile(repo.entry_path(i))
                                  and raw_entry(repo.entry_path(i), c["lay"]) is not None and not raw_valid(repo, i)]
                    fresh_ok = repo.inherit_key or not w["inherited"]
                    if stale_left and fresh_ok:
                        py_bad.append(dict(ctx, what=f"after the regeneration writable cache {stale_left[0]} still holds a stale entry"))
                    elif writable and fresh_ok:
                        res2, _ = repo.read()
                        if res2[0] != writable[0]:
                            py_bad.append(dict(ctx, what=f"a second read after the regeneration was not served from the "
                                                         f"first writable cache {writable[0]} (got {res2[0]})"))
                if h < 3 and step == 1:
                    chk.sample({"stream": "read", "history": hist, "world": w, "caches_before": pre, "result": res,
                                "caches_after": post})
            shutil.rmtree(root, ignore_errors=True)
    finally:
        shutil.rmtree(base, ignore_errors=True)
    chk.count("read", len(cases))
    chk.note("edit kinds exercised: " + ", ".join(f"{k}={v}" for k, v in sorted(kinds_seen.items())))

    spec_bad = []
    r = chk.coq_eval("read", IMPORTS, "world * list cache", cases,
                     ["mismatches run_read cases", "where_ (fun i r => negb (spec_read_ok i r)) cases"],
                     shard=150) if ok else None
    if r is not None:
        spec_bad = [cases[i] for i in r[1]]
        for i in r[0][:3]:
            chk.violation("correspondence",
                          {"what": "implementation and Model_C48 disagree on a metadata read (the theorems of "
                                   "Prop_C48 no longer speak about this code)",
                           "input": cases[i][0], "implementation": cases[i][1]},
                          no_input=not (py_bad or spec_bad))
    for b in py_bad[:3]:
        chk.violation("property", {"what": b["what"], "input": b})
    if spec_bad and not py_bad:
        for s in spec_bad[:3]:
            chk.violation("property", {"what": "Spec_C48.spec_read_ok rejects the implementation's cache decision",
                                       "input": s[0], "implementation": s[1]})


def replay(chk, data):
    print("re-run with the same seed: VERIF_SEED=%s ./check C48 --tier %s" % (data.get("seed"), data.get("tier")))
