(* Proofs_C10.v — proofs for C10.
   Part 1  list/set lemmas
   Part 2  the compilation computes the implication meaning [eval_impl] of the tree, constraint by
           constraint, each constraint reading only its own variables (structural induction)
   Part 3  [eval_impl] is the PMS meaning outside the known class
   Part 4  the domains set up by find_constraint_satisfaction
   Part 5  solve_ref satisfies the contract S (non-vacuity)
   Part 6  under S: the produced list is exactly the allowed satisfying assignments, each once,
           preferred first; error branch; refutation of the full statements inside the known class *)
From Coq Require Import List NArith ZArith Bool Arith Lia Permutation.
Import ListNotations.
From Verif Require Import Base.Val C10.Model_C10 C10.Spec_C10.

(* ================================================================== Part 1 *)
Lemma memb_In x l : memb x l = true <-> In x l.
Proof.
  unfold memb. rewrite existsb_exists. split.
  - intros (y & Hy & E). apply N.eqb_eq in E. now subst.
  - intro H. exists x. split; [assumption | apply N.eqb_refl].
Qed.
Lemma memb_false x l : memb x l = false <-> ~ In x l.
Proof. rewrite <- memb_In. destruct (memb x l); split; congruence. Qed.

Lemma memb_ext (a b : list N) :
  (forall x, In x a <-> In x b) -> forall x, memb x a = memb x b.
Proof.
  intros H x. destruct (memb x a) eqn:E; symmetry.
  - apply memb_In, H, memb_In, E.
  - apply memb_false. intro K. apply H, memb_In in K. congruence.
Qed.

Lemma in_inter x a b : In x (inter a b) <-> In x a /\ In x b.
Proof. unfold inter. rewrite filter_In, memb_In. tauto. Qed.
Lemma in_diff x a b : In x (diff a b) <-> In x a /\ ~ In x b.
Proof. unfold diff. rewrite filter_In, negb_true_iff, memb_false. tauto. Qed.
Lemma in_dedup x l : In x (dedup l) <-> In x l.
Proof.
  induction l as [|y l IH]; cbn; [tauto|].
  destruct (memb y l) eqn:E.
  - rewrite IH. apply memb_In in E. split; [tauto | intros [<-|]; tauto].
  - cbn. rewrite IH. tauto.
Qed.
Lemma nodup_dedup l : NoDup (dedup l).
Proof.
  induction l as [|y l IH]; cbn; [constructor|].
  destruct (memb y l) eqn:E; [assumption|].
  constructor; [|assumption]. rewrite in_dedup. now apply memb_false.
Qed.
Lemma nodup_filter {A} (f : A -> bool) l : NoDup l -> NoDup (filter f l).
Proof.
  induction 1 as [|x l Hx Hl IH]; cbn; [constructor|].
  destruct (f x); [constructor; [rewrite filter_In; tauto | assumption] | assumption].
Qed.

Lemma forallb_ext_in {A} (f g : A -> bool) l :
  (forall x, In x l -> f x = g x) -> forallb f l = forallb g l.
Proof.
  induction l as [|x l IH]; cbn; intro H; [reflexivity|].
  rewrite (H x (or_introl eq_refl)), IH; [reflexivity | intros; apply H; now right].
Qed.
Lemma existsb_ext_in {A} (f g : A -> bool) l :
  (forall x, In x l -> f x = g x) -> existsb f l = existsb g l.
Proof.
  induction l as [|x l IH]; cbn; intro H; [reflexivity|].
  rewrite (H x (or_introl eq_refl)), IH; [reflexivity | intros; apply H; now right].
Qed.
Lemma map_ext_in' {A B} (f g : A -> B) l :
  (forall x, In x l -> f x = g x) -> map f l = map g l.
Proof. intro H. now apply map_ext_in. Qed.
Lemma forallb_concat {A} (f : A -> bool) ls :
  forallb f (concat ls) = forallb (forallb f) ls.
Proof.
  induction ls as [|l ls IH]; cbn; [reflexivity|]. now rewrite forallb_app, IH.
Qed.
Lemma forallb_or_distr {A} (a : bool) (f : A -> bool) l :
  forallb (fun x => a || f x) l = a || forallb f l.
Proof.
  induction l as [|x l IH]; cbn; [now rewrite orb_true_r|].
  rewrite IH. destruct a, (f x), (forallb f l); reflexivity.
Qed.
Lemma forallb_map {A B} (g : A -> B) (f : B -> bool) l :
  forallb f (map g l) = forallb (fun x => f (g x)) l.
Proof. induction l as [|x l IH]; cbn; [reflexivity | now rewrite IH]. Qed.

(* sequence = Forall2 *)
Lemma sequence_ok {A B} (f : A -> res B) l t :
  sequence (map f l) = Ok t -> Forall2 (fun x y => f x = Ok y) l t.
Proof.
  revert t; induction l as [|x l IH]; cbn; intros t H.
  - injection H as <-. constructor.
  - destruct (f x) as [y|e] eqn:E; [|discriminate].
    destruct (sequence (map f l)) as [t'|e] eqn:E'; [|discriminate].
    injection H as <-. constructor; [assumption | now apply IH].
Qed.
Lemma sequence_all_ok {A B} (f : A -> res B) l :
  (forall x, In x l -> exists y, f x = Ok y) -> exists t, sequence (map f l) = Ok t.
Proof.
  induction l as [|x l IH]; cbn; intro H; [now eexists|].
  destruct (H x (or_introl eq_refl)) as (y & ->).
  destruct IH as (t & ->); [intros; apply H; now right|]. now eexists.
Qed.

Lemma nonempty_ok {A} (l l' : list A) : nonempty l = Ok l' -> l' = l.
Proof. destruct l; cbn; [discriminate | now intros [= <-]]. Qed.

(* induction principle of the nested tree type *)
Section RuInd.
  Variable P : ru -> Prop.
  Hypothesis HF : forall neg al vals, P (Flag neg al vals).
  Hypothesis HC : forall neg v kids, Forall P kids -> P (Cond neg v kids).
  Hypothesis HG : forall k neg kids, Forall P kids -> P (Grp k neg kids).
  Fixpoint ru_ind' (r : ru) : P r :=
    match r with
    | Flag neg al vals => HF neg al vals
    | Cond neg v kids =>
        HC neg v kids ((fix go (l : list ru) : Forall P l :=
                          match l with [] => Forall_nil P | x :: t => Forall_cons x (ru_ind' x) (go t) end) kids)
    | Grp k neg kids =>
        HG k neg kids ((fix go (l : list ru) : Forall P l :=
                          match l with [] => Forall_nil P | x :: t => Forall_cons x (ru_ind' x) (go t) end) kids)
    end.
End RuInd.

(* ================================================================== Part 2 *)
Lemma eval_impl_local r : local (fun on => eval_impl on r) (flags r).
Proof.
  induction r as [neg al vals|neg v kids IH|k neg kids IH] using ru_ind'; intros on on' H; cbn in *.
  - unfold flag_match, subsetb, disjointb. f_equal. destruct al.
    + apply forallb_ext_in. intros x Hx. now apply H.
    + f_equal. f_equal. apply existsb_ext_in. intros x Hx. now apply H.
  - unfold cond_met. rewrite (H v (or_introl eq_refl)). f_equal.
    apply forallb_ext_in. intros x Hx. rewrite Forall_forall in IH. apply (IH x Hx).
    intros w Hw. apply H. right. apply in_concat. exists (flags x). split; [now apply in_map|assumption].
  - f_equal. f_equal. apply map_ext_in. intros x Hx. rewrite Forall_forall in IH. apply (IH x Hx).
    intros w Hw. apply H. apply in_concat. exists (flags x). split; [now apply in_map|assumption].
Qed.

Lemma forallb_id_map (cs : list cfun) on :
  forallb (fun c : cfun => c on) cs = forallb (fun b : bool => b) (map (fun c : cfun => c on) cs).
Proof. now rewrite forallb_map. Qed.

Lemma forall2_single_maps kids (l : list constr) on :
  Forall2 (fun x (y : constr) => to_single x = Ok y) kids l ->
  Forall (fun r => forall c vs, to_single r = Ok (c, vs) ->
                  (forall on, c on = eval_impl on r) /\ vs = flags r) kids ->
  map (fun c : cfun => c on) (map fst l) = map (eval_impl on) kids
  /\ concat (map snd l) = concat (map flags kids).
Proof.
  induction 1 as [|x [c vs] kids l Hx Hl IH]; intro HF; cbn; [split; reflexivity|].
  inversion HF as [|? ? H1 H2]; subst. destruct (H1 c vs Hx) as (Hc & ->).
  destruct (IH H2) as (-> & ->). now rewrite Hc.
Qed.

(* __to_single_constraint computes the implication meaning and the variable set = flags *)
Lemma single_sem r : forall c vs, to_single r = Ok (c, vs) ->
  (forall on, c on = eval_impl on r) /\ vs = flags r.
Proof.
  induction r as [neg al vals|neg v kids IH|k neg kids IH] using ru_ind'; intros c vs H; cbn in H.
  - destruct al; [discriminate|]. injection H as <- <-. split; [|reflexivity].
    intro on. cbn. unfold c_flag, flag_match. destruct (disjointb vals on), neg; reflexivity.
  - destruct (sequence (map to_single kids)) as [l|e] eqn:E; [|discriminate]. cbn [bind] in H.
    destruct (nonempty l) as [l'|e] eqn:En; [|discriminate]. apply nonempty_ok in En. subst l'.
    cbn [bind] in H. injection H as <- <-.
    apply sequence_ok in E. destruct (forall2_single_maps kids l [] E IH) as (_ & Hv).
    split; [|now rewrite Hv].
    intro on. destruct (forall2_single_maps kids l on E IH) as (Hm & _).
    cbn [eval_impl]. unfold c_cond, cond_met.
    change (forallb (fun c : list N -> bool => c on) (map fst l))
      with (forallb (fun c : cfun => c on) (map fst l)).
    rewrite (forallb_id_map (map fst l) on), Hm, forallb_map.
    destruct (memb v on), neg; reflexivity.
  - destruct (sequence (map to_single kids)) as [l|e] eqn:E; [|discriminate]. cbn [bind] in H.
    destruct (nonempty l) as [l'|e] eqn:En; [|discriminate]. apply nonempty_ok in En. subst l'.
    cbn [bind] in H. injection H as <- <-.
    apply sequence_ok in E. destruct (forall2_single_maps kids l [] E IH) as (_ & Hv).
    split; [|now rewrite Hv].
    intro on. destruct (forall2_single_maps kids l on E IH) as (Hm & _).
    cbn [eval_impl]. unfold c_grp. cbv zeta.
    change (map (fun c : list N -> bool => c on) (map fst l))
      with (map (fun c : cfun => c on) (map fst l)).
    rewrite Hm. destruct k; reflexivity.
Qed.

Lemma single_local r c vs : to_single r = Ok (c, vs) -> local c vs.
Proof.
  intro H. destruct (single_sem r c vs H) as (Hc & ->).
  intros on on' Hv. rewrite !Hc. now apply eval_impl_local.
Qed.

(* what every compiled constraint list satisfies w.r.t. its tree *)
Definition multi_good (r : ru) (l : list constr) : Prop :=
  (forall on, forallb (fun p : constr => fst p on) l = eval_impl on r)
  /\ (forall c vs, In (c, vs) l -> local c vs /\ incl vs (flags r)).

Lemma multi_of_single r l : (bind (to_single r) (fun p => Ok [p])) = Ok l -> multi_good r l.
Proof.
  destruct (to_single r) as [[c vs]|e] eqn:E; [|discriminate]. cbn. intro H. injection H as <-.
  destruct (single_sem r c vs E) as (Hc & Hv). split.
  - intro on. cbn. now rewrite Hc, andb_true_r.
  - intros c' vs' [H|[]]. injection H as <- <-. split; [now apply (single_local r)|].
    rewrite Hv. apply incl_refl.
Qed.

Lemma multi_kids kids ls :
  Forall2 (fun x y => to_multi x = Ok y) kids ls ->
  Forall (fun r => forall l, to_multi r = Ok l -> multi_good r l) kids ->
  (forall on, forallb (fun p : constr => fst p on) (concat ls) = forallb (eval_impl on) kids)
  /\ (forall c vs, In (c, vs) (concat ls) -> local c vs /\ incl vs (concat (map flags kids))).
Proof.
  induction 1 as [|x l kids ls Hx Hl IH]; intro HF; cbn; [split; [reflexivity|intros ? ? []]|].
  inversion HF as [|? ? H1 H2]; subst. destruct (H1 l Hx) as (Ha & Hb). destruct (IH H2) as (Hc & Hd).
  split.
  - intro on. now rewrite forallb_app, Ha, Hc.
  - intros c vs H. apply in_app_or in H as [H|H].
    + destruct (Hb c vs H). split; [assumption|]. now apply incl_appl.
    + destruct (Hd c vs H). split; [assumption|]. now apply incl_appr.
Qed.

Lemma multi_sem r : forall l, to_multi r = Ok l -> multi_good r l.
Proof.
  induction r as [neg al vals|neg v kids IH|k neg kids IH] using ru_ind'; intros l H.
  - now apply multi_of_single.
  - cbn in H. destruct (sequence (map to_multi kids)) as [ls|e] eqn:E; [|discriminate].
    cbn in H. injection H as <-. apply sequence_ok in E.
    destruct (multi_kids kids ls E IH) as (Ha & Hb). split.
    + intro on. rewrite forallb_map. cbn [fst eval_impl]. unfold c_cond. cbn [forallb].
      rewrite (forallb_ext_in _ (fun p : constr => Bool.eqb (memb v on) neg || fst p on))
        by (intros; now rewrite andb_true_r).
      rewrite forallb_or_distr, Ha. unfold cond_met. destruct (memb v on), neg; reflexivity.
    + intros c vs Hin. apply in_map_iff in Hin as ([c0 vs0] & Heq & Hin). injection Heq as <- <-.
      destruct (Hb c0 vs0 Hin) as (Hl & Hi). split.
      * intros on on' Hv. unfold c_cond. cbn. rewrite (Hv v (or_introl eq_refl)).
        rewrite (Hl on on'); [reflexivity|]. intros w Hw. apply Hv. now right.
      * cbn. intros w [<-|Hw]; [now left | right; now apply Hi].
  - destruct k; try now apply multi_of_single.
    cbn in H. destruct neg; [discriminate|].
    destruct (sequence (map to_multi kids)) as [ls|e] eqn:E; [|discriminate].
    cbn in H. injection H as <-. apply sequence_ok in E.
    destruct (multi_kids kids ls E IH) as (Ha & Hb). split.
    + intro on. rewrite Ha. cbn. now rewrite forallb_map, xorb_false_r.
    + exact Hb.
Qed.

Lemma compile_sem rs cs : compile rs = Ok cs ->
  (forall on, forallb (fun p : constr => fst p on) cs = sat_impl rs on)
  /\ (forall c vs, In (c, vs) cs -> local c vs /\ incl vs (flags_all rs)).
Proof.
  unfold compile. destruct (sequence (map to_multi rs)) as [ls|e] eqn:E; [|discriminate].
  cbn. intro H. injection H as <-. apply sequence_ok in E.
  apply (multi_kids rs ls E). apply Forall_forall. intros r _ l. apply multi_sem.
Qed.

(* ================================================================== Part 3 *)
Lemma existsb_false {A} (f : A -> bool) l : existsb f l = false -> forall x, In x l -> f x = false.
Proof.
  intros H x Hx. destruct (f x) eqn:E; [|reflexivity].
  assert (existsb f l = true) by (apply existsb_exists; eauto). congruence.
Qed.

(* outside the known class the implication meaning IS the PMS meaning *)
Lemma pms_impl on r : cond_in_group r = false -> eval_pms on r = eval_impl on r.
Proof.
  induction r as [neg al vals|neg v kids IH|k neg kids IH] using ru_ind'; intro H; cbn in *.
  - reflexivity.
  - f_equal. apply forallb_ext_in. intros x Hx. rewrite Forall_forall in IH. apply (IH x Hx).
    now apply (existsb_false _ _ H).
  - apply orb_false_iff in H as (H1 & H2). rewrite Forall_forall in IH.
    assert (Hk : forall x, In x kids -> eval_pms on x = eval_impl on x)
      by (intros x Hx; apply (IH x Hx); now apply (existsb_false _ _ H2)).
    f_equal. destruct k.
    + cbn. f_equal. apply map_ext_in. intros x Hx. rewrite (Hk x Hx).
      assert (is_cond x = false) by now apply (existsb_false _ _ H1).
      destruct x; cbn in *; try discriminate; reflexivity.
    + cbn. rewrite forallb_map. now apply forallb_ext_in.
    + cbn. f_equal. f_equal. apply map_ext_in. intros x Hx. rewrite (Hk x Hx).
      assert (is_cond x = false) by now apply (existsb_false _ _ H1).
      destruct x; cbn in *; try discriminate; reflexivity.
    + cbn. f_equal. f_equal. apply map_ext_in. intros x Hx. rewrite (Hk x Hx).
      assert (is_cond x = false) by now apply (existsb_false _ _ H1).
      destruct x; cbn in *; try discriminate; reflexivity.
Qed.

Lemma sat_pms_impl rs on : known_class rs = false -> sat_pms rs on = sat_impl rs on.
Proof.
  intro H. apply forallb_ext_in. intros r Hr. apply pms_impl. now apply (existsb_false _ _ H).
Qed.

(* ================================================================== Part 4 *)
Definition mapd (d : list bool) (vs : list N) : list dom := map (fun v => (v, d)) vs.
Lemma keys_app p q : keys (p ++ q) = keys p ++ keys q.
Proof. unfold keys. apply map_app. Qed.
Lemma keys_mapd d vs : keys (mapd d vs) = vs.
Proof. unfold keys, mapd. rewrite map_map. cbn. apply map_id. Qed.

Lemma add_vars_ok d vs : forall p, NoDup vs -> (forall v, In v vs -> ~ In v (keys p)) ->
  add_vars d vs p = Ok (p ++ mapd d vs).
Proof.
  induction vs as [|a vs IH]; cbn; intros p Hn Hd.
  - now rewrite app_nil_r.
  - inversion Hn as [|? ? Ha Hn']; subst.
    destruct (memb a (keys p)) eqn:E.
    { apply memb_In in E. exfalso. apply (Hd a); [now left | assumption]. }
    rewrite IH; [now rewrite <- app_assoc | assumption |].
    intros v Hv Hin. rewrite keys_app in Hin. apply in_app_or in Hin as [Hin|[<-|[]]].
    + apply (Hd v); [now right | assumption].
    + contradiction.
Qed.
Lemma add_vars_fail d vs : forall p, (exists v, In v vs /\ In v (keys p)) -> add_vars d vs p = Fail EAssert.
Proof.
  induction vs as [|a vs IH]; cbn; intros p (v & Hv & Hk); [contradiction|].
  destruct (memb a (keys p)) eqn:E; [reflexivity|].
  apply IH. destruct Hv as [->|Hv].
  - apply memb_false in E. contradiction.
  - exists v. split; [assumption|]. rewrite keys_app. apply in_or_app. now left.
Qed.

Lemma nodup_app {A} (a b : list A) :
  NoDup a -> NoDup b -> (forall x, In x a -> ~ In x b) -> NoDup (a ++ b).
Proof.
  induction 1 as [|x a Hx Ha IH]; cbn; intros Hb Hd; [assumption|].
  constructor.
  - intro H. apply in_app_or in H as [H|H]; [contradiction | apply (Hd x); [now left | assumption]].
  - apply IH; [assumption | intros y Hy; apply Hd; now right].
Qed.

Section Domains.
  Variables iuse ft ff pt : list N.
  Let iu := dedup iuse.
  Definition dA := diff (diff (diff iu ft) ff) pt.
  Definition dB := diff (diff (inter iu pt) ff) ft.
  Definition dC := inter iu ff.
  Definition dD := inter iu ft.
  Definition p0 : list dom := mapd [true; false] dA ++ mapd [false; true] dB ++ mapd [false] dC ++ mapd [true] dD.

  Lemma in_dA v : In v dA <-> In v iuse /\ ~ In v ft /\ ~ In v ff /\ ~ In v pt.
  Proof. unfold dA, iu. rewrite !in_diff, in_dedup. tauto. Qed.
  Lemma in_dB v : In v dB <-> In v iuse /\ In v pt /\ ~ In v ff /\ ~ In v ft.
  Proof. unfold dB, iu. rewrite !in_diff, in_inter, in_dedup. tauto. Qed.
  Lemma in_dC v : In v dC <-> In v iuse /\ In v ff.
  Proof. unfold dC, iu. rewrite in_inter, in_dedup. tauto. Qed.
  Lemma in_dD v : In v dD <-> In v iuse /\ In v ft.
  Proof. unfold dD, iu. rewrite in_inter, in_dedup. tauto. Qed.

  Lemma nd_all : NoDup dA /\ NoDup dB /\ NoDup dC /\ NoDup dD.
  Proof.
    unfold dA, dB, dC, dD, diff, inter.
    repeat split; repeat apply nodup_filter; apply nodup_dedup.
  Qed.

  Lemma overlap_iff : overlap iuse ft ff = true <-> exists v, In v iuse /\ In v ft /\ In v ff.
  Proof.
    unfold overlap. rewrite existsb_exists. split.
    - intros (v & Hv & H). apply andb_true_iff in H as (H1 & H2). exists v.
      apply memb_In in H1, H2. tauto.
    - intros (v & H1 & H2 & H3). exists v. split; [assumption|].
      apply andb_true_iff. now rewrite !memb_In.
  Qed.

  Lemma keys_p0 : keys p0 = dA ++ dB ++ dC ++ dD.
  Proof. unfold p0. now rewrite !keys_app, !keys_mapd. Qed.

  Lemma domains_fail : overlap iuse ft ff = true -> domains iuse ft ff pt = Fail EAssert.
  Proof.
    intro H. apply overlap_iff in H as (v & H1 & H2 & H3).
    destruct nd_all as (NA & NB & NC & ND).
    unfold domains. fold iu. fold dA dB dC dD.
    rewrite add_vars_ok; [|assumption | intros ? ? []]. cbn [bind app].
    rewrite add_vars_ok; [|assumption|].
    2:{ intros w Hw. rewrite keys_mapd, in_dA. apply in_dB in Hw. tauto. }
    cbn [bind]. rewrite add_vars_ok; [|assumption|].
    2:{ intros w Hw. rewrite keys_app, !keys_mapd, in_app_iff, in_dA, in_dB. apply in_dC in Hw. tauto. }
    cbn [bind]. apply add_vars_fail. exists v. split; [now apply in_dD|].
    rewrite !keys_app, !keys_mapd, !in_app_iff. right. now apply in_dC.
  Qed.

  Lemma domains_ok : overlap iuse ft ff = false -> domains iuse ft ff pt = Ok p0.
  Proof.
    intro H.
    assert (Hno : forall v, In v iuse -> In v ft -> In v ff -> False).
    { intros v H1 H2 H3. assert (overlap iuse ft ff = true) by (apply overlap_iff; eauto). congruence. }
    destruct nd_all as (NA & NB & NC & ND).
    unfold domains. fold iu. fold dA dB dC dD.
    rewrite add_vars_ok; [|assumption | intros ? ? []]. cbn [bind app].
    rewrite add_vars_ok; [|assumption|].
    2:{ intros w Hw. rewrite keys_mapd, in_dA. apply in_dB in Hw. tauto. }
    cbn [bind]. rewrite add_vars_ok; [|assumption|].
    2:{ intros w Hw. rewrite keys_app, !keys_mapd, in_app_iff, in_dA, in_dB. apply in_dC in Hw. tauto. }
    cbn [bind]. rewrite add_vars_ok; [|assumption|].
    2:{ intros w Hw. rewrite !keys_app, !keys_mapd, !in_app_iff, in_dA, in_dB, in_dC. apply in_dD in Hw.
        intros [[K|K]|K]; [tauto | tauto | apply (Hno w); tauto]. }
    unfold p0. now rewrite <- !app_assoc.
  Qed.

  (* the domain the statement prescribes for an IUSE flag *)
  Definition dom_of (v : N) : list bool :=
    if memb v ft then [true] else if memb v ff then [false]
    else if memb v pt then [false; true] else [true; false].

  Lemma p0_props : overlap iuse ft ff = false ->
    NoDup (keys p0) /\ (forall v, In v (keys p0) <-> In v iuse)
    /\ (forall v d, In (v, d) p0 -> d = dom_of v).
  Proof.
    intro H.
    assert (Hno : forall v, In v iuse -> In v ft -> In v ff -> False).
    { intros v H1 H2 H3. assert (overlap iuse ft ff = true) by (apply overlap_iff; eauto). congruence. }
    destruct nd_all as (NA & NB & NC & ND). split; [|split].
    - rewrite keys_p0. apply nodup_app; [assumption| |].
      + apply nodup_app; [assumption| |].
        * apply nodup_app; [assumption|assumption|]. intros x Hx Hx'. apply in_dC in Hx. apply in_dD in Hx'.
          apply (Hno x); tauto.
        * intros x Hx Hx'. apply in_dB in Hx. rewrite in_app_iff, in_dC, in_dD in Hx'. tauto.
      + intros x Hx Hx'. apply in_dA in Hx. rewrite !in_app_iff, in_dB, in_dC, in_dD in Hx'. tauto.
    - intro v. rewrite keys_p0, !in_app_iff, in_dA, in_dB, in_dC, in_dD. split; [tauto|].
      intro Hv. destruct (memb v ft) eqn:E1; [apply memb_In in E1; tauto|]. apply memb_false in E1.
      destruct (memb v ff) eqn:E2; [apply memb_In in E2; tauto|]. apply memb_false in E2.
      destruct (memb v pt) eqn:E3; [apply memb_In in E3; tauto|]. apply memb_false in E3. tauto.
    - intros v d Hin. unfold p0, mapd in Hin. rewrite !in_app_iff, !in_map_iff in Hin. unfold dom_of.
      destruct Hin as [(w & Hw & K)|[(w & Hw & K)|[(w & Hw & K)|(w & Hw & K)]]]; injection Hw as -> <-.
      + apply in_dA in K. destruct K as (_ & K1 & K2 & K3).
        apply memb_false in K1, K2, K3. now rewrite K1, K2, K3.
      + apply in_dB in K. destruct K as (_ & K3 & K2 & K1).
        apply memb_false in K1, K2. apply memb_In in K3. now rewrite K1, K2, K3.
      + apply in_dC in K. destruct K as (K0 & K2).
        assert (K1 : ~ In v ft) by (intro; apply (Hno v); assumption).
        apply memb_false in K1. apply memb_In in K2. now rewrite K1, K2.
      + apply in_dD in K. destruct K as (_ & K1). apply memb_In in K1. now rewrite K1.
  Qed.
End Domains.

Lemma incl_keys p q : incl p q -> incl (keys p) (keys q).
Proof. intros H v Hv. unfold keys in *. apply in_map_iff in Hv as (x & <- & Hx). apply in_map. now apply H. Qed.

Lemma add_missing_props cs : forall p, NoDup (keys p) ->
  NoDup (keys (add_missing cs p)) /\ incl p (add_missing cs p)
  /\ (forall x, In x (add_missing cs p) ->
        In x p \/ (snd x = [false] /\ ~ In (fst x) (keys p)
                   /\ exists c vs, In (c, vs) cs /\ In (fst x) vs))
  /\ (forall c vs, In (c, vs) cs -> incl vs (keys (add_missing cs p))).
Proof.
  induction cs as [|[c0 vs0] cs IH]; intros p Hp; cbn [add_missing].
  - repeat split; [assumption | apply incl_refl | now left | intros ? ? []].
  - set (new := dedup (diff vs0 (keys p))).
    assert (Hn : NoDup (keys (p ++ mapd [false] new))).
    { rewrite keys_app, keys_mapd. apply nodup_app; [assumption | apply nodup_dedup |].
      intros x Hx Hx'. unfold new in Hx'. apply in_dedup, in_diff in Hx'. tauto. }
    destruct (IH _ Hn) as (H1 & H2 & H3 & H4). fold (mapd [false] new) in *.
    split; [assumption|]. split; [|split].
    + intros x Hx. apply H2. apply in_or_app. now left.
    + intros x Hx. destruct (H3 x Hx) as [K|(K1 & K2 & c & vs & K3 & K4)].
      * apply in_app_or in K as [K|K]; [now left|]. right.
        unfold mapd in K. apply in_map_iff in K as (v & <- & Hv). cbn.
        unfold new in Hv. apply in_dedup, in_diff in Hv. destruct Hv as (Hv1 & Hv2).
        repeat split; [assumption|]. exists c0, vs0. split; [now left | assumption].
      * right. split; [assumption|]. split.
        -- intro K. apply K2. rewrite keys_app. apply in_or_app. now left.
        -- exists c, vs. split; [now right | assumption].
    + intros c vs [K|K].
      * injection K as -> ->. intros v Hv. apply (incl_keys _ _ H2).
        rewrite keys_app, keys_mapd. apply in_or_app.
        destruct (memb v (keys p)) eqn:E; [left; now apply memb_In|].
        right. unfold new. apply in_dedup, in_diff. split; [assumption | now apply memb_false].
      * now apply (H4 c vs).
Qed.

(* ================================================================== Part 5 *)
Lemma enum_within : forall p a, In a (enum p) -> within p a.
Proof.
  induction p as [|[v d] p IH]; cbn; intros a H.
  - destruct H as [<-|[]]. constructor.
  - apply in_flat_map in H as (b & Hb & H). apply in_map_iff in H as (a' & <- & Ha').
    constructor; [cbn; split; [reflexivity | now apply in_rev] | now apply IH].
Qed.
Lemma within_enum : forall p a, within p a -> In a (enum p).
Proof.
  intros p a H. induction H as [|[v d] [w b] p' a' (H1 & H2) H IH]; cbn in *; [now left|].
  subst w. apply in_flat_map. exists b. split; [now apply -> in_rev | now apply in_map].
Qed.

Lemma nodup_flat_map {A B} (f : A -> list B) l :
  NoDup l -> (forall x, In x l -> NoDup (f x)) ->
  (forall x y z, In x l -> In y l -> x <> y -> In z (f x) -> In z (f y) -> False) ->
  NoDup (flat_map f l).
Proof.
  induction 1 as [|x l Hx Hl IH]; cbn; intros Hf Hd; [constructor|].
  apply nodup_app.
  - apply Hf. now left.
  - apply IH; [intros; apply Hf; now right | intros a b z Ha Hb; apply Hd; now right].
  - intros z Hz Hz'. apply in_flat_map in Hz' as (y & Hy & Hz').
    apply (Hd x y z); [now left | now right | intro; subst; contradiction | assumption | assumption].
Qed.

Lemma nodup_b_rev d : nodup_b d = true -> NoDup (rev d).
Proof.
  destruct d as [|a [|b [|c d]]]; cbn; intro H; try discriminate.
  - constructor.
  - constructor; [intros [] | constructor].
  - constructor; [|constructor; [intros [] | constructor]].
    intros [->|[]]. destruct b; discriminate.
Qed.

Lemma nodup_enum p : (forall d, In d p -> nodup_b (snd d) = true) -> NoDup (enum p).
Proof.
  induction p as [|[v d] p IH]; cbn; intro H; [constructor; [intros []|constructor]|].
  apply nodup_flat_map.
  - apply nodup_b_rev. apply (H (v, d)). now left.
  - intros b _. apply FinFun.Injective_map_NoDup; [intros x y E; now injection E|].
    apply IH. intros; apply H; now right.
  - intros x y z _ _ Hxy Hx Hy. apply in_map_iff in Hx as (a1 & <- & _).
    apply in_map_iff in Hy as (a2 & E & _). injection E as E _. congruence.
Qed.

Lemma enum_head : forall p a, last_assign p = Some a -> exists t, enum p = a :: t.
Proof.
  induction p as [|[v d] p IH]; cbn; intros a H.
  - injection H as <-. now exists [].
  - destruct (rev d) as [|b bs]; [discriminate|].
    destruct (last_assign p) as [a'|]; [|discriminate]. injection H as <-.
    destruct (IH a' eq_refl) as (t & ->). cbn. eexists. reflexivity.
Qed.

Lemma solve_ref_S : S solve_ref.
Proof.
  intros p cs (Hk & Hd & Hv). unfold solve_ref. split; [|split].
  - apply nodup_filter. now apply nodup_enum.
  - intro a. rewrite filter_In. split; intros (H1 & H2); split; try assumption.
    + now apply enum_within.
    + now apply within_enum.
  - intros a Ha Hs. destruct (enum_head p a Ha) as (t & ->). cbn. now rewrite Hs.
Qed.

(* the contract is not vacuous: a problem with solutions, a non-solution, and the preferred one first *)
Example solve_ref_example :
  solve_ref [(0, [true; false]); (1, [false; true])]%N
            [((fun on => memb 0%N on || memb 1%N on), [0; 1]%N)]
  = [[(0, false); (1, true)]; [(0, true); (1, true)]; [(0, true); (1, false)]]%N.
Proof. reflexivity. Qed.

(* ================================================================== Part 6 *)
Lemma problem_inv rs iuse ft ff pt p cs :
  problem rs iuse ft ff pt = Ok (p, cs) ->
  overlap iuse ft ff = false /\ compile rs = Ok cs /\ p = add_missing cs (p0 iuse ft ff pt).
Proof.
  unfold problem. destruct (overlap iuse ft ff) eqn:E.
  - rewrite domains_fail by assumption. discriminate.
  - rewrite domains_ok by assumption. cbn [bind].
    destruct (compile rs) as [cs'|e]; [|discriminate]. cbn. intro H. injection H as <- <-. auto.
Qed.
Lemma problem_ok rs iuse ft ff pt cs :
  overlap iuse ft ff = false -> compile rs = Ok cs ->
  problem rs iuse ft ff pt = Ok (add_missing cs (p0 iuse ft ff pt), cs).
Proof. intros H1 H2. unfold problem. now rewrite domains_ok, H2. Qed.

(* well-formed trees compile *)
Lemma single_total r : wf_ru r = true -> exists p, to_single r = Ok p.
Proof.
  induction r as [neg al vals|neg v kids IH|k neg kids IH] using ru_ind'; cbn; intro H.
  - apply andb_true_iff in H as (H & _). apply negb_true_iff in H. rewrite H. now eexists.
  - apply andb_true_iff in H as (H1 & H2). rewrite Forall_forall in IH. rewrite forallb_forall in H2.
    destruct (sequence_all_ok to_single kids) as (t & Ht); [intros x Hx; apply IH; auto|].
    rewrite Ht. cbn [bind]. destruct t as [|q t].
    + apply sequence_ok in Ht. inversion Ht; subst. discriminate.
    + cbn. now eexists.
  - apply andb_true_iff in H as (H1 & H2). rewrite Forall_forall in IH. rewrite forallb_forall in H2.
    destruct (sequence_all_ok to_single kids) as (t & Ht); [intros x Hx; apply IH; auto|].
    rewrite Ht. cbn [bind]. destruct t as [|q t].
    + apply sequence_ok in Ht. inversion Ht; subst. discriminate.
    + cbn. now eexists.
Qed.
Lemma multi_total r : wf_ru r = true -> spine_ok r = true -> exists l, to_multi r = Ok l.
Proof.
  induction r as [neg al vals|neg v kids IH|k neg kids IH] using ru_ind'; intros H Hs.
  - destruct (single_total _ H) as (p & Hp). cbn [to_multi]. rewrite Hp. now eexists.
  - cbn in H, Hs. apply andb_true_iff in H as (H1 & H2). rewrite Forall_forall in IH.
    rewrite forallb_forall in H2, Hs.
    destruct (sequence_all_ok to_multi kids) as (t & Ht); [intros x Hx; apply IH; auto|].
    cbn. rewrite Ht. now eexists.
  - destruct k; try (destruct (single_total _ H) as (p & Hp); cbn [to_multi]; rewrite Hp; now eexists).
    cbn in H, Hs. apply andb_true_iff in H as (H1 & H2). apply andb_true_iff in Hs as (Hn & Hs).
    apply negb_true_iff in Hn. subst neg. rewrite Forall_forall in IH. rewrite forallb_forall in H2, Hs.
    destruct (sequence_all_ok to_multi kids) as (t & Ht); [intros x Hx; apply IH; auto|].
    cbn. rewrite Ht. now eexists.
Qed.
Lemma compile_total rs : wf_all rs = true -> exists cs, compile rs = Ok cs.
Proof.
  intro H. unfold wf_all in H. rewrite forallb_forall in H. unfold compile.
  destruct (sequence_all_ok to_multi rs) as (t & ->); [|now eexists].
  intros x Hx. apply H in Hx. apply andb_true_iff in Hx as (H1 & H2). now apply multi_total.
Qed.

(* every compiled constraint has a variable *)
Lemma wf_flags r : wf_ru r = true -> flags r <> [].
Proof.
  induction r as [neg al vals|neg v kids IH|k neg kids IH] using ru_ind'; cbn; intro H.
  - apply andb_true_iff in H as (_ & H). destruct vals; [discriminate | discriminate].
  - discriminate.
  - apply andb_true_iff in H as (H1 & H2). destruct kids as [|x kids]; [discriminate|].
    cbn in *. apply andb_true_iff in H2 as (H2 & _). inversion IH; subst.
    intro K. apply app_eq_nil in K as (K & _). now apply (H3 H2).
Qed.
Lemma multi_vars r : forall l, wf_ru r = true -> to_multi r = Ok l ->
  forall c vs, In (c, vs) l -> vs <> [].
Proof.
  assert (SINGLE : forall r1 l1, wf_ru r1 = true -> bind (to_single r1) (fun p => Ok [p]) = Ok l1 ->
                   forall c vs, In (c, vs) l1 -> vs <> []).
  { intros r1 l1 Hw H c vs Hin. destruct (to_single r1) as [[c0 vs0]|e] eqn:E; [|discriminate].
    cbn in H. injection H as <-. destruct Hin as [Hin|[]]. injection Hin as <- <-.
    destruct (single_sem r1 c0 vs0 E) as (_ & ->). now apply wf_flags. }
  induction r as [neg al vals|neg v kids IH|k neg kids IH] using ru_ind'; intros l Hw H c vs Hin.
  - now apply (SINGLE _ l Hw H c vs).
  - cbn in H. destruct (sequence (map to_multi kids)) as [ls|e]; [|discriminate].
    cbn in H. injection H as <-. apply in_map_iff in Hin as ([c0 vs0] & E & _). injection E as _ <-. discriminate.
  - destruct k; try now apply (SINGLE _ l Hw H c vs).
    cbn in H, Hw. destruct neg; [discriminate|].
    destruct (sequence (map to_multi kids)) as [ls|e] eqn:E; [|discriminate].
    cbn in H. injection H as <-. apply sequence_ok in E.
    apply andb_true_iff in Hw as (_ & Hw). rewrite forallb_forall in Hw.
    apply in_concat in Hin as (l0 & Hl0 & Hin).
    clear -E IH Hw Hl0 Hin. induction E as [|x y kids ls Hxy E IHE]; [contradiction|].
    inversion IH as [|? ? I1 I2]; subst. destruct Hl0 as [<-|Hl0].
    + apply (I1 y (Hw x (or_introl eq_refl)) Hxy c vs Hin).
    + apply IHE; [assumption | intros; apply Hw; now right | assumption].
Qed.
Lemma compile_vars rs cs : wf_all rs = true -> compile rs = Ok cs ->
  forall c, In c cs -> has_vars c = true.
Proof.
  unfold compile, wf_all. intros Hw H [c vs] Hin. rewrite forallb_forall in Hw.
  destruct (sequence (map to_multi rs)) as [ls|e] eqn:E; [|discriminate].
  cbn in H. injection H as <-. apply sequence_ok in E.
  apply in_concat in Hin as (l0 & Hl0 & Hin).
  assert (vs <> []).
  { clear -E Hw Hl0 Hin. induction E as [|x y rs ls Hxy E IHE]; [contradiction|].
    destruct Hl0 as [<-|Hl0].
    - pose proof (Hw x (or_introl eq_refl)) as K. apply andb_true_iff in K as (K & _).
      apply (multi_vars x y K Hxy c vs Hin).
    - apply IHE; [intros; apply Hw; now right | assumption]. }
  unfold has_vars. cbn. destruct vs; [contradiction | reflexivity].
Qed.

Lemma memb_filter v (f : N -> bool) l : memb v (filter f l) = memb v l && f v.
Proof.
  induction l as [|x l IH]; [reflexivity|]. cbn [filter].
  change (memb v (x :: l)) with (N.eqb v x || memb v l).
  destruct (f x) eqn:E.
  - change (memb v (x :: filter f l)) with (N.eqb v x || memb v (filter f l)). rewrite IH.
    destruct (N.eqb v x) eqn:Ev; cbn; [apply N.eqb_eq in Ev; subst; now rewrite E | reflexivity].
  - rewrite IH. destruct (N.eqb v x) eqn:Ev; cbn; [|reflexivity].
    apply N.eqb_eq in Ev; subst. rewrite E. now rewrite andb_false_r.
Qed.

(* the solver's reading of the compiled constraints = the implication meaning of the tree *)
Lemma sat_all_sem rs cs : wf_all rs = true -> compile rs = Ok cs ->
  forall a, sat_all cs a = sat_impl rs (on_of a).
Proof.
  intros Hw Hc a. destruct (compile_sem rs cs Hc) as (Hs & Hl). rewrite <- Hs.
  unfold sat_all. apply forallb_ext_in. intros [c vs] Hin.
  rewrite (compile_vars rs cs Hw Hc _ Hin). cbn [implb]. unfold sat1. cbn [fst snd].
  destruct (Hl c vs Hin) as (Hloc & _). apply Hloc. intros v Hv.
  rewrite memb_filter. apply memb_In in Hv. now rewrite Hv.
Qed.

(* ---- the domains of the final problem *)
Definition dom_final (iuse ft ff pt : list N) (v : N) : list bool :=
  if memb v iuse then dom_of ft ff pt v else [false].

Lemma final_props rs iuse ft ff pt p cs :
  problem rs iuse ft ff pt = Ok (p, cs) ->
  NoDup (keys p) /\ incl iuse (keys p) /\ incl (keys p) (iuse ++ flags_all rs)
  /\ (forall v d, In (v, d) p -> d = dom_final iuse ft ff pt v)
  /\ (forall c vs, In (c, vs) cs -> incl vs (keys p)).
Proof.
  intro H. apply problem_inv in H as (Ho & Hc & ->).
  destruct (p0_props iuse ft ff pt Ho) as (P1 & P2 & P3).
  destruct (add_missing_props cs _ P1) as (A1 & A2 & A3 & A4).
  destruct (compile_sem rs cs Hc) as (_ & Hl).
  split; [assumption|]. split; [|split; [|split]].
  - intros v Hv. apply (incl_keys _ _ A2). now apply P2.
  - intros v Hv. unfold keys in Hv. apply in_map_iff in Hv as (x & <- & Hx).
    apply in_or_app. destruct (A3 x Hx) as [K|(_ & _ & c & vs & K1 & K2)].
    + left. apply P2. unfold keys. now apply in_map.
    + right. destruct (Hl c vs K1) as (_ & Hi). now apply Hi.
  - intros v d Hin. unfold dom_final. destruct (A3 _ Hin) as [K|(K1 & K2 & _)]; cbn in *.
    + assert (In v iuse) by (apply P2; unfold keys; apply (in_map fst _ _ K)).
      apply memb_In in H. rewrite H. now apply P3.
    + assert (~ In v iuse) by (intro; apply K2; now apply P2).
      apply memb_false in H. now rewrite H.
  - assumption.
Qed.

Lemma problem_wf rs iuse ft ff pt p cs :
  problem rs iuse ft ff pt = Ok (p, cs) -> wf_problem p cs.
Proof.
  intro H. destruct (final_props _ _ _ _ _ _ _ H) as (F1 & _ & _ & F4 & F5).
  split; [assumption|]. split.
  - intros [v d] Hin. rewrite (F4 v d Hin). cbn. unfold dom_final, dom_of.
    destruct (memb v iuse), (memb v ft), (memb v ff), (memb v pt); reflexivity.
  - intros [c vs] v Hc Hv. now apply (F5 c vs Hc).
Qed.

(* membership in the prescribed domain = what the statement allows for the flag *)
Definition allowed1 (iuse ft ff : list N) (x : N * bool) : bool :=
  let (v, b) := x in
  if memb v iuse
  then (if memb v ft then b else true) && (if memb v ff then negb b else true)
  else negb b.
Lemma allowed_forallb iuse ft ff a : allowed iuse ft ff a = forallb (allowed1 iuse ft ff) a.
Proof. reflexivity. Qed.

Lemma in_dom_allowed iuse ft ff pt v b :
  (memb v iuse && memb v ft && memb v ff = false) ->
  (In b (dom_final iuse ft ff pt v) <-> allowed1 iuse ft ff (v, b) = true).
Proof.
  unfold dom_final, dom_of, allowed1.
  destruct (memb v iuse), (memb v ft), (memb v ff), (memb v pt), b; cbn; intro H;
    try discriminate; intuition congruence.
Qed.

Lemma no_overlap_pt iuse ft ff v : overlap iuse ft ff = false -> memb v iuse && memb v ft && memb v ff = false.
Proof.
  intro H. destruct (memb v iuse) eqn:E1, (memb v ft) eqn:E2, (memb v ff) eqn:E3; try reflexivity.
  apply memb_In in E1. assert (overlap iuse ft ff = true); [|congruence].
  unfold overlap. apply existsb_exists. exists v. now rewrite E2, E3.
Qed.

Lemma within_iff rs iuse ft ff pt p cs a :
  problem rs iuse ft ff pt = Ok (p, cs) ->
  (within p a <-> map fst a = keys p /\ allowed iuse ft ff a = true).
Proof.
  intro H. destruct (final_props _ _ _ _ _ _ _ H) as (_ & _ & _ & F4 & _).
  apply problem_inv in H as (Ho & _ & _). clear cs rs.
  rewrite allowed_forallb. revert a F4. induction p as [|[v d] p IH]; intros a F4.
  - split.
    + intro W. inversion W; subst. now split.
    + intros (E & _). destruct a; [constructor | discriminate].
  - assert (Hd : d = dom_final iuse ft ff pt v) by (apply F4; now left).
    assert (F4' : forall v d, In (v, d) p -> d = dom_final iuse ft ff pt v)
      by (intros; apply F4; now right).
    split.
    + intro W. inversion W as [|? [w b] ? a' (W1 & W2) W3]; subst. cbn in *. subst w.
      destruct (proj1 (IH a' F4') W3) as (E1 & E2). rewrite E1, E2, andb_true_r.
      split; [reflexivity|]. apply (in_dom_allowed iuse ft ff pt); [now apply no_overlap_pt | assumption].
    + intros (E & A). destruct a as [|[w b] a']; [discriminate|]. cbn in E, A.
      injection E as -> E. apply andb_true_iff in A as (A1 & A2).
      constructor; [|apply IH; auto]. cbn. split; [reflexivity|]. rewrite Hd.
      apply (in_dom_allowed iuse ft ff pt); [now apply no_overlap_pt | assumption].
Qed.

Lemma last_assign_pref iuse ft ff pt p :
  overlap iuse ft ff = false ->
  (forall v d, In (v, d) p -> d = dom_final iuse ft ff pt v) ->
  last_assign p = Some (pref_assign iuse ft ff pt (keys p)).
Proof.
  intros Ho. induction p as [|[v d] p IH]; intro F4; [reflexivity|].
  cbn. rewrite IH by (intros; apply F4; now right).
  rewrite (F4 v d (or_introl eq_refl)). unfold pref_assign. cbn. f_equal. f_equal. f_equal.
  pose proof (no_overlap_pt iuse ft ff v Ho) as K.
  unfold dom_final, dom_of, pref_val.
  destruct (memb v iuse), (memb v ft), (memb v ff), (memb v pt); cbn in *; try discriminate; reflexivity.
Qed.

(* ---- the theorems under the contract, for the implication meaning *)
Section UnderContract.
  Variable solve : solver.
  Hypothesis HS : S solve.

  Lemma solutions_exact rs iuse ft ff pt p cs :
    wf_all rs = true -> problem rs iuse ft ff pt = Ok (p, cs) ->
    NoDup (solve p cs)
    /\ (forall a, In a (solve p cs) <->
                  map fst a = keys p /\ allowed iuse ft ff a = true /\ sat_impl rs (on_of a) = true)
    /\ (sat_impl rs (on_of (pref_assign iuse ft ff pt (keys p))) = true ->
        hd_error (solve p cs) = Some (pref_assign iuse ft ff pt (keys p))).
  Proof.
    intros Hw H. destruct (HS p cs (problem_wf _ _ _ _ _ _ _ H)) as (S1 & S2 & S3).
    pose proof (problem_inv _ _ _ _ _ _ _ H) as (Ho & Hc & _).
    destruct (final_props _ _ _ _ _ _ _ H) as (_ & _ & _ & F4 & _).
    split; [assumption|]. split.
    - intro a. rewrite S2, (within_iff _ _ _ _ _ _ _ a H), (sat_all_sem rs cs Hw Hc). tauto.
    - intro Hp. apply S3; [now apply (last_assign_pref iuse ft ff pt)|].
      now rewrite (sat_all_sem rs cs Hw Hc).
  Qed.

  Lemma sound_proof : sound_stmt solve outside_known.
  Proof.
    intros rs iuse ft ff pt p cs a Hk Hw H Hin.
    destruct (solutions_exact _ _ _ _ _ _ _ Hw H) as (_ & E & _).
    apply E in Hin as (_ & _ & Hs). now rewrite sat_pms_impl.
  Qed.
  Lemma forced_proof : forced_stmt solve everything.
  Proof.
    intros rs iuse ft ff pt p cs a _ Hw H Hin.
    destruct (solutions_exact _ _ _ _ _ _ _ Hw H) as (_ & E & _).
    apply E in Hin. tauto.
  Qed.
  Lemma complete_proof : complete_stmt solve outside_known.
  Proof.
    intros rs iuse ft ff pt p cs Hk Hw H.
    destruct (solutions_exact _ _ _ _ _ _ _ Hw H) as (N & E & _).
    split; [assumption|]. intros a A1 A2 A3. apply E. rewrite <- sat_pms_impl by assumption. auto.
  Qed.
  Lemma preferred_proof : preferred_stmt solve outside_known.
  Proof.
    intros rs iuse ft ff pt p cs Hk Hw H Hp.
    destruct (solutions_exact _ _ _ _ _ _ _ Hw H) as (_ & _ & F). apply F.
    now rewrite <- sat_pms_impl.
  Qed.
End UnderContract.

(* ---- the compilation theorem *)
Lemma constraint_is_impl rs cs on :
  compile rs = Ok cs -> forallb (fun c : constr => fst c on) cs = sat_impl rs on.
Proof. intro H. destruct (compile_sem rs cs H) as (K & _). apply K. Qed.
Lemma constraints_local rs cs c vs :
  compile rs = Ok cs -> In (c, vs) cs -> local c vs /\ incl vs (flags_all rs).
Proof. intros H Hin. destruct (compile_sem rs cs H) as (_ & K). now apply K. Qed.
Lemma constraint_is_match_partial_proof : cim_stmt outside_known.
Proof. intros rs cs on Hk H. rewrite sat_pms_impl by assumption. now apply constraint_is_impl. Qed.

(* ---- the error branch *)
Lemma precondition_error_proof solve rs iuse ft ff pt :
  overlap iuse ft ff = true -> fcs solve rs iuse ft ff pt = Fail EAssert.
Proof. intro H. unfold fcs, problem. now rewrite domains_fail. Qed.
Lemma no_error_proof solve rs iuse ft ff pt :
  overlap iuse ft ff = false -> wf_all rs = true ->
  exists p cs, problem rs iuse ft ff pt = Ok (p, cs) /\ fcs solve rs iuse ft ff pt = Ok (solve p cs).
Proof.
  intros Ho Hw. destruct (compile_total rs Hw) as (cs & Hc).
  exists (add_missing cs (p0 iuse ft ff pt)), cs.
  pose proof (problem_ok rs iuse ft ff pt cs Ho Hc) as K. split; [assumption|].
  unfold fcs. now rewrite K.
Qed.
Lemma overlap_sets iuse ft ff :
  overlap iuse ft ff = true <-> exists v, In v iuse /\ In v ft /\ In v ff.
Proof. apply overlap_iff. Qed.
Lemma variables_proof rs iuse ft ff pt p cs :
  problem rs iuse ft ff pt = Ok (p, cs) ->
  NoDup (keys p) /\ incl iuse (keys p) /\ incl (keys p) (iuse ++ flags_all rs).
Proof. intro H. destruct (final_props _ _ _ _ _ _ _ H) as (A & B & C & _). auto. Qed.

(* ---- Permutation form of completeness *)
Lemma within_all ks a : within (map (fun v => (v, [true; false])) ks) a <-> map fst a = ks.
Proof.
  revert a. induction ks as [|k ks IH]; intro a; cbn.
  - split; [intro W; inversion W; reflexivity | intro E; destruct a; [constructor|discriminate]].
  - split.
    + intro W. inversion W as [|? [w b] ? a' (W1 & W2) W3]; subst. cbn in *. subst. f_equal. now apply IH.
    + intro E. destruct a as [|[w b] a']; [discriminate|]. cbn in E. injection E as -> E.
      constructor; [|now apply IH]. cbn. split; [reflexivity|]. destruct b; cbn; auto.
Qed.
Lemma complete_perm_proof solve : S solve -> complete_perm_stmt solve outside_known.
Proof.
  intros HS rs iuse ft ff pt p cs Hk Hw H.
  destruct (solutions_exact solve HS _ _ _ _ _ _ _ Hw H) as (N & E & _).
  apply NoDup_Permutation; [assumption | |].
  - apply nodup_filter. unfold all_assign. apply nodup_enum.
    intros d Hd. apply in_map_iff in Hd as (v & <- & _). reflexivity.
  - intro a. rewrite E, filter_In, andb_true_iff. unfold all_assign.
    rewrite (sat_pms_impl rs _ Hk). split.
    + intros (A1 & A2 & A3). split; [|auto]. apply within_enum. now apply within_all.
    + intros (A1 & A2 & A3). split; [|auto]. apply enum_within in A1. now apply within_all in A1.
Qed.

(* ---- inside the known class the full statements are false (finding cond-member-of-group) *)
Definition rs_or : list ru := [Grp KOr false [Cond false 0%N [Flag false false [1%N]]; Flag false false [2%N]]].
Definition rs_one : list ru := [Grp KOne false [Cond false 0%N [Flag false false [1%N]]; Flag false false [2%N]]].
Definition pc_of (rs : list ru) (iuse pt : list N) : list dom * list constr :=
  match problem rs iuse [] [] pt with Ok pc => pc | Fail _ => ([], []) end.

Example witnesses_in_class : known_class rs_or = true /\ known_class rs_one = true
  /\ wf_all rs_or = true /\ wf_all rs_one = true.
Proof. repeat split. Qed.

Lemma constraint_is_match_refuted_proof : ~ cim_stmt everything.
Proof.
  intro H.
  assert (E : compile rs_or = Ok (match compile rs_or with Ok c => c | Fail _ => [] end))
    by (vm_compute; reflexivity).
  specialize (H rs_or _ [] I E). vm_compute in H. discriminate.
Qed.

Lemma sound_refuted_proof solve : S solve -> ~ sound_stmt solve everything.
Proof.
  intros HS H.
  set (pc := pc_of rs_or [0;1;2]%N []).
  assert (E : problem rs_or [0;1;2]%N [] [] [] = Ok (fst pc, snd pc)) by (vm_compute; reflexivity).
  set (a0 := map (fun v => (v, false)) (keys (fst pc))).
  assert (Hin : In a0 (solve (fst pc) (snd pc))).
  { destruct (solutions_exact solve HS _ _ _ _ _ _ _ (eq_refl : wf_all rs_or = true) E) as (_ & K & _).
    apply K. repeat split. }
  specialize (H rs_or [0;1;2]%N [] [] [] (fst pc) (snd pc) a0 I eq_refl E Hin). vm_compute in H. discriminate.
Qed.

Lemma complete_refuted_proof solve : S solve -> ~ complete_stmt solve everything.
Proof.
  intros HS H.
  set (pc := pc_of rs_one [0;1;2]%N []).
  assert (E : problem rs_one [0;1;2]%N [] [] [] = Ok (fst pc, snd pc)) by (vm_compute; reflexivity).
  set (a1 := map (fun v => (v, N.eqb v 2)) (keys (fst pc))).
  destruct (H rs_one [0;1;2]%N [] [] [] (fst pc) (snd pc) I eq_refl E) as (_ & K).
  assert (Hin : In a1 (solve (fst pc) (snd pc))) by (apply K; reflexivity).
  destruct (solutions_exact solve HS _ _ _ _ _ _ _ (eq_refl : wf_all rs_one = true) E) as (_ & K2 & _).
  apply K2 in Hin as (_ & _ & Hs). vm_compute in Hs. discriminate.
Qed.

Lemma preferred_refuted_proof solve : S solve -> ~ preferred_stmt solve everything.
Proof.
  intros HS H.
  set (pc := pc_of rs_one [0;1;2]%N [2]%N).
  assert (E : problem rs_one [0;1;2]%N [] [] [2]%N = Ok (fst pc, snd pc)) by (vm_compute; reflexivity).
  specialize (H rs_one [0;1;2]%N [] [] [2]%N (fst pc) (snd pc) I eq_refl E eq_refl).
  destruct (solutions_exact solve HS _ _ _ _ _ _ _ (eq_refl : wf_all rs_one = true) E) as (_ & K2 & _).
  assert (Hin : In (pref_assign [0;1;2]%N [] [] [2]%N (keys (fst pc))) (solve (fst pc) (snd pc))).
  { destruct (solve (fst pc) (snd pc)) as [|x t]; [discriminate|]. cbn in H. injection H as ->. now left. }
  apply K2 in Hin as (_ & _ & Hs). vm_compute in Hs. discriminate.
Qed.

(* non-vacuity of the hypotheses of the positive theorems: a tree outside the known class with a
   nested conditional, ^^ and ??, several solutions, a non-solution, forced and preferred flags *)
Example positive_example :
  let rs := [Cond false 0%N [Grp KOne false [Flag false false [1%N]; Flag true false [2%N]]];
             Grp KAmo false [Flag false false [0%N]; Flag false false [3%N]]] in
  known_class rs = false /\ wf_all rs = true
  /\ run_fcs (rs, ([0;1;2;3]%N, [0]%N, [], [2]%N))
     = VL [VB false; VL [VL [VZ 15; VZ 1]; VL [VZ 15; VZ 7]]].
Proof. vm_compute. repeat split. Qed.

Lemma precondition_error_sets solve rs iuse ft ff pt :
  (exists v, In v iuse /\ In v ft /\ In v ff) -> fcs solve rs iuse ft ff pt = Fail EAssert.
Proof. intro H. apply precondition_error_proof. now apply overlap_sets. Qed.
Lemma solutions_exact_impl_proof : forall solve, S solve -> exact_impl_stmt solve.
Proof. intros solve HS rs iuse ft ff pt p cs. now apply solutions_exact. Qed.
