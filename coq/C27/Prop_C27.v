(* Prop_C27.v — the property theorems of C27 and nothing else. *)
From Coq Require Import List NArith ZArith Bool.
Import ListNotations.
From Verif Require Import Base.Val C18.Fs C27.Model_C27 C27.Spec_C27 C27.Lemmas_C27 C27.Roundtrip_C27 C27.Proofs_C27 C27.Faults_C27.

(* storing an entry and reading it back: every known key, the eclass data and the validation
   value are the ones stored (plain values modulo trailing blanks), nothing else appears *)
Theorem cache_roundtrip : forall lay e c,
  wf_entry e -> chf e = Some c ->
  exists content d,
    serialize lay e = Some content /\ parse lay content = inl d /\
    forall k, dget k d = expected_value lay e k.
Proof. exact cache_roundtrip_proof. Qed.
Print Assumptions cache_roundtrip.

(* The store is the system-call list store_ops: mkdirs; create staging file; the flushes [chunks]
   of the buffered text (any schedule; concat chunks is the text); chown; chmod; rename.
   At every crash point k of a store, every path other than the target and the staging file
   is untouched (or is a directory the store created), and the target holds its old node or
   the complete new file *)
Theorem store_frame : forall s loc pid gid cpv chunks k,
  cpv <> [] ->
  let tmp := tmp_path loc pid cpv in
  let target := target_path loc cpv in
  let ops := store_ops s loc pid gid cpv chunks in
  let sk := run (firstn k ops) s in
  (forall q, q <> target -> q <> tmp ->
     lookup sk q = lookup s q \/ (lookup s q = None /\ is_dir_opt (lookup sk q))) /\
  (lookup sk target = lookup s target \/
   (exists i, lookup sk target = Some (new_node (concat chunks) gid i)) /\ lookup sk tmp = None /\ (length ops <= k)%nat).
Proof. exact store_frame_proof. Qed.
Print Assumptions store_frame.

(* readers of the entry being stored see the previous result or the complete new one *)
Theorem store_atomic : forall lay s loc pid gid cpv chunks k,
  cpv <> [] ->
  let ops := store_ops s loc pid gid cpv chunks in
  let sk := run (firstn k ops) s in
  read_entry lay sk loc cpv = read_entry lay s loc cpv \/
  ((length ops <= k)%nat /\ read_entry lay sk loc cpv = parse lay (concat chunks)).
Proof. exact store_atomic_proof. Qed.
Print Assumptions store_atomic.

(* readers of any other existing entry are unaffected *)
Theorem store_others : forall lay s loc pid gid cpv chunks k cpv',
  cpv <> [] -> cpv' <> cpv -> target_path loc cpv' <> tmp_path loc pid cpv ->
  lookup s (target_path loc cpv') <> None ->
  let sk := run (firstn k (store_ops s loc pid gid cpv chunks)) s in
  read_entry lay sk loc cpv' = read_entry lay s loc cpv'.
Proof. exact store_others_proof. Qed.
Print Assumptions store_others.

(* the listing (with the '.update.' filter) never reports a partial entry: every key listed at
   a crash point was listed before the store, or is the stored cpv with its complete new entry *)
Theorem listing_no_partial : forall lay s loc pid gid cpv chunks k,
  cpv <> [] ->
  let sk := run (firstn k (store_ops s loc pid gid cpv chunks)) s in
  listing_ok lay s sk loc cpv (parse lay (concat chunks)).
Proof. exact listing_no_partial_proof. Qed.
Print Assumptions listing_no_partial.

Theorem listing_keeps_committed : forall s loc pid gid cpv chunks k key,
  cpv <> [] ->
  let sk := run (firstn k (store_ops s loc pid gid cpv chunks)) s in
  In key (keys s loc) -> In key (keys sk loc).
Proof. exact listing_keeps_proof. Qed.
Print Assumptions listing_keeps_committed.

(* without the filter (the pinned tree) the listing statement is false *)
Theorem listing_unrepaired_refuted : ~ listing_ok_unrepaired.
Proof. exact listing_unrepaired_refuted_proof. Qed.
Print Assumptions listing_unrepaired_refuted.

(* FAULTS: a system call of the store raises OSError (EIO, ENOSPC, EXDEV, EACCES ...) instead of
   being performed and _setitem's error handling runs (eio_ops: a failing rename removes the
   STAGING file; a failing chown/chmod is ignored; everything else propagates).  For every
   faulted call k, every flush schedule and every filesystem state: *)
Theorem eio_framed : forall s loc pid gid cpv chunks k,
  cpv <> [] ->
  framed s (run (eio_ops s loc pid gid cpv chunks k) s)
         (tmp_path loc pid cpv) (target_path loc cpv) (concat chunks).
Proof. exact eio_framed_proof. Qed.
Print Assumptions eio_framed.

(* readers of the entry see the previous result or the complete new one *)
Theorem store_fault_atomic : forall lay s loc pid gid cpv chunks k,
  cpv <> [] ->
  let sk := run (eio_ops s loc pid gid cpv chunks k) s in
  read_entry lay sk loc cpv = read_entry lay s loc cpv \/
  read_entry lay sk loc cpv = parse lay (concat chunks).
Proof. exact store_fault_atomic_proof. Qed.
Print Assumptions store_fault_atomic.

Theorem store_fault_others : forall lay s loc pid gid cpv chunks k cpv',
  cpv <> [] -> cpv' <> cpv -> target_path loc cpv' <> tmp_path loc pid cpv ->
  lookup s (target_path loc cpv') <> None ->
  read_entry lay (run (eio_ops s loc pid gid cpv chunks k) s) loc cpv' = read_entry lay s loc cpv'.
Proof. exact store_fault_others_proof. Qed.
Print Assumptions store_fault_others.

(* the listing reports no partial entry and loses no committed one *)
Theorem fault_listing : forall lay s loc pid gid cpv chunks k,
  cpv <> [] ->
  let sk := run (eio_ops s loc pid gid cpv chunks k) s in
  listing_ok lay s sk loc cpv (parse lay (concat chunks)) /\
  forall key, In key (keys s loc) -> In key (keys sk loc).
Proof. exact fault_listing_proof. Qed.
Print Assumptions fault_listing.
