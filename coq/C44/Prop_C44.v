(* Prop_C44.v — the property theorems of C44 and nothing else. *)
From Coq Require Import List NArith ZArith Bool.
Import ListNotations.
From Verif Require Import Base.Val C01.Model_C01 C04.Model_C04.
From Verif Require Import C44.Model_C44 C44.Spec_C44 C44.Proofs_C44.
From Verif Require C03.Model_C03.

(* the recursive matcher decides the shell-pattern language (a star stands for any string) *)
Theorem glob_match_is_shell : forall p s, glob_match p s = true <-> shell_match p s.
Proof. exact glob_match_is_shell_proof. Qed.
Print Assumptions glob_match_is_shell.

(* the regular expression convert_glob compiles (^..$, star -> dot-star, re.match) accepts exactly
   that language on newline-free values *)
Theorem regex_is_glob : forall p s, no_nl s = true -> rx_match (glob_items p) s = glob_match p s.
Proof. exact regex_is_glob_proof. Qed.
Print Assumptions regex_is_glob.

(* every accepted text selects exactly the packages it describes (repaired parse_match) *)
Theorem query_selects : forall t r p,
  wf_pkg p = true -> parse_match t = Ok r -> eval r p = describes t p.
Proof. exact query_selects_proof. Qed.
Print Assumptions query_selects.

(* a category/package text without glob and blocker marks is handed to the atom parser as a
   whole: it is accepted iff the atom is, and selects what the atom matches *)
Theorem plain_atom_same_as_atom : forall fix_ t,
  mem c_star t = false -> mem c_bang t = false -> mem c_slash (q_body (split_query t)) = true ->
  parse_match_gen fix_ t = atom_result t
  /\ forall a p, atom_result t = Ok (QAtom a) -> eval (QAtom a) p = atom_match ver_cmp (bridge a) p.
Proof. exact plain_atom_same_as_atom_proof. Qed.
Print Assumptions plain_atom_same_as_atom.

(* a text containing a blocker mark is rejected (pinned and repaired behaviour alike) *)
Theorem blocker_rejected : forall fix_ t, mem c_bang t = true -> parse_match_gen fix_ t = EParse.
Proof. exact blocker_rejected_proof. Qed.
Print Assumptions blocker_rejected.

(* the pinned tree: the full statement is false (">=*/alsa-*-1.1.7:0" selects slot 5 too) ... *)
Theorem query_selects_orig_refuted : ~ C44_orig_full_statement.
Proof. exact query_selects_orig_refuted_proof. Qed.
Print Assumptions query_selects_orig_refuted.

(* ... and it behaves like the repaired function on every text outside the known class *)
Theorem orig_is_fixed_partial : forall t, known_class t = false -> parse_match_orig t = parse_match t.
Proof. exact orig_is_fixed_partial_proof. Qed.
Print Assumptions orig_is_fixed_partial.

(* the known class of the atom clause, precisely: the head of parse_match rejects a (non-blocker) text
   exactly when its slot or sub-slot field is a star-containing token that is neither a lone star nor
   a well-formed pattern; every such text is rejected ... *)
Theorem head_rejects_iff : forall t, mem c_bang t = false ->
  (parse_head t = HBadGlob <-> head_rejects t = true).
Proof. exact head_rejects_iff_proof. Qed.
Print Assumptions head_rejects_iff.

Theorem class_rejected : forall fix_ t, mem c_bang t = false -> head_rejects t = true ->
  parse_match_gen fix_ t = EParse.
Proof. exact class_rejected_proof. Qed.
Print Assumptions class_rejected.

(* ... and outside it a valid atom text that reads as an atom (a "/" left of :slot / ::repo, and a
   star there only behind a version operator) is accepted as that very atom — with or without stars
   (=cat/pkg-1*, cat/pkg:*, cat/pkg:*::repo[flag]) *)
Theorem atom_accepted_partial : forall fix_ t a,
  mem c_bang t = false -> head_rejects t = false -> atom_shaped t = true ->
  Model_C03.parse_atom None false (strip t) = Model_C03.Ok a ->
  parse_match_gen fix_ t = atom_result t
  /\ (Model_C03.a_transitive a = false -> parse_match_gen fix_ t = Ok (QAtom a)).
Proof. exact atom_accepted_partial_proof. Qed.
Print Assumptions atom_accepted_partial.

(* "every non-blocker atom text is accepted" is false: cat/pkg:*[flag] is rejected *)
Theorem atom_accepted_refuted : ~ C44_atom_full_statement.
Proof. exact atom_accepted_refuted_proof. Qed.
Print Assumptions atom_accepted_refuted.
