(* Grammar_C03.v — acceptance by the model of atom.__init__ versus the PMS grammar recogniser.
   Soundness (accepted => grammatical) outside the recorded classes, stage by stage:
   USE block, repo, slot, blocker, operator, cpv. *)
From Coq Require Import List NArith ZArith Bool Arith Lia.
Import ListNotations.
From Verif Require Import Base.Val gen.Tables_eapi gen.Tables_C03 C03.Model_C03 C03.Spec_C03
  C03.Proofs_C03 C03.Version_C03 C03.UseDep_C03.
Local Open Scope N_scope.

Definition no_upper (v : str) : bool := forallb (fun c => negb (s_upper c)) v.

(* ---------------------------------------------------------------- split_last *)
Lemma split_last_spec c s p q : split_last c s = Some (p, q) -> s = p ++ c :: q /\ ~ In c q.
Proof.
  revert p q; induction s as [|x t IH]; intros p q; cbn; [discriminate|].
  destruct (split_last c t) as [[p' q']|] eqn:E.
  - intros H; injection H as <- <-. destruct (IH _ _ eq_refl) as [-> Hq]. split; [reflexivity | exact Hq].
  - destruct (N.eqb_spec x c) as [->|]; [|discriminate]. intros H; injection H as <- <-.
    split; [reflexivity|]. clear IH. revert E. induction t as [|y t IH]; [intros _ []|].
    cbn. destruct (split_last c t) as [[? ?]|]; [discriminate|].
    destruct (N.eqb_spec y c); [discriminate|]. intros _ [H|H]; [congruence | now apply IH].
Qed.

Lemma split_last_none c s : ~ In c s -> split_last c s = None.
Proof.
  induction s as [|x t IH]; intros Hn; cbn; [reflexivity|].
  rewrite IH by (intros H; apply Hn; now right).
  destruct (N.eqb_spec x c) as [->|]; [exfalso; apply Hn; now left | reflexivity].
Qed.

Lemma split_last_app c p q : ~ In c q -> split_last c (p ++ c :: q) = Some (p, q).
Proof.
  intros Hq. induction p as [|x p IH]; cbn.
  - rewrite (split_last_none _ _ Hq). now rewrite N.eqb_refl.
  - now rewrite IH.
Qed.

Lemma hyphen_cuts_in p q : In (p, q) (hyphen_cuts (p ++ 45 :: q)).
Proof.
  induction p as [|x p IH]; cbn [app hyphen_cuts].
  - rewrite N.eqb_refl. now left.
  - apply in_or_app. right. apply in_map_iff. exists (p, q). split; [reflexivity | exact IH].
Qed.

Lemma hyphen_cuts_spec s p q : In (p, q) (hyphen_cuts s) -> s = p ++ 45 :: q.
Proof.
  revert p; induction s as [|x t IH]; intros p; cbn [hyphen_cuts]; [intros []|].
  intros H. apply in_app_or in H as [H|H].
  - destruct (N.eqb_spec x 45) as [->|]; [|destruct H]. destruct H as [H|[]]. now injection H as <- <-.
  - apply in_map_iff in H as ([p' q'] & E & Hin). cbn [fst snd] in E. injection E as <- <-.
    now rewrite (IH _ Hin).
Qed.

Lemma in_removelast {A} (x : A) l : In x (removelast l) -> In x l.
Proof.
  induction l as [|a l IH]; [intros []|]. cbn [removelast]. destruct l as [|b l']; [intros []|].
  intros [->|H]; [now left | right; now apply IH].
Qed.

(* ---------------------------------------------------------------- characters a version cannot contain *)
Definition ver_foreign (c : N) : bool :=
  negb (is_digit c) && negb (c =? c_dot) && negb (c =? c_us) && negb (in_ranges ver_letter_class c)
  && forallb (fun n => negb (existsb (N.eqb c) n)) suffix_names && negb (c =? c_nl).

Section Foreign.
  Variable c : N.
  Hypothesis Hc : ver_foreign c = true.

  Let Hc_digit : is_digit c = false.
  Proof. unfold ver_foreign in Hc. repeat (apply andb_true_iff in Hc as [Hc ?]). now apply negb_true_iff. Qed.
  Let Hc_dot : c <> c_dot.
  Proof. unfold ver_foreign in Hc. repeat (apply andb_true_iff in Hc as [Hc ?]).
         match goal with H : negb (c =? c_dot) = true |- _ => apply negb_true_iff, N.eqb_neq in H; exact H end. Qed.
  Let Hc_us : c <> c_us.
  Proof. unfold ver_foreign in Hc. repeat (apply andb_true_iff in Hc as [Hc ?]).
         match goal with H : negb (c =? c_us) = true |- _ => apply negb_true_iff, N.eqb_neq in H; exact H end. Qed.
  Let Hc_nl : c <> c_nl.
  Proof. unfold ver_foreign in Hc. repeat (apply andb_true_iff in Hc as [Hc ?]).
         match goal with H : negb (c =? c_nl) = true |- _ => apply negb_true_iff, N.eqb_neq in H; exact H end. Qed.
  Let Hc_letter : in_ranges ver_letter_class c = false.
  Proof. unfold ver_foreign in Hc. repeat (apply andb_true_iff in Hc as [Hc ?]).
         match goal with H : negb (in_ranges _ c) = true |- _ => now apply negb_true_iff in H end. Qed.
  Let Hc_names : forall n, In n suffix_names -> ~ In c n.
  Proof.
    unfold ver_foreign in Hc. repeat (apply andb_true_iff in Hc as [Hc ?]).
    match goal with H : forallb _ suffix_names = true |- _ => rename H into Hn end.
    intros n Hin Hcn. rewrite forallb_forall in Hn. specialize (Hn _ Hin). apply negb_true_iff in Hn.
    assert (existsb (N.eqb c) n = true) by (apply existsb_exists; exists c; split; [exact Hcn | apply N.eqb_refl]).
    congruence.
  Qed.

  Lemma ver_full_foreign v : ver_full v = true -> ~ In c v.
  Proof.
    unfold ver_full. destruct (ver_nums _ v) as [r|] eqn:En; [|discriminate]. intros Hs.
    apply nums_sound in En as (comps & Hne & Hall & Hv & Hr).
    intros Hin. rewrite Hv in Hin. apply in_app_or in Hin as [Hin|Hin].
    - exact (join_digits_no c comps Hc_digit Hc_dot Hall Hin).
    - assert (Hr' : In c (ver_letter r)).
      { unfold ver_letter. destruct r as [|x t]; [exact Hin|].
        destruct (in_ranges ver_letter_class x) eqn:Ex; [|exact Hin].
        destruct Hin as [->|Hin]; [congruence | exact Hin]. }
      clear Hin. revert Hr' Hs. generalize (ver_letter r) as w. generalize (length v) as fuel.
      induction fuel as [|f IH]; intros w Hin; destruct w as [|x t]; cbn [ver_sufs];
        try (destruct Hin; fail); try discriminate.
      destruct (N.eqb_spec x c_us) as [->|]; [|discriminate].
      destruct (strip_any suffix_names t) as [r2|] eqn:E; [|discriminate].
      apply strip_any_spec in E as (n & Hn & ->). intros H.
      destruct Hin as [Hin|Hin]; [congruence|].
      apply in_app_or in Hin as [Hin|Hin]; [exact (Hc_names _ Hn Hin)|].
      rewrite (take_drop is_digit r2) in Hin. apply in_app_or in Hin as [Hin|Hin].
      + exact (digits_no c _ Hc_digit (take_wh_all is_digit r2) Hin).
      + exact (IH _ Hin H).
  Qed.

  Lemma m_version_foreign v : m_version v = true -> ~ In c v.
  Proof.
    unfold m_version. intros H. pose proof (ver_full_foreign _ H) as Hs.
    destruct (strip_nl_cases v) as [E|E]; rewrite E; [exact Hs|].
    intros Hin. apply in_app_or in Hin as [Hin|[Hin|[]]]; [exact (Hs Hin) | congruence].
  Qed.
End Foreign.

(* ---------------------------------------------------------------- package names *)
Lemma pkg_chunk_chars ch : ~ In c_nl ch -> pkg_chunk_ok ch = true -> forallb s_pkg_char ch = true.
Proof.
  intros Hn. unfold pkg_chunk_ok, m_pkg_chunk_re, re_plus. rewrite (strip_nl_id _ Hn).
  destruct ch as [|x t]; [reflexivity|]. cbn [is_nil orb]. unfold all_in. intros H.
  apply forallb_forall. intros y Hy. rewrite forallb_forall in H. specialize (H _ Hy).
  rewrite cls_pkg in H. now apply andb_true_iff in H as [H _].
Qed.

Lemma rev_is_pms r : isvalid_rev r = pms_revision r.
Proof.
  unfold isvalid_rev, pms_revision, digits1, nonempty. destruct r as [|c t]; [reflexivity|].
  change c_r with 114. destruct (c =? 114); [|reflexivity]. cbn [andb]. destruct t; reflexivity.
Qed.

Lemma name_sound name :
  ~ In c_nl name -> valid_pkg_name (split_on c_dash name) = true -> pms_pkg_name name = true.
Proof.
  intros Hn H. apply pkg_name_boundary_proof in H as ((x & t & Hname & Hxd & Hxp) & Hall & Hnv & Hnr).
  unfold pms_pkg_name. apply andb_true_iff. split; [apply andb_true_iff; split|].
  - apply forallb_forall. intros y Hy. rewrite <- (join_split_on c_dash name) in Hy.
    apply in_join in Hy as [->|(ch & Hch & Hy)]; [reflexivity|].
    rewrite forallb_forall in Hall. specialize (Hall _ Hch).
    assert (Hnc : ~ In c_nl ch) by (intros Hin; apply Hn; exact (split_on_chars _ _ _ _ Hch Hin)).
    pose proof (pkg_chunk_chars _ Hnc Hall) as Hc. rewrite forallb_forall in Hc. now apply Hc.
  - rewrite Hname. unfold first_not. cbn [existsb]. rewrite orb_false_r.
    apply negb_true_iff, orb_false_iff. split; apply N.eqb_neq; assumption.
  - apply negb_true_iff. destruct (existsb _ _) eqn:E; [|reflexivity]. exfalso.
    apply existsb_exists in E as ([p suf] & Hin & Hv). cbn [snd] in Hv.
    apply hyphen_cuts_spec in Hin. unfold pms_version_rev in Hv.
    change 45 with c_dash in *.
    destruct (split_first c_dash suf) as [[v r]|] eqn:Es.
    + apply split_first_spec in Es as [-> _]. apply andb_true_iff in Hv as [Hv Hr].
      apply Hnr. exists p, v, r. split; [exact Hin|]. split.
      * now apply (proj2 version_agree_proof).
      * now rewrite rev_is_pms.
    + apply Hnv. exists p, suf. split; [exact Hin | now apply (proj2 version_agree_proof)].
Qed.

(* ---------------------------------------------------------------- the shape of an accepted cpv *)
Definition cpv_shape (vd : bool) (s : str) (c : cpv_rec) : Prop :=
  exists cat pkgver,
    s = cat ++ c_slash :: pkgver /\ ~ In c_slash pkgver /\ m_category cat = true /\
    if vd then
      exists name v, valid_pkg_name (split_on c_dash name) = true /\ m_version v = true /\ c_ver c = Some v
                     /\ ((pkgver = name ++ c_dash :: v /\ c_rev c = Some [])
                         \/ (exists r, pkgver = name ++ c_dash :: v ++ c_dash :: r /\ isvalid_rev r = true
                                       /\ nonempty_opt (c_rev c) = true))
    else valid_pkg_name (split_on c_dash pkgver) = true.

Lemma cpv_structure vd s c : parse_cpv vd s = Some c -> cpv_shape vd s c.
Proof.
  unfold parse_cpv. destruct (split_last c_slash s) as [[cat pkgver]|] eqn:Esl; [|discriminate].
  apply split_last_spec in Esl as [-> Hsl].
  destruct (m_category cat) eqn:Ec; cbn [negb]; [|discriminate].
  pose proof (join_split_on c_dash pkgver) as Hj.
  assert (Hnosep : forall x, In x (split_on c_dash pkgver) -> ~ In c_dash x) by (intros x; apply split_on_no_sep).
  destruct vd.
  - destruct (split_on c_dash pkgver) as [|c0 [|c1 rest]] eqn:Ech; [discriminate | discriminate|].
    set (chunks := c0 :: c1 :: rest) in *.
    assert (Hsn : chunks = removelast chunks ++ [last chunks []]) by (apply list_snoc; discriminate).
    assert (Hrl : removelast chunks <> []) by (unfold chunks; cbn; destruct rest; discriminate).
    assert (Hpk : forall pk, pk <> [] -> (forall x, In x pk -> In x chunks) ->
                             valid_pkg_name pk = true -> valid_pkg_name (split_on c_dash (join c_dash pk)) = true).
    { intros pk Hne Hsub Hv. rewrite split_on_join; [exact Hv | exact Hne|].
      intros x Hx. apply Hnosep, Hsub, Hx. }
    destruct (isvalid_rev (last chunks [])) eqn:Er.
    + destruct (length chunks <? 3)%nat eqn:El; [discriminate|]. apply Nat.ltb_ge in El.
      set (rc := removelast chunks) in *.
      destruct (m_version (last rc [])) eqn:Ev; cbn [negb]; [|discriminate].
      destruct (valid_pkg_name (removelast rc)) eqn:Ep; [|discriminate].
      intros H; injection H as <-.
      assert (Hsn2 : rc = removelast rc ++ [last rc []]) by (apply list_snoc; exact Hrl).
      assert (Hrl2 : removelast rc <> []).
      { intros E0. rewrite E0 in Hsn2. rewrite Hsn2 in Hsn. rewrite Hsn in El. cbn in El. lia. }
      exists cat, pkgver. split; [reflexivity|]. split; [exact Hsl|]. split; [exact Ec|].
      exists (join c_dash (removelast rc)), (last rc []). split; [|split; [exact Ev | split; [reflexivity|]]].
      * apply Hpk; [exact Hrl2 | | exact Ep].
        intros x Hx. apply in_removelast. fold rc. now apply in_removelast.
      * right. exists (last chunks []). split; [|split; [exact Er|]].
        -- rewrite <- Hj. rewrite Hsn at 1. rewrite (join_snoc _ _ _ Hrl). fold rc.
           rewrite Hsn2 at 1. rewrite (join_snoc _ _ _ Hrl2). now rewrite <- app_assoc.
        -- change (nonempty_opt (Some (tl (last chunks []))) = true).
           unfold isvalid_rev in Er. destruct (last chunks []) as [|x t]; [discriminate|].
           cbn [tl]. destruct t; [|reflexivity]. cbn in Er. now rewrite andb_false_r in Er.
    + destruct (m_version (last chunks [])) eqn:Ev; cbn [negb]; [|discriminate].
      destruct (valid_pkg_name (removelast chunks)) eqn:Ep; [|discriminate].
      intros H; injection H as <-.
      exists cat, pkgver. split; [reflexivity|]. split; [exact Hsl|]. split; [exact Ec|].
      exists (join c_dash (removelast chunks)), (last chunks []).
      split; [|split; [exact Ev | split; [reflexivity|]]].
      * apply Hpk; [exact Hrl | | exact Ep]. intros x Hx. now apply in_removelast.
      * left. split; [|reflexivity]. rewrite <- Hj. rewrite Hsn at 1. now apply join_snoc.
  - destruct (valid_pkg_name (split_on c_dash pkgver)) eqn:Ep; [|discriminate].
    intros _. exists cat, pkgver. split; [reflexivity|]. split; [exact Hsl|]. split; [exact Ec | exact Ep].
Qed.

Lemma cat_sound cat : ~ In c_nl cat -> m_category cat = true -> pms_category cat = true /\ ~ In c_slash cat.
Proof.
  intros Hn H. rewrite (proj1 charsets_agree_proof _ Hn) in H. split; [exact H|].
  unfold pms_category in H. apply andb_true_iff in H as [H _]. intros Hin.
  rewrite forallb_forall in H. specialize (H _ Hin). vm_compute in H. discriminate.
Qed.

Lemma cpv_unversioned_sound s c :
  ~ In c_nl s -> parse_cpv false s = Some c -> pms_unversioned s = true.
Proof.
  intros Hn H. apply cpv_structure in H as (cat & pkgver & -> & Hsl & Hc & Hp).
  destruct (cat_sound cat (not_in_app_l _ _ _ Hn) Hc) as [Hcat Hcs].
  unfold pms_unversioned. change 47 with c_slash. rewrite (split_first_app _ _ _ Hcs), Hcat. cbn [andb].
  apply name_sound; [|exact Hp]. intros Hin. apply Hn, in_or_app. right. now right.
Qed.

Lemma cpv_versioned_sound s c :
  ~ In c_nl s -> parse_cpv true s = Some c ->
  (forall v, c_ver c = Some v -> no_upper v = true) ->
  pms_versioned true s = true /\ (nonempty_opt (c_rev c) = false -> pms_versioned false s = true).
Proof.
  intros Hn H Hup. apply cpv_structure in H as (cat & pkgver & -> & Hsl & Hc & name & v & Hp & Hv & Ever & Hshape).
  destruct (cat_sound cat (not_in_app_l _ _ _ Hn) Hc) as [Hcat Hcs].
  assert (Hnp : ~ In c_nl pkgver) by (intros Hin; apply Hn, in_or_app; right; now right).
  unfold pms_versioned. change 47 with c_slash. rewrite (split_first_app _ _ _ Hcs), Hcat. cbn [andb].
  specialize (Hup _ Ever).
  assert (Hvd : ~ In c_dash v) by now apply m_version_no_dash.
  destruct Hshape as [[-> Erev] | (r & -> & Hr & Erev)].
  - assert (Hnn : ~ In c_nl name) by exact (not_in_app_l _ _ _ Hnp).
    assert (Hnv : ~ In c_nl v) by (intros Hin; apply Hnp, in_or_app; right; now right).
    assert (Hpv : pms_version_rev v = true).
    { unfold pms_version_rev. change 45 with c_dash.
      rewrite (proj2 (split_first_none c_dash v) Hvd).
      now rewrite <- (proj1 version_agree_proof v Hnv Hup). }
    assert (Hhr : has_revision v = false).
    { unfold has_revision. change 45 with c_dash. now rewrite (proj2 (split_first_none c_dash v) Hvd). }
    assert (Hw : forall b, existsb (fun pq => pms_pkg_name (fst pq) && pms_version_rev (snd pq)
                                             && (b || negb (has_revision (snd pq))))
                                  (hyphen_cuts (name ++ c_dash :: v)) = true).
    { intros b. apply existsb_exists. exists (name, v). split; [apply hyphen_cuts_in|].
      cbn [fst snd]. rewrite (name_sound _ Hnn Hp), Hpv, Hhr. cbn. now rewrite orb_true_r. }
    split; [apply Hw | intros _; apply Hw].
  - assert (Hnn : ~ In c_nl name) by exact (not_in_app_l _ _ _ Hnp).
    assert (Hnv : ~ In c_nl v).
    { intros Hin. apply Hnp, in_or_app. right. right. apply in_or_app. now left. }
    split; [|rewrite Erev; discriminate].
    apply existsb_exists. exists (name, v ++ c_dash :: r). split; [apply hyphen_cuts_in|].
    cbn [fst snd]. rewrite (name_sound _ Hnn Hp). cbn [andb orb]. rewrite andb_true_r.
    unfold pms_version_rev. change 45 with c_dash. rewrite (split_first_app _ _ _ Hvd).
    rewrite <- (proj1 version_agree_proof v Hnv Hup), Hv. cbn [andb]. now rewrite <- rev_is_pms.
Qed.

(* ---------------------------------------------------------------- "::" search *)
Lemma sd_none s : ~ In c_colon s -> split_dcolon s = None.
Proof.
  induction s as [|x t IH]; intros Hn; cbn [split_dcolon]; [reflexivity|].
  destruct t as [|y t']; [reflexivity|].
  destruct (N.eqb_spec x c_colon) as [->|]; [exfalso; apply Hn; now left|]. cbn [andb].
  rewrite IH; [reflexivity | intros H; apply Hn; now right].
Qed.

Lemma sd_cons x y t :
  split_dcolon (x :: y :: t)
  = if (x =? c_colon) && (y =? c_colon) then Some ([], t)
    else match split_dcolon (y :: t) with Some (p, q) => Some (x :: p, q) | None => None end.
Proof. reflexivity. Qed.

Lemma sd_app l x :
  ~ In c_colon l ->
  split_dcolon (l ++ x) = match split_dcolon x with Some (a, b) => Some (l ++ a, b) | None => None end.
Proof.
  induction l as [|y l IH]; intros Hn; cbn [app].
  - destruct (split_dcolon x) as [[a b]|]; reflexivity.
  - assert (Hy : (y =? c_colon) = false) by (apply N.eqb_neq; intros ->; apply Hn; now left).
    assert (Hl : ~ In c_colon l) by (intros H; apply Hn; now right).
    destruct (l ++ x) as [|z t'] eqn:E.
    + destruct l; [|discriminate]. cbn in E. subst x. reflexivity.
    + rewrite sd_cons, Hy. cbn [andb]. rewrite (IH Hl).
      destruct (split_dcolon x) as [[a b]|]; reflexivity.
Qed.

(* ---------------------------------------------------------------- slot stage *)
Lemma features_sub_slot e f : features_of e = Some f -> f_subslot f = true -> f_slot f = true.
Proof.
  destruct e as [n|]; cbn [features_of].
  - destruct (n <=? pms_newest_eapi); [|discriminate]. intros H; injection H as <-. cbn.
    intros H. apply N.leb_le in H. apply N.leb_le. lia.
  - intros H; injection H as <-. reflexivity.
Qed.

Lemma chunk_sound c : slot_chunk_ok c = true -> hd 0 c <> c_plus -> pms_slot_name c = true.
Proof.
  intros H Hp. rewrite (proj2 (proj2 (proj2 charsets_agree_proof))) in H.
  apply orb_true_iff in H as [H|H]; [exact H|]. destruct c as [|x t]; [discriminate|].
  apply andb_true_iff in H as [H _]. apply N.eqb_eq in H. cbn in Hp. congruence.
Qed.

Lemma spec_slot_body s : s <> [] -> slot_strip_eq s = snd (slot_op_split s).
Proof.
  intros Hne. unfold slot_strip_eq, slot_op_split.
  destruct (lastc s) as [l|] eqn:El; [|destruct s; [congruence | discriminate]].
  apply lastc_some in El. rewrite El at 1. rewrite rev_app_distr. cbn [rev app].
  change 61 with c_eq. destruct (l =? c_eq); [cbn [snd]; now rewrite rev_involutive | reflexivity].
Qed.

Definition clean_slot (o : option str) : Prop := forall x, o = Some x -> hd 0 x <> c_plus.

Lemma slot_body_sound g f slot ro p :
  slot_body g slot ro = Some p ->
  g_sub_slotting g = f_subslot f -> g_slot_deps g = f_slot f -> (f_subslot f = true -> f_slot f = true) ->
  clean_slot (sp_slot p) -> clean_slot (sp_sub p) ->
  pms_slot_spec f slot = true.
Proof.
  unfold slot_body. destruct slot as [|c t]; [discriminate|]. intros H G5 G1 Hss.
  unfold pms_slot_spec. rewrite <- G5, <- G1. rewrite <- G5, <- G1 in Hss.
  destruct (g_sub_slotting g).
  - rewrite (Hss eq_refl). cbn [andb].
    destruct ((c =? c_star) || (c =? c_eq)) eqn:E.
    + destruct t; cbn [is_nil negb] in H; [|discriminate]. intros _ _.
      apply orb_true_iff. right. apply orb_true_iff. left.
      apply orb_true_iff in E as [E|E]; apply N.eqb_eq in E; subst c; reflexivity.
    + rewrite (spec_slot_body (c :: t)) by discriminate.
      revert H. set (so := slot_op_split (c :: t)). change 47 with c_slash.
      destruct (split_first c_slash (snd so)) as [[a b]|] eqn:Es.
      * destruct (slot_chunk_ok a) eqn:Ha; [|discriminate]. destruct (slot_chunk_ok b) eqn:Hb; [|discriminate].
        cbn [andb]. intros H; injection H as <-. cbn [sp_slot sp_sub]. intros C1 C2.
        rewrite (chunk_sound _ Ha (C1 _ eq_refl)), (chunk_sound _ Hb (C2 _ eq_refl)).
        cbn [andb]. now rewrite !orb_true_r.
      * destruct (slot_chunk_ok (snd so)) eqn:Ha; [|discriminate].
        intros H; injection H as <-. cbn [sp_slot sp_sub]. intros C1 _.
        rewrite (chunk_sound _ Ha (C1 _ eq_refl)). now rewrite !orb_true_r.
  - destruct (g_slot_deps g); cbn [negb] in H; [|discriminate].
    destruct (slot_chunk_ok (c :: t)) eqn:Ha; [|discriminate].
    injection H as <-. cbn [sp_slot sp_sub]. intros C1 _.
    now rewrite (chunk_sound _ Ha (C1 _ eq_refl)).
Qed.

(* ---------------------------------------------------------------- no ":" inside an accepted cpv *)
Lemma pkg_name_no_colon n : pms_pkg_name n = true -> ~ In c_colon n.
Proof.
  unfold pms_pkg_name. intros H Hin. apply andb_true_iff in H as [H _]. apply andb_true_iff in H as [H _].
  rewrite forallb_forall in H. specialize (H _ Hin). vm_compute in H. discriminate.
Qed.

Lemma cpv_no_colon vd s c : ~ In c_nl s -> parse_cpv vd s = Some c -> ~ In c_colon s.
Proof.
  intros Hn H. apply cpv_structure in H as (cat & pkgver & -> & Hsl & Hc & Hshape).
  destruct (cat_sound cat (not_in_app_l _ _ _ Hn) Hc) as [Hcat _].
  assert (Hnp : ~ In c_nl pkgver) by (intros Hin; apply Hn, in_or_app; right; now right).
  intros Hin. apply in_app_or in Hin as [Hin|[Hin|Hin]]; [|discriminate|].
  - unfold pms_category in Hcat. apply andb_true_iff in Hcat as [Hcat _].
    rewrite forallb_forall in Hcat. specialize (Hcat _ Hin). vm_compute in Hcat. discriminate.
  - destruct vd.
    + destruct Hshape as (name & v & Hp & Hv & _ & Hs).
      assert (Hvc : ~ In c_colon v) by (apply (m_version_foreign c_colon); [vm_compute; reflexivity | exact Hv]).
      destruct Hs as [[-> _] | (r & -> & Hr & _)].
      * apply in_app_or in Hin as [Hin|[Hin|Hin]]; [|discriminate | exact (Hvc Hin)].
        exact (pkg_name_no_colon _ (name_sound _ (not_in_app_l _ _ _ Hnp) Hp) Hin).
      * apply in_app_or in Hin as [Hin|[Hin|Hin]]; [|discriminate|].
        -- exact (pkg_name_no_colon _ (name_sound _ (not_in_app_l _ _ _ Hnp) Hp) Hin).
        -- apply in_app_or in Hin as [Hin|[Hin|Hin]]; [exact (Hvc Hin) | discriminate|].
           unfold isvalid_rev in Hr. destruct r as [|x t]; [discriminate|].
           apply andb_true_iff in Hr as [Hr Hd]. apply andb_true_iff in Hr as [Hx _].
           apply N.eqb_eq in Hx. subst x. destruct Hin as [Hin|Hin]; [discriminate|].
           exact (digits_no c_colon t eq_refl Hd Hin).
    + exact (pkg_name_no_colon _ (name_sound _ Hnp Hshape) Hin).
Qed.

Lemma parse_cpv_nonempty vd s c : parse_cpv vd s = Some c -> s <> [].
Proof. intros H ->. destruct vd; discriminate. Qed.

(* ---------------------------------------------------------------- operator and blocker stages *)
Lemma op_sound b st a2 b' st' op cpv c :
  stage_op b st a2 = R3 b' st' op cpv ->
  parse_cpv (negb (is_nil op)) cpv = Some c ->
  str_eqb op [c_tilde] && nonempty_opt (c_rev c) = false ->
  ~ In c_nl cpv -> (forall v, c_ver c = Some v -> no_upper v = true) ->
  pms_op_cpv a2 = true.
Proof.
  unfold stage_op, pms_op_cpv. destruct a2 as [|d t2]; [discriminate|].
  change 60 with c_lt. change 62 with c_gt. change 126 with c_tilde. change 61 with c_eq. change 42 with c_star.
  intros H Hp Ht Hn Hup.
  destruct ((d =? c_lt) || (d =? c_gt)) eqn:Elg.
  - destruct t2 as [|e t3].
    + injection H as _ _ <- <-. discriminate.
    + destruct (e =? c_eq); injection H as _ _ <- <-; cbn [is_nil negb] in Hp;
        exact (proj1 (cpv_versioned_sound _ _ Hn Hp Hup)).
  - destruct (N.eqb_spec d c_tilde) as [->|Htl].
    + cbn in H. injection H as _ _ <- <-. cbn [is_nil negb] in Hp.
      rewrite str_eqb_refl in Ht. cbn [andb] in Ht.
      exact (proj2 (cpv_versioned_sound _ _ Hn Hp Hup) Ht).
    + destruct (N.eqb_spec d c_eq) as [->|Heq].
      * destruct (lastc (c_eq :: t2)) as [l|] eqn:El; [|destruct t2; discriminate].
        apply lastc_some in El.
        destruct t2 as [|y t']; [cbn in El; injection El as <-; cbn in H; injection H as _ _ <- <-; discriminate|].
        change (removelast (c_eq :: y :: t')) with (c_eq :: removelast (y :: t')) in El.
        injection El as El. rewrite El at 1. rewrite rev_app_distr. cbn [rev app].
        destruct (l =? c_star); injection H as _ _ <- <-; cbn [is_nil negb] in Hp.
        -- rewrite rev_involutive. exact (proj1 (cpv_versioned_sound _ _ Hn Hp Hup)).
        -- exact (proj1 (cpv_versioned_sound _ _ Hn Hp Hup)).
      * injection H as _ _ <- <-. cbn [is_nil negb] in Hp. exact (cpv_unversioned_sound _ _ Hn Hp).
Qed.

Lemma prefix_sound g f lft b st op cpv :
  stage_prefix g lft = R3 b st op cpv ->
  g_strong_blockers g = f_strong f ->
  (forall b0 st0 a2 b' st', stage_op b0 st0 a2 = R3 b' st' op cpv -> pms_op_cpv a2 = true) ->
  pms_blocker_rest f lft = true.
Proof.
  unfold stage_prefix, pms_blocker_rest. destruct lft as [|c t]; [discriminate|].
  change 33 with c_bang. intros H G3 Hop.
  destruct (N.eqb_spec c c_bang) as [->|Hb].
  - destruct t as [|d t']; [cbn in H; discriminate|].
    destruct (N.eqb_spec d c_bang) as [->|Hd]; cbn [andb] in H.
    + rewrite <- G3. destruct (g_strong_blockers g); cbn [negb andb] in *; [|discriminate].
      cbn [tl] in H. exact (Hop _ _ _ _ _ H).
    + exact (Hop _ _ _ _ _ H).
  - cbn [andb] in H. exact (Hop _ _ _ _ _ H).
Qed.

(* ---------------------------------------------------------------- everything left of the USE block *)
Lemma parse_rest_inv e n g body use colon a :
  parse_rest e n g (body, use, colon) = Ok a ->
  exists lft p b st op cpv c,
    match colon with
    | Some (l, r) => lft = l /\ stage_slot g r = Some p
    | None => lft = body /\ p = no_slot
    end
    /\ stage_prefix g lft = R3 b st op cpv
    /\ is_some (sp_slot p) && negb (g_slot_deps g) = false
    /\ is_some use && negb (g_use_deps g) = false
    /\ is_some e && is_some (sp_repo p) = false
    /\ parse_cpv (negb (is_nil op)) cpv = Some c
    /\ str_eqb op [c_tilde] && nonempty_opt (c_rev c) = false
    /\ a_ver a = c_ver c /\ a_slot a = sp_slot p /\ a_subslot a = sp_sub p /\ a_use a = use.
Proof.
  unfold parse_rest.
  set (sp := match colon with Some (lft, rgt) => _ | None => _ end).
  destruct sp as [[lft p]|] eqn:Esp; [|discriminate].
  destruct (stage_prefix g lft) as [b st op cpv|] eqn:Ep; [|discriminate].
  destruct (is_some (sp_slot p) && negb (g_slot_deps g)) eqn:E1; [discriminate|].
  destruct (is_some use && negb (g_use_deps g)) eqn:E2; [discriminate|].
  destruct (is_some e && is_some (sp_repo p)) eqn:E3; [discriminate|].
  destruct (parse_cpv (negb (is_nil op)) cpv) as [c|] eqn:Ec; [|discriminate].
  destruct (str_eqb op [c_tilde] && nonempty_opt (c_rev c)) eqn:Et; [discriminate|].
  intros H; injection H as <-.
  exists lft, p, b, st, op, cpv, c. cbn [a_ver a_slot a_subslot a_use].
  repeat split; try assumption.
  unfold sp in Esp. destruct colon as [[l r]|].
  - destruct (stage_slot g r) as [p'|]; [|discriminate]. injection Esp as <- <-. auto.
  - injection Esp as <- <-. auto.
Qed.

Lemma in_p_head b st op cpv x : In x cpv -> In x (p_head b st op cpv).
Proof.
  intros H. unfold p_head. apply in_or_app. right.
  destruct (str_eqb op [c_eq; c_star]); [right; apply in_or_app; now left | apply in_or_app; now right].
Qed.

Lemma p_head_last b st op cpv : cpv <> [] ->
  exists z w, p_head b st op cpv = z ++ [w] /\ (In w cpv \/ w = c_star).
Proof.
  intros Hne. unfold p_head. rewrite (removelast_last_eq cpv Hne).
  destruct (str_eqb op [c_eq; c_star]).
  - eexists _, c_star. split; [|now right].
    rewrite app_comm_cons, app_assoc. reflexivity.
  - eexists _, (last cpv 0). split.
    + rewrite !app_assoc. reflexivity.
    + left. rewrite <- (removelast_last_eq cpv Hne). apply last_in. exact Hne.
Qed.

Record clean_atom (a : atom_rec) : Prop := {
  cl_ver : forall v, a_ver a = Some v -> no_upper v = true;
  cl_slot : clean_slot (a_slot a);
  cl_sub : clean_slot (a_subslot a) }.

Lemma tail_sound e n g f body use colon a :
  features_of e = Some f -> gates_feat g f -> f_repo f = negb (is_some e) ->
  parse_rest e n g (body, use, colon) = Ok a ->
  ~ In c_nl body ->
  match colon with
  | Some (l, r) => body = l ++ c_colon :: r /\ ~ In c_colon l
  | None => ~ In c_colon (removelast body)
  end ->
  clean_atom a ->
  spec_tail f body = true.
Proof.
  intros Hf (G1 & G2 & G3 & G4 & G5) Hrepo Hr Hnl Hcol [Cv Cs Cb].
  apply parse_rest_inv in Hr as (lft & p & b & st & op & cpv & c & Hsp & Ep & E1 & E2 & E3 & Ec & Et & Av & As & Ab & _).
  rewrite Av in Cv. rewrite As in Cs. rewrite Ab in Cb.
  pose proof (stage_prefix_print _ _ _ _ _ _ Ep) as Hleft.
  assert (Hsub : forall x, In x lft -> In x body).
  { destruct colon as [[l r]|]; destruct Hsp as [-> _]; [|auto].
    destruct Hcol as [-> _]. intros x Hx. apply in_or_app. now left. }
  assert (Hncpv : ~ In c_nl cpv).
  { intros Hin. apply Hnl, Hsub. rewrite Hleft. now apply in_p_head. }
  assert (Hbl : pms_blocker_rest f lft = true).
  { apply (prefix_sound g f lft b st op cpv Ep G3). intros b0 st0 a2 b' st' Hop.
    exact (op_sound _ _ _ _ _ _ _ _ Hop Ec Et Hncpv Cv). }
  unfold spec_tail. change 58 with c_colon.
  destruct colon as [[l r]|]; destruct Hsp as [-> Hp].
  - destruct Hcol as [-> Hl].
    assert (Hsl : forall slot ro, slot_body g slot ro = Some p -> pms_slot_spec f slot = true).
    { intros slot ro Hb. apply (slot_body_sound g f slot ro p Hb G5 G1 (features_sub_slot _ _ Hf) Cs Cb). }
    rewrite (sd_app l (c_colon :: r) Hl).
    unfold stage_slot in Hp.
    destruct (split_dcolon (c_colon :: r)) as [[a0 rep]|] eqn:Ed; cbn [fst snd] in Hp.
    + pose proof (split_dcolon_spec _ _ _ Ed) as Es.
      destruct (repo_ok (Some rep)) eqn:Er; cbn [negb] in Hp; [|discriminate].
      assert (Hrp : sp_repo p = Some rep).
      { destruct (tl a0) as [|x0 t0]; [injection Hp as <-; reflexivity|].
        exact (proj2 (slot_body_print _ _ _ _ Hp)). }
      rewrite Hrp in E3. cbn [is_some] in E3. rewrite andb_true_r in E3.
      assert (Hfr : f_repo f = true) by (rewrite Hrepo, E3; reflexivity).
      rewrite Hfr. cbn [fst snd].
      rewrite <- (proj1 (proj2 (proj2 charsets_agree_proof)) rep), Er. cbn [andb].
      destruct a0 as [|x0 a'].
      * rewrite app_nil_r. rewrite (proj2 (split_first_none c_colon l) Hl). cbn [fst snd andb]. exact Hbl.
      * cbn in Es. injection Es as <- Es. destruct a' as [|c0 t0].
        -- exfalso. subst r. cbn in Ed. discriminate.
        -- cbn [tl] in Hp. rewrite (split_first_app _ _ _ Hl). cbn [fst snd].
           rewrite (Hsl _ _ Hp). exact Hbl.
    + cbn [repo_ok negb tl] in Hp. destruct r as [|c0 t0]; [discriminate|].
      destruct (f_repo f); cbn [fst snd]; rewrite (split_first_app _ _ _ Hl); cbn [fst snd andb];
        rewrite (Hsl _ _ Hp); exact Hbl.
  - (* no ":" at all *)
    assert (Hnc : ~ In c_colon body).
    { destruct (p_head_last b st op cpv (parse_cpv_nonempty _ _ _ Ec)) as (z & w & Hz & Hw).
      rewrite <- Hleft in Hz. rewrite Hz in Hcol |- *. rewrite removelast_last in Hcol.
      intros Hin. apply in_app_or in Hin as [Hin|[Hin|[]]]; [exact (Hcol Hin)|].
      subst w. destruct Hw as [Hw|Hw]; [|discriminate].
      exact (cpv_no_colon _ _ _ Hncpv Ec Hw). }
    rewrite (sd_none _ Hnc).
    destruct (f_repo f); cbn [fst snd]; rewrite (proj2 (split_first_none c_colon body) Hnc); cbn [fst snd andb];
      exact Hbl.
Qed.

(* ---------------------------------------------------------------- the USE block and the whole atom *)
Lemma decl_no_lbr d x : decl d x -> ~ In c_lbr x.
Proof.
  intros (P & name & D & S & -> & Hf & HP & HD & HS) Hin.
  apply in_app_or in Hin as [Hin|Hin].
  - destruct HP as [-> | [[-> _] | [-> _]]]; [destruct Hin | |]; destruct Hin as [H|[]]; discriminate.
  - apply in_app_or in Hin as [Hin|Hin].
    + destruct (use_flag_facts _ Hf) as [Hall _]. rewrite forallb_forall in Hall.
      specialize (Hall _ Hin). vm_compute in Hall. discriminate.
    + apply in_app_or in Hin as [Hin|Hin].
      * destruct HD as [-> | (_ & b & [-> | ->] & ->)]; [destruct Hin | |];
          repeat (destruct Hin as [Hin|Hin]; [discriminate|]); destruct Hin.
      * destruct HS as [-> | [-> | ->]]; [destruct Hin | |]; destruct Hin as [H|[]]; discriminate.
Qed.

(* SOUNDNESS: whatever the model of atom.__init__ accepts is a PMS atom for that EAPI — provided
   the text has no newline, the version carries no upper-case letter and no slot / sub-slot name
   begins with "+" (the three recorded classes; non-ASCII digits are outside the model). *)
Lemma accept_sound_proof :
  forall e n s a,
    parse_atom e n s = Ok a -> ~ In c_nl s -> clean_atom a -> pms_atom_b e s = true.
Proof.
  intros e n s a. unfold parse_atom. destruct s as [|x0 t0] eqn:Es; [discriminate|]. rewrite <- Es. clear Es x0 t0.
  destruct (gates_of e) as [g|] eqn:Eg; [|discriminate].
  destruct (gates_features _ _ Eg) as (f & Hf & G & Hrepo).
  unfold pms_atom_b. rewrite Hf. unfold pms_atom_feat.
  destruct (stage_use g s) as [[[body use] colon]|] eqn:Eu; [|discriminate].
  intros Hr Hnl Hcl. unfold stage_use in Eu.
  destruct (split_first c_lbr s) as [[pre post]|] eqn:E1.
  - destruct (split_first c_rbr post) as [[u tail]|] eqn:E2; [|discriminate].
    destruct tail as [|? ?]; cbn [is_nil negb] in Eu; [|discriminate].
    destruct (forallb (valid_use_dep (g_use_defaults g)) (sort_strs (split_on c_comma u))) eqn:Ev; [|discriminate].
    injection Eu as <- <- <-.
    apply split_first_spec in E1 as [-> Hpre]. apply split_first_spec in E2 as [-> Hu].
    assert (Hnpre : ~ In c_nl pre) by exact (not_in_app_l _ _ _ Hnl).
    assert (Hnu : ~ In c_nl u).
    { intros Hin. apply Hnl, in_or_app. right. right. apply in_or_app. now left. }
    destruct G as (G1 & G2 & G3 & G4 & G5).
    assert (Hdeps : forall x, In x (split_on c_comma u) ->
                              valid_use_dep (f_defaults f) x = true /\ ~ In c_nl x).
    { intros x Hx. split.
      - rewrite <- G4. rewrite forallb_forall in Ev. apply Ev. now apply sort_in.
      - intros Hin. apply Hnu. exact (split_on_chars _ _ _ _ Hx Hin). }
    assert (Hulbr : ~ In c_lbr (u ++ [c_rbr])).
    { intros Hin. apply in_app_or in Hin as [Hin|[Hin|[]]]; [|discriminate].
      rewrite <- (join_split_on c_comma u) in Hin.
      apply in_join in Hin as [Hin|(x & Hx & Hin)]; [discriminate|].
      destruct (Hdeps _ Hx) as [Hv Hn]. exact (decl_no_lbr _ _ (model_decl _ _ Hn Hv) Hin). }
    unfold use_split. change 91 with c_lbr. change 93 with c_rbr. change 44 with c_comma.
    rewrite (split_last_app _ _ _ Hulbr). rewrite rev_app_distr. cbn [rev app]. rewrite N.eqb_refl.
    cbn [fst snd]. rewrite rev_involutive.
    pose proof Hr as Hr'.
    apply parse_rest_inv in Hr' as (_ & _ & _ & _ & _ & _ & _ & _ & _ & _ & EU & _).
    cbn [is_some andb] in EU. apply negb_false_iff in EU. rewrite <- G2, EU. cbn [andb].
    assert (Hall : forallb (pms_use_dep (f_defaults f)) (split_on c_comma u) = true).
    { apply forallb_forall. intros x Hx. destruct (Hdeps _ Hx) as [Hv Hn]. now apply use_dep_sound. }
    rewrite Hall. cbn [andb].
    apply (tail_sound e n g f pre _ _ a Hf (conj G1 (conj G2 (conj G3 (conj G4 G5)))) Hrepo Hr Hnpre); [|exact Hcl].
    destruct (split_first c_colon pre) as [[l r]|] eqn:E3.
    + apply split_first_spec in E3 as [-> Hl]. auto.
    + intros Hin. apply (proj1 (split_first_none c_colon pre) E3). now apply in_removelast.
  - injection Eu as <- <- <-.
    unfold use_split. change 91 with c_lbr.
    rewrite (split_last_none _ _ (proj1 (split_first_none c_lbr s) E1)). cbn [fst snd andb].
    apply (tail_sound e n g f s _ _ a Hf G Hrepo Hr Hnl); [|exact Hcl].
    assert (Hne : s <> []) by (intros ->; cbn in Hr; discriminate).
    destruct (split_first c_colon (removelast s)) as [[p q]|] eqn:E3.
    + apply split_first_spec in E3 as [E3 Hp]. split; [|exact Hp].
      rewrite (removelast_last_eq s Hne) at 1. rewrite E3. now rewrite <- app_assoc.
    + exact (proj1 (split_first_none c_colon (removelast s)) E3).
Qed.

(* ---------------------------------------------------------------- package names: both directions *)
Lemma no_upper_sub (a b : str) : (forall x, In x a -> In x b) -> no_upper b = true -> no_upper a = true.
Proof.
  intros Hs Hb. unfold no_upper in *. apply forallb_forall. intros x Hx.
  rewrite forallb_forall in Hb. now apply Hb, Hs.
Qed.

(* the recorded class, on names: some "-"-chunk is a version for the code's regex but carries an
   upper-case letter *)
Definition upper_version_chunk (name : str) : bool :=
  existsb (fun ch => m_version ch && negb (no_upper ch)) (split_on c_dash name).

Lemma name_complete name :
  ~ In c_nl name -> upper_version_chunk name = false ->
  pms_pkg_name name = true -> valid_pkg_name (split_on c_dash name) = true.
Proof.
  intros Hn Hup H. unfold pms_pkg_name in H.
  apply andb_true_iff in H as [H Hcut]. apply andb_true_iff in H as [Hchars Hfirst].
  apply negb_true_iff in Hcut.
  assert (Hnocut : forall p suf, name = p ++ c_dash :: suf -> pms_version_rev suf = true -> False).
  { intros p suf E Hv. assert (Hex : existsb (fun pq => pms_version_rev (snd pq)) (hyphen_cuts name) = true).
    { apply existsb_exists. exists (p, suf). split; [rewrite E; apply hyphen_cuts_in | exact Hv]. }
    congruence. }
  assert (Hm2p : forall v, In v (split_on c_dash name) -> m_version v = true -> pms_version v = true).
  { intros v Hin Hv. rewrite <- (proj1 version_agree_proof v); [exact Hv | |].
    - intros Hx. apply Hn. exact (split_on_chars _ _ _ _ Hin Hx).
    - unfold upper_version_chunk in Hup. destruct (no_upper v) eqn:Eu; [exact Eu|]. exfalso.
      assert (Hex : existsb (fun ch => m_version ch && negb (no_upper ch)) (split_on c_dash name) = true).
      { apply existsb_exists. exists v. split; [exact Hin | now rewrite Hv, Eu]. }
      congruence. }
  apply pkg_name_boundary_proof. repeat split.
  - unfold first_not in Hfirst. destruct name as [|x t]; [discriminate|]. exists x, t. split; [reflexivity|].
    cbn [existsb] in Hfirst. rewrite orb_false_r in Hfirst. apply negb_true_iff, orb_false_iff in Hfirst as [H1 H2].
    split; apply N.eqb_neq; assumption.
  - apply forallb_forall. intros ch Hch. unfold pkg_chunk_ok. destruct ch as [|x t] eqn:Ech; [reflexivity|].
    rewrite <- Ech in *. cbn [is_nil orb].
    assert (Hnc : ~ In c_nl ch) by (intros Hin; apply Hn; exact (split_on_chars _ _ _ _ Hch Hin)).
    unfold m_pkg_chunk_re, re_plus. rewrite (strip_nl_id _ Hnc). rewrite Ech. rewrite <- Ech.
    assert (Hall : all_in pkg_class ch = true).
    { apply forallb_forall. intros y Hy. rewrite cls_pkg. apply andb_true_iff. split.
      - rewrite forallb_forall in Hchars. apply Hchars. exact (split_on_chars _ _ _ _ Hch Hy).
      - apply negb_true_iff, N.eqb_neq. intros ->. exact (split_on_no_sep _ _ _ Hch Hy). }
    rewrite Ech in *. exact Hall.
  - intros (p & v & E & Hv). apply (Hnocut p v E).
    pose proof (m_version_no_dash _ Hv) as Hvd.
    assert (Hin : In v (split_on c_dash name)).
    { rewrite E, split_on_app, (split_on_nosep _ _ Hvd). apply in_or_app. right. now left. }
    unfold pms_version_rev. change 45 with c_dash.
    rewrite (proj2 (split_first_none c_dash v) Hvd). exact (Hm2p _ Hin Hv).
  - intros (p & v & r & E & Hv & Hr). apply (Hnocut p (v ++ c_dash :: r) E).
    pose proof (m_version_no_dash _ Hv) as Hvd. pose proof (isvalid_rev_no_dash _ Hr) as Hrd.
    assert (Hin : In v (split_on c_dash name)).
    { rewrite E, split_on_app. apply in_or_app. right.
      rewrite split_on_app, (split_on_nosep _ _ Hvd). now left. }
    unfold pms_version_rev. change 45 with c_dash.
    rewrite (split_first_app _ _ _ Hvd). rewrite (Hm2p _ Hin Hv). cbn [andb].
    now rewrite <- rev_is_pms.
Qed.

(* isvalid_pkg_name = PMS 3.1.2 on names without newline, outside the recorded class *)
Lemma pkg_name_agree_proof :
  forall name, ~ In c_nl name -> upper_version_chunk name = false ->
               valid_pkg_name (split_on c_dash name) = pms_pkg_name name.
Proof.
  intros name Hn Hup. apply eq_true_iff_eq. split; [now apply name_sound | now apply name_complete].
Qed.
