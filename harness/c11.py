"""C11 — stacked USE configuration applies entries in order, including -* resets (DESIGN §6 C11).

Streams
  hist   a *program* (tree of ChunkedDataDict operations: add_bare_global / update_from_stream /
         merge / freeze / clone / optimize) is run on the real API; the flag sets rendered for six
         packages (3 keys x 2 versions) and several pre_defaults are compared with
           (A) Model_C11.run + render, evaluated inside Coq,
           (B) the plain left fold of the program's entries (Spec_C11.apply_history inside Coq,
               and the same fold in Python directly on the implementation's sets).
         Failures of (B) are shrunk and classified by the predicates class_a .. class_d below.
  build  _build_cp_atom_payload(sequence, restrict) -> exact chunk tuple  vs Model_C11.build (A)
  split  package_use_splitter on one line -> token tuple  vs Model_C11.split_line (A) and the
         token-by-token meaning of the input line (B, Spec_C11.spec_split_ok in Coq)
"""

import logging

from .common import Check, Err, clist, cpair, impl_call

IMPORTS = ("From Coq Require Import List NArith ZArith Bool.\n"
           "From Verif Require Import Base.Val C11.Model_C11 C11.Spec_C11 C11.Class_C11.")
PRE = "Open Scope N_scope."
ANCHORS = [
    "ebuild/misc.py::ChunkedDataDict", "ebuild/misc.py::_build_cp_atom_payload",
    "ebuild/misc.py::incremental_chunked", "ebuild/misc.py::chunked_data",
    "ebuild/domain.py::package_use_splitter", "ebuild/domain.py::domain.enabled_use",
    "ebuild/profiles.py::ProfileStack._collapse_use_dict",
]
KINDS = {"AttributeError": "refused", "KeyError": "refused"}

KEYS = ["cata/p1", "cata/p2", "catb/p1"]
GLOB_SRC = {3: "cata/*", 5: "*/p1", 4: "catb/*"}
PKG_IDS = [(0, 1), (0, 2), (1, 1), (1, 2), (2, 1), (2, 2)]
PLAIN = ["a", "b", "c", "d", "e"]
FLAG_ID = {"a": 10, "b": 11, "c": 12, "d": 13, "e": 14, "foo_a": 100, "foo_b": 101, "bar_a": 200,
           "*": 0, "foo_*": 1, "bar_*": 2}
UNIVERSE = ["a", "b", "c", "d", "e", "foo_a", "foo_b", "bar_a"]
GEN_FLAGS = ["a", "b", "c", "d", "foo_a", "foo_b", "bar_a"]
WILD = ["*", "foo_*", "bar_*"]
PRES = [(), ("a", "foo_a", "e"), ("b", "c", "foo_b", "bar_a")]


# ----------------------------------------------------------------------------- programs
# chunk = (scope, neg tuple, pos tuple); scope = ('A',) | ('G', mask) | ('S', k) | ('V', k, v)
# prog  = ('new',) | ('add', prog, chunk, bare:bool, raw:(neg,pos)) | ('merge', p, q)
#       | ('freeze', p) | ('clone', p, unfreeze) | ('opt', p, cached)
def entries(prog):
    t = prog[0]
    if t == "new":
        return []
    if t == "add":
        return entries(prog[1]) + [prog[2]]
    if t == "merge":
        return entries(prog[1]) + entries(prog[2])
    return entries(prog[1])


def applies(scope, pkg):
    k, v = pkg
    if scope[0] == "A":
        return True
    if scope[0] == "G":
        return bool(scope[1] >> k & 1)
    if scope[0] == "S":
        return scope[1] == k
    return scope[1] == k and scope[2] == v


def is_wild(t):
    return t == "*" or t.endswith("_*")


def clears(w, f):
    return w == "*" or (w.endswith("_*") and f.startswith(w[:-2]))


def fold(ents, pkg, pre):
    """the property's reference: left fold of the four rules over the applicable entries"""
    s = set(pre)
    for sc, neg, pos in ents:
        if not applies(sc, pkg):
            continue
        for t in neg:
            if t == "*":
                s = set()
            elif t.endswith("_*"):
                s = {f for f in s if not f.startswith(t[:-2])}
            else:
                s.discard(t)
        for t in pos:
            s.add(t)
    return s


def spec_chunk(c):
    return c[0][0] in "GV"


# ---- classifiers of the recorded finding classes (mirrors of class_a/b/c of Proofs_C11.v)
def class_a(prog, pkg):
    """a wildcard negation (-* / -P_*) that has to clear a flag added by an earlier applicable
    entry, or: a wildcard in a version/glob-specific entry followed by a global/simple-atom entry
    adding a flag it matches (collapsing moves the latter in front of the former).
    Mirror of Class_C11.class_a_tight (which lies inside the class_a the theorem excludes)."""
    E = [c for c in entries(prog) if applies(c[0], pkg)]
    for j, cj in enumerate(E):
        ws = [t for t in cj[1] if is_wild(t)]
        if not ws:
            continue
        for ci in E[:j]:
            if any(clears(w, f) for w in ws for f in ci[2]):
                return True
        if spec_chunk(cj):
            for ci in E[j + 1:]:
                if not spec_chunk(ci) and any(clears(w, f) for w in ws for f in ci[2]):
                    return True
    return False


def class_c(prog, pkg):
    """two version/glob-specific applicable entries give one flag opposite signs (the second pass of
    the collapse drops the later one as redundant against the collapsed global value).
    Mirror of Class_C11.class_c."""
    E = [c for c in entries(prog) if applies(c[0], pkg) and spec_chunk(c)]
    sneg = set().union(*[set(c[1]) for c in E]) if E else set()
    spos = set().union(*[set(c[2]) for c in E]) if E else set()
    return bool(sneg & spos)


def _stale(prog):
    """Mirror of Class_C11.stale: (keys, stale_keys, cloned, stale_seed, hazard_keys, frozen).  A key
    is stale when a non-empty global entry, a merge bringing globals or an optimize happened after
    its list was created; the seed of a clone is stale when that happened after the clone; hazard =
    an atom-keyed entry added to a stale key, or a new key created (add/merge) from a stale seed."""
    t = prog[0]
    if t == "new":
        return (frozenset(), frozenset(), False, False, frozenset(), False)
    if t == "add":
        keys, st, cl, ss, hz, fr = _stale(prog[1])
        c = prog[2]
        if c[0][0] in "AG":
            if not c[1] and not c[2]:
                return (keys, st, cl, ss, hz, fr)
            return (keys, keys, cl, cl, hz, fr)
        k = c[0][1]
        if k in st or (k not in keys and ss):
            hz = hz | {k}
        return (keys | {k}, st, cl, ss, hz, fr)
    if t == "merge":
        keys, st, cl, ss, hz, fr = _stale(prog[1])
        qk, _qs, _qc, _qss, qh, _qf = _stale(prog[2])
        hasg = any(c[0][0] in "AG" and (c[1] or c[2]) for c in entries(prog[2]))
        nk = keys | qk
        hz = hz | qh | ((qk - keys) if ss else frozenset())
        if hasg:
            return (nk, nk, cl, cl, hz, fr)
        return (nk, st | (qk if ss else frozenset()), cl, ss, hz, fr)
    if t == "freeze":
        keys, st, cl, ss, hz, fr = _stale(prog[1])
        return (keys, st, cl, ss, hz, True)
    if t == "clone":
        keys, st, cl, ss, hz, fr = _stale(prog[1])
        if fr and not prog[2]:
            return (keys, st, cl, ss, hz, fr)
        return (keys, st, True, False, hz, False)
    keys, st, cl, ss, hz, fr = _stale(prog[1])  # opt
    return (keys, keys, cl, cl, hz, fr)


def class_b(prog, pkg):
    """a package entry is added for a key whose chunk list predates a later global entry / merge of
    globals / optimize (the re-collapsed globals are appended behind the package entries), or a new
    key is created in a clone after its globals changed (seeded from the source's globals).
    Mirror of Class_C11.class_b."""
    return pkg[0] in _stale(prog)[4]


def refusal_kind(prog):
    """None, 'frozen' (a mutation of a frozen dict: refused by design) or 'opt' (a mutation of a
    key list that optimize() left as a tuple in an unfrozen dict)."""
    def go(p):  # -> (frozen, tupkeys, keys, hasglob) or str
        t = p[0]
        if t == "new":
            return (False, frozenset(), frozenset(), False)
        r = go(p[1])
        if isinstance(r, str):
            return r
        fr, tup, keys, hg = r
        if t == "add":
            c = p[2]
            if c[0][0] in "AG":
                if not c[1] and not c[2]:
                    return r
                if fr:
                    return "frozen"
                if tup:
                    return "opt"
                return (fr, tup, keys, True)
            if fr:
                return "frozen"
            if c[0][1] in tup:
                return "opt"
            return (fr, tup, keys | {c[0][1]}, hg)
        if t == "merge":
            q = go(p[2])
            if isinstance(q, str):
                return q
            _qf, _qt, qk, qg = q
            if not qk and not qg:
                return r
            if fr:
                return "frozen"
            if qk & tup or (qg and tup - qk):
                return "opt"
            return (fr, tup, keys | qk, hg or qg)
        if t == "freeze":
            return (True, tup, keys, hg)
        if t == "clone":
            if fr and not p[2]:
                return r
            return (False, frozenset(), keys, hg)
        return (fr, keys, keys, hg)  # opt
    r = go(prog)
    return r if isinstance(r, str) else None


def class_d(prog, pkg=None):
    """optimize() on an unfrozen dict followed by a mutation touching an existing key."""
    return refusal_kind(prog) == "opt"


CLASSES = [("wildcard-collapse", class_a), ("stale-globals-reappended", class_b),
           ("specific-delta-dropped", class_c)]


# ----------------------------------------------------------------------------- Coq terms
def c_ids(ts):
    return "[" + ";".join(str(FLAG_ID[t]) for t in ts) + "]"


def c_chunk(c):
    sc, neg, pos = c
    head = ("cA" if sc[0] == "A" else "cG %d" % sc[1] if sc[0] == "G" else "cS %d" % sc[1] if sc[0] == "S"
            else "cV %d %d" % (sc[1], sc[2]))
    return "(%s %s %s)" % (head, c_ids(neg), c_ids(pos))


def c_scope(sc):
    return ("KAll" if sc[0] == "A" else "(KGlob %d)" % sc[1] if sc[0] == "G" else "(KSimple %d)" % sc[1]
            if sc[0] == "S" else "(KVer %d %d)" % (sc[1], sc[2]))


def c_prog(p):
    t = p[0]
    if t == "new":
        return "PNew"
    if t == "add":
        return "(PAdd %s %s)" % (c_prog(p[1]), c_chunk(p[2]))
    if t == "merge":
        return "(PMerge %s %s)" % (c_prog(p[1]), c_prog(p[2]))
    if t == "freeze":
        return "(PFreeze %s)" % c_prog(p[1])
    if t == "clone":
        return "(PClone %s %s)" % (c_prog(p[1]), "true" if p[2] else "false")
    return "(POpt %s)" % c_prog(p[1])


def show_prog(p):
    t = p[0]
    if t == "new":
        return "new"
    if t == "add":
        sc, neg, pos = p[2]
        if sc[0] == "A":
            who = "*/*"
        elif sc[0] == "G":
            who = GLOB_SRC.get(sc[1], "?")
        elif sc[0] == "S":
            who = KEYS[sc[1]]
        else:
            who = "=%s-%d" % (KEYS[sc[1]], sc[2])
        return "%s; %s %s" % (show_prog(p[1]), who, " ".join(["-" + n for n in neg] + list(pos)))
    if t == "merge":
        return "%s; merge{%s}" % (show_prog(p[1]), show_prog(p[2]))
    if t == "clone":
        return "%s; clone(unfreeze=%s)" % (show_prog(p[1]), p[2])
    return "%s; %s" % (show_prog(p[1]), {"freeze": "freeze", "opt": "optimize"}[t])


# ----------------------------------------------------------------------------- generators
def gen_entry(rng, wild):
    r = rng.random()
    if r < 0.35:
        sc = ("A",)
    elif r < 0.45:
        sc = ("G", rng.choice([3, 5, 4]))
    elif r < 0.75:
        sc = ("S", rng.randrange(3))
    else:
        sc = ("V", rng.randrange(3), rng.choice([1, 2]))
    fl = rng.sample(GEN_FLAGS, rng.choice([1, 1, 2, 2, 3]))
    neg = tuple(f for f in fl if rng.random() < 0.4)
    pos = tuple(f for f in fl if f not in neg)
    if rng.random() < wild:
        neg = (rng.choice(WILD),) + neg
    raw = (neg, pos)
    if sc[0] in "AG":  # _add_global stores tuple(set(..)): the harness supplies Python's set order
        neg, pos = tuple(set(neg)), tuple(set(pos))
    return (sc, neg, pos), raw


def gen_prog(rng, n, wild, depth=0, malformed=False):
    p = ("new",)
    frozen = False
    for _ in range(n):
        r = rng.random()
        if frozen and not malformed and r < 0.7:
            p = ("clone", p, True)
            frozen = False
            continue
        if r < 0.62:
            c, raw = gen_entry(rng, wild)
            p = ("add", p, c, rng.random() < 0.5, raw)
        elif r < 0.74 and depth < 2:
            q = gen_prog(rng, rng.randrange(0, 4), wild, depth + 1)
            if rng.random() < 0.7:
                q = ("freeze", q)
            p = ("merge", p, q)
        elif r < 0.80:
            if malformed or rng.random() < 0.3:
                p = ("opt", p, rng.random() < 0.5)
            else:  # optimize where later mutation is possible: on a frozen dict, then clone
                p = ("clone", ("opt", ("freeze", p), rng.random() < 0.5), True)
        elif r < 0.90:
            p = ("clone", ("freeze", p), True)
        elif r < 0.94:
            p = ("clone", p, rng.random() < 0.5)
        else:
            p = ("freeze", p)
            frozen = True
    return p


def shrink_prog(prog, fails):
    """greedy: replace a node by one of its children while `fails` stays true"""
    def variants(p):
        t = p[0]
        if t == "new":
            return
        if t == "merge":
            yield p[1]
            yield p[2]
            for v in variants(p[1]):
                yield ("merge", v, p[2])
            for v in variants(p[2]):
                yield ("merge", p[1], v)
            return
        yield p[1]
        for v in variants(p[1]):
            yield (t, v) + tuple(p[2:])
    for _ in range(200):
        for v in variants(prog):
            if fails(v):
                prog = v
                break
        else:
            return prog
    return prog


def main(chk: Check):
    logging.getLogger("pkgcore").setLevel(logging.CRITICAL)
    from pkgcore.ebuild import domain as domain_mod
    from pkgcore.ebuild.atom import atom
    from pkgcore.ebuild.misc import ChunkedDataDict, _build_cp_atom_payload, chunked_data
    from pkgcore.restrictions import packages
    from pkgcore.test.misc import FakePkg
    from pkgcore.util.parserestrict import parse_match

    chk.rule("hist: random operation trees (1-8 steps; add_bare_global / update_from_stream of */*, glob, "
             "cat/pkg and =cat/pkg-v entries over 7 flags incl. 2 USE_EXPAND prefixes, 15-25% of entries "
             "with -*/-foo_*/-bar_*; merge of sub-histories, freeze, clone, optimize) rendered for 6 "
             "packages x 3 pre_defaults; non-trivial = >=3 entries applicable to some package with at "
             "least one negation; build: random chunk sequences; split: random package.use lines with "
             "-*, USE_EXPAND sections and invalid tokens")
    ok = chk.build(["C11/Prop_C11.vo"])
    if ok:
        chk.check_assumptions("C11/Prop_C11.v")
    chk.lint(["C11"])
    chk.check_fingerprint(ANCHORS)
    rng = chk.rng

    GLOBS = {m: parse_match(s) for m, s in GLOB_SRC.items()}
    SIMPLE = [atom(k) for k in KEYS]
    VER = {(k, v): atom("=%s-%d" % (KEYS[k], v)) for k in range(3) for v in (1, 2)}
    PKGS = {(k, v): FakePkg("%s-%d" % (KEYS[k], v)) for k, v in PKG_IDS}

    def real_scope(s):
        if s[0] == "A":
            return packages.AlwaysTrue
        if s[0] == "G":
            return GLOBS[s[1]]
        if s[0] == "S":
            return SIMPLE[s[1]]
        return VER[(s[1], s[2])]

    def run_real(prog):
        t = prog[0]
        if t == "new":
            return ChunkedDataDict()
        if t == "add":
            d = run_real(prog[1])
            c, bare, raw = prog[2], prog[3], prog[4]
            if c[0][0] == "A" and bare:
                d.add_bare_global(raw[0], raw[1])
            else:
                d.update_from_stream([chunked_data(real_scope(c[0]), raw[0], raw[1])])
            return d
        if t == "merge":
            d = run_real(prog[1])
            d.merge(run_real(prog[2]))
            return d
        if t == "freeze":
            d = run_real(prog[1])
            d.freeze()
            return d
        if t == "clone":
            return run_real(prog[1]).clone(unfreeze=prog[2])
        d = run_real(prog[1])
        d.optimize(cache={} if prog[2] else None)
        return d

    def render_real(prog, pres):
        """-> Err | {(pre_index, pkg): set}"""
        def f():
            d = run_real(prog)
            return {(i, pk): set(d.render_pkg(PKGS[pk], pre)) for i, pre in enumerate(pres) for pk in PKG_IDS}
        return impl_call(f, kinds=KINDS)

    def canon(res, pres):
        if isinstance(res, Err):
            return res
        return [[[f in res[(i, pk)] for f in UNIVERSE] for pk in PKG_IDS] for i in range(len(pres))]

    # ------------------------------------------------------------------ hist stream
    def A_(neg, pos):
        return (("A",), tuple(set(neg)), tuple(set(pos))), (tuple(neg), tuple(pos))

    def K_(sc, neg, pos):
        return (sc, tuple(neg), tuple(pos)), (tuple(neg), tuple(pos))

    def P(*steps):
        p = ("new",)
        for s in steps:
            if s == "freeze":
                p = ("freeze", p)
            elif s == "opt":
                p = ("opt", p, False)
            elif s == "clone":
                p = ("clone", p, True)
            else:
                p = ("add", p, s[0], True, s[1])
        return p

    witnesses = [
        # (a) global `a` then global `-* b`
        P(A_((), ("a",)), A_(("*",), ("b",))),
        P(A_((), ("foo_a",)), A_(("foo_*",), ("b",))),
        # (b) g(a); k(-a); g(b); k(+d)
        P(A_((), ("a",)), K_(("S", 0), ("a",), ()), A_((), ("b",)), K_(("S", 0), (), ("d",))),
        # (b) clone, new global, new key by merge: the new key misses the global
        ("merge", P("freeze", "clone", A_((), ("a",))), P(K_(("V", 2, 2), (), ("b",)))),
        # (c) */* -a ; =cata/p1-1 a ; =cata/p1-1 -a ; collapsed by optimize
        P(A_(("a",), ()), K_(("V", 0, 1), (), ("a",)), K_(("V", 0, 1), ("a",), ()), "freeze", "opt"),
        # (d) optimize on an unfrozen dict, then add to the same key
        P(K_(("S", 0), (), ("a",)), "opt", K_(("S", 0), (), ("b",))),
    ]
    progs = list(witnesses)
    n_rand = chk.n(420, 6000)
    for i in range(n_rand):
        progs.append(gen_prog(rng, rng.randrange(1, 9), 0.15 if i % 3 else 0.25))
    for i in range(chk.n(40, 500)):  # malformed stream: mutations of frozen / optimized dicts
        progs.append(gen_prog(rng, rng.randrange(2, 7), 0.1, malformed=True))

    hist_cases, hist_meta = [], []
    seen_classes = {}
    unclassified = []
    refusals = {"frozen": 0, "opt": 0}
    n_fail_pairs = 0
    for prog in progs:
        pres = [PRES[0], rng.choice(PRES[1:])]
        res = render_real(prog, pres)
        if not isinstance(res, Err):
            extra = set().union(*res.values()) - set(UNIVERSE)
            if extra:
                chk.violation("property", {"what": "rendered set contains flags nobody configured",
                                           "input": show_prog(prog), "flags": sorted(extra)})
                continue
        term = cpair(c_prog(prog), clist([c_ids(p) for p in pres], "list N"))
        hist_cases.append((term, canon(res, pres)))
        hist_meta.append((prog, pres))
        ents = entries(prog)
        if any(sum(1 for c in ents if applies(c[0], pk)) >= 3 and any(c[1] for c in ents if applies(c[0], pk))
               for pk in PKG_IDS):
            chk.nontrivial(term)
        # ---- (B) directly on the implementation
        if isinstance(res, Err):
            kind = refusal_kind(prog)
            if kind == "frozen":
                refusals["frozen"] += 1
            elif kind == "opt":
                refusals["opt"] += 1
                if not chk.known_finding("optimize-then-mutate", show_prog(prog)):
                    unclassified.append({"what": "mutation after optimize() raises", "input": show_prog(prog)})
            else:
                unclassified.append({"what": "the operations raise %s although nothing is frozen" % res.kind,
                                     "input": show_prog(prog)})
            continue
        bad = [(i, pk) for (i, pk), s in res.items() if s != fold(ents, pk, pres[i])]
        if not bad:
            continue
        n_fail_pairs += len(bad)
        done = set()
        for i, pk in bad:
            if pk in done:
                continue
            done.add(pk)
            pre = pres[i]

            def fails(q, pk=pk, pre=pre):
                r = render_real(q, [pre])
                return (not isinstance(r, Err)) and r[(0, pk)] != fold(entries(q), pk, pre)
            small = shrink_prog(prog, fails) if len(seen_classes) < 3 or len(unclassified) < 3 else prog
            cls = [cid for cid, pred in CLASSES if pred(small, pk)]
            r = render_real(small, [pre])
            ex = {"history": show_prog(small), "package": "%s-%d" % (KEYS[pk[0]], pk[1]),
                  "pre_defaults": list(pre),
                  "rendered": sorted(r[(0, pk)]) if not isinstance(r, Err) else repr(r),
                  "left_fold": sorted(fold(entries(small), pk, pre))}
            if cls and chk.known_finding(cls[0], ex):
                seen_classes[cls[0]] = seen_classes.get(cls[0], 0) + 1
            else:
                unclassified.append({"what": "rendered flag set differs from applying the entries in order",
                                     "input": ex})
    chk.count("hist", len(hist_cases))
    chk.note(f"hist: {n_fail_pairs} (history,package,pre) results differ from the left fold, all in recorded "
             f"classes {seen_classes}; refusals: {refusals}")
    for s in hist_cases[6:: max(1, len(hist_cases) // 3)][:3]:
        chk.sample({"stream": "hist", "input": s[0], "impl": "refused" if isinstance(s[1], Err) else s[1][0][0]})

    # ------------------------------------------------------------------ build stream
    def gen_seq(rng):
        k = rng.randrange(3)
        seq = []
        for _ in range(rng.choice([0, 1, 2, 2, 3, 3, 4, 5, 6])):
            r = rng.random()
            sc = ("A",) if r < 0.3 else ("S", k) if r < 0.55 else ("V", k, rng.choice([1, 2])) if r < 0.85 \
                else ("G", rng.choice([3, 5, 4]))
            fl = rng.sample(GEN_FLAGS, rng.choice([1, 2, 2, 3]))
            neg = [f for f in fl if rng.random() < 0.45]
            pos = [f for f in fl if f not in neg]
            if rng.random() < 0.1:
                neg.insert(0, rng.choice(WILD))
            if rng.random() < 0.06 and pos:
                neg.append(pos[0])  # the same flag negated and added by one chunk
            seq.append((sc, tuple(neg), tuple(pos)))
        return seq, (("A",) if rng.random() < 0.3 else ("S", k))

    def enc_scope(key):
        if key == packages.AlwaysTrue:
            return [0]
        for m, g in GLOBS.items():
            if key is g or key == g:
                return [1, m]
        for k, a in enumerate(SIMPLE):
            if key == a:
                return [2, k]
        for (k, v), a in VER.items():
            if key == a:
                return [3, k, v]
        return [9]

    build_cases = []
    for _ in range(chk.n(300, 4000)):
        seq, restrict = gen_seq(rng)
        res = impl_call(lambda: [[enc_scope(c.key), [FLAG_ID[t] for t in c.neg], [FLAG_ID[t] for t in c.pos]]
                                 for c in _build_cp_atom_payload(
                                     [chunked_data(real_scope(sc), n, p) for sc, n, p in seq],
                                     real_scope(restrict))])
        build_cases.append((cpair(clist([c_chunk(c) for c in seq], "chunk"), c_scope(restrict)), res))
        if len(seq) >= 3:
            chk.nontrivial(build_cases[-1][0])
    chk.count("build", len(build_cases))
    chk.sample({"stream": "build", "input": build_cases[0][0], "impl": build_cases[0][1]})

    # ------------------------------------------------------------------ split stream
    def gen_line(rng):
        toks, terms = [], []
        sec = None
        for _ in range(rng.choice([1, 2, 3, 4, 5, 6, 8])):
            r = rng.random()
            if r < 0.12:
                toks.append("-*")
                terms.append("TStar")
            elif r < 0.28:
                p = rng.choice([1, 2])
                toks.append(["", "FOO:", "BAR:"][p] if rng.random() < 0.8 else ["", "foo:", "Bar:"][p])
                terms.append("(THdr %d)" % p)
                sec = p
            elif r < 0.32:
                toks.append(rng.choice(["%bad", "a!b", "-a%"]))
                terms.append("TBad")
            else:
                b = rng.choice(["a", "b", "c"])
                if rng.random() < 0.35:
                    toks.append("-" + b)
                    terms.append("(TNeg %d)" % FLAG_ID[b])
                else:
                    toks.append(b)
                    terms.append("(TPos %d)" % FLAG_ID[b])
        return toks, clist(terms, "tok")

    def enc_out(t):
        if t == "-*":
            return [2]
        if t in ("-foo_*", "-bar_*"):
            return [3, 1 if t == "-foo_*" else 2]
        n = t[1:] if t.startswith("-") else t
        if n in ("a", "b", "c"):
            i = FLAG_ID[n]
        elif n[:4] in ("foo_", "bar_") and n[4:] in ("a", "b", "c"):
            i = (100 if n[:4] == "foo_" else 200) + FLAG_ID[n[4:]] - 10
        else:
            return [9]
        return [1 if t.startswith("-") else 0, i]

    split_cases = []
    for _ in range(chk.n(300, 4000)):
        toks, term = gen_line(rng)
        line = rng.choice(["cata/p1", "*/*", "=catb/p1-2"]) + " " + " ".join(toks)

        def f():
            out = list(domain_mod.package_use_splitter([(line, 1, "package.use")]))
            if not out:
                return None
            return [enc_out(t) for t in out[0][1]]
        split_cases.append((term, impl_call(f)))
        if len(toks) >= 3 and ("-*" in toks or any(t.endswith(":") for t in toks)):
            chk.nontrivial(term)
    chk.count("split", len(split_cases))
    chk.sample({"stream": "split", "input": split_cases[0][0], "impl": split_cases[0][1]})

    # ------------------------------------------------------------------ evaluate model and spec inside Coq
    streams = [
        ("hist", "prog * list (list N)", hist_cases,
         ["mismatches run_hist cases", "where_ (fun i r => negb (spec_hist_ok i r)) cases",
          "where_ (fun i _ => existsb (class_a_tight (fst i)) pkgs) cases",
          "where_ (fun i _ => existsb (class_b (fst i)) pkgs) cases",
          "where_ (fun i _ => existsb (class_c (fst i)) pkgs) cases"], 150),
        ("build", "list chunk * scope", build_cases, ["mismatches run_build cases"], 400),
        ("split", "list tok", split_cases,
         ["mismatches run_split cases", "where_ (fun i r => negb (spec_split_ok i r)) cases"], 400),
    ]
    a_bad = []
    split_bad = []
    for name, ty, cases, evals, shard in streams:
        if not ok:
            break
        r = chk.coq_eval(name, IMPORTS, ty, cases, evals, shard=shard, preamble=PRE)
        if r is None:
            continue
        for i in r[0][:3]:
            a_bad.append((name, cases[i]))
        if name == "split":
            split_bad = [cases[i] for i in r[1]]
        if name == "hist":
            # the Coq-side fold must agree with the Python-side fold on which cases fail
            coq_fail = set(r[1])
            py_fail = set()
            for idx, (prog, pres) in enumerate(hist_meta):
                res = hist_cases[idx][1]
                if isinstance(res, Err):
                    continue
                want = [[[f in fold(entries(prog), pk, pre) for f in UNIVERSE] for pk in PKG_IDS] for pre in pres]
                if want != res:
                    py_fail.add(idx)
            for j, (cid, pred) in enumerate(CLASSES):
                py_cls = {idx for idx, (prog, _p) in enumerate(hist_meta) if any(pred(prog, pk) for pk in PKG_IDS)}
                if py_cls != set(r[2 + j]):
                    chk.violation("correspondence",
                                  {"what": f"the harness classifier of '{cid}' and its Coq definition in Class_C11 "
                                           "disagree", "cases": sorted(py_cls ^ set(r[2 + j]))[:5]}, no_input=True)
            if coq_fail != py_fail:
                chk.violation("correspondence",
                              {"what": "Spec_C11.apply_history (in Coq) and the harness's left fold disagree "
                                       "on which implementation results are wrong",
                               "only_coq": sorted(coq_fail - py_fail)[:5], "only_python": sorted(py_fail - coq_fail)[:5]},
                              no_input=True)
    for u in unclassified[:3]:
        chk.violation("property", u)
    for s in split_bad[:3]:
        chk.violation("property", {"what": "the package.use splitter's output does not mean what the line says "
                                           "(Spec_C11.spec_split_ok)", "input": s[0], "implementation": s[1]})
    for name, case in a_bad:
        chk.violation("correspondence",
                      {"what": f"implementation and Model_C11 disagree on stream '{name}' "
                               "(the theorems of Prop_C11 no longer speak about this code)",
                       "input": case[0], "implementation": case[1]},
                      no_input=not (unclassified or split_bad))
