(* Spec_C42.v — the property's statement: the commands reported for a package name are what a
   SEQUENTIAL reading of the update lines does to a package that starts under that name.

   The reference follows one package: it remembers the name the package currently has; a move
   whose source is that name is reported and renames the package; a slotmove whose source is
   that name is reported; every other line (a line about another name, a redundant move of a
   name the package no longer carries, a malformed line) is ignored.  No deques, no `moved`
   table, no flattening. *)
From Coq Require Import List NArith ZArith Bool Sorting.Sorted Sorting.Permutation.
Import ListNotations.
From Verif Require Import Base.Val C42.Model_C42.

Definition seq_step (k_state : list cmd * str) (o : op) : list cmd * str :=
  let '(out, cur) := k_state in
  match o with
  | OMove s t c => if str_eqb s cur then (out ++ [c], t) else (out, cur)
  | OSlot s c => if str_eqb s cur then (out ++ [c], cur) else (out, cur)
  | OSkip => (out, cur)
  end.
Definition chain_state (k : str) (ops : list op) : list cmd * str := fold_left seq_step ops ([], k).
Definition chain_spec (k : str) (ops : list op) : list cmd := fst (chain_state k ops).
Definition current_name (k : str) (ops : list op) : str := snd (chain_state k ops).

(* file order: the correctly named files, each once, by ascending key
   ((year, quarter) for quarter-named files, the name for EAPI 8) *)
Definition key_le (a b : str * list str) : Prop := str_leb (fst a) (fst b) = true.
Definition keyed (eapi8 : bool) (files : list (str * list str)) : list (str * list str) :=
  flat_map (fun f => match file_key eapi8 (fst f) with Some k => [(k, snd f)] | None => [] end) files.
Definition is_file_order (eapi8 : bool) (files ordered : list (str * list str)) : Prop :=
  Permutation ordered (keyed eapi8 files) /\ StronglySorted key_le ordered.

(* ---- executable acceptor used on the IMPLEMENTATION's recorded mapping (comparison B) *)
Definition spec_updates (i : bstr) : val :=
  let '(e, files, keys) := dec_case i in
  let ops := map parse_line (all_lines e files) in
  show_mapping (fun k => chain_spec k ops) keys.
Definition spec_updates_ok (i : bstr) (res : val) : bool := val_eqb (spec_updates i) res.
