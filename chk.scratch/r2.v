From Coq Require Import List NArith ZArith Bool.
From Verif Require Import Base.Val.
