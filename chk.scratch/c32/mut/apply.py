import sys, subprocess
M = {
 "M1": ("src/pkgcore/ebuild/ebd_ipc.py", "                if ret:\n                    raise IpcCommandError(\"\\n\".join(output), code=ret)\n\n    @coroutine\n    def _install_dirs(self):", "                if not ret:\n                    raise IpcCommandError(\"\\n\".join(output), code=ret)\n\n    @coroutine\n    def _install_dirs(self):"),
 "M2": ("src/pkgcore/ebuild/ebd_ipc.py", '        return " ".join(filter(None, str(response).split("\\n")))', '        return str(response)'),
 "M3": ("src/pkgcore/ebuild/ebd_ipc.py", "                    ret = (e.code, e.msg)", "                    ret = (1, e.msg)"),
 "M4": ("src/pkgcore/ebuild/ebd_ipc.py", "        self.phase = self.read()\n", "        self.phase = None\n"),
 "M5": ("src/pkgcore/ebuild/ebd.py", "            ebd.write(e.ret)\n", "            pass\n"),
 "M6": ("data/lib/pkgcore/ebd/ebuild-daemon-lib.bash", "\tif [[ ${ret} == 0 ]]; then\n\t\t[[ -n $@ ]] && echo \"$@\"", "\tif [[ ${ret} -le 0 ]]; then\n\t\t[[ -n $@ ]] && echo \"$@\""),
 "M7": ("src/pkgcore/ebuild/ebd_ipc.py", "        self._init_coroutines()\n        args = super().parse_args(*args, **kwargs)", "        args = super().parse_args(*args, **kwargs)"),
 "M8": ("src/pkgcore/ebuild/ebd_ipc.py", "        self.ret = IpcCommand._encode_ret((code, msg))", "        self.ret = f\"{code}\\x07{msg}\""),
 "M9": ("src/pkgcore/ebuild/ebd_ipc.py", "                    raise IpcCommandError(msg=e.msg, code=e.code, name=self.name)", "                    raise IpcCommandError(msg=e.msg, name=self.name)"),
 "M10": ("src/pkgcore/ebuild/ebd_ipc.py", "        args = self.read().strip(\"\\0\")\n        args = args.split(\"\\0\") if args else []", "        args = self.read().split(\"\\0\")"),
 "H1": ("src/pkgcore/ebuild/ebd_ipc.py", "        if ret is None:\n            return 0\n        elif isinstance(ret, tuple):\n            code, response = ret\n            return f\"{code}\\x07{IpcCommand._single_line(response)}\"", "        if ret is None:\n            return \"0\"\n        if isinstance(ret, tuple):\n            return str(ret[0]) + \"\\x07\" + IpcCommand._single_line(ret[1])"),
}
name = sys.argv[1]
f, old, new = M[name]
p = "/tmp/wt_C32m/" + f
s = open(p).read()
assert s.count(old) == 1, (name, s.count(old))
open(p, "w").write(s.replace(old, new))
print("applied", name)
