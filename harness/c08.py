"""C08 — repository queries return exactly the matching packages (DESIGN §6 C08).

Every case is (world, 1-3 stacked in-memory SimpleTrees, restriction built from REAL restriction
objects).  The implementation answers
    cands   the candidate (category, package) keys itermatch derived for the first repository
            (recorded by a SimpleTree subclass wrapping _internal_match)
    plain   itermatch(r)                                    (multiplex.tree when stacked)
    sorted  itermatch(r, sorter=sorted)                     in the order yielded
    ucpv    itermatch(r, versioned=False, raw_pkg_cls=UnversionedCPV)
    utuple  itermatch(r, versioned=False)                   bare (category, package) tuples
    usorted itermatch(r, sorter=sorted, versioned=False, raw_pkg_cls=UnversionedCPV)
and they are compared INSIDE Coq with Model_C08.run_query (A) and with the brute-force filter
Spec_C08.spec_query_ok / spec_tuple_ok (B); the same brute-force oracle is also applied in
Python directly on the implementation (r.match on package objects built from the dicts).

Streams: `query` (generated trees: category/package leaves with exact/glob/regex values, negation
on the wrapper and on the value, other-attribute leaves, atoms, AlwaysBool, Negate, AND/OR/
exactly-one/at-most-one groupings with negate), `shapes` (systematic two-level shapes around the
candidate-pruning decisions), `cross` (ANDs of two/three multi-alternative groups whose
combinations mix constrained and unconstrained clauses, systematic ordered pairs + random), `ladder` (every rung of the fast path: alternatives of 0/1/2 exact names
with/without glob/regex/value-negated matchers on each side, on a fully populated repository), `bad` (malformed: non-restriction arguments -> TypeError).
"""

import itertools
import json
import os
import re

from .common import VERIF, Check, Err, Raw, cN, cbool, clist, cpair, cstr, cval, impl_call

IMPORTS = ("From Coq Require Import List NArith ZArith Bool.\n"
           "From Verif Require Import Base.Val C06.Restr C08.Ord_C08 C08.Model_C08 C08.Spec_C08.")
ANCHORS = ["repository/prototype.py::_candidate_restrictions",
           "repository/prototype.py::tree.itermatch",
           "repository/prototype.py::tree.match",
           "repository/prototype.py::tree._internal_gen_candidates",
           "repository/prototype.py::tree._internal_match",
           "repository/prototype.py::tree._identify_candidates",
           "repository/prototype.py::tree._fast_identify_candidates",
           "repository/prototype.py::tree._cat_filter",
           "repository/prototype.py::tree._package_filter",
           "repository/prototype.py::VersionMapping",
           "repository/prototype.py::PackageMapping",
           "repository/multiplex.py::tree.itermatch",
           "repository/util.py::SimpleTree",
           "restrictions/util.py::collect_package_restrictions",
           "restrictions/boolean.py::AndRestriction.iter_dnf_solutions",
           "restrictions/boolean.py::OrRestriction.iter_dnf_solutions",
           "restrictions/boolean.py::base.iter_dnf_solutions",
           "restrictions/restriction.py::Negate",
           "restrictions/values.py::ContainmentMatch.match"]

CATS = ["a", "ab", "b", "ba"]
PKGS = ["x", "xy", "y", "yx", "z"]
VERS = [1, 2, 3, 4]
REGEXES = ["a", "^b", "y$", "^.$", "x|b"]
KCOQ = {"and": "KAnd", "or": "KOr", "one": "KJustOne", "amo": "KAtMostOne", "atom": "KAtom"}


# --------------------------------------------------------------------------- case construction
# tree descriptions
#   ("leaf", attr, vspec, wneg)   vspec = ("exact", s, neg) | ("glob", s, prefix, neg) | ("regex", rx, neg)
#   ("always", b) | ("neg", t) | ("node", kind, neg, [t...]) | ("atom", text)
class Ctx:
    """Builds the real restriction and the Coq term of one tree; owns the leaf table."""

    def __init__(self, mods):
        self.m = mods
        self.leaf_ids = {}      # key -> id
        self.infos = []         # coq leafdesc per id
        self.base = []          # un-negated real PackageRestriction per id (for truth tables)
        self.opaque = []        # ids of LOther leaves
        self.preds = {}         # regex -> pred id

    def value(self, vspec):
        V = self.m["values"]
        if vspec[0] == "exact":
            return V.StrExactMatch(vspec[1], negate=vspec[2]), f"MExact {cstr(vspec[1])} {cbool(vspec[2])}"
        if vspec[0] == "glob":
            return (V.StrGlobMatch(vspec[1], prefix=vspec[2], negate=vspec[3]),
                    f"MGlob {cstr(vspec[1])} {cbool(vspec[2])} {cbool(vspec[3])}")
        rx = vspec[1]
        pid = self.preds.setdefault(rx, len(self.preds))
        return V.StrRegex(rx, negate=vspec[2]), f"MPred {cN(pid)} {cbool(vspec[2])}"

    def leaf_id(self, key, coq_desc, base_restriction, opaque):
        if key not in self.leaf_ids:
            i = len(self.infos)
            self.leaf_ids[key] = i
            self.infos.append(coq_desc if not opaque else f"LOther {cN(i)}")
            self.base.append(base_restriction)
            if opaque:
                self.opaque.append(i)
        return self.leaf_ids[key]

    def leaf_from_real(self, pr):
        """a PackageRestriction found inside a real atom"""
        V = self.m["values"]
        v = pr.restriction
        if pr.attr in ("category", "package") and type(v) is V.StrExactMatch and v.case_sensitive:
            con = "LCat" if pr.attr == "category" else "LPkg"
            key = ("leaf", pr.attr, ("exact", v.exact, bool(v.negate)))
            desc = f"{con} (MExact {cstr(v.exact)} {cbool(v.negate)})"
            return self.leaf_id(key, desc, pr, False)
        return self.leaf_id(("real", pr.attr, str(v)), None, pr, True)

    def build(self, t):
        P, R, B = self.m["packages"], self.m["restriction"], self.m["boolean"]
        if t[0] == "leaf":
            _, attr, vspec, wneg = t
            val, vcoq = self.value(vspec)
            basepr = P.PackageRestriction(attr, val)
            if attr == "category":
                i = self.leaf_id(("leaf", attr, vspec), f"LCat ({vcoq})", basepr, False)
            elif attr == "package":
                i = self.leaf_id(("leaf", attr, vspec), f"LPkg ({vcoq})", basepr, False)
            else:
                i = self.leaf_id(("leaf", attr, vspec), None, basepr, True)
            return P.PackageRestriction(attr, val, negate=wneg), f"Leaf {cbool(wneg)} {cN(i)}"
        if t[0] == "always":
            return P.AlwaysBool(negate=t[1]), f"Always {cbool(t[1])}"
        if t[0] == "neg":
            o, c = self.build(t[1])
            return R.Negate(o), f"Neg ({c})"
        if t[0] == "atom":
            a = self.m["atom"](t[1])
            kids = []
            for x in a.restrictions:
                if not isinstance(x, P.PackageRestriction) or x.negate:
                    raise ValueError("atom child is not a plain PackageRestriction")
                kids.append(f"(Leaf false {cN(self.leaf_from_real(x))})")
            return a, f"Node KAtom {cbool(a.negate)} {clist(kids, 'restr')}"
        _, kind, neg, subs = t
        built = [self.build(s) for s in subs]
        cls = {"and": B.AndRestriction, "or": B.OrRestriction, "one": B.JustOneRestriction,
               "amo": B.AtMostOneOfRestriction}[kind]
        obj = cls(*[b[0] for b in built], node_type="package", negate=neg)
        return obj, f"Node {KCOQ[kind]} {cbool(neg)} {clist(['(' + b[1] + ')' for b in built], 'restr')}"


def c_repo(d):
    return clist([cpair(cstr(c), clist([cpair(cstr(p), clist([cN(v) for v in vs], "N"))
                                        for p, vs in ps.items()], "str * list ver"))
                  for c, ps in d.items()], "str * list (str * list ver)")


def c_obj(o):
    c, p, v = o
    return f"PV {cstr(c)} {cstr(p)} {cN(v)}" if v is not None else f"PU {cstr(c)} {cstr(p)}"


def gen_repo(rng, small=False):
    d = {}
    for c in rng.sample(CATS, rng.choice([1, 2, 3, 3])):
        ps = {}
        for p in rng.sample(PKGS, rng.choice([0, 1, 2, 3, 3] if not small else [1, 2])):
            n = rng.choice([0, 1, 1, 2, 3] if not small else [1, 2])
            ps[p] = rng.sample(VERS, n)
        d[c] = ps
    if not any(vs for ps in d.values() for vs in ps.values()):
        d.setdefault(CATS[0], {})[PKGS[0]] = [1]
    return d


def gen_value(rng, pool):
    k = rng.random()
    if k < 0.5:
        return ("exact", rng.choice(pool), rng.random() < 0.2)
    if k < 0.8:
        return ("glob", rng.choice(pool)[: rng.choice([1, 1, 2])], rng.random() < 0.6, rng.random() < 0.2)
    return ("regex", rng.choice(REGEXES), rng.random() < 0.2)


def gen_leaf(rng):
    k = rng.random()
    wneg = rng.random() < 0.25
    if k < 0.4:
        return ("leaf", "category", gen_value(rng, CATS), wneg)
    if k < 0.8:
        return ("leaf", "package", gen_value(rng, PKGS), wneg)
    return ("leaf", "fullver", ("exact", str(rng.choice(VERS)), rng.random() < 0.2), wneg)


def gen_atom(rng):
    cp = f"{rng.choice(CATS)}/{rng.choice(PKGS)}"
    k = rng.random()
    if k < 0.5:
        return ("atom", cp)
    op = rng.choice(["=", ">=", "<", "~"])
    return ("atom", f"{op}{cp}-{rng.choice(VERS)}")


def gen_tree(rng, depth):
    k = rng.random()
    if depth == 0 or k < 0.3:
        j = rng.random()
        if j < 0.75:
            return gen_leaf(rng)
        if j < 0.87:
            return gen_atom(rng)
        if j < 0.93:
            return ("always", rng.random() < 0.6)
        return ("neg", gen_leaf(rng))
    if k < 0.36:
        return ("neg", gen_tree(rng, depth - 1))
    kind = rng.choice(["and", "and", "and", "or", "or", "or", "one", "amo"])
    n = rng.choice([0, 1, 2, 2, 2, 3]) if depth < 3 else rng.choice([1, 2, 2, 3])
    return ("node", kind, rng.random() < 0.2, [gen_tree(rng, depth - 1) for _ in range(n)])


def shape_trees():
    """systematic two-level shapes: every pair of leaf roles under AND/OR and under OR-of-ANDs,
    with the wrapper/value/group negations that decide whether a leaf may prune"""
    def cat(s, vneg=False, wneg=False, glob=False):
        return ("leaf", "category", ("glob", s, True, vneg) if glob else ("exact", s, vneg), wneg)

    def pkg(s, vneg=False, wneg=False, glob=False):
        return ("leaf", "package", ("glob", s, True, vneg) if glob else ("exact", s, vneg), wneg)
    ver = ("leaf", "fullver", ("exact", "1", False), False)
    roles = []
    for vneg, wneg, glob in itertools.product((False, True), (False, True), (False, True)):
        roles.append(cat("a", vneg, wneg, glob))
        roles.append(pkg("x", vneg, wneg, glob))
    roles += [ver, ("always", True), ("always", False), ("atom", "ab/x"), ("atom", "=a/xy-1"),
              ("neg", cat("a")), ("neg", pkg("x"))]
    out = list(roles)
    for a, b in itertools.product(roles, repeat=2):
        for kind in ("and", "or"):
            for neg in (False, True):
                out.append(("node", kind, neg, [a, b]))
    inner = [("node", "and", False, [cat("a"), pkg("x")]), ("node", "and", False, [cat("b"), pkg("y")]),
             ("node", "and", False, [cat("ab", glob=True)]), ("node", "and", False, [pkg("y"), ver]),
             ("node", "or", True, [cat("a")]), ("node", "or", True, [pkg("x"), cat("b")]),
             ("node", "and", True, [cat("a"), pkg("x")]), ("node", "one", False, [cat("a"), pkg("x")]),
             ("node", "amo", False, [cat("a"), cat("b")]), ("node", "or", False, []),
             ("node", "and", False, []), ("node", "or", False, [pkg("x"), pkg("xy")]),
             ("node", "or", False, [cat("a"), cat("ab")]), ("node", "and", False, [cat("a"), pkg("xy")]),
             ("node", "and", False, [cat("ab"), pkg("x")])]
    for a, b in itertools.product(inner + roles[:8], repeat=2):
        for kind in ("and", "or"):
            out.append(("node", kind, False, [a, b]))
    for a in inner:
        for kind in ("one", "amo"):
            out.append(("node", kind, False, [a, cat("a")]))
            out.append(("node", kind, True, [pkg("x"), a]))
    return out


FULL = [{c: {p: [1, 2] for p in PKGS} for c in CATS}]   # every category x package name of the vocabulary


def ladder_trees():
    """the decision ladder of _fast_identify_candidates, rung by rung: the category side and the
    package side are each a set of ALTERNATIVES (0/1/2 exact names, with or without a glob / regex /
    value-negated matcher), combined as And(Or(cats), Or(pkgs)), as the Or of every And(cat_i, pkg_j)
    and with a further other-attribute conjunct.  Asked of the fully populated repository FULL, so
    every alternative has matches and a dropped alternative shows in the answer."""
    def leaf(attr, v):
        return ("leaf", attr, v, False)
    sides = {
        "category": [[], [("exact", "a", False)], [("exact", "a", False), ("exact", "ba", False)],
                     [("glob", "b", True, False)], [("exact", "ab", True)], [("regex", "^b", False)],
                     [("exact", "a", False), ("glob", "b", True, False)],
                     [("exact", "a", False), ("exact", "ab", True)],
                     [("exact", "a", False), ("regex", "^b", False)],
                     [("exact", "a", False), ("exact", "b", False), ("glob", "a", False, False)]],
        "package": [[], [("exact", "x", False)], [("exact", "x", False), ("exact", "yx", False)],
                    [("glob", "y", True, False)], [("exact", "z", True)], [("regex", "y$", False)],
                    [("exact", "x", False), ("glob", "y", True, False)],
                    [("exact", "x", False), ("exact", "z", True)],
                    [("exact", "x", False), ("regex", "y$", False)],
                    [("exact", "x", False), ("exact", "z", False), ("glob", "y", False, False)]],
    }
    ver = ("leaf", "fullver", ("exact", "2", False), False)
    out = []
    for ca in sides["category"]:
        for pa in sides["package"]:
            if not ca and not pa:
                continue
            cl = [leaf("category", v) for v in ca]
            pl_ = [leaf("package", v) for v in pa]
            groups = [("node", "or", False, g) if len(g) > 1 else g[0] for g in (cl, pl_) if g]
            out.append(("node", "and", False, groups))
            out.append(("node", "and", False, groups + [ver]))
            if cl and pl_ and len(cl) * len(pl_) > 1:
                out.append(("node", "or", False, [("node", "and", False, [c, q]) for c in cl for q in pl_]))
            if len(groups) == 2:
                out.append(("node", "or", False, groups))
    return out


def cross_trees():
    """ANDs of two or three multi-alternative groups (the cross product of iter_dnf_solutions): the
    alternatives mix category / package / other-attribute / always-true / nested AND / atom / Negate
    members, so that some COMBINATIONS leave category and/or package unconstrained while others pin
    them.  Every ordered pair of distinct groups (the order decides which combinations an incomplete
    product keeps), then triples and embeddings.  Asked of the fully populated repository."""
    def cat(s, glob=False):
        return ("leaf", "category", ("glob", s, True, False) if glob else ("exact", s, False), False)

    def pkg(s, glob=False):
        return ("leaf", "package", ("glob", s, True, False) if glob else ("exact", s, False), False)
    v1 = ("leaf", "fullver", ("exact", "1", False), False)
    v2 = ("leaf", "fullver", ("exact", "2", False), False)

    def g(*alts):
        return ("node", "or", False, list(alts))
    groups = [g(cat("a"), v1), g(v1, cat("a")), g(pkg("x"), pkg("y")), g(pkg("x"), v2), g(v2, pkg("x")),
              g(cat("a"), cat("b")), g(cat("a"), pkg("x")), g(pkg("z"), cat("ba")),
              g(("node", "and", False, [cat("a"), pkg("x")]), v1), g(cat("b", True), v1, pkg("yx")),
              g(("atom", "ab/xy"), pkg("y")), g(("neg", cat("a")), pkg("x")), g(cat("ab"), ("always", True)),
              g(pkg("x", True), cat("b"), v2)]
    pairs = [("node", "and", False, [a, b]) for a in groups for b in groups if a is not b]
    triples = [("node", "and", False, [groups[i], groups[j], groups[k]])
               for i, j, k in ((0, 2, 5), (2, 0, 3), (5, 3, 1), (6, 7, 0), (3, 6, 2), (9, 2, 0), (4, 5, 8),
                               (13, 0, 2), (2, 5, 0), (7, 1, 3), (10, 0, 4), (11, 1, 2))]
    embedded = [("node", "or", False, [t, pkg("z")]) for t in pairs[:40:3]] + \
               [("node", "and", False, [t, v2]) for t in pairs[1:60:4]] + \
               [("node", "and", False, [("node", "and", False, [groups[0], groups[2]]), groups[5]]),
                ("node", "and", False, [groups[3], ("node", "and", False, [groups[1], groups[6]])])]
    return pairs, triples + embedded


def gen_and_of_groups(rng):
    """random AND of 2-3 OR groups of 2-3 mixed alternatives (possibly small ANDs), with an optional
    plain conjunct"""
    def alt():
        k = rng.random()
        if k < 0.7:
            return gen_leaf(rng)
        if k < 0.85:
            return ("node", "and", False, [gen_leaf(rng), gen_leaf(rng)])
        if k < 0.93:
            return gen_atom(rng)
        return ("always", True)
    kids = [("node", "or", False, [alt() for _ in range(rng.choice([2, 2, 3]))]) for _ in range(rng.choice([2, 2, 3]))]
    if rng.random() < 0.3:
        kids.insert(rng.randrange(len(kids) + 1), gen_leaf(rng))
    return ("node", "and", False, kids)


def flat_and(node):
    """conjuncts of an un-negated AND with nested un-negated ANDs opened and atoms replaced by
    their exact category/package leaves"""
    out = []
    for k in node[3]:
        if k[0] == "node" and k[1] == "and" and not k[2]:
            out.extend(flat_and(k))
        elif k[0] == "atom":
            mm = re.match(r"^[<>=~]*([^/]+)/(.+?)(-[0-9]+)?$", k[1])
            out.append(("leaf", "category", ("exact", mm.group(1), False), False))
            out.append(("leaf", "package", ("exact", mm.group(2), False), False))
        else:
            out.append(k)
    return out


def neighbours(t):
    """trees around t: t itself, t with one grouping flipped and<->or, and t with the same-attribute
    leaves of an AND gathered under an OR (turns a conjunct into an alternative)"""
    out = [t]

    def rebuild(node, path, fn):
        if not path:
            return fn(node)
        kids = list(node[3])
        kids[path[0]] = rebuild(kids[path[0]], path[1:], fn)
        return ("node", node[1], node[2], kids)

    def walk(node, path):
        if node[0] != "node":
            return
        if node[1] in ("and", "or"):
            out.append(rebuild(t, path, lambda n: ("node", "or" if n[1] == "and" else "and", n[2], n[3])))
        if node[1] == "and":
            flat = flat_and(node)
            for attr in ("category", "package"):
                same = [k for k in flat if k[0] == "leaf" and k[1] == attr]
                if len(same) >= 2:
                    other = [k for k in flat if not (k[0] == "leaf" and k[1] == attr)]
                    out.append(rebuild(t, path, lambda n, same=same, other=other:
                                       ("node", "and", n[2], other + [("node", "or", False, same)])))
        for j, k in enumerate(node[3]):
            walk(k, path + [j])
    walk(t, [])
    return out[:16]


def has_leaf(t):
    if t[0] in ("leaf", "atom"):
        return True
    if t[0] == "neg":
        return has_leaf(t[1])
    if t[0] == "node":
        return any(has_leaf(s) for s in t[3])
    return False


def tuple_class(case):
    """known class 'unversioned-bare-tuple': an unversioned query made without raw_pkg_cls whose
    restriction looks at some package attribute (the bare tuple has none)"""
    return case.get("mode") == "utuple" and has_leaf(case["tree"])


# --------------------------------------------------------------------------- driving the implementation
def load_mods():
    from pkgcore.ebuild.atom import atom
    from pkgcore.ebuild.cpv import UnversionedCPV, VersionedCPV
    from pkgcore.repository import multiplex
    from pkgcore.repository.util import SimpleTree
    from pkgcore.restrictions import boolean, packages, restriction, values

    class RecTree(SimpleTree):
        last = None

        def _internal_match(self, candidates, *a, **kw):
            candidates = list(candidates)
            self.last = candidates
            return super()._internal_match(candidates, *a, **kw)

    return dict(atom=atom, UnversionedCPV=UnversionedCPV, VersionedCPV=VersionedCPV, multiplex=multiplex,
                SimpleTree=SimpleTree, RecTree=RecTree, boolean=boolean, packages=packages,
                restriction=restriction, values=values)


def key3(p):
    return [p.category, p.package, int(p.fullver)]


def run_impl(m, dicts, r):
    """the six recorded answers"""
    trees = [m["RecTree"]({c: {p: [str(v) for v in vs] for p, vs in ps.items()} for c, ps in d.items()})
             for d in dicts]
    repo = trees[0] if len(trees) == 1 else m["multiplex"].tree(*trees)
    U = m["UnversionedCPV"]

    def cands():
        trees[0].last = None
        list(trees[0].itermatch(r))
        return sorted([list(k) for k in trees[0].last])
    out = [impl_call(cands, kinds={"*": "raised"}),
           impl_call(lambda: sorted(key3(p) for p in repo.itermatch(r)), kinds={"*": "raised"}),
           impl_call(lambda: [key3(p) for p in repo.itermatch(r, sorter=sorted)], kinds={"*": "raised"}),
           impl_call(lambda: sorted([p.category, p.package, None]
                                    for p in repo.itermatch(r, versioned=False, raw_pkg_cls=U)), kinds={"*": "raised"}),
           impl_call(lambda: sorted(list(p) for p in repo.itermatch(r, versioned=False)), kinds={"*": "raised"}),
           impl_call(lambda: [[p.category, p.package, None] for p in
                              repo.itermatch(r, sorter=sorted, versioned=False, raw_pkg_cls=U)], kinds={"*": "raised"})]
    return out


def oracle(m, dicts, r):
    """brute force on the implementation's own match, packages built from the dicts"""
    V, U = m["VersionedCPV"], m["UnversionedCPV"]
    plain, unv = [], []
    for d in dicts:
        for c, ps in d.items():
            for p, vs in ps.items():
                for v in vs:
                    if r.match(V(c, p, str(v))):
                        plain.append([c, p, v])
                if vs and r.match(U(c, p)):
                    unv.append([c, p, None])
    return sorted(plain), sorted(unv, key=lambda x: x[:2])


def make_case(m, dicts, tree):
    ctx = Ctx(m)
    robj, rcoq = ctx.build(tree)
    V, U = m["VersionedCPV"], m["UnversionedCPV"]
    objs = []
    for d in dicts:
        for c, ps in d.items():
            for p, vs in ps.items():
                for v in vs:
                    objs.append(((c, p, v), V(c, p, str(v))))
                if vs:
                    objs.append(((c, p, None), U(c, p)))
    pool = sorted(set(CATS + PKGS))
    preds = clist([cpair(cN(pid), clist([cstr(s) for s in pool if re.search(rx, s)], "str"))
                   for rx, pid in ctx.preds.items()], "N * list str")
    uniq = {}
    for k, o in objs:
        uniq.setdefault(k, o)
    opqs = []
    for i in ctx.opaque:
        true_on = [c_obj(k) for k, o in sorted(uniq.items(), key=lambda kv: repr(kv[0])) if ctx.base[i].match(o)]
        opqs.append(cpair(cN(i), clist(true_on, "pobj")))
    term = cpair(cpair(clist(ctx.infos, "leafdesc"), preds, clist(opqs, "N * list pobj")),
                 "full_repos" if dicts is FULL else clist([c_repo(d) for d in dicts], "repo"), rcoq)
    return robj, term


def main(chk: Check):
    chk.rule("random stacks of 1-3 in-memory SimpleTrees over 4 category and 5 package names (prefixes of "
             "one another, so globs and the substring ContainmentMatch bite), <=3 packages per category, "
             "<=3 versions (some packages without versions, some empty categories); restrictions: "
             "category/package leaves with exact/glob/regex values negated on the wrapper and on the "
             "value, fullver leaves, atoms, AlwaysBool, Negate, AND/OR/exactly-one/at-most-one "
             "groupings with negate to depth 3, plus all two-level shapes over 23 leaf roles; "
             "non-trivial = the brute-force answer is neither empty nor the whole repository")
    ok = chk.build(["C08/Prop_C08.vo"])
    if ok:
        chk.check_assumptions("C08/Prop_C08.v")
    chk.lint(["C08"])
    chk.check_fingerprint(ANCHORS)
    m = load_mods()
    rng = chk.rng

    # ---- corpus + generated descriptions
    descs = []
    cdir = VERIF / "corpus" / "C08"
    if cdir.is_dir():
        for f in sorted(cdir.glob("*.json")):
            j = json.loads(f.read_text())
            descs.append(("corpus", j["repos"], _untuple(j["tree"])))
    shapes = shape_trees()
    n_shapes = chk.n(250, len(shapes))
    if os.environ.get("VERIF_C08_CAP"):
        n_shapes = min(n_shapes, max(60, int(os.environ["VERIF_C08_CAP"])))
    if n_shapes < len(shapes):
        shapes = shapes[:60] + rng.sample(shapes[60:], n_shapes - 60)
    fixed = [{"a": {"x": [1, 2], "xy": [1]}, "ab": {"x": [3], "y": [1, 2]}, "b": {"z": [2], "yx": []}},
             {"a": {"x": [2], "y": [1]}, "ba": {"x": [1]}}]
    for i, t in enumerate(shapes):
        descs.append(("shapes", fixed[: 1 + (i % 2)], t))
    ladder = ladder_trees()
    primary = [t for t in ladder if t[1] == "and" and t[3][-1][1] != "fullver"]     # And(Or(cats), Or(pkgs))
    others = [t for t in ladder if t not in primary]
    n_others = chk.n(50, len(others))
    if os.environ.get("VERIF_C08_CAP"):
        n_others = min(n_others, 50)
    for t in primary + (others if n_others >= len(others) else rng.sample(others, n_others)):
        descs.append(("ladder", FULL, t))
    cpairs, cmore = cross_trees()
    n_cp, n_cm = chk.n(55, len(cpairs)), chk.n(15, len(cmore))
    if os.environ.get("VERIF_C08_CAP"):
        n_cp, n_cm = min(n_cp, 55), min(n_cm, 15)
    for t in (cpairs[:13] + rng.sample(cpairs[13:], n_cp - 13) if n_cp < len(cpairs) else cpairs) + \
             (rng.sample(cmore, n_cm) if n_cm < len(cmore) else cmore):
        descs.append(("cross", FULL, t))
    n_groups = chk.n(60, 1500)
    if os.environ.get("VERIF_C08_CAP"):
        n_groups = min(n_groups, 60)
    for _ in range(n_groups):
        descs.append(("cross", FULL if rng.random() < 0.3 else [gen_repo(rng) for _ in range(rng.choice([1, 2]))],
                      gen_and_of_groups(rng)))
    n_random = chk.n(400, 6000)
    if os.environ.get("VERIF_C08_CAP"):      # self-test aid: bound the escalated budget
        n_random = min(n_random, int(os.environ["VERIF_C08_CAP"]))
    for _ in range(n_random):
        dicts = [gen_repo(rng) for _ in range(rng.choice([1, 1, 2, 3]))]
        descs.append(("query", dicts, gen_tree(rng, rng.choice([1, 2, 2, 3]))))

    cases, meta, py_bad, tup_bad = [], [], [], []
    for stream, dicts, tree in descs:
        try:
            robj, term = make_case(m, dicts, tree)
        except ValueError:
            continue
        res = run_impl(m, dicts, robj)
        cases.append((term, res))
        meta.append({"stream": stream, "repos": dicts, "tree": tree})
        chk.count(stream, 1)
        want_plain, want_unv = oracle(m, dicts, robj)
        total = sum(len(vs) for d in dicts for ps in d.values() for vs in ps.values())
        if 0 < len(want_plain) < total:
            chk.nontrivial(json.dumps([dicts, tree], sort_keys=True))
        # (B) directly on the implementation
        if res[1] != want_plain or res[2] != want_plain:
            py_bad.append({"mode": "plain" if res[1] != want_plain else "sorted", "repos": dicts, "tree": tree,
                           "got": res[1] if res[1] != want_plain else res[2], "brute_force": want_plain})
        elif res[3] != want_unv or res[5] != want_unv:
            py_bad.append({"mode": "ucpv", "repos": dicts, "tree": tree,
                           "got": res[3] if res[3] != want_unv else res[5], "brute_force": want_unv})
        if res[4] != [x[:2] for x in want_unv]:
            tup_bad.append({"mode": "utuple", "repos": dicts, "tree": tree, "got": res[4],
                            "brute_force": [x[:2] for x in want_unv]})
    for i in range(0, len(cases), max(1, len(cases) // 5)):
        chk.sample({"stream": meta[i]["stream"], "repos": meta[i]["repos"], "tree": meta[i]["tree"],
                    "impl": cases[i][1]})

    # ---- malformed stream: itermatch refuses anything that is not a restriction
    bad_cases = []
    t0 = m["SimpleTree"]({"a": {"x": ["1"]}})
    for arg, code in (("asdf", 0), (None, 1), (("a", "x"), 2), (1, 3), ([m["packages"].AlwaysTrue], 4)):
        for mode in (0, 1):
            f = (lambda a=arg: list(t0.itermatch(a))) if mode == 0 else (lambda a=arg: t0.match(a))
            bad_cases.append((cpair(cN(code), cN(mode)), impl_call(f)))
    chk.count("bad", len(bad_cases))

    # ---- inside Coq
    model_bad = spec_bad = spec_tup = []
    if ok:
        r = chk.coq_eval("query", IMPORTS, "qinput", cases,
                         ["mismatches run_query cases",
                          "where_ (fun i r => negb (spec_query_ok i r)) cases",
                          "where_ (fun i r => negb (spec_tuple_ok i r)) cases"], shard=290,
                         preamble="Definition full_repos : list repo := %s." % clist([c_repo(d) for d in FULL], "repo"))
        if r is not None:
            model_bad, spec_bad, spec_tup = r
        rb = chk.coq_eval("bad", IMPORTS, "N * N", bad_cases, ["mismatches run_bad cases"])
        if rb is not None and rb[0]:
            chk.violation("correspondence", {"what": "itermatch/match no longer refuses a non-restriction argument "
                                                     "with TypeError", "input": bad_cases[rb[0][0]][0],
                                             "implementation": bad_cases[rb[0][0]][1]})

    # ---- report
    reported = False
    for b in py_bad[:3]:
        reported = True
        chk.violation("property", {"what": f"{b['mode']} query differs from the brute-force filter of the repository",
                                   "input": {"repos": b["repos"], "tree": b["tree"]},
                                   "got": b["got"], "brute_force": b["brute_force"]})
    if not py_bad:
        for i in spec_bad[:3]:
            reported = True
            chk.violation("property", {"what": "Spec_C08.spec_query_ok rejects the implementation's answers",
                                       "input": meta[i], "implementation": cases[i][1]})
    tup_idx = set(spec_tup)
    for b in tup_bad:
        if tuple_class(b):
            if not chk.known_finding("unversioned-bare-tuple", b):
                chk.violation("property", {"what": "unversioned query (bare tuples) differs from the matching pairs",
                                           "input": b})
                reported = True
        else:
            reported = True
            chk.violation("property", {"what": "unversioned query (bare tuples) differs from the matching pairs "
                                               "outside the known class", "input": b})
    if ok and len(tup_idx) != len(tup_bad):
        chk.violation("correspondence", {"what": "Spec_C08.spec_tuple_ok and the Python oracle disagree on the "
                                                 "bare-tuple answers", "coq": sorted(tup_idx)[:5],
                                         "python": len(tup_bad)}, no_input=True)
    # a model/implementation disagreement without a failing input so far: look for one around it,
    # asking the same restrictions of a repository holding every category/package combination
    if model_bad and not reported:
        seen_trees = set()
        for i in model_bad:
            key = json.dumps(meta[i]["tree"])
            if key in seen_trees:
                continue
            seen_trees.add(key)
            for nt in neighbours(meta[i]["tree"]):
                try:
                    robj, _ = make_case(m, FULL, nt)
                except ValueError:
                    continue
                got = run_impl(m, FULL, robj)
                want_plain, want_unv = oracle(m, FULL, robj)
                if got[1] != want_plain or got[2] != want_plain or got[3] != want_unv:
                    reported = True
                    chk.violation("property", {
                        "what": "query differs from the brute-force filter of the fully populated repository "
                                "(found around a model/implementation disagreement)",
                        "input": {"repos": FULL, "tree": nt},
                        "got": got[1] if got[1] != want_plain else (got[2] if got[2] != want_plain else got[3]),
                        "brute_force": want_plain if got[3] == want_unv else want_unv})
                    break
            if reported or len(seen_trees) >= 60:
                break
    for i in model_bad[:3]:
        chk.violation("correspondence",
                      {"what": "implementation and Model_C08.run_query disagree (theorems of Prop_C08 no longer "
                               "speak about this code); answers are [candidates, plain, sorted, unversioned-cpv, "
                               "unversioned-tuple, unversioned-sorted]",
                       "input": meta[i], "implementation": cases[i][1]},
                      no_input=not reported)


TAGS = ("leaf", "always", "neg", "node", "atom", "exact", "glob", "regex")


def _untuple(t):
    """tree descriptions read back from JSON: tagged lists become tuples again"""
    if isinstance(t, list):
        conv = [_untuple(x) for x in t]
        if conv and isinstance(conv[0], str) and conv[0] in TAGS:
            return tuple(conv)
        return conv
    return t


def replay(chk, data):
    m = load_mods()
    inp = data.get("detail", {}).get("input", {})
    if "tree" not in inp:
        print("no replayable input in this record")
        return
    tree = _untuple(inp["tree"])
    robj, term = make_case(m, inp["repos"], tree)
    res = run_impl(m, inp["repos"], robj)
    print("restriction   :", robj)
    print("implementation:", res)
    print("brute force   :", oracle(m, inp["repos"], robj))
    r = chk.coq_eval("replay", IMPORTS, "qinput", [(term, res)],
                     ["mismatches run_query cases", "where_ (fun i r => negb (spec_query_ok i r)) cases"])
    print("model disagrees:", bool(r and r[0]), " spec rejects:", bool(r and r[1]))
