import os, sys, hashlib, tempfile, shutil, time, logging
from pkgcore.ebuild import domain as domain_mod, profiles, repository as ebuild_repo
from pkgcore.ebuild.repo_objs import RepoConfig
from pkgcore.cache.flat_hash import md5_cache

d = tempfile.mkdtemp(prefix="c13x")
def w(p, s):
    p = os.path.join(d, p); os.makedirs(os.path.dirname(p), exist_ok=True); open(p, "w").write(s)
w("repo/profiles/repo_name", "tr\n")
w("repo/metadata/layout.conf", "masters =\ncache-formats = md5-dict\n")
w("repo/profiles/arch.list", "a\nb\n")
w("repo/profiles/categories", "ca\ncb\n")
w("repo/profiles/package.mask", "ca/p1\n")
w("repo/profiles/license_groups", "G1 L1 L2\nG2 @G1 L3\n")
w("repo/profiles/base/make.defaults", 'ARCH="a"\nACCEPT_KEYWORDS="a"\nUSE="f1"\n')
w("repo/profiles/base/package.mask", "cb/p2\n")
w("repo/profiles/base/package.accept_keywords", "ca/p1 ~a\n")
w("repo/profiles/base/eapi", "8\n")
w("repo/profiles/child/parent", "../base\n")
w("repo/profiles/child/package.mask", "-cb/p2\n")
pk = [("ca","p1","1","a ~b","|| ( L1 f1? ( L2 ) )","0"), ("ca","p1","2","~a","L3","0"), ("cb","p2","1","a","L1 L3","1")]
for c,p,v,kw,lic,slot in pk:
    eb = 'EAPI=8\nSLOT="%s"\nKEYWORDS="%s"\nLICENSE="%s"\nIUSE="f1 f2"\n' % (slot,kw,lic)
    w(f"repo/{c}/{p}/{p}-{v}.ebuild", eb)
    md5 = hashlib.md5(eb.encode()).hexdigest()
    w(f"repo/metadata/md5-cache/{c}/{p}-{v}", f"DEFINED_PHASES=-\nEAPI=8\nIUSE=f1 f2\nKEYWORDS={kw}\nLICENSE={lic}\nSLOT={slot}\n_md5_={md5}\n")
w("conf/package.mask", "")
w("conf/package.license", "cb/p2 L3\n")
w("conf/package.accept_keywords/x", "*/* \n")
t=time.time()
rc = RepoConfig(os.path.join(d,"repo"))
repo = ebuild_repo.UnconfiguredTree(rc.location, repo_config=rc, cache=(md5_cache(os.path.join(d,"repo")),))
prof = profiles.OnDiskProfile(os.path.join(d,"repo/profiles"), "child")
class Ref:
    name="tr"
    def __init__(s,r): s.r=r
    def instantiate(s): return s.r
dom = domain_mod.domain(prof, [Ref(repo)], [], ROOT=os.path.join(d,"root"), config_dir=os.path.join(d,"conf"), ACCEPT_LICENSE="-* @G1", CHOST="x", DISTDIR=d)
print(dom.settings.get("ACCEPT_KEYWORDS"), dom.settings.get("ACCEPT_LICENSE"), dom.arch)
raw = list(repo)
print([(str(p), p.keywords, str(p.license)) for p in raw])
print("repo masks", repo.pkg_masks, prof._incremental_masks)
f = dom._wrap_repo(repo)
print("visible", [str(p) for p in f], [ (str(p.license), p.use) for p in f])
print("pa", dom.pkg_accept_keywords)
print(time.time()-t)
shutil.rmtree(d)
