(* Spec_C46.v — the property's statement.  It speaks about options, packages and files, not
   about how _dist_validate_args computes its sets.

   "Cleaning the distfiles directory removes only files that are selected by the cleaning
    targets and pass the file filters, and never removes a file needed by an installed package
    when installed packages are excluded, by any package in the repositories when existing
    packages are excluded, by a fetch-restricted package, or by a package matched by an
    exclusion pattern." *)
From Coq Require Import List NArith ZArith Bool.
Import ListNotations.
From Verif Require Import Base.Val C46.Model_C46.

(* ---- the four reasons a file must be kept *)
Definition needed_installed (o : opts) (w : world) (f : file) : Prop :=
  o_inst o = true /\ exists l, In l (w_inst w) /\ In f l.
Definition needed_existing (o : opts) (w : world) (f : file) : Prop :=
  o_exists o = true /\ exists p, In p (w_repo w) /\ In f (p_files p).
Definition needed_fetch_restricted (o : opts) (w : world) (f : file) : Prop :=
  o_fetch o = true /\ exists p, In p (w_repo w) /\ p_fetch p = true /\ In f (p_files p).
Definition needed_excluded (o : opts) (w : world) (f : file) : Prop :=
  exists p x, In p (w_repo w) /\ In x (o_excl o) /\ In x (p_pats p) /\ In f (p_files p).
Definition needed (o : opts) (w : world) (f : file) : Prop :=
  needed_installed o w f \/ needed_existing o w f \/ needed_fetch_restricted o w f \/ needed_excluded o w f.

(* ---- the file filters: -m "skip files modified since", -s "skip files bigger than" *)
Definition passes_filters (o : opts) (f : finfo) : Prop :=
  (forall t, o_mod o = Some t -> (t < f_age f)%Z) /\ (forall s, o_size o = Some s -> (f_size f < s)%Z).

(* cleaning targets are in force (positional targets, or — through namespace.restrict — an
   exclusion list): then only files the target-derived name patterns select may go *)
Definition targets_in_force (o : opts) : Prop := o_targets o <> [] \/ o_excl o <> [].

(* ---- what the options mean, read off the command line without pclean's parser loop *)
Definition flag_given (is_flag : tok -> bool) (ts : list tok) : bool := existsb is_flag ts.
Definition is_inst (t : tok) := match t with TInst => true | _ => false end.
Definition is_exists (t : tok) := match t with TExists => true | _ => false end.
Definition is_fetch (t : tok) := match t with TFetch => true | _ => false end.
Definition is_pretend (t : tok) := match t with TPretend => true | _ => false end.
Definition last_excl (ts : list tok) : list pat :=
  fold_left (fun acc t => match t with TExcl ps => ps | _ => acc end) ts [].
Definition all_targets (ts : list tok) : list pat :=
  flat_map (fun t => match t with TTarget p => [p] | _ => [] end) ts.
Definition last_mod (ts : list tok) : option str :=
  fold_left (fun acc t => match t with TMod s => Some s | _ => acc end) ts None.
Definition last_size (ts : list tok) : option str :=
  fold_left (fun acc t => match t with TSize s => Some s | _ => acc end) ts None.

(* a quantity string is DIGITS UNIT (optionally one final newline, as `$` allows) *)
Definition qty_denotes (tbl : list (str * Z)) (s : str) (z : Z) : Prop :=
  exists ds u rest v, s = ds ++ rest /\ ds <> [] /\ Forall (fun c => is_digit c = true) ds
    /\ (rest = u \/ rest = u ++ [10%N]) /\ lookup u tbl = Some v
    /\ z = (fold_left (fun a c => a * 10 + Z.of_N (c - 48)) ds 0 * v)%Z.

(* ---- executable acceptor for the IMPLEMENTATION's recorded result (comparison B) *)
Definition neededb (o : opts) (w : world) (f : file) : bool :=
  (o_inst o && existsb (memN f) (w_inst w))
  || (o_exists o && existsb (fun p => memN f (p_files p)) (w_repo w))
  || (o_fetch o && existsb (fun p => p_fetch p && memN f (p_files p)) (w_repo w))
  || existsb (fun p => existsb (fun x => memN x (p_pats p)) (o_excl o) && memN f (p_files p)) (w_repo w).

Definition spec_opts (ts : list tok) : option opts :=
  let q tbl (s : option str) := match s with None => Some None
                                | Some s' => match parse_qty tbl s' with Some z => Some (Some z) | None => None end end in
  match q time_units (last_mod ts), q size_units (last_size ts) with
  | Some m, Some s =>
      Some {| o_inst := flag_given is_inst ts; o_exists := flag_given is_exists ts;
              o_fetch := flag_given is_fetch ts; o_pretend := flag_given is_pretend ts;
              o_excl := last_excl ts; o_targets := all_targets ts; o_mod := m; o_size := s |}
  | _, _ => None
  end.

Definition dec_ids (v : val) : option (list N) :=
  match v with
  | VL l => Some (map (fun e => match e with VZ z => Z.to_N z | _ => 0%N end) l)
  | _ => None
  end.

Definition find_file (w : world) (f : file) : option finfo :=
  find (fun g => N.eqb (f_id g) f) (w_all w).

(* may file id f be removed under options o ? *)
Definition removable (o : opts) (w : world) (sel : list file) (f : file) : bool :=
  match find_file w f with
  | None => false
  | Some g =>
      negb (neededb o w f)
      && (is_nil (o_excl o) && is_nil (o_targets o) || memN f sel)
      && match o_mod o with Some t => (t <? f_age g)%Z | None => true end
      && match o_size o with Some s => (f_size g <? s)%Z | None => true end
  end.

(* true = the recorded [status; left; printed] is acceptable to the property: every file that
   disappeared, and every file announced for removal, is removable; on an error nothing went *)
Definition spec_ok (i : input) (res : val) : bool :=
  match res with
  | VL [st; l; pr] =>
      match dec_ids l, dec_ids pr with
      | Some kept, Some printed =>
          let w := i_world i in
          let gone := filter (fun f => negb (memN f kept)) (map f_id (w_all w)) in
          match st, spec_opts (i_argv i) with
          | VNone, Some o => forallb (removable o w (i_sel i)) (gone ++ printed)
          | VNone, None => is_nil gone && is_nil printed
          | _, _ => is_nil gone && is_nil printed
          end
      | _, _ => false
      end
  | _ => false
  end.
