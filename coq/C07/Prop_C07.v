(* Prop_C07.v — the property theorems of C07 and nothing else. *)
From Coq Require Import List NArith ZArith Bool.
Import ListNotations.
From Verif Require Import Base.Val C01.Model_C01 C06.Restr C07.Model_C07 C07.Spec_C07 C07.Proofs_C07.

Theorem versionmatch_orig_refuted :
  ver_eq_orig true [49%N] None false [0%Z] true [49%N] None true [0%Z] = true
  /\ ver_hk_orig true [49%N] None false [0%Z] true [49%N] None true [0%Z] = false
  /\ ver_match true [49%N] None false [0%Z] pk1 <> ver_match true [49%N] None true [0%Z] pk1.
Proof. exact versionmatch_orig_refuted_proof. Qed.
Print Assumptions versionmatch_orig_refuted.
