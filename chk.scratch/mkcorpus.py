import json
from harness import c17
from pkgcore.resolver import state as st
K = [0,0,0,1]; S = [0,0,1,0]; S3 = [0,0,0,0]
F = False; T = True
W = {
 "forced-add-of-bound-package": ((K,S,[0,1],[[F]*4,[F]*4]), [("add",2,3,T),("add",0,3,T),("rb",1)]),
 "remove-with-foreign-choices": ((K,S,[0,1],[[F]*4,[F]*4]), [("add",1,1,F),("rem",0,1),("rb",1)]),
 "forced-replace-with-conflicts": ((K,S,[0,1],[[F,T,F,F],[F]*4]), [("add",0,0,F),("blk",1,0,None),("rep",1,1,T)]),
 "replace-blocked-new-package": ((K,S,[0,1],[[T,T,F,F],[F]*4]), [("add",0,0,T),("blk",1,0,None),("rep",1,1,F)]),
 "replace-old-blocked-by-own-blocker": ((K,S,[0,1],[[T,F,F,F],[F]*4]), [("add",0,0,F),("blk",0,0,None),("rep",1,1,F),("rb",2)]),
 "replace-by-planned-package": ((K,S,[0,0],[[T,F,F,F],[T,F,F,F]]), [("add",1,1,F),("add",1,3,F),("rep",2,1,F),("rep",1,0,T),("rb",3)]),
 "forced-duplicate-slot": ((K,S3,[0,1],[[F]*4,[F]*4]), [("add",1,1,F),("add",0,0,T),("rep",2,2,F)]),
 "readded-filtered-package": ((K,S,[0,1],[[F]*4,[F]*4]), [("add",0,0,F),("rep",1,1,F),("rem",1,1),("add",0,0,F),("rem",0,0),("rb",4)]),
 "blocker-under-foreign-key": ((K,S,[0,1],[[F]*4,[F]*4]), [("blk",0,0,0),("blk",1,0,1),("dec",0,0,0),("dec",1,0,1)]),
}
WHAT = {
 "forced-add-of-bound-package": "add_op(force=True) of a package that is already in the plan: reverting the second add removes every slotting of the package and its only pkg_choices binding, so the state after rollback lacks the package the surviving first add put there (and reverting the first add then raises KeyError). API-level: plan.py only forces an add when match_atom found nothing (plan.py:834-841)",
 "remove-with-foreign-choices": "remove_op(choices, pkg) with a choice point other than the one the package is bound to: revert re-binds the package to the op's choice point, not to the original one. API-level: plan.py never instantiates remove_op",
 "forced-replace-with-conflicts": "replace_op(force=True).apply when the new package hits a limiter: the new package is slotted anyway, the old one is not put back, and apply raises AssertionError (assert not l2) instead of reporting the conflict. API-level: plan.py:897 never passes force",
 "replace-blocked-new-package": "replace_op.apply failure path: when the new package is refused by a limiter and the old package is itself matched by a limiter, fill_slotting(old) without force refuses to put the old package back; it is dropped from the slot table and apply raises AssertionError. API-level: plan.py tries replace_op only after add_op returned no restriction (plan.py:882-897)",
 "replace-old-blocked-by-own-blocker": "replace_op.revert: force_old is computed before the old package's own blockers are dropped, but revert runs before they are restored; if the only limiter matching the old package belongs to its own choice point revert raises AssertionError('Internal error detected, unable to revert') and backtrack stops half-way",
 "replace-by-planned-package": "replace_op whose new package is already in the plan (it replaces itself): later rollbacks leave vdb_filter/pkg_choices different from a replay. API-level misuse",
 "forced-duplicate-slot": "add_op(force=True) into an occupied (key,slot): a later replace_op removes only the first occupant, the new package is refused by the second, the first is refused too on the way back and apply raises AssertionError with the package dropped. API-level: _ensure_livefs_is_loaded forces only when match_atom(slotted_atom) is empty",
 "readded-filtered-package": "a package in vdb_filter (replaced or removed earlier) is added again and removed again: vdb_filter is a set, so the second remove's revert deletes the membership the first one established. API-level: livefs_dbs filters vdb_filter (plan.py:336-343)",
 "blocker-under-foreign-key": "the same blocker object filed under two different keys: blockers_refcnt counts per blocker, limiters are per key, so the last decref removes the limiter under the wrong key and raises KeyError. API-level: plan.py:946 always passes key=x.key",
}
corpus = []; findings = []
for cid, (cfg, h) in W.items():
    tr, f = c17.run_history(st, cfg, h)
    ok = f is not None and c17.CLASSES[cid](f)
    print(cid, "OK" if ok else "NOT REPRODUCED", f and f["what"], f and f.get("first_nonwf"))
    corpus.append({"cfg": cfg, "history": h, "class": cid})
    findings.append({"class_id": cid, "what": WHAT[cid], "example": {"cfg": cfg, "history": h, "observed": f and f["what"]},
                     "predicate": [k for k, v in vars(c17).items() if v is c17.CLASSES[cid]][0]})
# compound well-formed histories
WFH = [
 ((K,S,[0,1],[[F,F,F,F],[F,F,F,T]]), [("add",0,0,T),("blk",0,0,None),("blk",0,1,None),("blk",1,0,None),("rep",1,1,F),("rb",4),("rep",1,1,F),("rem",1,1),("rb",1),("rb",0)]),
 ((K,S,[0,1],[[F,F,F,F],[F,F,F,F]]), [("hard",0),("hard",0),("add",0,0,F),("blk",0,0,None),("blk",0,0,None),("rem",0,0),("rb",5),("rb",3),("rb",1)]),
 ((K,S,[0,0],[[F,F,T,F],[F,F,F,F]]), [("add",2,2,F),("add",0,0,T),("blk",0,1,None),("blk",2,1,None),("rep",1,1,F),("back",1,1),("rem",1,1),("rb",7),("rb",4),("add",0,0,F)]),
]
for cfg, h in WFH:
    tr, f = c17.run_history(st, cfg, h)
    print("wf", f)
    corpus.append({"cfg": cfg, "history": h, "class": None})
import os
os.makedirs("corpus/C17", exist_ok=True)
json.dump(corpus, open("corpus/C17/witnesses.json", "w"), indent=0)
json.dump({"property": "C17", "findings": findings, "fixed": []}, open("known_findings/C17.json", "w"), indent=1)
