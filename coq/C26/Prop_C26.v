(* Prop_C26.v — the property theorems of C26 and nothing else. *)
From Coq Require Import List NArith ZArith Bool.
Import ListNotations.
From Verif Require Import Base.Val gen.Tables_xpak C26.Model_C26 C26.Spec_C26 C26.Proofs_C26.
Local Open Scope N_scope.

(* ---- be32 / struct *)
Theorem unbe32_be32 : forall n, n < 4294967296 -> unbe32 (be32 n) = n.
Proof. exact unbe32_be32_proof. Qed.
Print Assumptions unbe32_be32.

Theorem be32_unbe32 : forall a b c d,
  a < 256 -> b < 256 -> c < 256 -> d < 256 -> be32 (unbe32 [a; b; c; d]) = [a; b; c; d].
Proof. exact be32_unbe32_proof. Qed.
Print Assumptions be32_unbe32.

Theorem be32_shift : forall n,
  be32 n = [N.land (N.shiftr n 24) 255; N.land (N.shiftr n 16) 255; N.land (N.shiftr n 8) 255; N.land n 255]
  /\ length (be32 n) = 4%nat /\ Forall (fun b => b < 256) (be32 n).
Proof. intro n. exact (conj (be32_shift_proof n) (conj (be32_length_proof n) (be32_bytes_proof n))). Qed.
Print Assumptions be32_shift.

Theorem unpack_pack : forall fmt args b,
  pack fmt args = Some b -> args_exact fmt args -> unpack fmt b = Some args.
Proof. exact unpack_pack_proof. Qed.
Print Assumptions unpack_pack.

(* ---- the regenerated table is the documented format; the model's segment is that format and
        exists exactly when every stored length fits 32 bits *)
Theorem tables_are_documented :
  header_pre_magic = lit_XPAKPACK /\ trailer_pre_magic = lit_XPAKSTOP /\ trailer_post_magic = lit_STOP
  /\ header_fmt = [Some 8; None; None] /\ trailer_fmt = [Some 8; None; Some 4]
  /\ key_rewrites = [([114;101;112;111], [82;69;80;79])]
  /\ environment = lit_environment.
Proof. exact tables_are_documented_proof. Qed.
Print Assumptions tables_are_documented.

Theorem encode_is_format : forall kvs,
  (forall e, encode kvs = Some e -> e = xpak_format kvs /\ fits kvs)
  /\ (fits kvs -> encode kvs = Some (xpak_format kvs)).
Proof. intro kvs. exact (conj (encode_is_format_proof kvs) (fits_encode_proof kvs)). Qed.
Print Assumptions encode_is_format.

(* ---- reading back a written segment, byte level, ANY prefix, ANY values *)
Theorem decode_encode_general : forall pre kvs e,
  encode kvs = Some e -> keys_ascii kvs -> NoDup (map rw (map fst kvs)) ->
  decode (pre ++ e)
  = match finish_all (expect_rw kvs) with Ok l => Ok (len pre, l) | Err x => Err x end.
Proof. exact decode_encode_general_proof. Qed.
Print Assumptions decode_encode_general.

(* "exactly the same keys": false for the read alias (key "repo") ... *)
Theorem C26_roundtrip_refuted : ~ C26_roundtrip_full_statement.
Proof. exact C26_roundtrip_refuted_proof. Qed.
Print Assumptions C26_roundtrip_refuted.

(* ... true everywhere outside that class *)
Theorem decode_encode : forall pre kvs e,
  encode kvs = Some e -> keys_ascii kvs -> NoDup (map fst kvs) -> known_class kvs = false ->
  decode (pre ++ e) = match finish_all (expect_b kvs) with Ok l => Ok (len pre, l) | Err x => Err x end.
Proof. exact decode_encode_proof. Qed.
Print Assumptions decode_encode.

Theorem known_class_is_repo : forall k, aliased k = true <-> k = [114;101;112;111].
Proof. exact aliased_is_repo. Qed.
Print Assumptions known_class_is_repo.

(* typed: str / bytes mapping in, items() out: same keys in order, text decoded, environment* bytes *)
Theorem roundtrip_typed : forall pre data kvs e items,
  typed_dom data -> to_bytes data = Some kvs -> encode kvs = Some e -> spec_items data = Some items ->
  decode (pre ++ e) = Ok (len pre, items).
Proof. exact roundtrip_typed_proof. Qed.
Print Assumptions roundtrip_typed.

Theorem utf8_roundtrip : forall c b, utf8_encode c = Some b -> utf8_decode b = Some c.
Proof. exact Utf8_C26.utf8_roundtrip_proof. Qed.
Print Assumptions utf8_roundtrip.

(* ---- rewriting *)
Theorem rewrite_on_segment : forall pre old eo new en,
  encode old = Some eo -> keys_ascii old -> encode new = Some en ->
  rewrite (Some (pre ++ eo)) new = Ok (pre ++ en).
Proof. exact rewrite_on_segment_proof. Qed.
Print Assumptions rewrite_on_segment.

Theorem rewrite_replaces_segment : forall pre old eo new en,
  encode old = Some eo -> keys_ascii old ->
  encode new = Some en -> keys_ascii new -> NoDup (map rw (map fst new)) ->
  exists f, rewrite (Some (pre ++ eo)) new = Ok f
   /\ firstn (length pre) f = pre
   /\ decode f = match finish_all (expect_rw new) with Ok l => Ok (len pre, l) | Err x => Err x end.
Proof. exact rewrite_replaces_segment_proof. Qed.
Print Assumptions rewrite_replaces_segment.

Theorem rewrite_many : forall news pre old eo,
  encode old = Some eo -> keys_ascii old ->
  Forall (fun n => keys_ascii n /\ fits n) news ->
  rewrite_all (pre ++ eo) news = Ok (pre ++ xpak_format (last news old)).
Proof. exact rewrite_many_proof. Qed.
Print Assumptions rewrite_many.

Theorem rewrite_preserves_prefix : forall file kvs out,
  rewrite (Some file) kvs = Ok out ->
  exists s seg, s <= len file /\ encode kvs = Some seg /\ seg = xpak_format kvs
    /\ out = firstn (N.to_nat s) file ++ seg
    /\ firstn (N.to_nat s) out = firstn (N.to_nat s) file
    /\ ((exists d, parse file = Ok (s, d)) \/
        ((parse file = Err EOS \/ parse file = Err EMalformed) /\ s = len file)).
Proof. exact rewrite_preserves_prefix_proof. Qed.
Print Assumptions rewrite_preserves_prefix.

Theorem rewrite_appends : forall file kvs seg,
  (parse file = Err EOS \/ parse file = Err EMalformed) -> encode kvs = Some seg ->
  rewrite (Some file) kvs = Ok (file ++ seg).
Proof. exact rewrite_appends_proof. Qed.
Print Assumptions rewrite_appends.

(* the index walk's fuel always suffices: no theorem above carries a fuel hypothesis *)
Theorem parse_never_out_of_fuel : forall file, parse file <> Err EFuel.
Proof. exact parse_never_out_of_fuel_proof. Qed.
Print Assumptions parse_never_out_of_fuel.

(* "every existing file can be rewritten": false on tails that only mimic a segment ... *)
Theorem C26_rewrite_total_refuted : ~ C26_rewrite_total_full_statement.
Proof. exact C26_rewrite_total_refuted_proof. Qed.
Print Assumptions C26_rewrite_total_refuted.

(* ... true outside that class *)
Theorem rewrite_total_partial : forall file kvs,
  fits kvs -> crash_class file = false ->
  exists s, s <= len file /\ rewrite (Some file) kvs = Ok (firstn (N.to_nat s) file ++ xpak_format kvs).
Proof. exact rewrite_total_partial_proof. Qed.
Print Assumptions rewrite_total_partial.

(* ---- end to end: write_xpak then a fresh reader *)
Theorem write_read_append : forall file data kvs items,
  (parse file = Err EOS \/ parse file = Err EMalformed) ->
  typed_dom data -> to_bytes data = Some kvs -> fits kvs -> spec_items data = Some items ->
  write_xpak (Some file) data = Ok (file ++ xpak_format kvs)
  /\ decode (file ++ xpak_format kvs) = Ok (len file, items).
Proof. exact write_read_append_proof. Qed.
Print Assumptions write_read_append.

Theorem write_read_replace : forall pre old eo data kvs items,
  encode old = Some eo -> keys_ascii old ->
  typed_dom data -> to_bytes data = Some kvs -> fits kvs -> spec_items data = Some items ->
  write_xpak (Some (pre ++ eo)) data = Ok (pre ++ xpak_format kvs)
  /\ decode (pre ++ xpak_format kvs) = Ok (len pre, items).
Proof. exact write_read_replace_proof. Qed.
Print Assumptions write_read_replace.

(* a file that does not end with "STOP" has no segment: write_xpak appends, and the mapping reads back *)
Theorem no_stop_no_segment : forall file,
  ends_with lit_STOP file = false -> parse file = Err EOS \/ parse file = Err EMalformed.
Proof. exact no_stop_no_segment_proof. Qed.
Print Assumptions no_stop_no_segment.

Theorem write_read_no_stop : forall file data kvs items,
  ends_with lit_STOP file = false ->
  typed_dom data -> to_bytes data = Some kvs -> fits kvs -> spec_items data = Some items ->
  write_xpak (Some file) data = Ok (file ++ xpak_format kvs)
  /\ decode (file ++ xpak_format kvs) = Ok (len file, items).
Proof. exact write_read_no_stop_proof. Qed.
Print Assumptions write_read_no_stop.
