(* Spec_C27.v — the statement of C27, written from the property text, not from the code.

   "Storing a metadata entry and reading it back returns the same known keys and values,
    inherited-eclass data and validation checksum/mtime":  [expected_value] says, key by key,
    what a reader must see for an entry [e] handed to the cache.
   "At every crash point of a store, readers see either the previous complete entry or the
    new one, and listing never reports a partial entry":  [old_or_new] / [listing_ok]. *)
From Coq Require Import List NArith ZArith Bool.
From Coq Require String.
Import String.StringSyntax.
Import ListNotations.
From Verif Require Import Base.Val C18.Fs C27.Model_C27.
Local Open Scope N_scope.

(* the validation value of the layout: the mtime in whole seconds, rounded DOWN (e_mtime =
   e_stamp / 1000), for the flat layout; md5 for md5-cache *)
Definition chf_num (lay : layout) (d : edata) : N :=
  match lay with Flat => e_mtime d | Md5 => e_md5 d end.

(* the recorded view of one inherited eclass: location + mtime (flat), md5 (md5-cache) *)
Definition ecl_view (lay : layout) (nd : str * edata) : str * list (str * cv) :=
  match lay with
  | Flat => (fst nd, [(lit "eclassdir", CS (dirname (e_path (snd nd)))); (lit "mtime", CN (e_mtime (snd nd)))])
  | Md5 => (fst nd, [(lit "md5", CN (e_md5 (snd nd)))])
  end.

(* what cache[cpv] must contain under key k after cache[cpv] = e.
   Plain values come back without trailing blanks (a cache line is one stripped text line;
   see wf_value in Proofs_C27.v: for values without trailing blanks this is the value). *)
Definition expected_value (lay : layout) (e : entry) (k : str) : option pv :=
  if str_eqb k (chf_key lay) then option_map (fun c => PNum (chf_num lay c)) (chf e)
  else if str_eqb k k_eclasses then option_map (fun m => PEcl (map (ecl_view lay) m)) (ecl e)
  else if known lay k then option_map (fun v => PStr (rstrip v)) (dget k (kvs e))
  else None.

(* crash consistency, on filesystem states *)
Definition old_or_new (lay : layout) (s0 sk : fs) (loc cpv : path) (new : result) : Prop :=
  read_entry lay sk loc cpv = read_entry lay s0 loc cpv \/ read_entry lay sk loc cpv = new.
Definition listing_ok (lay : layout) (s0 sk : fs) (loc cpv : path) (new : result) : Prop :=
  forall key, In key (keys sk loc) ->
    In key (keys s0 loc) \/ (key = join_on c_sl cpv /\ read_entry lay sk loc cpv = new).

(* ------------------------------------------------------------------ executable acceptors (B) *)
Definition dec_items (v : val) : option (list (str * val)) :=
  match v with
  | VL l => all_some (map (fun x => match x with VL [VS k; y] => Some (k, y) | _ => None end) l)
  | _ => None
  end.
Fixpoint nodup_keys (l : list (str * val)) : bool :=
  match l with
  | [] => true
  | (k, _) :: r => negb (existsb (fun kv => str_eqb k (fst kv)) r) && nodup_keys r
  end.
Definition opt_val_eqb (a b : option val) : bool :=
  match a, b with
  | Some x, Some y => val_eqb x y
  | None, None => true
  | _, _ => false
  end.

(* input: layout and the entry stored; recorded result: what cache[cpv] returned afterwards *)
Definition spec_roundtrip_ok (i : layout * entry) (res : val) : bool :=
  let (lay, e) := i in
  match chf e with
  | None => true                                   (* nothing was stored *)
  | Some _ =>
      match dec_items res with
      | None => false
      | Some items =>
          nodup_keys items
          && forallb (fun kv => known lay (fst kv)) items
          && forallb (fun k => opt_val_eqb (dget k items) (option_map enc_pv (expected_value lay e k)))
                     (chf_key lay :: metadata_keys)
      end
  end.
