(* Prop_C12.v — the property theorems of C12 and nothing else. *)
From Coq Require Import List NArith ZArith Bool.
Import ListNotations.
From Verif Require Import Base.Val C12.Model_C12 C12.Spec_C12 C12.Proofs_C12.

(* incremental_expansion (finalize on or off) = the left fold of the per-token meanings
   = last writer wins, for every stream, every original set and every string *)
Theorem expand_last_writer : forall fin ts orig s,
  expand fin ts orig = Ok s ->
  forall x, (In x s <-> sem_fold (adds fin) (dels fin) ts (fun y => mem y orig) x = true)
         /\ (In x s <-> survives (adds fin) (dels fin) ts orig x).
Proof. exact expand_last_writer_proof. Qed.
Print Assumptions expand_last_writer.

(* a stream is rejected iff it contains an incomplete token; the error is the first one's *)
Theorem expand_rejects : forall fin ts orig,
  match first_bad bad_inc ts with
  | Some e => expand fin ts orig = Fail e
  | None => exists s, expand fin ts orig = Ok s
  end.
Proof. exact expand_rejects_proof. Qed.
Print Assumptions expand_rejects.

(* the condensed form (pinned or repaired condenser), stored as a set in any order and applied
   the way domain.enabled_use applies it (split_negations, add_bare_global, render_pkg), gives
   every flag exactly the membership the left-to-right reading of the stream gives it — for
   EVERY original set.  Streams with "-prefix_*" tokens are outside C12 (see glob_outside). *)
Theorem optimize_sound : forall strict ts out,
  optimize strict ts = Ok out ->
  (forall t, In t ts -> glob_neg t = false) ->
  forall stored, same_set stored out ->
  forall orig, exists s,
    consume stored orig = Some s
    /\ (forall x, positive x = true ->
          (In x s <-> sem_fold (adds true) (dels true) ts (fun y => mem y orig) x = true))
    /\ (forall s', expand true ts orig = Ok s' ->
          forall x, positive x = true -> (In x s <-> In x s')).
Proof. exact optimize_sound_proof. Qed.
Print Assumptions optimize_sound.

(* a bare "-" anywhere in a stream of non-empty tokens is rejected by the expansion and by the
   (repaired) condenser, and nothing else is *)
Theorem incomplete_negation_rejected : forall ts,
  (forall t, In t ts -> t <> []) ->
  (In [DASH] ts ->
     optimize true ts = Fail EBareNeg /\ forall fin orig, expand fin ts orig = Fail EBareNeg)
  /\ (~ In [DASH] ts ->
     (exists out, optimize true ts = Ok out) /\ forall fin orig, exists s, expand fin ts orig = Ok s).
Proof. exact incomplete_negation_rejected_proof. Qed.
Print Assumptions incomplete_negation_rejected.

(* the pinned condenser does not reject "- -*" (the defect repaired by fixes/C12-*.patch) ... *)
Theorem optimize_pinned_refuted :
  optimize false [[DASH]; CLEAR] = Ok [CLEAR]
  /\ (forall fin orig, expand fin [[DASH]; CLEAR] orig = Fail EBareNeg).
Proof. exact optimize_pinned_refuted_proof. Qed.
Print Assumptions optimize_pinned_refuted.
(* ... and is otherwise the repaired one *)
Theorem optimize_pinned_partial : forall ts out,
  optimize true ts = Ok out -> optimize false ts = Ok out.
Proof. exact optimize_pinned_partial_proof. Qed.
Print Assumptions optimize_pinned_partial.

(* ACCEPT_LICENSE expansion with @group, -@group, *, -* is last writer wins over the group
   closure supplied as data (a missing group is empty) *)
Theorem license_last_writer : forall lics groups ts s,
  expand_license lics groups ts = Ok s ->
  forall x, (In x s <-> sem_fold (lic_adds lics groups) (lic_dels lics groups) ts (fun _ => false) x = true)
         /\ (In x s <-> survives (lic_adds lics groups) (lic_dels lics groups) ts [] x).
Proof. exact license_last_writer_proof. Qed.
Print Assumptions license_last_writer.

(* "-", "-@", "@" (and "") are rejected, with the first one's error; nothing else is *)
Theorem license_rejects : forall lics groups ts,
  match first_bad bad_license ts with
  | Some e => expand_license lics groups ts = Fail e
  | None => exists s, expand_license lics groups ts = Ok s
  end.
Proof. exact license_rejects_proof. Qed.
Print Assumptions license_rejects.

(* collapsed_restrict_to_data.pull_data = the left-to-right expansion of iter_pull_data's stream *)
Theorem pull_data_is_stream : forall srcs pre s ts,
  (forall t, In t pre -> positive t = true) ->
  pull_data true srcs pre = Ok s -> pull_stream true srcs pre = Some ts ->
  forall x, In x s <-> sem_fold (adds true) (dels true) ts (fun _ => false) x = true.
Proof. exact pull_data_is_stream_proof. Qed.
Print Assumptions pull_data_is_stream.

(* finalize_defaults=False: the stored set {-*, a} denotes "-* a" only in insertion order; the
   code iterates it in set order (recorded finding; pull_data_is_stream is the finalized part) *)
Theorem unfinalized_set_order_refuted :
  expand false [CLEAR; [97%N]] [] = Ok [CLEAR; [97%N]]
  /\ expand true [CLEAR; [97%N]] [[98%N]] = Ok [[97%N]]
  /\ expand true [[97%N]; CLEAR] [[98%N]] = Ok [].
Proof. exact unfinalized_set_order_refuted_proof. Qed.
Print Assumptions unfinalized_set_order_refuted.

(* domain._apply_license_filter as bound by _pkg_filters: each answer in any sequence of queries
   against one filter is the reading of "ACCEPT_LICENSE, then the package.license entries that
   match THIS package"; earlier queries leave no trace *)
Theorem license_filter_is_stream : forall master entries groups qs,
  (forall q, In q qs -> first_bad bad_license (license_stream master entries (fst q)) = None) ->
  license_filter_seq master entries groups qs
  = map (fun q => BOk (accepted_by_stream groups (license_stream master entries (fst q)) (snd q))) qs.
Proof. exact license_filter_is_stream_proof. Qed.
Print Assumptions license_filter_is_stream.

(* a nested group denotes the concrete members reachable through its references, whatever the order
   of the definitions (closure is what Licenses.groups is compared against) *)
Theorem closure_reach : forall raw n g x, In x (closure raw n g) <-> reach raw n g x.
Proof. exact closure_reach_proof. Qed.
Print Assumptions closure_reach.
