import sys, json, tempfile, shutil, logging
logging.disable(logging.CRITICAL)
from harness import c13
d=json.load(open(sys.argv[1])); det=d.get("detail",d); inp=det["input"]
w=inp.get("world") or inp["input"]["world"]
w=c13.fix_world(w)
t=tempfile.mkdtemp()
try: overall, parts = c13.run_impl(w,t)
finally: shutil.rmtree(t)
print({k:v for k,v in w.items() if k not in("pkgs","nodes")})
for nd in w["nodes"]: print(" node", nd)
for p,o,pt in zip(w["pkgs"],overall,parts if not isinstance(parts,c13.Err) else [parts]*len(overall)):
    ref=[c13.ref_mask_ok(w,p),c13.ref_kw_ok(w,p),c13.ref_lic_ok(w,p)]
    print(p["cat"],p["name"],p["ver"],p["slot"],p["kw"],c13.lic_str(p["lic"]),"impl",o,pt,"ref",ref, "" if pt==ref else "<<<<")
