(* C41/Lts.v — small generic library of labelled transition systems.

   INTERFACE (everything is inside sections; instantiate by applying to your types)

   Section Rel  (state label : Type) (step : state -> label -> state -> Prop) (init : state -> Prop)
     star s tr s'              reflexive-transitive closure of [step], collecting the labels
     reachable s               := exists s0 tr, init s0 /\ star s0 tr s
     star_app, star_snoc       composition of runs
     invariant_by_induction    P init -> (P s -> step s l s' -> P s') -> reachable s -> P s
     invariant_by_induction_r  same, the step case may also use [reachable s]
     -- termination, for a measure : state -> nat that strictly decreases on every step
     star_length_measure       star s tr s' -> length tr + measure s' <= measure s
     no_infinite_run           no f : nat -> state with step (f n) _ (f (S n)) for all n
     reaches_terminal          invariant + progress (non-terminal states have a successor)
                               -> from every state satisfying the invariant a terminal state is reached

   Section Fun  (state label : Type) (stepf : state -> label -> option state)
     fstep s l s'              := stepf s l = Some s'        (a deterministic-per-label LTS)
     run s tr : option state   executable run along a label list (trace acceptance)
     accepts s tr : bool       := the whole trace is a run from s
     run_star                  run s tr = Some s' <-> star fstep s tr s'
     run_app                   run over an appended trace

   No axioms.  Used by C41 (thread pool); written so that C35 (daemon protocol) can reuse it:
   From Verif Require Import C41.Lts. *)
From Coq Require Import List Arith Lia.
Import ListNotations.

Section Rel.
  Variables state label : Type.
  Variable step : state -> label -> state -> Prop.
  Variable init : state -> Prop.

  Inductive star : state -> list label -> state -> Prop :=
  | star_refl : forall s, star s [] s
  | star_cons : forall s l s' tr s'', step s l s' -> star s' tr s'' -> star s (l :: tr) s''.

  Definition reachable (s : state) : Prop := exists s0 tr, init s0 /\ star s0 tr s.

  Lemma star_app s tr1 s1 tr2 s2 : star s tr1 s1 -> star s1 tr2 s2 -> star s (tr1 ++ tr2) s2.
  Proof.
    induction 1 as [|s l s' tr s'' H1 H2 IH]; intro H; cbn; [exact H|].
    eapply star_cons; [exact H1 | apply IH; exact H].
  Qed.

  Lemma star_snoc s tr s1 l s2 : star s tr s1 -> step s1 l s2 -> star s (tr ++ [l]) s2.
  Proof.
    intros H1 H2. eapply star_app; [exact H1|]. eapply star_cons; [exact H2 | apply star_refl].
  Qed.

  Lemma reachable_init s : init s -> reachable s.
  Proof. intro H. exists s, []. split; [exact H | apply star_refl]. Qed.

  Lemma reachable_step s l s' : reachable s -> step s l s' -> reachable s'.
  Proof.
    intros [s0 [tr [Hi Hs]]] H. exists s0, (tr ++ [l]). split; [exact Hi|].
    eapply star_snoc; eassumption.
  Qed.

  Lemma reachable_star s tr s' : reachable s -> star s tr s' -> reachable s'.
  Proof.
    intros Hr H. induction H as [|s l s' tr s'' H1 H2 IH]; [exact Hr|].
    apply IH. eapply reachable_step; eassumption.
  Qed.

  Lemma star_preserves (P : state -> Prop) :
    (forall s l s', P s -> step s l s' -> P s') ->
    forall s tr s', star s tr s' -> P s -> P s'.
  Proof.
    intros Hstep s tr s' H. induction H as [|s l s' tr s'' H1 H2 IH]; intro HP; [exact HP|].
    apply IH. eapply Hstep; eassumption.
  Qed.

  Theorem invariant_by_induction (P : state -> Prop) :
    (forall s, init s -> P s) ->
    (forall s l s', P s -> step s l s' -> P s') ->
    forall s, reachable s -> P s.
  Proof.
    intros Hi Hs s [s0 [tr [H0 Hstar]]].
    eapply star_preserves; [exact Hs | exact Hstar | apply Hi; exact H0].
  Qed.

  Theorem invariant_by_induction_r (P : state -> Prop) :
    (forall s, init s -> P s) ->
    (forall s l s', reachable s -> P s -> step s l s' -> P s') ->
    forall s, reachable s -> P s.
  Proof.
    intros Hi Hs s Hr.
    assert (H : reachable s /\ P s); [|exact (proj2 H)].
    apply (invariant_by_induction (fun s => reachable s /\ P s)); [| |exact Hr].
    - intros s1 H1. split; [apply reachable_init; exact H1 | apply Hi; exact H1].
    - intros s1 l s2 [Hr1 HP1] Hst. split; [eapply reachable_step; eassumption|].
      eapply Hs; eassumption.
  Qed.

  (* ---------------------------------------------------------------- termination *)
  Section Termination.
    Variable measure : state -> nat.
    Hypothesis decreases : forall s l s', step s l s' -> measure s' < measure s.

    Lemma star_length_measure s tr s' : star s tr s' -> length tr + measure s' <= measure s.
    Proof.
      induction 1 as [|s l s' tr s'' H1 H2 IH]; cbn; [lia|].
      apply decreases in H1. lia.
    Qed.

    Theorem no_infinite_run (f : nat -> state) :
      ~ (forall n, exists l, step (f n) l (f (S n))).
    Proof.
      intro H.
      assert (B : forall n, n + measure (f n) <= measure (f 0)).
      { induction n as [|n IH]; [lia|]. destruct (H n) as [l Hl]. apply decreases in Hl. lia. }
      specialize (B (S (measure (f 0)))). lia.
    Qed.

    Variable Inv : state -> Prop.
    Variable terminal : state -> Prop.
    Hypothesis terminal_dec : forall s, terminal s \/ ~ terminal s.
    Hypothesis Inv_step : forall s l s', Inv s -> step s l s' -> Inv s'.
    Hypothesis progress : forall s, Inv s -> ~ terminal s -> exists l s', step s l s'.

    Theorem reaches_terminal s : Inv s -> exists tr s', star s tr s' /\ terminal s'.
    Proof.
      remember (measure s) as m eqn:Hm. revert s Hm.
      induction m as [m IH] using lt_wf_ind. intros s Hm HI.
      destruct (terminal_dec s) as [Ht|Hnt].
      - exists [], s. split; [apply star_refl | exact Ht].
      - destruct (progress s HI Hnt) as [l [s1 Hst]].
        assert (Hlt : measure s1 < m) by (subst m; eapply decreases; exact Hst).
        destruct (IH _ Hlt s1 eq_refl (Inv_step _ _ _ HI Hst)) as [tr [s2 [Hs2 Ht2]]].
        exists (l :: tr), s2. split; [eapply star_cons; eassumption | exact Ht2].
    Qed.
  End Termination.
End Rel.

Section Fun.
  Variables state label : Type.
  Variable stepf : state -> label -> option state.

  Definition fstep (s : state) (l : label) (s' : state) : Prop := stepf s l = Some s'.

  Fixpoint run (s : state) (tr : list label) : option state :=
    match tr with
    | [] => Some s
    | l :: tr' => match stepf s l with Some s' => run s' tr' | None => None end
    end.

  Definition accepts (s : state) (tr : list label) : bool :=
    match run s tr with Some _ => true | None => false end.

  (* index of the first label that is not enabled (for diagnostics) *)
  Fixpoint reject_at (i : nat) (s : state) (tr : list label) : option nat :=
    match tr with
    | [] => None
    | l :: tr' => match stepf s l with Some s' => reject_at (S i) s' tr' | None => Some i end
    end.

  Theorem run_star s tr s' : run s tr = Some s' <-> star state label fstep s tr s'.
  Proof.
    split.
    - revert s. induction tr as [|l tr IH]; cbn; intros s H.
      + injection H as <-. apply star_refl.
      + destruct (stepf s l) as [s1|] eqn:E; [|discriminate].
        eapply star_cons; [exact E | apply IH; exact H].
    - induction 1 as [|s l s1 tr s2 H1 H2 IH]; cbn; [reflexivity|].
      unfold fstep in H1. rewrite H1. exact IH.
  Qed.

  Lemma run_app s tr1 tr2 :
    run s (tr1 ++ tr2) = match run s tr1 with Some s1 => run s1 tr2 | None => None end.
  Proof.
    revert s. induction tr1 as [|l tr1 IH]; cbn; intro s; [reflexivity|].
    destruct (stepf s l); [apply IH | reflexivity].
  Qed.

  Lemma accepts_reachable (init : state -> Prop) s0 tr :
    init s0 -> accepts s0 tr = true ->
    exists s, run s0 tr = Some s /\ reachable state label fstep init s.
  Proof.
    unfold accepts. intros Hi H. destruct (run s0 tr) as [s|] eqn:E; [|discriminate].
    exists s. split; [reflexivity|]. exists s0, tr. split; [exact Hi | apply run_star; exact E].
  Qed.
End Fun.
