"""C16 — resolver choice policy (DESIGN §6 C16).

Streams
  sort      highest_iter_sort / lowest_iter_sort / pkg_sort_highest / pkg_sort_lowest on random
            candidate lists                                   impl vs Model_C16.run_sort          (A)
  merge     snakeoil iter_sort(highest_iter_sort, *streams)   impl vs Model_C16.run_merge         (A)
  strategy  merge_plan.prefer_highest_version_strategy / prefer_reuse_strategy over 1-4 caching
            repositories, .itermatch(atom)                    impl vs Model_C16.run_strategy      (A)
                                                              impl vs Spec_C16.spec_strategy_ok   (B, in Coq)
  policy    resolution level, on C15's generated universes through the real merge_plan:
            upgrade: the highest matching version, when the brute-force oracle finds a valid final
            state containing it, is what the target gets (installed instance preferred on a tie);
            min-install: a target matched by an installed package keeps an installed package;
            every scenario is resolved twice from scratch and the two op lists must be identical.
"""

from __future__ import annotations

import itertools

from . import c15
from .common import Check, Err, cN, cbool, clist, copt, cstr, impl_call

IMPORTS = ("From Coq Require Import List NArith ZArith Bool.\n"
           "From Verif Require Import Base.Val C01.Model_C01 C16.Model_C16 C16.Spec_C16.")
ANCHORS = ["resolver/plan.py::highest_iter_sort", "resolver/plan.py::lowest_iter_sort",
           "resolver/plan.py::pkg_sort_highest", "resolver/plan.py::merge_plan.prefer_highest_version_strategy",
           "resolver/plan.py::merge_plan.prefer_reuse_strategy", "resolver/plan.py::merge_plan.prefer_livefs_dbs",
           "repository/misc.py::multiplex_sorting_repo", "repository/misc.py::caching_repo",
           "ebuild/resolver.py::upgrade_resolver", "ebuild/resolver.py::min_install_resolver",
           "resolver/plan.py::merge_plan._viable", "resolver/plan.py::merge_plan._rec_add_atom",
           "resolver/plan.py::merge_plan.check_for_cycles", "resolver/plan.py::merge_plan.process_dependencies",
           "resolver/plan.py::merge_plan.insert_choice", "resolver/plan.py::merge_plan.insert_blockers",
           "resolver/choice_point.py"]
# versions with ties: 1 / 1-r0 compare equal, 1.0 / 1.00 compare equal
VERS = ("1", "1-r0", "1-r1", "2", "1.0", "1.00", "1.5", "3_rc1", "3", "0.9", "3_p1", "2a")
NAMES = ("a/x", "a/y", "b/x")
PREAMBLE = ("Definition A := [97]%N. Definition B := [98]%N. Definition X := [120]%N. Definition Y := [121]%N.\n"
            "Definition k (n : N) := match n with 0%N => (A, X) | 1%N => (A, Y) | _ => (B, X) end.\n"
            "Definition C (n : N) (v : str) (r : option N) (l : bool) (t : N) := mkc (fst (k n)) (snd (k n)) v r l t.\n")


def split_ver(v):
    if "-r" in v:
        a, b = v.split("-r")
        return a, int(b)
    return v, None


BASE_VERS = sorted({v.split("-r")[0] for v in VERS})
PREAMBLE += "".join(f"Definition V{i} : str := {cstr(v)}.\n" for i, v in enumerate(BASE_VERS))
PREAMBLE += "Definition T := true. Definition F := false. Definition n := @None N. Definition s := @Some N.\n"


def c_cand(c):
    name, ver, live, tag = c
    v, r = split_ver(ver)
    rv = "n" if r is None else f"(s {r})"
    return f"C {NAMES.index(name)} V{BASE_VERS.index(v)} {rv} {'T' if live else 'F'} {tag}"


def mk_repos(cands_by_repo):
    """[(livefs, [(name, ver, live, tag)])] -> FakeRepos with FakePkgs; returns (repos, tag_of)"""
    from pkgcore.test.misc import FakePkg, FakeRepo
    repos, tag_of = [], {}
    for i, (live, cs) in enumerate(cands_by_repo):
        r = FakeRepo(repo_id=f"r{i}", livefs=live)
        pk = []
        for name, ver, _l, tag in cs:
            p = FakePkg(f"{name}-{ver}", repo=r)
            tag_of[id(p)] = tag
            pk.append(p)
        r.pkgs = pk
        repos.append(r)
    return repos, tag_of


def gen_cands(rng, n, live=None, names=NAMES, start=0):
    out = []
    for i in range(n):
        lv = rng.random() < 0.4 if live is None else live
        out.append((rng.choice(names), rng.choice(VERS), lv, start + i))
    return out


def main(chk: Check):
    import logging
    logging.disable(logging.WARNING)
    from pkgcore.ebuild.atom import atom
    from pkgcore.repository import misc
    from pkgcore.resolver import plan
    from snakeoil.iterables import iter_sort

    rng = chk.rng
    chk.rule("sort/merge: random candidate lists (3 names, 12 versions with ties such as 1 / 1-r0 and 1.0 / 1.00, "
             "installed flag) and 1-4 streams; strategy: 1-4 repositories (each installed or not) x a random atom; "
             "non-trivial = at least two candidates of equal version with different installed flags, or >=2 streams "
             "with interleaving versions.  policy: C15's universes; non-trivial = the target has >=2 candidates")
    ok = chk.build(["C16/Prop_C16.vo"])
    if ok:
        chk.check_assumptions("C16/Prop_C16.v")
    chk.lint(["C16"])
    chk.check_fingerprint(ANCHORS)

    # ------------------------------------------------------------------ sort
    sort_cases = []
    for _ in range(chk.n(120, 4000)):
        k = rng.randrange(4)
        cs = gen_cands(rng, rng.choice((0, 1, 2, 3, 4, 5, 6, 8)), names=NAMES if rng.random() < 0.3 else NAMES[:1])
        repos, tag_of = mk_repos([(True, [c for c in cs if c[2]]), (False, [c for c in cs if not c[2]])])
        by_tag = {tag_of[id(p)]: p for r in repos for p in r.pkgs}
        pk = [by_tag[c[3]] for c in cs]

        def run():
            if k == 0:
                return [tag_of[id(e[0])] for e in plan.highest_iter_sort([[p, []] for p in pk])]
            if k == 1:
                return [tag_of[id(e[0])] for e in plan.lowest_iter_sort([[p, []] for p in pk])]
            if k == 2:
                return [tag_of[id(p)] for p in plan.pkg_sort_highest(pk)]
            return [tag_of[id(p)] for p in plan.pkg_sort_lowest(pk)]
        res = _call(run)
        sort_cases.append((f"({k}%N, {clist([c_cand(c) for c in cs], 'cand')})", res))
        if len({(c[1], c[2]) for c in cs}) < len(cs) or len({c[2] for c in cs}) == 2:
            chk.nontrivial(("sort", k, tuple(cs)))
    chk.count("sort", len(sort_cases))
    chk.sample({"stream": "sort", "input": sort_cases[0][0], "impl": sort_cases[0][1]})

    # ------------------------------------------------------------------ merge
    merge_cases = []
    for _ in range(chk.n(100, 3000)):
        ns = rng.choice((0, 1, 2, 2, 3, 4))
        streams, t = [], 0
        for _s in range(ns):
            live = rng.random() < 0.5
            cs = gen_cands(rng, rng.choice((0, 1, 2, 3, 4)), live=live, names=NAMES[:1], start=t)
            t += len(cs)
            streams.append((live, cs))
        repos, tag_of = mk_repos(streams)
        presorted = rng.random() < 0.85
        its = [list(plan.pkg_sort_highest(r.pkgs)) if presorted else list(r.pkgs) for r in repos]
        res = _call(lambda: [tag_of[id(p)] for p in iter_sort(plan.highest_iter_sort, *[iter(x) for x in its])])
        by_tag = {c[3]: c for _, cs in streams for c in cs}
        term = clist([clist([c_cand(by_tag[tag_of[id(p)]]) for p in it], "cand") for it in its], "list cand")
        merge_cases.append((term, res))
        if ns >= 2:
            chk.nontrivial(("merge", tuple(tuple(cs) for _, cs in streams), presorted))
    chk.count("merge", len(merge_cases))

    # ------------------------------------------------------------------ strategy
    strat_cases = []
    for _ in range(chk.n(160, 5000)):
        k = rng.randrange(2)
        nr = rng.choice((1, 2, 2, 3, 4))
        spec, t = [], 0
        for _r in range(nr):
            live = rng.random() < 0.45
            cs = gen_cands(rng, rng.choice((0, 1, 2, 3, 4, 5)), live=live, names=NAMES[:2], start=t)
            t += len(cs)
            spec.append((live, cs))
        a = atom(rng.choice(("a/x", "a/x", ">=a/x-1", "<a/x-3", "~a/x-1", "=a/x-1*", "a/y", "<=a/x-1.0")))
        repos, tag_of = mk_repos(spec)
        flags = {tag_of[id(p)]: bool(a.match(p)) for r in repos for p in r.pkgs}

        def run():
            dbs = [misc.caching_repo(r, plan.pkg_sort_highest) for r in repos]
            f = (plan.merge_plan.prefer_highest_version_strategy if k == 0 else plan.merge_plan.prefer_reuse_strategy)
            return [tag_of[id(p)] for p in f(dbs).itermatch(a)]
        res = _call(run)
        term = "(%d%%N, %s)" % (k, clist(
            ["(%s, %s)" % (cbool(live), clist([f"({c_cand(c)}, {'T' if flags[c[3]] else 'F'})" for c in cs], "cand * bool"))
             for live, cs in spec], "repo"))
        strat_cases.append((term, res))
        m = [c for _, cs in spec for c in cs if flags[c[3]]]
        if len({c[2] for c in m}) == 2 and len(m) >= 3:
            chk.nontrivial(("strategy", k, str(a), tuple(m)))
    chk.count("strategy", len(strat_cases))
    chk.sample({"stream": "strategy", "input": strat_cases[0][0], "impl": strat_cases[0][1]})

    # ------------------------------------------------------------------ choice_point call sequences
    cp_cases, cp_raw = [], []
    for pk_, ops_ in cp_corpus() + [gen_cp_case(rng) for _ in range(chk.n(220, 5000))]:
        try:
            cnfs, obs = run_cp_impl(pk_, ops_)
        except Exception as e:  # noqa: BLE001  the driver itself must not die on the unchanged tree
            chk.violation("correspondence", {"what": f"choice_point driver raised {type(e).__name__}",
                                             "input": {"pkgs": pk_, "ops": ops_}}, no_input=True)
            continue
        cp_cases.append((c_cp_case(cnfs, ops_), obs))
        cp_raw.append({"pkgs": pk_, "ops": ops_, "observed": obs})
        if any(o[0] == "reduce" and o[1] for o in ops_) and any("||" in d for p_ in pk_ for d in p_.values()):
            chk.nontrivial(("cp", repr(pk_), repr(ops_)))
    chk.count("choice_point", len(cp_cases))
    chk.sample({"stream": "choice_point", "input": cp_raw[0]})

    spec_bad = []
    if ok:
        import concurrent.futures as cf
        streams = (
            ("sort", "N * list cand", sort_cases, ["mismatches run_sort cases"]),
            ("merge", "list (list cand)", merge_cases, ["mismatches run_merge cases"]),
            ("strategy", "N * list repo", strat_cases,
             ["mismatches run_strategy cases", "where_ (fun i r => negb (spec_strategy_ok i r)) cases"]))
        with cf.ThreadPoolExecutor(max_workers=4) as ex:        # the four streams are independent
            fcp = ex.submit(chk.coq_eval, "choice_point", CP_IMPORTS,
                            "list ChoicePoint_C16.pk * list ChoicePoint_C16.op", cp_cases,
                            ["mismatches ChoicePoint_C16.run_cp cases",
                             "where_ (fun i r => negb (ChoicePoint_C16.spec_cp_ok i r)) cases"],
                            chk.n(240, 400), "Import ChoicePoint_C16.")
            results = list(ex.map(lambda st: chk.coq_eval(st[0], IMPORTS, st[1], st[2], st[3],
                                                          shard=chk.n(200, 400), preamble=PREAMBLE), streams))
            rcp = fcp.result()
        if rcp is not None:
            for i in rcp[1][:3]:
                chk.violation("property",
                              {"what": "choice_point: after a call the current candidate is not the first remaining "
                                       "candidate whose requirement groups all keep an alternative under the "
                                       "accumulated filters (a resolvable candidate is discarded, or a dead one kept)",
                               "input": cp_raw[i]})
            for i in [j for j in rcp[0] if j not in rcp[1]][:3]:
                chk.violation("correspondence",
                              {"what": "implementation and ChoicePoint_C16 model disagree on a call sequence",
                               "input": cp_raw[i]}, no_input=not rcp[1])
        for (name, ty, cases, evals), r in zip(streams, results):
            if r is not None and name == "strategy":
                spec_bad = [cases[i] for i in r[1]]
        for (name, ty, cases, evals), r in zip(streams, results):
            if r is None:
                continue
            for i in r[0][:3]:
                chk.violation("correspondence",
                              {"what": f"implementation and Model_C16 disagree on stream '{name}' (the theorems of "
                                       "Prop_C16 no longer speak about this code)",
                               "input": cases[i][0], "implementation": cases[i][1]},
                              no_input=not spec_bad)
    for s in spec_bad[:3]:
        chk.violation("property", {"what": "candidate stream of the strategy is not highest-first / reuse-first "
                                           "(Spec_C16.spec_strategy_ok rejects the implementation's stream)",
                                   "input": s[0], "implementation": s[1]})

    # ------------------------------------------------------------------ resolution-level policy
    policy(chk)


# --------------------------------------------------------------------------- choice_point call sequences
CP_IMPORTS = IMPORTS.replace("C16.Spec_C16.", "C16.Spec_C16 C16.ChoicePoint_C16.")
CP_SLOTS = ("_bdeps", "_deps", "_rdeps", "_prdeps", "_ideps")
CP_ATTRS = ("bdepend", "depend", "rdepend", "pdepend", "idepend")       # attribute feeding each slot
CP_GROUPS = ("a/q0", "a/q1", "a/q2", "|| ( a/q0 a/q1 )", "|| ( a/q1 a/q0 )", "|| ( a/q0 a/q2 )", "|| ( a/q3 a/q1 )",
             "|| ( a/q0 a/q1 a/q2 )", "|| ( a/q3 a/q0 a/q1 )", "a/q3", "|| ( a/q2 a/q3 )")


def gen_cp_case(rng):
    """2-4 candidates, each with 0-3 requirement groups in some of the five classes (plain atoms and any-of
    groups over 4 atoms; groups that coincide after pruning, duplicates, the same atom in several classes are
    frequent by construction), and 2-7 calls on ONE choice_point: reduce_atoms with a single atom / a list /
    a set / nothing, force_next_pkg, current_pkg, bool."""
    pkgs = []
    for _ in range(rng.choice((2, 2, 3, 3, 4))):
        deps = {}
        for a in CP_ATTRS:
            if rng.random() < 0.45:
                deps[a] = " ".join(rng.choice(CP_GROUPS) for _ in range(rng.choice((1, 2, 2, 3))))
        pkgs.append(deps)
    ops = []
    for _ in range(rng.choice((2, 3, 4, 5, 7))):
        r = rng.random()
        if r < 0.6:
            k = rng.choice((0, 1, 1, 1, 2))
            ops.append(["reduce", rng.sample(range(4), k), rng.choice(("list", "set", "single") if k == 1 else ("list", "set"))])
        elif r < 0.75:
            ops.append(["force"])
        elif r < 0.9:
            ops.append(["cur"])
        else:
            ops.append(["bool"])
    return pkgs, ops


def run_cp_impl(pkgs, ops):
    from pkgcore.ebuild.atom import atom
    from pkgcore.ebuild.conditionals import DepSet
    from pkgcore.resolver.choice_point import choice_point
    from pkgcore.test.misc import FakePkg, FakeRepo

    repo = FakeRepo(repo_id="r")
    objs, cnfs, ids = [], [], {}
    qa = [atom(f"a/q{i}") for i in range(4)]
    aid = {str(a): i for i, a in enumerate(qa)}
    for n, deps in enumerate(pkgs):
        p = FakePkg(f"a/cand-{len(pkgs) - n}", repo=repo)
        per = []
        for a in CP_ATTRS:
            ds = DepSet.parse(deps.get(a, ""), atom)
            object.__setattr__(p, a, ds)
            per.append([[aid[str(x)] for x in cl] for cl in ds.cnf_solutions()])
        objs.append(p)
        cnfs.append(per)
        ids[id(p)] = n
    cp = choice_point(atom("a/cand"), objs)
    obs = []
    for o in ops:
        def call():
            if o[0] == "reduce":
                arg = [qa[i] for i in o[1]]
                if o[2] == "set":
                    arg = set(arg)
                elif o[2] == "single":
                    arg = arg[0]
                return bool(cp.reduce_atoms(arg))
            if o[0] == "force":
                return bool(cp.force_next_pkg())
            if o[0] == "cur":
                return ids[id(cp.current_pkg)]
            return bool(cp)
        ret = impl_call(call)
        if cp.matches_cur is None:
            obs.append([ret, None, None])
        else:
            obs.append([ret, ids[id(cp.matches_cur)],
                        [[[aid[str(x)] for x in cl] for cl in getattr(cp, sl)] for sl in CP_SLOTS]])
    return cnfs, obs


def c_cp_case(cnfs, ops):
    def nl(xs):
        xs = list(xs)
        return "[" + ";".join(str(x) for x in xs) + "]%N" if xs else "(@nil N)"
    ps = [f"mkpk {n} {clist([clist([nl(cl) for cl in ds], 'clause') for ds in per], 'depset')}"
          for n, per in enumerate(cnfs)]
    os_ = []
    for o in ops:
        os_.append({"reduce": lambda: f"Reduce {nl(o[1])}", "force": lambda: "ForceNext",
                    "cur": lambda: "Cur", "bool": lambda: "Truth"}[o[0]]())
    return f"({clist(ps, 'pk')}, {clist(os_, 'op')})"


def _call(f):
    try:
        return f()
    except Exception as e:  # noqa: BLE001
        return Err(type(e).__name__)


# --------------------------------------------------------------------------- policy (per run)
def _vkey(w, i):
    """version identity of package i (for 'equal version'): compare through the real packages"""
    return w.pkgs[i]


def oracle_final_states(w: c15.World, must_have: int, limit=20000):
    """brute force: is there a final state (one choice per (key, slot): keep what is installed there, or
    one source package of that slot, or - when nothing is installed there - nothing) that contains
    `must_have`, meets every target, closes the dependencies of its source packages and respects their
    blockers?"""
    groups = {}
    for i, m in enumerate(w.meta):
        groups.setdefault(m[:2], []).append(i)
    options = []
    for ks, members in groups.items():
        vdbs = [i for i in members if w.meta[i][2]]
        srcs = [i for i in members if not w.meta[i][2]]
        if must_have in members:
            opts = [must_have]
        else:
            opts = (vdbs[:1] if vdbs else [None]) + srcs
        options.append(opts)
    total = 1
    for o in options:
        total *= len(o)
        if total > limit:
            return None                      # too large: no verdict
    tg = [set(w.match[w.atom_id[str(t)]]) for t in w.targets]
    for sel in itertools.product(*options):
        fin = {x for x in sel if x is not None}
        if any(not (t & fin) for t in tg):
            continue
        # packages whose dependencies must hold: every source package, and every installed package
        # the resolver would walk into (verify_vdb): reachable from `must_have` through plain atoms
        need = {p for p in fin if not w.meta[p][2]} | {must_have}
        todo = list(need)
        good = True
        while todo and good:
            p = todo.pop()
            # merge_plan skips DEPEND/BDEPEND of a built (installed) package
            classes = ("rdepend", "idepend", "pdepend") if (w.meta[p][2] and w.built) else c15.CLASSES
            for c in classes:
                for clause in w.meta[p][3][c]:
                    sat = False
                    for a, blocks in clause:
                        m = set(w.match[w.atom_id[a]]) & fin
                        if blocks:
                            sat = sat or not (m - {p})
                        else:
                            sat = sat or bool(m)
                            for q in m:
                                if q not in need:
                                    need.add(q)
                                    todo.append(q)
                    if not sat:
                        good = False
        if good:
            return True
    return False


def _resolver_can(scn, w, best, tindex=0) -> bool:
    """does the same resolver succeed, with a valid plan, when target number `tindex` asks for exactly the
    version of `best` (the other targets unchanged, same order, same resolver object)?"""
    nv = len(scn["vdb"])
    cpv = scn["vdb"][best][0] if best < nv else scn["src"][best - nv][0]
    tg = list(scn["targets"])
    tg[tindex] = "=" + cpv
    if len(set(tg)) != len(tg):
        tg = list(dict.fromkeys(tg))
    scn2 = dict(scn, targets=tg)
    w2 = c15.World(scn2)
    r = w2.resolve()
    if isinstance(r, Err) or r[0] != "ok":
        return False
    return not c15.py_check(w2, r[1])


def _resolver_can_keep(scn, w, tindex) -> bool:
    """min-install counterpart of _resolver_can: with the source candidates of target `tindex` taken away
    (so that only installed packages can satisfy it), does the same resolver return a valid plan?"""
    nv = len(scn["vdb"])
    cands = set(w.match[w.atom_id[str(w.targets[tindex])]])
    src = [e for k, e in enumerate(scn["src"]) if (nv + k) not in cands]
    w2 = c15.World(dict(scn, src=src))
    r = w2.resolve()
    if isinstance(r, Err) or r[0] != "ok":
        return False
    if c15.py_check(w2, r[1]):
        return False
    # ... and, in the full universe, asking for exactly the installed version must not fail outright
    # (it fails when the installed package's own dependencies defeat this greedy search)
    for i in sorted(cands):
        if w.meta[i][2]:
            tg = list(scn["targets"])
            tg[tindex] = "=" + scn["vdb"][i][0]
            r3 = c15.World(dict(scn, targets=list(dict.fromkeys(tg)))).resolve()
            if not isinstance(r3, Err) and r3[0] == "ok":
                return True
    return False


def _presolved(scn, w, tindex) -> bool:
    """target number `tindex` is matched by a package the plan already holds after the earlier targets
    (merge_plan answers such an atom "pre-solved" from its state and does not look at candidates)."""
    if tindex == 0:
        return False
    w2 = c15.World(dict(scn, targets=list(scn["targets"][:tindex])))
    r = w2.resolve()
    if isinstance(r, Err) or r[0] != "ok":
        return False
    fin = set(c15.final_state(w2, r[1]))
    held = {o[1] for o in r[1] if o[0] in (0, 2)} & fin
    t = scn["targets"][tindex]
    return bool(held & set(w.match[w.atom_id[str(w.targets[tindex])]])) if t else False


def gen_cycle_scenario(rng):
    """structured family: a build-time dependency cycle reached through a DEPEND/BDEPEND edge
    (t -> x -> y -> || ( x w )), the atom on x needed a second time (another class of t, or a second
    target u resolved on the same resolver object), several versions of the packages on the cycle,
    installed-vs-not variants.  No blockers, one slot: whenever the oracle finds a final state with the
    highest version, a resolver that follows the upgrade policy must deliver it (strict judgement)."""
    build = ("depend", "bdepend")
    e1, e2 = rng.choice(build), rng.choice(build)
    e3 = rng.choice(("depend", "depend", "bdepend", "rdepend"))
    xa = rng.choice(("a/x", "a/x", ">=a/x-1", "a/x:0"))
    src = []
    tdeps = {e1: xa}
    if rng.random() < 0.6:
        again = rng.choice([c for c in c15.CLASSES if c != e1])
        tdeps[again] = xa if rng.random() < 0.7 else "a/x"
    if rng.random() < 0.3:
        tdeps.setdefault("rdepend", "a/y")
    src.append(["a/t-2", "0", tdeps])
    src.append(["a/t-1", "0", {} if rng.random() < 0.7 else {"depend": "a/w"}])
    if rng.random() < 0.15:
        src.append(["a/t-3", "0", {"depend": "a/zz"}])           # highest version not resolvable
    xvers = ["1"] if rng.random() < 0.5 else ["1", "2"]
    for v in xvers:
        src.append([f"a/x-{v}", "0", {e2: "a/y"} if rng.random() < 0.9 else {}])
    anyof = rng.choice(("|| ( a/x a/w )", "|| ( a/x a/w )", "|| ( a/w a/x )", f"|| ( {xa} a/w )",
                        "|| ( a/x a/w a/y )"))
    yvers = ["1"] if rng.random() < 0.6 else ["1", "2"]
    for v in yvers:
        src.append([f"a/y-{v}", "0", {e3: anyof}])
    src.append(["a/w-1", "0", {}])            # the way out of the build-time cycle always exists
    if rng.random() < 0.3:
        src.append(["a/w-2", "0", {} if rng.random() < 0.6 else {"rdepend": "a/y"}])
    targets = ["a/t"]
    if rng.random() < 0.55:
        uc = rng.choice(c15.CLASSES)
        src.append(["a/u-2", "0", {uc: rng.choice((xa, "a/x", "a/y"))}])
        src.append(["a/u-1", "0", {}])
        targets.append("a/u")
        if rng.random() < 0.5:
            targets.reverse()
    rng.shuffle(src)
    vdb = []
    for cpv, slot, deps in src:
        if cpv in ("a/x-1", "a/y-1", "a/w-1", "a/t-1", "a/u-1") and rng.random() < 0.22:
            vdb.append([cpv, slot, dict(deps) if rng.random() < 0.6 else {}])
    return {"vdb": vdb, "src": src, "targets": targets, "kind": "upgrade" if rng.random() < 0.8 else "min",
            "family": "cycle", "built": rng.random() < 0.5}


PRUNE_GROUPS = ("|| ( a/gone a/c )", "a/c", "|| ( a/c a/gone )", "|| ( a/gone a/gone2 a/c )", "|| ( a/gone a/c a/d )",
                "|| ( a/c a/d )", "a/d", "|| ( a/gone a/d )", ">=a/c-1", "|| ( a/gone >=a/c-1 )", "|| ( a/gone2 a/c )",
                "|| ( a/gone a/d a/c )", "|| ( a/d a/gone a/c )")


def gen_prune_scenario(rng):
    """structured family around choice_point's pruning (reduce_atoms/_filter_choices): the preferred
    candidate's depsets hold any-of groups with unsatisfiable alternatives in every position, next to plain
    requirements and other groups that coincide with what is left of a group after pruning (before and after
    it, repeated, spread over classes).  The candidate stays resolvable (a/c and a/d exist), so the strict
    oracle demands it.  Variants: a/c, a/d installed / already in the plan through an earlier target / neither;
    the preferred candidate itself installed (must be kept, by both strategies); an unresolvable newer a/t-3;
    the candidate reached as a dependency of a second target's highest version."""
    n = rng.choice((2, 2, 3, 3, 4))
    groups = [rng.choice(PRUNE_GROUPS) for _ in range(n)]
    if rng.random() < 0.5:            # make sure the collapsing shape (group, then its remainder) is frequent
        rem = rng.choice(("a/c", "a/d", ">=a/c-1"))
        g = rng.choice((f"|| ( a/gone {rem} )", f"|| ( {rem} a/gone )", f"|| ( a/gone a/gone2 {rem} )"))
        groups = [g, rem] if rng.random() < 0.7 else [rem, g]
        if rng.random() < 0.4:
            groups.insert(rng.randrange(3), rng.choice(PRUNE_GROUPS))
    tdeps = {}
    if rng.random() < 0.7:
        tdeps[rng.choice(c15.CLASSES)] = " ".join(groups)
    else:
        k = rng.randrange(1, len(groups))
        c1, c2 = rng.sample(c15.CLASSES, 2)
        tdeps[c1], tdeps[c2] = " ".join(groups[:k]), " ".join(groups[k:])
    src = [["a/t-2", "0", tdeps], ["a/t-1", "0", {} if rng.random() < 0.7 else {"rdepend": "a/d"}],
           ["a/c-1", "0", {}], ["a/d-1", "0", {} if rng.random() < 0.8 else {"rdepend": "a/c"}]]
    if rng.random() < 0.2:
        src.append(["a/c-2", "0", {}])
    if rng.random() < 0.15:
        src.append(["a/t-3", "0", {"rdepend": "|| ( a/gone a/gone2 )"}])
    vdb = []
    for cpv in ("a/c-1", "a/d-1"):
        if rng.random() < 0.2:
            vdb.append([cpv, "0", {}])
    if rng.random() < 0.25:
        vdb.append(["a/t-2", "0", dict(tdeps)])
    elif rng.random() < 0.15:
        vdb.append(["a/t-1", "0", {}])
    targets = ["a/t"]
    r = rng.random()
    if r < 0.15:
        targets.insert(0, rng.choice(("a/c", "a/d")))          # already in the plan when a/t is resolved
    elif r < 0.35:
        src.append(["a/top-2", "0", {rng.choice(c15.CLASSES): rng.choice(("=a/t-2", ">=a/t-2", "a/t"))}])
        src.append(["a/top-1", "0", {}])
        targets = ["a/top"] if rng.random() < 0.6 else ["a/top", "a/t"]
        # a/top-2 needs a/t-2: an installed a/t-1 would legitimately be replaced for it
        vdb = [v for v in vdb if v[0] != "a/t-1"]
    rng.shuffle(src)
    return {"vdb": vdb, "src": src, "targets": targets, "kind": rng.choice(("upgrade", "upgrade", "min")),
            "built": rng.random() < 0.6, "family": "prune"}


def _best(w, cands):
    best = None
    for i in cands:
        if best is None or w.pkgs[i] > w.pkgs[best] or (
                w.pkgs[i] == w.pkgs[best] and w.meta[i][2] and not w.meta[best][2]):
            best = i
    return best


def judge(chk, scn, stats, bad, strict):
    """resolve twice; check determinism and the choice policy for every target.
    strict (structured family): the oracle alone decides resolvability, and a failed resolution of a
    resolvable target is reported too.  Otherwise the resolver must also be able to resolve the exact
    version (greedy incompleteness is counted, not reported)."""
    try:
        w = c15.World(scn)
    except Exception:  # noqa: BLE001
        return
    r1 = w.resolve()
    r2 = c15.World(scn).resolve()
    stats["runs"] += 1
    if repr(r1) != repr(r2):
        if not (isinstance(r1, Err) and isinstance(r2, Err)):
            bad.append({"what": "two resolutions of identical inputs differ", "input": scn,
                        "first": r1 if not isinstance(r1, Err) else r1.kind,
                        "second": r2 if not isinstance(r2, Err) else r2.kind})
        return
    stats["twice_same"] += 1
    if isinstance(r1, Err):
        return
    if r1[0] != "ok":
        if strict and scn["kind"] == "upgrade":
            for t in w.targets:
                b = _best(w, w.match[w.atom_id[str(t)]])
                if b is not None and oracle_final_states(w, b):
                    stats["upgrade_checked"] += 1
                    bad.append({"what": "upgrade: the highest matching version is resolvable (a valid final "
                                        "state exists) but the resolver reports failure",
                                "input": scn, "ops": None, "highest": w.scn_name(b), "got": []})
                    break
        return
    stats["ok"] += 1
    ops = r1[1]
    fin = set(c15.final_state(w, ops))
    for tindex, t in enumerate(w.targets):
        cands = w.match[w.atom_id[str(t)]]
        if len(cands) >= 2:
            chk.nontrivial(repr((scn, str(t))))
        if scn["kind"] == "upgrade":
            best = _best(w, cands)
            if best is None:
                continue
            got = [i for i in cands if i in fin]
            if any(w.pkgs[i] == w.pkgs[best] for i in got):
                # equal version present: the installed instance must have been preferred
                inst = [i for i in cands if w.meta[i][2] and w.pkgs[i] == w.pkgs[best]]
                if inst and not any(i in fin for i in inst):
                    if oracle_final_states(w, inst[0]) and (strict or _resolver_can_keep(scn, w, tindex)):
                        bad.append({"what": "upgrade: an installed instance of the highest version exists and is "
                                            "resolvable, but it was replaced by the source instance",
                                    "input": scn, "ops": ops, "installed": [w.scn_name(i) for i in inst]})
                stats["upgrade_checked"] += 1
                continue
            if _presolved(scn, w, tindex):
                stats["presolved_by_earlier_target"] = stats.get("presolved_by_earlier_target", 0) + 1
                continue
            v = oracle_final_states(w, best)
            if v is None:
                stats["oracle_no_verdict"] += 1
            elif v is False:
                stats["upgrade_highest_unresolvable"] += 1
            elif not strict and not _resolver_can(scn, w, best, tindex):
                # a valid final state with the highest version exists, but this (greedy, incomplete)
                # resolver does not find one even when asked for exactly that version: not a matter of
                # choice policy; counted, not reported
                stats["upgrade_highest_beyond_resolver"] = stats.get("upgrade_highest_beyond_resolver", 0) + 1
            else:
                stats["upgrade_checked"] += 1
                bad.append({"what": "upgrade: the highest matching version is resolvable ("
                                    + ("a valid final state exists" if strict else
                                       "a valid final state exists and the resolver finds one when asked for "
                                       "exactly that version")
                                    + ") but the target was satisfied by a lower version",
                            "input": scn, "ops": ops, "target": str(t), "highest": w.scn_name(best),
                            "got": [w.scn_name(i) for i in got]})
        else:
            inst = [i for i in cands if w.meta[i][2]]
            if not inst:
                continue
            if not strict and len(w.targets) > 1:
                continue        # several targets compete for slots; min-install is judged on single targets
                                # (and, with several targets, in the structured families)
            if any(i in fin for i in inst):
                stats["min_checked"] += 1
                continue
            keepable = [i for i in inst if oracle_final_states(w, i)]
            if not keepable:
                stats["min_installed_unkeepable"] = stats.get("min_installed_unkeepable", 0) + 1
                continue
            if not strict and not _resolver_can_keep(scn, w, tindex):
                stats["min_installed_beyond_resolver"] = stats.get("min_installed_beyond_resolver", 0) + 1
                continue
            stats["min_checked"] += 1
            bad.append({"what": "min-install: the target was already satisfied by an installed package, "
                                "which was replaced/dropped in favour of another",
                        "input": scn, "ops": ops, "target": str(t), "installed": [w.scn_name(i) for i in inst]})


def policy(chk: Check):
    rng = chk.rng
    stats = {"runs": 0, "ok": 0, "upgrade_checked": 0, "upgrade_highest_unresolvable": 0, "min_checked": 0,
             "twice_same": 0, "oracle_no_verdict": 0}
    bad = []
    for scn in corpus_scenarios():
        judge(chk, scn, stats, bad, strict=scn.get("family") in ("cycle", "built", "prune"))
    # random universes of C15's generator: one target, or several targets on one resolver object
    for _ in range(chk.n(320, 8000)):
        scn = c15.gen_scenario(rng)
        scn["kind"] = rng.choice(("upgrade", "min"))
        if rng.random() < 0.7:
            scn["targets"] = scn["targets"][:1]
        judge(chk, scn, stats, bad, strict=False)
    base = dict(stats)
    # structured family (strict judgement)
    for _ in range(chk.n(250, 6000)):
        judge(chk, gen_cycle_scenario(rng), stats, bad, strict=True)
    stats["cycle_family"] = {k: stats[k] - base.get(k, 0) for k in ("runs", "ok", "upgrade_checked", "min_checked")}
    base = dict((k, v) for k, v in stats.items() if not isinstance(v, dict))
    # structured family around built installed packages and candidate fallback (strict judgement)
    for _ in range(chk.n(150, 4000)):
        judge(chk, c15.gen_built_scenario(rng), stats, bad, strict=True)
    stats["built_family"] = {k: stats[k] - base.get(k, 0) for k in ("runs", "ok", "upgrade_checked", "min_checked")}
    base = dict((k, v) for k, v in stats.items() if not isinstance(v, dict))
    # structured family around choice_point pruning (strict judgement)
    for _ in range(chk.n(200, 5000)):
        judge(chk, gen_prune_scenario(rng), stats, bad, strict=True)
    stats["prune_family"] = {k: stats[k] - base.get(k, 0) for k in ("runs", "ok", "upgrade_checked", "min_checked")}
    chk.count("policy", stats["runs"])
    chk.cov["policy"] = stats
    shown = 0
    for b in bad:
        cid = classify_policy(b)
        if cid and chk.known_finding(cid, b):
            continue
        if shown < 5:
            chk.violation("property", b)
            shown += 1


def kf_anyof_vs_blocker(b) -> bool:
    """known class `anyof-vs-blocker`: the preferred candidate has an any-of group one of whose alternatives
    is matched by a package that an unconditional blocker of the same candidate also matches; the resolver
    commits to the first alternative, hits the blocker and abandons the candidate instead of trying the
    other alternative."""
    scn = b["input"]
    w = c15.World(scn)
    names = [w.scn_name(i) for i in range(len(w.meta))]
    prefs = [b["highest"]] if "highest" in b else list(b.get("installed", []))
    for nme in prefs:
        p = names.index(nme)
        clauses = [cl for c in c15.CLASSES for cl in w.meta[p][3][c]]
        blocked = set()
        for cl in clauses:
            if len(cl) == 1 and cl[0][1]:
                blocked |= set(w.match[w.atom_id[cl[0][0]]])
        for cl in clauses:
            if len(cl) >= 2:
                for a, blocks in cl:
                    if not blocks and set(w.match[w.atom_id[a]]) & blocked:
                        return True
    return False


def classify_policy(b):
    if ("highest" in b or "installed" in b) and kf_anyof_vs_blocker(b):
        return "anyof-vs-blocker"
    return None


def corpus_scenarios():
    import json

    from .common import VERIF
    out = []
    d = VERIF / "corpus" / "C16"
    if d.is_dir():
        for p in sorted(d.glob("*.json")):
            try:
                out.append(json.loads(p.read_text())["input"])
            except Exception:  # noqa: BLE001
                pass
    return out


def replay(chk: Check, data):
    import logging
    logging.disable(logging.WARNING)
    scn = data.get("detail", {}).get("input")
    if not isinstance(scn, dict):
        print("stream case (sort/merge/strategy): the Coq input term and the implementation's stream are in the file")
        return
    w = c15.World(scn)
    r = w.resolve()
    print("implementation:", r)
    t = w.targets[0]
    for i in w.match[w.atom_id[str(t)]]:
        print(" candidate", w.scn_name(i), "oracle:", oracle_final_states(w, i), "resolver-can:", _resolver_can(scn, w, i))


def cp_corpus():
    import json

    from .common import VERIF
    out = []
    d = VERIF / "corpus" / "C16"
    if d.is_dir():
        for p in sorted(d.glob("*.json")):
            try:
                c = json.loads(p.read_text())["cp"]
                out.append((c["pkgs"], c["ops"]))
            except Exception:  # noqa: BLE001
                pass
    return out
