(* Prop_C14.v — the property theorems of C14 and nothing else.
   [step] is the REPAIRED wrapper (fixes/C14-cache-invalidation.patch); V and E (what evaluating
   an attribute under a USE set computes) are universally quantified. *)
From Coq Require Import List NArith ZArith Bool.
Import ListNotations.
From Verif Require Import Base.Val C14.Model_C14 C14.Spec_C14 C14.Proofs_C14.

(* after every history of requests, rollbacks, commits and reads, a read of attribute a returns
   E a (current USE set), and does not touch the USE set *)
Theorem reads_current : forall (V : Type) (E : N -> list N -> V)
    (use locked : list N) (ops : list op) (a : N),
  let s := run V (step V E) ops (init V use locked) in
  fst (step V E (Read a) s) = RV (E a (current_use s))
  /\ current_use (snd (step V E (Read a) s)) = current_use s.
Proof. exact reads_current_proof. Qed.
Print Assumptions reads_current.

(* the same for every read in the middle of a history *)
Theorem all_reads_current : forall (V : Type) (E : N -> list N -> V)
    (use locked : list N) (ops : list op) (i : nat) (a : N) r s',
  nth_error ops i = Some (Read a) ->
  nth_error (exec V (step V E) ops (init V use locked)) i = Some (r, s') ->
  r = RV (E a (current_use s')).
Proof. exact all_reads_current_proof. Qed.
Print Assumptions all_reads_current.

(* a request answered False leaves the USE set as it was *)
Theorem refused_unchanged : forall (V : Type) (E : N -> list N -> V)
    (use locked : list N) (ops : list op) (o : op),
  let s := run V (step V E) ops (init V use locked) in
  is_request o -> fst (step V E o s) = RB false ->
  same_set (current_use (snd (step V E o s))) (current_use s).
Proof. exact (fun V E => refused_unchanged_proof V E). Qed.
Print Assumptions refused_unchanged.

(* ... and also the pins and the change count, from ANY state *)
Theorem refused_restores_changeset : forall (V : Type) en vals (s s' : st V),
  request V en vals s = (RB false, s') ->
  same_set (current_use s') (current_use s)
  /\ same_set (changed (cfg s')) (changed (cfg s))
  /\ count (cfg s') = count (cfg s).
Proof. exact (fun V => refused_restores_changeset_proof V). Qed.
Print Assumptions refused_restores_changeset.

(* a request is always answered (True or False), it never raises *)
Theorem requests_answered : forall (V : Type) (E : N -> list N -> V)
    (use locked : list N) (ops : list op) (o : op),
  let s := run V (step V E) ops (init V use locked) in
  is_request o -> exists b, fst (step V E o s) = RB b.
Proof. exact (fun V E => requests_answered_proof V E). Qed.
Print Assumptions requests_answered.

(* a request answered True leaves every requested flag in the requested state *)
Theorem accepted_effect : forall (V : Type) en vals (s s' : st V),
  request V en vals s = (RB true, s') ->
  forall x, In x vals -> mem x (current_use s') = en.
Proof. exact accepted_effect_proof. Qed.
Print Assumptions accepted_effect.

(* the pinned wrapper: true for histories of enables, rollbacks and reads only *)
Theorem reads_current_pinned_partial : forall (V : Type) (E : N -> list N -> V)
    (use locked : list N) (ops : list op) (a : N),
  Forall no_commit_no_disable ops ->
  let s := run V (step_pinned V E) ops (init V use locked) in
  fst (step_pinned V E (Read a) s) = RV (E a (current_use s)).
Proof. exact reads_current_pinned_partial_proof. Qed.
Print Assumptions reads_current_pinned_partial.

(* ... and refuted beyond (witnesses replayed on the implementation by the harness) *)
Theorem pinned_refuted :
  ~ reads_current_stmt _ Eid (step_pinned _ Eid)
  /\ ~ refused_unchanged_stmt _ (step_pinned _ Eid)
  /\ ~ requests_answered_stmt _ (step_pinned _ Eid).
Proof.
  exact (conj pinned_reads_current_refuted_disable
           (conj pinned_refused_unchanged_refuted pinned_requests_answered_refuted)).
Qed.
Print Assumptions pinned_refuted.

(* several configured packages (fresh wrappers of shared raw packages), ops interleaved in any
   order: a read on a wrapper yields the attribute of ITS raw package under ITS current USE set *)
Theorem multi_reads_current : forall (V : Type) (Er : N -> N -> list N -> V)
    (locked : list N) (cfgs : list (N * list N)) (ops : list (nat * op))
    (w : nat) (a : N) (raw : N) (s : st V),
  let ws := mrun V Er ops (minit V locked cfgs) in
  nth_error ws w = Some (raw, s) ->
  fst (mstep_at V Er w (Read a) ws) = Some (RV (Er raw a (current_use s))).
Proof. exact multi_reads_current_proof. Qed.
Print Assumptions multi_reads_current.

(* an op addressed to one wrapper leaves every other wrapper as it was *)
Theorem multi_isolated : forall (V : Type) (Er : N -> N -> list N -> V)
    (ws : list (wst V)) (w w' : nat) (o : op),
  w' <> w -> nth_error (snd (mstep_at V Er w o ws)) w' = nth_error ws w'.
Proof. exact multi_isolated_proof. Qed.
Print Assumptions multi_isolated.

Theorem multi_refused_unchanged : forall (V : Type) (Er : N -> N -> list N -> V)
    (ws : list (wst V)) (w : nat) (o : op) (raw : N) (s : st V),
  nth_error ws w = Some (raw, s) -> is_request o ->
  fst (mstep_at V Er w o ws) = Some (RB false) ->
  exists s', nth_error (snd (mstep_at V Er w o ws)) w = Some (raw, s')
             /\ same_set (current_use s') (current_use s).
Proof. exact multi_refused_unchanged_proof. Qed.
Print Assumptions multi_refused_unchanged.
