(* Spec_C38.v — the statement of C38, not looking at how pkglist.py rewrites lines.

   * a keyword (or spec) token is well formed when it is non-empty, holds no whitespace and does
     not start with '#';
   * the KEYWORD REGION of a spec line: raw = pfx ++ mid ++ sfx where pfx holds exactly the
     package spec (with the whitespace around it), mid holds exactly the keywords and is tight
     (no whitespace at either end), sfx is whitespace followed by the comment;
   * a rewritten line is  pfx ++ glue ++ " ".join(new keywords) ++ sfx  — glue is the single
     space needed when the line had no keywords, otherwise nothing;
   * the meaning of the sentinels: every "*" is replaced by the suggestion (or "-" when there is
     none), every "^" by the expanded keywords of the previous spec line, everything else stays.

   The second half holds boolean acceptors evaluated on the IMPLEMENTATION's recorded results
   (comparison B inside Coq); they search for a decomposition instead of computing one. *)
From Coq Require Import List NArith ZArith Bool.
Import ListNotations.
From Verif Require Import Base.Val C38.Model_C38.
Local Open Scope N_scope.

(* ------------------------------------------------------------------ tokens, regions *)
Definition wf_tokb (k : str) : bool :=
  negb (null k) && forallb notspace k && negb (hd_is HASH k).
Definition wf_tok (k : str) : Prop := wf_tokb k = true.

Definition hd_ws (s : str) : bool := match s with c :: _ => isspace c | [] => false end.
Definition last_ws (s : str) : bool := hd_ws (rev s).
Definition tightb (s : str) : bool := negb (hd_ws s) && negb (last_ws s).

Record kw_region (e : entry) (pfx mid sfx : str) : Prop := {
  kr_raw : raw e = pfx ++ mid ++ sfx;
  kr_pfx : exists spec, tokens pfx = [spec];
  kr_pfx_tight : keywords e = [] -> last_ws pfx = false;
  kr_mid : tokens mid = keywords e;
  kr_mid_tight : tightb mid = true;
  kr_sfx : exists ws, sfx = ws ++ comment e /\ all_ws ws = true }.

Definition glue (old new : list str) : str :=
  if null old && negb (null new) then [SP] else [].

Definition rewritten (e : entry) (pfx sfx : str) (ks : list str) : entry :=
  {| lineno := lineno e; raw := pfx ++ glue (keywords e) ks ++ join [SP] ks ++ sfx;
     pkg := pkg e; keywords := ks; comment := comment e; eol := eol e |}.

(* ------------------------------------------------------------------ meaning of the sentinels *)
Definition subst_kw (sug : list str) (prev : list str) (k : str) : list str :=
  if str_eqb k ALL_KW then (if null sug then [NO_KW] else sug)
  else if str_eqb k SAME_KW then prev
  else [k].
Definition expansion (sug : list str) (prev : option (list str)) (ks : list str) : list str :=
  concat (map (subst_kw sug (match prev with Some p => p | None => [] end)) ks).
Definition has_kw (k : str) (ks : list str) : bool := existsb (fun x => str_eqb x k) ks.
Definition has_sentinel (ks : list str) : bool := has_kw ALL_KW ks || has_kw SAME_KW ks.
(* expand refuses a line exactly when it has a "^" and nothing above to copy, or the line
   above is empty and the line has other keywords too *)
Definition more_than_one (ks : list str) : bool := match ks with _ :: _ :: _ => true | _ => false end.
Definition refused (prev : option (list str)) (ks : list str) : bool :=
  has_kw SAME_KW ks &&
  match prev with None => true | Some p => null p && more_than_one ks end.
(* the keywords every line must end up with; prev = expanded keywords of the previous spec line *)
Fixpoint expected_kws (suggest : str -> list str) (prev : option (list str)) (es : list entry)
  : list (list str) :=
  match es with
  | [] => []
  | e :: r =>
      match pkg e with
      | None => keywords e :: expected_kws suggest prev r
      | Some p => let ks := expansion (suggest p) prev (keywords e) in
                  ks :: expected_kws suggest (Some ks) r
      end
  end.

(* frame relation between a line and its expansion *)
Definition line_frame (e e' : entry) : Prop :=
  lineno e' = lineno e /\ pkg e' = pkg e /\ comment e' = comment e /\ eol e' = eol e /\
  (has_sentinel (keywords e) = false -> e' = e) /\
  (e' = e \/
   exists pfx mid sfx, kw_region e pfx mid sfx /\ keywords e <> [] /\
                       e' = rewritten e pfx sfx (keywords e')).

(* ------------------------------------------------------------------ acceptors (B) *)
Definition dec_str (v : val) : str := match v with VS s => s | _ => [] end.
Definition dec_kws (v : val) : list str := match v with VL l => map dec_str l | _ => [] end.
Definition dec_entry (v : val) : option entry :=
  match v with
  | VL [VZ n; VS r; p; ks; VS c; VS e] =>
      Some {| lineno := Z.to_N n; raw := r;
              pkg := match p with VS s => Some s | _ => None end;
              keywords := dec_kws ks; comment := c; eol := e |}
  | _ => None
  end.
Fixpoint dec_entries (l : list val) : option (list entry) :=
  match l with
  | [] => Some []
  | v :: r => match dec_entry v, dec_entries r with
              | Some e, Some es => Some (e :: es)
              | _, _ => None
              end
  end.
Definition is_fail_val (v : val) : bool :=
  match v with VL [VS [69]; VZ _; VZ _; VS _] => true | _ => false end.

(* parse: rendering the recorded entries gives the text back *)
Definition spec_parse_ok (i : list (str * str) * str) (res : val) : bool :=
  if is_fail_val res then true else
  match res with
  | VL ents =>
      match dec_entries ents with
      | Some es => str_eqb (render es) (snd i)
      | None => false
      end
  | _ => false
  end.

Fixpoint prefixb (p s : str) : bool :=
  match p, s with
  | [], _ => true
  | x :: p', y :: s' => (x =? y) && prefixb p' s'
  | _, [] => false
  end.

(* does the old/new raw pair decompose as the statement demands, with pfx of length i ?
   (nested ifs: vm_compute evaluates && eagerly) *)
Definition region_at (old new : str) (okws ks : list str) (tail : str) (i : nat) : bool :=
  let pfx := firstn i old in
  let j := (length old - (length new - i - length (glue okws ks ++ join [SP] ks)))%nat in
  if negb (Nat.leb i j && Nat.leb j (length old)) then false else
  let sfx := skipn j old in
  if negb (str_eqb new (pfx ++ glue okws ks ++ join [SP] ks ++ sfx)) then false else
  let mid := firstn (j - i) (skipn i old) in
  if negb (match tokens pfx with [_] => true | _ => false end) then false else
  if negb (negb (null okws) || negb (last_ws pfx)) then false else
  if negb (kws_eqb (tokens mid) okws && tightb mid) then false else
  (* sfx = whitespace ++ tail *)
  let k := (length sfx - length tail)%nat in
  Nat.leb (length tail) (length sfx) && all_ws (firstn k sfx) && str_eqb (skipn k sfx) tail.
Definition region_ok (old new : str) (okws ks : list str) (tail : str) : bool :=
  existsb (region_at old new okws ks tail) (seq 0 (S (length old))).

Definition entry_eqb (a b : entry) : bool :=
  (lineno a =? lineno b) && str_eqb (raw a) (raw b)
  && match pkg a, pkg b with Some x, Some y => str_eqb x y | None, None => true | _, _ => false end
  && kws_eqb (keywords a) (keywords b) && str_eqb (comment a) (comment b) && str_eqb (eol a) (eol b).

(* withkw: recorded = for every entry [entry; [[raw of with_keywords entry ks; other fields ok] | ks in kss]] *)
Definition withkw_one (e : entry) (ks : list str) (v : val) : bool :=
  match v with
  | VL [VS raw'; VB same] =>
      if negb (forallb wf_tokb ks) then true else
      match pkg e with
      | None => same && str_eqb raw' (raw e)
      | Some _ => same && region_ok (raw e) raw' (keywords e) ks (comment e)
      end
  | _ => false
  end.
Fixpoint zip_all {A B} (f : A -> B -> bool) (a : list A) (b : list B) : bool :=
  match a, b with
  | [], [] => true
  | x :: a', y :: b' => f x y && zip_all f a' b'
  | _, _ => false
  end.
Definition spec_withkw_ok (i : list (str * str) * str * list (list str)) (res : val) : bool :=
  if is_fail_val res then true else
  match res with
  | VL rows =>
      forallb (fun row => match row with
                          | VL [ev; VL outs] =>
                              match dec_entry ev with
                              | Some e => zip_all (withkw_one e) (snd i) outs
                              | None => false
                              end
                          | _ => false
                          end) rows
  | _ => false
  end.

(* expand: line by line, from the two texts only.  For every line of the input: its keywords
   (tokens after the first one, before the comment), what they must expand to, and the frame. *)
Definition line_parts (l : str) : str * list str * str :=   (* raw, tokens of the body, comment++eol *)
  let r := rstrip_crlf l in
  let '(pre, _, cmt) := split_comment r in
  (r, tokens pre, cmt ++ skipn (length r) l).

Fixpoint expand_lines_ok (tbl : list (str * str)) (sug : str -> list str) (prev : option (list str))
         (ls ls' : list str) : bool :=
  match ls, ls' with
  | [], [] => true
  | l :: r, l' :: r' =>
      let '(rw, toks, tail) := line_parts l in
      match toks with
      | [] => str_eqb l' l && expand_lines_ok tbl sug prev r r'
      | t :: ks =>
          match lookup tbl t with
          | None => false
          | Some p =>
              let ks' := expansion (sug p) prev ks in
              negb (refused prev ks)
              && (if has_sentinel ks && negb (kws_eqb ks' ks)
                  then region_ok l l' ks ks' tail
                  else str_eqb l' l)
              && expand_lines_ok tbl sug (Some ks') r r'
          end
      end
  | _, _ => false
  end.
Fixpoint expand_must_fail (tbl : list (str * str)) (sug : str -> list str) (prev : option (list str))
         (ls : list str) : bool :=
  match ls with
  | [] => false
  | l :: r =>
      let '(_, toks, _) := line_parts l in
      match toks with
      | [] => expand_must_fail tbl sug prev r
      | t :: ks =>
          match lookup tbl t with
          | None => true
          | Some p => refused prev ks || expand_must_fail tbl sug (Some (expansion (sug p) prev ks)) r
          end
      end
  end.
Fixpoint first_bad_spec (tbl : list (str * str)) (ls : list str) : bool :=
  match ls with
  | [] => false
  | l :: r => let '(_, toks, _) := line_parts l in
              match toks with
              | t :: _ => match lookup tbl t with None => true | Some _ => first_bad_spec tbl r end
              | [] => first_bad_spec tbl r
              end
  end.

Definition spec_expand_ok (i : list (str * str) * str * list (str * list str) * list str) (res : val) : bool :=
  let '(tbl, t, stbl, dflt) := i in
  let sug := sug_of stbl dflt in
  if negb (forallb (fun kv => forallb wf_tokb (snd kv)) stbl && forallb wf_tokb dflt) then true else
  let ls := splitlines t in
  if is_fail_val res then (first_bad_spec tbl ls || expand_must_fail tbl sug None ls) else
  match res with
  | VS t' => negb (first_bad_spec tbl ls) && expand_lines_ok tbl sug None ls (splitlines t')
  | _ => false
  end.

(* build: recorded = [text, entries of PackageList(text)] *)
Definition spec_build_ok (i : list (str * str) * list (str * list str)) (res : val) : bool :=
  let '(tbl, es) := i in
  if negb (forallb (fun x => forallb wf_tokb (snd x)) es) then true else
  match res with
  | VL [VS t; VL ents] =>
      match dec_entries ents with
      | Some es' =>
          str_eqb (render es') t
          && zip_all (fun x e => match lookup tbl (fst x), pkg e with
                                 | Some p, Some q => str_eqb p q
                                 | _, _ => false
                                 end && kws_eqb (keywords e) (snd x) && null (comment e)) es es'
      | None => false
      end
  | _ => false
  end.

(* charclass: the model's classes listed for all code points below 0x3100; above that the
   model has no whitespace (Proofs_C38.isspace_bounded / is_lb_bounded) and the harness checks
   that Python has none either *)
Definition class_list (p : N -> bool) : list N :=
  rev (snd (N.iter 12544 (fun '(i, acc) => (i + 1, if p i then i :: acc else acc)) (0, []))).
Definition run_charclass (_ : unit) : val :=
  VL [VL (map (fun c => VZ (Z.of_N c)) (class_list isspace));
      VL (map (fun c => VZ (Z.of_N c)) (class_list is_lb))].
