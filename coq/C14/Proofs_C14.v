(* Proofs_C14.v — proofs about Model_C14 (repaired wrapper), refutations for the pinned one. *)
From Coq Require Import List NArith ZArith Bool Lia.
Import ListNotations.
From Verif Require Import Base.Val C14.Model_C14 C14.Spec_C14.

Ltac proj := cbn [new_ changed order black].
Ltac proj_in H := cbn [new_ changed order black] in H.

(* ------------------------------------------------------------------ sets as lists *)
Lemma mem_set_add f x l : mem f (set_add x l) = N.eqb f x || mem f l.
Proof.
  unfold set_add. destruct (mem x l) eqn:Hx; cbn; [|reflexivity].
  destruct (N.eqb f x) eqn:Hf; [|reflexivity]. apply N.eqb_eq in Hf. subst. now rewrite Hx.
Qed.

Lemma mem_remove_all f x l : mem f (remove_all x l) = negb (N.eqb f x) && mem f l.
Proof.
  unfold mem, remove_all. induction l as [|y l IH]; simpl; [now rewrite andb_false_r|].
  destruct (N.eqb x y) eqn:Hxy; simpl.
  - apply N.eqb_eq in Hxy. subst y. rewrite IH. destruct (N.eqb f x); reflexivity.
  - rewrite IH. destruct (N.eqb f x) eqn:Hfx; simpl; [|reflexivity].
    apply N.eqb_eq in Hfx. subst f. now rewrite Hxy.
Qed.

Lemma same_set_refl a : same_set a a.
Proof. intro; reflexivity. Qed.

(* ------------------------------------------------------------------ LimitedChangeSet facts *)
(* the record a change pushes when it is not refused and not a silent no-op *)
Definition push (enable : bool) (x : N) (l : lcs) : lcs :=
  {| new_ := if enable then set_add x (new_ l) else remove_all x (new_ l);
     changed := set_add x (changed l); order := (enable, x) :: order l; black := black l |}.

Lemma change_cases enable x l l' :
  lcs_change enable x l = ODone l' ->
  (l' = l /\ mem x (new_ l) = enable) \/ (mem x (changed l) = false /\ l' = push enable x l).
Proof.
  unfold lcs_change, lcs_add, lcs_remove, push.
  destruct enable; destruct (mem x (changed l)) eqn:Hc; cbn;
    destruct (mem x (black l)); cbn; destruct (mem x (new_ l)) eqn:Hn;
    intro H; inversion H; subst; auto.
Qed.

Lemma change_not_unch enable x l :
  mem x (new_ l) = enable -> lcs_change enable x l <> OUnch.
Proof.
  intro H. unfold lcs_change, lcs_add, lcs_remove.
  destruct enable; rewrite H; destruct (mem x (changed l) || mem x (black l)); discriminate.
Qed.

Lemma change_keyerr enable x l :
  lcs_change enable x l = OKeyErr -> enable = false /\ mem x (new_ l) = false.
Proof.
  unfold lcs_change, lcs_add, lcs_remove.
  destruct enable; destruct (mem x (changed l) || mem x (black l));
    destruct (mem x (new_ l)); try discriminate; auto.
Qed.

Lemma push_new_other enable x l z :
  z <> x -> mem z (new_ (push enable x l)) = mem z (new_ l).
Proof.
  intro H. apply N.eqb_neq in H. unfold push; destruct enable; proj.
  - now rewrite mem_set_add, H.
  - now rewrite mem_remove_all, H.
Qed.

Lemma push_new_self enable x l : mem x (new_ (push enable x l)) = enable.
Proof.
  unfold push; destruct enable; proj.
  - now rewrite mem_set_add, N.eqb_refl.
  - now rewrite mem_remove_all, N.eqb_refl.
Qed.

Lemma push_keeps enable x l z :
  mem z (new_ l) = enable -> mem z (new_ (push enable x l)) = enable.
Proof.
  intro H. destruct (N.eq_dec z x) as [->|Hne]; [apply push_new_self|].
  now rewrite push_new_other.
Qed.

(* observational equivalence of change sets: same members, same pins, same change order *)
Definition lequiv (l1 l2 : lcs) : Prop :=
  same_set (new_ l1) (new_ l2) /\ same_set (changed l1) (changed l2) /\ order l1 = order l2.

Lemma lequiv_refl l : lequiv l l.
Proof. split; [|split]; try reflexivity; intro f; reflexivity. Qed.

Lemma lequiv_trans a b c : lequiv a b -> lequiv b c -> lequiv a c.
Proof.
  intros (H1 & H2 & H3) (K1 & K2 & K3). split; [|split].
  - intro f. rewrite H1. apply K1.
  - intro f. rewrite H2. apply K2.
  - congruence.
Qed.

Lemma pop_equiv l1 l2 : lequiv l1 l2 -> lequiv (pop l1) (pop l2).
Proof.
  intros (H1 & H2 & H3). unfold pop. rewrite H3.
  destruct (order l2) as [|[k x] r] eqn:Ho; [split; [|split]; congruence|].
  split; [|split]; proj; [intro f | intro f | reflexivity].
  - destruct k; [rewrite !mem_remove_all | rewrite !mem_set_add]; now rewrite H1.
  - rewrite !mem_remove_all. now rewrite H2.
Qed.

Lemma iter_pop_equiv n l1 l2 : lequiv l1 l2 -> lequiv (Nat.iter n pop l1) (Nat.iter n pop l2).
Proof. intro H. induction n; cbn; [assumption | now apply pop_equiv]. Qed.

(* undoing a change that really flipped the flag restores the set *)
Lemma pop_push enable x l :
  mem x (changed l) = false -> mem x (new_ l) = negb enable ->
  lequiv (pop (push enable x l)) l.
Proof.
  intros Hc Hn. unfold pop, push; proj. split; [|split]; proj; [intro f | intro f | reflexivity].
  - destruct enable; cbn [negb] in *.
    + rewrite mem_remove_all, mem_set_add.
      destruct (N.eqb f x) eqn:Hf; cbn; [|reflexivity].
      apply N.eqb_eq in Hf. subst. now rewrite Hn.
    + rewrite mem_set_add, mem_remove_all.
      destruct (N.eqb f x) eqn:Hf; cbn; [|reflexivity].
      apply N.eqb_eq in Hf. subst. now rewrite Hn.
  - rewrite mem_remove_all, mem_set_add.
    destruct (N.eqb f x) eqn:Hf; cbn; [|reflexivity].
    apply N.eqb_eq in Hf. subst. now rewrite Hc.
Qed.

(* ------------------------------------------------------------------ the request loop *)
Lemma apply_app sw en xs ys l :
  apply_vals sw en (xs ++ ys) l =
  match apply_vals sw en xs l with
  | (LOk, l1) => apply_vals sw en ys l1
  | other => other
  end.
Proof.
  revert l. induction xs as [|x xs IH]; intro l; cbn; [reflexivity|].
  destruct (lcs_change en x l); [apply IH | reflexivity |].
  destruct sw; [apply IH | reflexivity].
Qed.

Lemma apply_len sw en xs l r l' :
  apply_vals sw en xs l = (r, l') -> (length (order l) <= length (order l'))%nat.
Proof.
  revert l. induction xs as [|x xs IH]; intros l H; cbn in H.
  - inversion H; subst; lia.
  - destruct (lcs_change en x l) as [l1| |] eqn:Hc.
    + apply IH in H. apply change_cases in Hc as [[-> _]|[_ ->]]; cbn in *; lia.
    + inversion H; subst; lia.
    + destruct sw; [now apply IH | inversion H; subst; lia].
Qed.

Lemma apply_keeps sw en xs l r l' z :
  apply_vals sw en xs l = (r, l') -> mem z (new_ l) = en -> mem z (new_ l') = en.
Proof.
  revert l. induction xs as [|x xs IH]; intros l H Hz; cbn in H.
  - inversion H; congruence.
  - destruct (lcs_change en x l) as [l1| |] eqn:Hc.
    + apply (IH l1); [assumption|].
      apply change_cases in Hc as [[-> _]|[_ ->]]; [assumption | now apply push_keeps].
    + inversion H; congruence.
    + destruct sw; [now apply (IH l) | inversion H; congruence].
Qed.

(* values already in the requested state can only be pinned or skipped: never refused *)
Lemma apply_pins_ok en ys l :
  (forall y, In y ys -> mem y (new_ l) = en) ->
  exists l', apply_vals true en ys l = (LOk, l').
Proof.
  revert l. induction ys as [|y ys IH]; intros l Q; cbn; [eauto|].
  destruct (lcs_change en y l) as [l1| |] eqn:Hc.
  - apply IH. intros z Hz.
    apply change_cases in Hc as [[-> _]|[_ ->]]; [| apply push_keeps]; apply Q; now right.
  - exfalso. eapply change_not_unch; [|exact Hc]. apply Q; now left.
  - apply IH. intros z Hz. apply Q; now right.
Qed.

(* values not in the requested state, or pinned: every recorded change really flips its flag,
   so popping what the loop recorded gives the set back *)
Lemma apply_flips_undo en xs : forall l r l',
  (forall x, In x xs -> mem x (new_ l) = en -> mem x (changed l) = true) ->
  apply_vals true en xs l = (r, l') ->
  exists n, length (order l') = (n + length (order l))%nat /\ lequiv (Nat.iter n pop l') l.
Proof.
  induction xs as [|x xs IH]; intros l r l' P H; cbn in H.
  - inversion H; subst. exists 0%nat. split; [reflexivity | apply lequiv_refl].
  - destruct (lcs_change en x l) as [l1| |] eqn:Hc.
    + apply change_cases in Hc as [[-> _]|[Hch ->]].
      * apply (IH l r l'); [|assumption]. intros z Hz. apply P; now right.
      * assert (Hn : mem x (new_ l) = negb en).
        { destruct (mem x (new_ l)) eqn:Hm; destruct en; try reflexivity;
            (rewrite P in Hch; [discriminate | now left | assumption]). }
        destruct (IH (push en x l) r l') as (n & Hlen & Heq); [|assumption|].
        { intros z Hz Hzn. unfold push at 1. proj. rewrite mem_set_add.
          destruct (N.eqb z x) eqn:Hzx; [reflexivity|]. cbn.
          apply N.eqb_neq in Hzx. rewrite push_new_other in Hzn by assumption.
          apply P; [now right | assumption]. }
        exists (S n). split; [cbn in *; lia|].
        cbn [Nat.iter]. eapply lequiv_trans; [apply pop_equiv; exact Heq|].
        now apply pop_push.
    + inversion H; subst. exists 0%nat. split; [reflexivity | apply lequiv_refl].
    + apply (IH l r l'); [|assumption]. intros z Hz. apply P; now right.
Qed.

Lemma rollback_entry l l' n :
  length (order l') = (n + length (order l))%nat ->
  lcs_rollback (count l) l' = Some (Nat.iter n pop l').
Proof.
  intro H. unfold lcs_rollback, count. rewrite H.
  replace (Z.of_nat (length (order l)) <? 0)%Z with false by (symmetry; apply Z.ltb_ge; lia).
  replace (Z.of_nat (n + length (order l)) <? Z.of_nat (length (order l)))%Z with false
    by (symmetry; apply Z.ltb_ge; lia).
  cbn. do 2 f_equal. lia.
Qed.

Lemma flips_pre en l vals :
  forall x, In x (flips en l vals) -> mem x (new_ l) = en -> mem x (changed l) = true.
Proof.
  intros x Hx Hm. unfold flips in Hx. apply filter_In in Hx as [_ Hx].
  rewrite Hm in Hx. destruct en; discriminate.
Qed.

Lemma pins_pre en l vals : forall y, In y (pins en l vals) -> mem y (new_ l) = en.
Proof.
  intros y Hy. unfold pins in Hy. apply filter_In in Hy as [_ Hy].
  destruct (mem y (new_ l)); destruct en; try reflexivity; discriminate.
Qed.

Lemma in_flips_or_pins en l vals x : In x vals -> In x (flips en l vals) \/ In x (pins en l vals).
Proof.
  intro H. unfold flips, pins. destruct (Bool.eqb (mem x (new_ l)) en) eqn:Hb.
  - right. apply filter_In; auto.
  - left. apply filter_In; split; [assumption | now rewrite Hb].
Qed.

(* what a request does to the change set, in full *)
Lemma request_loop en vals l :
  (exists l', apply_vals true en (flips en l vals ++ pins en l vals) l = (LOk, l')
              /\ forall x, In x vals -> mem x (new_ l') = en)
  \/ (exists r l' n, apply_vals true en (flips en l vals ++ pins en l vals) l = (r, l')
                     /\ r <> LOk
                     /\ lcs_rollback (count l) l' = Some (Nat.iter n pop l')
                     /\ lequiv (Nat.iter n pop l') l).
Proof.
  rewrite apply_app.
  destruct (apply_vals true en (flips en l vals) l) as [r1 l1] eqn:H1.
  destruct r1.
  - left.
    destruct (apply_pins_ok en (pins en l vals) l1) as [l2 H2].
    { intros y Hy. eapply apply_keeps; [exact H1 | now apply pins_pre in Hy]. }
    exists l2. split; [assumption|]. intros x Hx.
    (* every value ends in the requested state *)
    assert (G : forall xs la lb z, apply_vals true en xs la = (LOk, lb) -> In z xs ->
                                  mem z (new_ lb) = en).
    { clear. induction xs as [|x xs IH]; intros la lb z H Hz; [destruct Hz|]. cbn in H.
      destruct (lcs_change en x la) as [l1| |] eqn:Hc; [| discriminate |].
      - destruct Hz as [->|Hz]; [| now apply (IH l1 lb)].
        eapply apply_keeps; [exact H|].
        apply change_cases in Hc as [[-> Hm]|[_ ->]]; [assumption | apply push_new_self].
      - destruct Hz as [->|Hz]; [| now apply (IH la lb)].
        eapply apply_keeps; [exact H|]. apply change_keyerr in Hc as [-> Hm]. assumption. }
    destruct (in_flips_or_pins en l vals x Hx) as [Hf|Hp].
    + eapply apply_keeps; [exact H2|]. eapply G; eassumption.
    + eapply G; eassumption.
  - right.
    destruct (apply_flips_undo en _ l _ l1 (flips_pre en l vals) H1) as (n & Hlen & Heq).
    exists LUnch, l1, n. split; [reflexivity|]. split; [discriminate|]. split; [now apply rollback_entry | assumption].
  - right.
    destruct (apply_flips_undo en _ l _ l1 (flips_pre en l vals) H1) as (n & Hlen & Heq).
    exists LKeyErr, l1, n. split; [reflexivity|]. split; [discriminate|]. split; [now apply rollback_entry | assumption].
Qed.

(* ------------------------------------------------------------------ the wrapper *)
Section WrapperProofs.
  Variable V : Type.
  Variable E : N -> list N -> V.
  Notation state := (st V).
  Notation step' := (step V E).

  (* every cached value carries a generation not beyond the current one, and the ones of the
     current generation are the evaluation under the current USE set *)
  Definition Coherent (s : state) : Prop :=
    forall a pt v, In (a, (pt, v)) (cache s) ->
      (pt <= gen s)%N /\ (pt = gen s -> v = E a (current_use s)).

  Lemma lookup_In a (c : list (N * (N * V))) e : lookup V a c = Some e -> In (a, e) c.
  Proof.
    induction c as [|[b e'] c IH]; cbn; [discriminate|].
    destruct (N.eqb a b) eqn:Hab.
    - intro H. inversion H; subst. apply N.eqb_eq in Hab. subst. now left.
    - intro H. right. now apply IH.
  Qed.

  Lemma coherent_init use locked : Coherent (init V use locked).
  Proof. intros a pt v []. Qed.

  Lemma coherent_bump l s : Coherent s -> Coherent (bump V l s).
  Proof.
    intros H a pt v Hin. cbn in *. destruct (H a pt v Hin) as [Hle _]. split; [lia|].
    intro Heq. exfalso. lia.
  Qed.

  Lemma read_spec a s :
    Coherent s ->
    fst (read V E a s) = E a (current_use s)
    /\ cfg (snd (read V E a s)) = cfg s /\ Coherent (snd (read V E a s)).
  Proof.
    intro H. unfold read.
    assert (Fresh : Coherent {| cfg := cfg s; gen := gen s;
                                cache := (a, (gen s, E a (current_use s))) :: cache s |}).
    { intros b pt v [Heq|Hin]; cbn.
      - inversion Heq; subst. split; [lia | reflexivity].
      - apply (H b pt v Hin). }
    destruct (lookup V a (cache s)) as [[pt v]|] eqn:Hl; [|cbn; auto].
    destruct (N.eqb pt (gen s)) eqn:Hpt; [|cbn; auto].
    apply N.eqb_eq in Hpt. apply lookup_In in Hl. cbn.
    destruct (H a pt v Hl) as [_ Hv]. auto.
  Qed.

  Lemma request_cases en vals s :
    (exists l', request V en vals s = (RB true, bump V l' s)
                /\ forall x, In x vals -> mem x (new_ l') = en)
    \/ (exists l'', request V en vals s = (RB false, bump V l'' s) /\ lequiv l'' (cfg s)).
  Proof.
    unfold request.
    destruct (request_loop en vals (cfg s)) as [(l' & -> & Hall)|(r & l' & n & -> & Hr & -> & Heq)].
    - left. eauto.
    - right. exists (Nat.iter n pop l'). destruct r; [congruence | auto | auto].
  Qed.

  Lemma step_coherent o s : Coherent s -> Coherent (snd (step' o s)).
  Proof.
    intro H. destruct o as [vals|vals|k| |a]; cbn.
    - destruct (request_cases true vals s) as [(l & -> & _)|(l & -> & _)]; now apply coherent_bump.
    - destruct (request_cases false vals s) as [(l & -> & _)|(l & -> & _)]; now apply coherent_bump.
    - unfold rollback. destruct (lcs_rollback k (cfg s)); cbn; [now apply coherent_bump | assumption].
    - now apply coherent_bump.
    - destruct (read_spec a s H) as (_ & _ & Hc). destruct (read V E a s); assumption.
  Qed.

  Lemma run_coherent ops s : Coherent s -> Coherent (run V step' ops s).
  Proof.
    revert s. induction ops as [|o ops IH]; intros s H; cbn; [assumption|].
    apply IH. now apply step_coherent.
  Qed.

  Lemma read_step a s :
    Coherent s ->
    fst (step' (Read a) s) = RV (E a (current_use s))
    /\ current_use (snd (step' (Read a) s)) = current_use s.
  Proof.
    intro H. destruct (read_spec a s H) as (Hv & Hc & _). cbn.
    destruct (read V E a s) as [v s']; cbn in *. unfold current_use. now rewrite Hv, Hc.
  Qed.

  Theorem reads_current_proof : reads_current_stmt V E step'.
  Proof.
    intros use locked ops a s. apply read_step. apply run_coherent, coherent_init.
  Qed.

  (* reads inside a history *)
  Lemma exec_nth ops : forall s i a r s',
    Coherent s ->
    nth_error ops i = Some (Read a) ->
    nth_error (exec V step' ops s) i = Some (r, s') ->
    r = RV (E a (current_use s')).
  Proof.
    induction ops as [|o ops IH]; intros s i a r s' H Ho Hr; [destruct i; discriminate|].
    destruct i as [|i]; cbn in *.
    - inversion Ho; subst o. destruct (read_step a s H) as [Hv Hu].
      assert (Hp : step' (Read a) s = (r, s')) by congruence.
      rewrite Hp in Hv, Hu. cbn in *. now rewrite Hu.
    - eapply IH; [|exact Ho|exact Hr]. now apply step_coherent.
  Qed.

  Theorem all_reads_current_proof : all_reads_current_stmt V E step'.
  Proof. intros use locked ops i a r s'. apply exec_nth, coherent_init. Qed.

  (* refusal, for EVERY state (not only reachable ones): the USE set, the pins and the change
     count are as before *)
  Lemma refused_restores en vals s s' :
    request V en vals s = (RB false, s') -> lequiv (cfg s') (cfg s).
  Proof.
    intro H. destruct (request_cases en vals s) as [(l & Hq & _)|(l & Hq & Heq)];
      rewrite Hq in H; inversion H; subst s'; exact Heq.
  Qed.

  Theorem refused_unchanged_proof : refused_unchanged_stmt V step'.
  Proof.
    intros use locked ops o s Ho Hr. unfold current_use.
    destruct o as [vals|vals|k| |a]; try destruct Ho; cbn in *.
    - destruct (request V true vals s) as [r s'] eqn:Hq; cbn in *; subst r.
      now destruct (refused_restores _ _ _ _ Hq) as (H & _).
    - destruct (request V false vals s) as [r s'] eqn:Hq; cbn in *; subst r.
      now destruct (refused_restores _ _ _ _ Hq) as (H & _).
  Qed.

  Theorem refused_restores_changeset_proof : forall en vals s s',
    request V en vals s = (RB false, s') ->
    same_set (current_use s') (current_use s)
    /\ same_set (changed (cfg s')) (changed (cfg s))
    /\ count (cfg s') = count (cfg s).
  Proof.
    intros en vals s s' H. destruct (refused_restores _ _ _ _ H) as (Hn & Hc & Ho).
    split; [assumption|]. split; [assumption|]. unfold count. now rewrite Ho.
  Qed.

  Theorem requests_answered_proof : requests_answered_stmt V step'.
  Proof.
    intros use locked ops o s Ho.
    destruct o as [vals|vals|k| |a]; try destruct Ho; cbn.
    - destruct (request_cases true vals s) as [(l & -> & _)|(l & -> & _)]; cbn [fst]; eauto.
    - destruct (request_cases false vals s) as [(l & -> & _)|(l & -> & _)]; cbn [fst]; eauto.
  Qed.

  (* a request answered True leaves every requested flag in the requested state *)
  Theorem accepted_effect_proof : forall en vals s s',
    request V en vals s = (RB true, s') ->
    forall x, In x vals -> mem x (current_use s') = en.
  Proof.
    intros en vals s s' H x Hx.
    destruct (request_cases en vals s) as [(l & Hq & Hall)|(l & Hq & _)];
      rewrite Hq in H; inversion H; subst.
    now apply Hall.
  Qed.

  (* ---------------------------------------------------------------- the pinned wrapper *)
  Notation stepp := (step_pinned V E).

  Definition no_commit_no_disable (o : op) : Prop :=
    match o with Commit | Disable _ => False | _ => True end.

  Lemma add_never_keyerr sw xs l r l' : apply_vals sw true xs l = (r, l') -> r <> LKeyErr.
  Proof.
    revert l. induction xs as [|x xs IH]; intros l H; cbn [apply_vals] in H.
    - inversion H; discriminate.
    - destruct (lcs_change true x l) eqn:Hc.
      + now apply (IH l0).
      + inversion H; discriminate.
      + apply change_keyerr in Hc as [? _]. discriminate.
  Qed.

  Lemma stepp_coherent o s : no_commit_no_disable o -> Coherent s -> Coherent (snd (stepp o s)).
  Proof.
    intros Ho H. destruct o as [vals|vals|k| |a]; try destruct Ho; cbn.
    - unfold request_pinned.
      destruct (apply_vals false true vals (cfg s)) as [r l'] eqn:Ha.
      destruct r.
      + now apply coherent_bump.
      + destruct (lcs_rollback (count (cfg s)) l'); cbn; [now apply coherent_bump | assumption].
      + exfalso. now apply add_never_keyerr in Ha.
    - unfold rollback. destruct (lcs_rollback k (cfg s)); cbn; [now apply coherent_bump | assumption].
    - destruct (read_spec a s H) as (_ & _ & Hc). destruct (read V E a s); assumption.
  Qed.

  (* what does hold of the pinned wrapper: histories of enables, rollbacks and reads *)
  Theorem reads_current_pinned_partial_proof :
    forall use locked ops a, Forall no_commit_no_disable ops ->
      let s := run V stepp ops (init V use locked) in
      fst (stepp (Read a) s) = RV (E a (current_use s)).
  Proof.
    intros use locked ops a Hops s.
    assert (Hc : Coherent s).
    { subst s. generalize (coherent_init use locked). generalize (init V use locked).
      induction Hops as [|o ops Ho _ IH]; intros s0 H0; cbn; [assumption|].
      apply IH. now apply stepp_coherent. }
    apply (read_step a s Hc).
  Qed.
End WrapperProofs.

(* ------------------------------------------------------------------ non-vacuity *)
(* a concrete evaluator: the attribute IS the USE set *)
Definition Eid (_ : N) (use : list N) : list N := use.

(* a history with a successful enable, a refused disable, a rollback, a commit and reads *)
Example history_nontrivial :
  map fst (exec _ (step _ Eid)
             [Read 0; Enable [1]; Read 0; Disable [2; 9]; Read 0; Disable [1]; Commit;
              Disable [1]; Read 0; Rollback 0; Read 0; Rollback 5]%N
             (init _ [3]%N [9]%N))
  = [RV [3]; RB true; RV [1;3]; RB true; RV [1;3]; RB false; RNone;
     RB true; RV [3]; RNone; RV [1;3]; RTypeError]%N.
Proof. vm_compute. reflexivity. Qed.

(* refusals exist, in both directions, and leave the set alone *)
Example refusal_exists :
  let s := init (list N) [1; 9]%N [9; 8]%N in
  fst (step _ Eid (Disable [2; 9]%N) s) = RB false
  /\ current_use (snd (step _ Eid (Disable [2; 9]%N) s)) = [1; 9]%N
  /\ fst (step _ Eid (Enable [1; 8]%N) s) = RB false
  /\ current_use (snd (step _ Eid (Enable [1; 8]%N) s)) = [1; 9]%N.
Proof. vm_compute. repeat split. Qed.

(* ------------------------------------------------------------------ the pinned tree is refuted *)
(* (a) disable never invalidates: [read; disable x; read] *)
Theorem pinned_reads_current_refuted_disable :
  ~ reads_current_stmt _ Eid (step_pinned _ Eid).
Proof.
  intro H. specialize (H [1]%N (@nil N) [Read 0; Disable [1]]%N 0%N).
  vm_compute in H. destruct H as [H _]. discriminate.
Qed.

(* (b) commit resets the generation: [read; enable x; commit; read] *)
Theorem pinned_reads_current_refuted_commit :
  exists use locked ops a,
    Forall (fun o => match o with Disable _ => False | _ => True end) ops /\
    let s := run _ (step_pinned _ Eid) ops (init _ use locked) in
    fst (step_pinned _ Eid (Read a) s) <> RV (Eid a (current_use s)).
Proof.
  exists (@nil N), (@nil N), [Read 0; Enable [1]; Commit]%N, 0%N. split.
  - repeat constructor.
  - vm_compute. discriminate.
Qed.

(* (c) a refused disable(y, locked) of an absent y ADDS y; a refused enable(x, locked-off) of
   a present x DROPS x *)
Theorem pinned_refused_unchanged_refuted :
  ~ refused_unchanged_stmt _ (step_pinned _ Eid).
Proof.
  intro H. specialize (H [9]%N [9]%N [] (Disable [1; 9]%N) I).
  vm_compute in H. specialize (H eq_refl 1%N). discriminate.
Qed.

Example pinned_refused_enable_drops :
  let s := init (list N) [1]%N [9]%N in
  step_pinned _ Eid (Enable [1; 9]%N) s
  = (RB false, {| cfg := {| new_ := []; changed := []; order := []; black := [9]%N |};
                  gen := 1%N; cache := [] |}).
Proof. vm_compute. reflexivity. Qed.

(* a second disable of the same flag raises KeyError; with a locked-off flag in the same
   request the removal of the first flag stays and the cache is not invalidated *)
Theorem pinned_requests_answered_refuted :
  ~ requests_answered_stmt _ (step_pinned _ Eid).
Proof.
  intro H. specialize (H [1]%N (@nil N) [Disable [1]]%N (Disable [1]%N) I).
  vm_compute in H. destruct H as [b H]. discriminate.
Qed.

Example pinned_keyerror_leaves_stale :
  map fst (exec _ (step_pinned _ Eid) [Read 0; Disable [1; 9]; Read 0]%N (init _ [1]%N [9]%N))
  = [RV [1]; RKeyError; RV [1]]%N
  /\ current_use (run _ (step_pinned _ Eid) [Read 0; Disable [1; 9]]%N (init _ [1]%N [9]%N)) = [].
Proof. vm_compute. split; reflexivity. Qed.

(* outside the statement of C14 but worth knowing (snakeoil): an explicit rollback over a
   request that only pinned a flag flips that flag — in the repaired wrapper too *)
Example rollback_over_a_pin_flips :
  current_use (run _ (step _ Eid) [Enable [1]; Rollback 0]%N (init _ [1]%N [])) = []
  /\ current_use (run _ (step _ Eid) [Disable [1]; Rollback 0]%N (init _ [] [])) = [1]%N.
Proof. vm_compute. split; reflexivity. Qed.

(* ------------------------------------------------------------------ several configured packages *)
Section MultiProofs.
  Variable V : Type.
  Variable Er : N -> N -> list N -> V.

  Definition MCoherent (ws : list (wst V)) : Prop :=
    Forall (fun x => Coherent V (Er (fst x)) (snd x)) ws.

  Lemma mstep_at_self : forall ws w o raw s,
    nth_error ws w = Some (raw, s) ->
    fst (mstep_at V Er w o ws) = Some (fst (step V (Er raw) o s))
    /\ nth_error (snd (mstep_at V Er w o ws)) w = Some (raw, snd (step V (Er raw) o s)).
  Proof.
    induction ws as [|[r0 s0] ws IH]; intros [|w] o raw s H;
      cbn [mstep_at fst snd nth_error] in *; try discriminate.
    - inversion H; subst. split; reflexivity.
    - now apply IH.
  Qed.

  Lemma mstep_at_other : forall ws w w' o,
    w' <> w -> nth_error (snd (mstep_at V Er w o ws)) w' = nth_error ws w'.
  Proof.
    induction ws as [|[r0 s0] ws IH]; intros [|w] [|w'] o H;
      cbn [mstep_at fst snd nth_error]; try reflexivity; try congruence.
    apply IH. congruence.
  Qed.

  Lemma mstep_coherent : forall ws w o, MCoherent ws -> MCoherent (snd (mstep_at V Er w o ws)).
  Proof.
    induction ws as [|[r0 s0] ws IH]; intros [|w] o H; cbn [mstep_at fst snd];
      try assumption; inversion H; subst; constructor; cbn [fst snd] in *; try assumption.
    - now apply step_coherent.
    - now apply IH.
  Qed.

  Lemma minit_coherent locked cfgs : MCoherent (minit V locked cfgs).
  Proof.
    unfold MCoherent, minit. induction cfgs as [|c cfgs IH]; cbn [map]; constructor;
      [apply coherent_init | assumption].
  Qed.

  Lemma mrun_coherent : forall ops ws, MCoherent ws -> MCoherent (mrun V Er ops ws).
  Proof.
    induction ops as [|[w o] ops IH]; intros ws H; cbn [mrun]; [assumption|].
    apply IH. now apply mstep_coherent.
  Qed.

  Theorem multi_reads_current_proof : multi_reads_current_stmt V Er.
  Proof.
    intros locked cfgs ops w a raw s ws Hn.
    assert (Hc : Coherent V (Er raw) s).
    { assert (HM : MCoherent ws) by (apply mrun_coherent, minit_coherent).
      unfold MCoherent in HM. rewrite Forall_forall in HM.
      apply (HM (raw, s)). eapply nth_error_In; exact Hn. }
    destruct (mstep_at_self ws w (Read a) raw s Hn) as [-> _].
    destruct (read_step V (Er raw) a s Hc) as [-> _]. reflexivity.
  Qed.

  Theorem multi_isolated_proof : multi_isolated_stmt V Er.
  Proof. intros ws w w' o H. now apply mstep_at_other. Qed.

  Theorem multi_refused_unchanged_proof : multi_refused_unchanged_stmt V Er.
  Proof.
    intros ws w o raw s Hn Ho Hr.
    destruct (mstep_at_self ws w o raw s Hn) as [Hf Hs]. rewrite Hf in Hr.
    exists (snd (step V (Er raw) o s)). split; [assumption|].
    inversion Hr as [Hr']. unfold current_use.
    destruct o as [vals|vals|k| |a]; try destruct Ho; cbn [step] in *.
    - destruct (request V true vals s) as [r s'] eqn:Hq; cbn [fst snd] in *; subst r.
      now destruct (refused_restores V _ _ _ _ Hq) as (H & _).
    - destruct (request V false vals s) as [r s'] eqn:Hq; cbn [fst snd] in *; subst r.
      now destruct (refused_restores V _ _ _ _ Hq) as (H & _).
  Qed.
End MultiProofs.

(* two configured packages of the same raw package whose USE sets differ, used side by side *)
Example multi_nontrivial :
  map fst (mexec _ (fun _ => Eid)
             [(0%nat, Read 0); (1%nat, Read 0); (1%nat, Enable [2]); (0%nat, Disable [1]);
              (1%nat, Read 0); (0%nat, Read 0); (1%nat, Commit); (0%nat, Commit);
              (0%nat, Read 0); (1%nat, Read 0)]%N
             (minit _ [9]%N [(0, [1]); (0, [])]%N))
  = [Some (RV [1]); Some (RV []); Some (RB true); Some (RB true); Some (RV [2]); Some (RV []);
     Some RNone; Some RNone; Some (RV []); Some (RV [2])]%N.
Proof. vm_compute. reflexivity. Qed.
