From Coq Require Import List NArith ZArith Bool.
From Verif Require Import Base.Val C10.Model_C10 C10.Spec_C10.
Import ListNotations.

Definition cases : list ((solver_input) * val) := 
[
  (((@nil (dom)), (@nil (tconstr))),
   (sols_val true 0 [0]%N));
  (([(3%N, (@nil (bool))); (2%N, [true; false]); (4%N, (@nil (bool))); (1%N, [false; true]); (0%N, [false; true])], [([2%N; 3%N; 4%N], [0%N; 4%N; 8%N; 12%N; 16%N; 20%N; 24%N; 28%N])]),
   (sols_val false 0 nil));
  (([(1%N, [false; true]); (0%N, [false; true])], (@nil (tconstr))),
   (sols_val true 3 [0; 1; 2; 3]%N));
  (((@nil (dom)), [((@nil (N)), (@nil (N))); ((@nil (N)), (@nil (N))); ((@nil (N)), (@nil (N)))]),
   (sols_val true 0 [0]%N));
  (((@nil (dom)), [((@nil (N)), [0%N])]),
   (sols_val true 0 [0]%N));
  (([(1%N, [false; true]); (2%N, [false; true]); (3%N, (@nil (bool))); (0%N, [true])], [([3%N], [0%N]); ([0%N; 2%N], [0%N; 1%N; 4%N; 5%N]); ([2%N], (@nil (N)))]),
   (sols_val false 0 nil));
  (([(2%N, [true; false]); (3%N, [false; true]); (0%N, [true; false]); (1%N, [true; false]); (4%N, (@nil (bool)))], [((@nil (N)), (@nil (N))); ([1%N; 2%N; 4%N], [2%N; 6%N; 16%N; 18%N; 20%N; 22%N])]),
   (sols_val false 0 nil));
  (([(1%N, [true; false]); (0%N, (@nil (bool)))], [([0%N], [1%N]); ([0%N; 1%N], [1%N; 2%N; 3%N]); ((@nil (N)), (@nil (N)))]),
   (sols_val false 0 nil));
  (([(0%N, [true; false])], (@nil (tconstr))),
   (sols_val true 1 [0; 1]%N));
  (([(4%N, [false; true]); (3%N, [false; true]); (0%N, [true]); (1%N, (@nil (bool))); (2%N, [true])], [([3%N; 4%N], [0%N; 8%N; 16%N]); ([0%N; 2%N; 4%N], [1%N; 16%N; 17%N; 21%N])]),
   (sols_val false 0 nil));
  (((@nil (dom)), (@nil (tconstr))),
   (sols_val true 0 [0]%N));
  (([(3%N, [false; true]); (2%N, [true; false]); (1%N, [false; true]); (0%N, [false])], [([0%N; 1%N; 2%N], [0%N; 1%N; 3%N; 5%N; 7%N]); ([0%N; 1%N], [0%N; 1%N; 2%N; 3%N])]),
   (sols_val false 15 [0; 8]%N));
  (([(1%N, [false; true]); (0%N, [true]); (4%N, (@nil (bool))); (3%N, [false]); (2%N, (@nil (bool)))], [((@nil (N)), [0%N]); ((@nil (N)), [0%N]); ((@nil (N)), (@nil (N))); ([1%N; 2%N], [2%N; 4%N])]),
   (sols_val false 0 nil));
  (([(1%N, (@nil (bool))); (0%N, [false; true]); (3%N, [true; false]); (2%N, [true; false])], [((@nil (N)), [0%N]); ([2%N], (@nil (N))); ([1%N], [2%N])]),
   (sols_val false 0 nil));
  (([(1%N, [true]); (2%N, [true; false]); (0%N, [true])], [([2%N], [0%N; 4%N]); ((@nil (N)), [0%N])]),
   (sols_val true 7 [3; 7]%N));
  (([(0%N, [false])], [([0%N], [0%N; 1%N])]),
   (sols_val true 1 [0]%N));
  (([(1%N, [false]); (2%N, [false; true]); (0%N, [false]); (3%N, [true; false])], [([0%N; 1%N; 3%N], [0%N; 1%N; 2%N; 3%N; 8%N; 9%N; 11%N]); ((@nil (N)), [0%N]); ([2%N], [4%N])]),
   (sols_val true 15 [4; 12]%N));
  (([(2%N, [true; false]); (0%N, [true; false]); (3%N, [true]); (1%N, (@nil (bool)))], [([0%N; 3%N], [8%N]); ([1%N], [2%N]); ([1%N; 2%N; 3%N], [0%N; 2%N; 4%N; 8%N; 10%N; 12%N; 14%N])]),
   (sols_val false 0 nil));
  (([(0%N, [false; true]); (1%N, (@nil (bool)))], (@nil (tconstr))),
   (sols_val false 0 nil));
  (([(1%N, [false; true]); (0%N, [true])], [([0%N; 1%N], [1%N; 2%N]); ([0%N], [1%N]); ([1%N], [0%N; 2%N]); ([1%N], [0%N; 2%N])]),
   (sols_val false 3 [1]%N));
  (([(1%N, [false; true]); (0%N, [false; true]); (2%N, [false; true])], (@nil (tconstr))),
   (sols_val true 7 [0; 1; 2; 3; 4; 5; 6; 7]%N));
  (([(1%N, [true; false]); (2%N, (@nil (bool))); (0%N, [true; false])], [([1%N], (@nil (N))); ([0%N; 1%N], [0%N; 1%N; 2%N])]),
   (sols_val false 0 nil));
  (((@nil (dom)), [((@nil (N)), [0%N]); ((@nil (N)), [0%N]); ((@nil (N)), [0%N]); ((@nil (N)), [0%N])]),
   (sols_val true 0 [0]%N));
  (([(4%N, [true; false]); (3%N, [false; true]); (1%N, [false]); (0%N, [true; false]); (2%N, [true; false])], [([2%N], [0%N; 4%N])]),
   (sols_val true 31 [0; 1; 4; 5; 8; 9; 12; 13; 16; 17; 20; 21; 24; 25; 28; 29]%N));
  (([(0%N, [false; true]); (1%N, [true])], [((@nil (N)), [0%N]); ([0%N; 1%N], [2%N; 3%N]); ((@nil (N)), [0%N])]),
   (sols_val true 3 [2; 3]%N));
  (([(1%N, [true; false]); (0%N, [true; false]); (3%N, [false; true]); (2%N, [false; true])], (@nil (tconstr))),
   (sols_val true 15 [0; 1; 2; 3; 4; 5; 6; 7; 8; 9; 10; 11; 12; 13; 14; 15]%N));
  (((@nil (dom)), [((@nil (N)), [0%N])]),
   (sols_val true 0 [0]%N));
  (([(0%N, [false; true])], [([0%N], [0%N])]),
   (sols_val false 1 [0]%N));
  (([(0%N, [true; false]); (1%N, [true; false])], [([0%N], [0%N]); ([1%N], (@nil (N))); ((@nil (N)), [0%N]); ((@nil (N)), [0%N])]),
   (sols_val false 0 nil));
  (([(2%N, (@nil (bool))); (0%N, (@nil (bool))); (1%N, (@nil (bool)))], [((@nil (N)), (@nil (N)))]),
   (sols_val false 0 nil));
  (([(1%N, (@nil (bool))); (0%N, [false; true])], [((@nil (N)), (@nil (N))); ((@nil (N)), [0%N])]),
   (sols_val false 0 nil));
  (([(0%N, (@nil (bool))); (2%N, [true; false]); (1%N, [false]); (4%N, [true; false]); (3%N, [false; true])], [((@nil (N)), (@nil (N))); ([3%N; 4%N], [16%N])]),
   (sols_val false 0 nil));
  (((@nil (dom)), [((@nil (N)), [0%N])]),
   (sols_val true 0 [0]%N));
  (([(0%N, [false; true])], [((@nil (N)), (@nil (N)))]),
   (sols_val true 1 [0; 1]%N));
  (([(2%N, [true; false]); (1%N, (@nil (bool))); (3%N, [false; true]); (0%N, (@nil (bool)))], [([0%N; 1%N; 2%N], [0%N; 1%N; 2%N; 4%N; 5%N; 6%N; 7%N]); ([3%N], [8%N])]),
   (sols_val false 0 nil));
  (([(0%N, [false; true])], [((@nil (N)), (@nil (N)))]),
   (sols_val true 1 [0; 1]%N));
  (([(0%N, (@nil (bool))); (1%N, [false; true]); (2%N, [true; false]); (3%N, [false]); (4%N, [true])], [([0%N; 1%N; 3%N], [1%N; 9%N; 10%N])]),
   (sols_val false 0 nil));
  (([(2%N, [false]); (3%N, [true; false]); (1%N, [true; false]); (0%N, (@nil (bool)))], [([0%N; 1%N; 2%N], [0%N; 4%N]); ([0%N], [0%N]); ([0%N; 1%N; 3%N], [0%N; 1%N; 2%N; 3%N; 8%N; 9%N; 10%N; 11%N])]),
   (sols_val false 0 nil));
  (((@nil (dom)), [((@nil (N)), [0%N])]),
   (sols_val true 0 [0]%N));
  (([(0%N, (@nil (bool))); (1%N, [true; false])], [((@nil (N)), [0%N]); ([0%N; 1%N], [0%N; 1%N; 2%N; 3%N]); ((@nil (N)), [0%N])]),
   (sols_val false 0 nil));
  (([(0%N, [false; true])], [((@nil (N)), [0%N])]),
   (sols_val true 1 [0; 1]%N));
  (([(0%N, [false; true]); (1%N, [false])], [([0%N; 1%N], [0%N; 1%N]); ((@nil (N)), (@nil (N))); ([0%N; 1%N], [0%N; 1%N; 2%N; 3%N])]),
   (sols_val true 3 [0; 1]%N));
  (([(0%N, (@nil (bool))); (4%N, (@nil (bool))); (2%N, [true; false]); (3%N, [true; false]); (1%N, [true; false])], (@nil (tconstr))),
   (sols_val false 0 nil));
  (([(0%N, [true; false]); (1%N, [false]); (2%N, [true; false])], (@nil (tconstr))),
   (sols_val true 7 [0; 1; 4; 5]%N));
  (([(1%N, (@nil (bool))); (3%N, [false; true]); (4%N, (@nil (bool))); (0%N, [true; false]); (2%N, [true])], [([4%N], [0%N]); ([3%N], [0%N; 8%N]); ([3%N], [0%N; 8%N]); ([4%N], [16%N])]),
   (sols_val false 0 nil));
  (((@nil (dom)), [((@nil (N)), (@nil (N))); ((@nil (N)), [0%N]); ((@nil (N)), [0%N])]),
   (sols_val true 0 [0]%N));
  (([(0%N, [false; true]); (1%N, (@nil (bool)))], [((@nil (N)), (@nil (N))); ([0%N; 1%N], (@nil (N)))]),
   (sols_val false 0 nil));
  (([(1%N, [true; false]); (0%N, [true; false])], [([1%N], [2%N]); ([0%N; 1%N], [0%N; 2%N; 3%N]); ((@nil (N)), [0%N]); ([1%N], [0%N; 2%N])]),
   (sols_val false 3 [2; 3]%N));
  (((@nil (dom)), [((@nil (N)), (@nil (N))); ((@nil (N)), [0%N])]),
   (sols_val true 0 [0]%N));
  (([(1%N, [true; false]); (3%N, (@nil (bool))); (4%N, [true]); (2%N, [false; true]); (0%N, [false])], [([3%N; 4%N], [8%N; 16%N; 24%N]); ([1%N; 4%N], [2%N]); ([1%N; 3%N], [8%N; 10%N])]),
   (sols_val false 0 nil));
  (([(2%N, [true; false]); (0%N, [true; false]); (3%N, [true; false]); (4%N, [false; true]); (1%N, [false; true])], [((@nil (N)), [0%N]); ((@nil (N)), [0%N])]),
   (sols_val true 31 [0; 1; 2; 3; 4; 5; 6; 7; 8; 9; 10; 11; 12; 13; 14; 15; 16; 17; 18; 19; 20; 21; 22; 23; 24; 25; 26; 27; 28; 29; 30; 31]%N));
  (([(0%N, [true]); (1%N, [false]); (2%N, [true; false])], [([0%N; 2%N], [0%N; 4%N; 5%N]); ([0%N; 1%N; 2%N], [1%N; 2%N; 3%N; 4%N])]),
   (sols_val false 0 nil));
  (([(2%N, (@nil (bool))); (1%N, (@nil (bool))); (0%N, [true; false])], [([0%N; 1%N; 2%N], [1%N; 2%N; 3%N; 4%N; 6%N; 7%N]); ([0%N; 1%N; 2%N], [2%N; 3%N; 7%N]); ([0%N], [1%N])]),
   (sols_val false 0 nil));
  (([(0%N, (@nil (bool))); (1%N, (@nil (bool))); (2%N, [false; true])], [([0%N; 1%N; 2%N], [0%N; 5%N]); ([0%N], [0%N; 1%N]); ([0%N; 1%N; 2%N], [0%N; 1%N; 5%N]); ((@nil (N)), (@nil (N)))]),
   (sols_val false 0 nil));
  (([(2%N, [false]); (4%N, [true; false]); (3%N, [true; false]); (1%N, (@nil (bool))); (0%N, (@nil (bool)))], [([1%N; 3%N], (@nil (N))); ((@nil (N)), (@nil (N)))]),
   (sols_val false 0 nil));
  (([(2%N, (@nil (bool))); (0%N, [false; true]); (3%N, [true]); (1%N, [true; false])], (@nil (tconstr))),
   (sols_val false 0 nil));
  (([(0%N, [true; false])], [([0%N], [0%N; 1%N]); ([0%N], [0%N; 1%N]); ([0%N], [0%N; 1%N])]),
   (sols_val true 1 [0; 1]%N));
  (([(0%N, [false; true])], [([0%N], [0%N; 1%N]); ([0%N], [0%N]); ([0%N], [0%N])]),
   (sols_val false 1 [0]%N));
  (((@nil (dom)), [((@nil (N)), [0%N]); ((@nil (N)), (@nil (N)))]),
   (sols_val true 0 [0]%N));
  (([(0%N, [false; true]); (2%N, [false]); (3%N, (@nil (bool))); (1%N, [true])], [([1%N; 2%N; 3%N], [2%N; 14%N])]),
   (sols_val false 0 nil));
  (((@nil (dom)), (@nil (tconstr))),
   (sols_val true 0 [0]%N));
  (([(0%N, (@nil (bool)))], [([0%N], [0%N])]),
   (sols_val false 0 nil));
  (([(0%N, [false]); (1%N, (@nil (bool)))], [([0%N; 1%N], [0%N; 3%N]); ([0%N; 1%N], [0%N; 1%N; 2%N]); ((@nil (N)), [0%N])]),
   (sols_val false 0 nil));
  (([(1%N, [true; false]); (0%N, [true]); (2%N, [true; false])], (@nil (tconstr))),
   (sols_val true 7 [1; 3; 5; 7]%N));
  (([(4%N, [false; true]); (2%N, [true]); (3%N, [true; false]); (0%N, [true; false]); (1%N, (@nil (bool)))], [([0%N; 1%N], [0%N; 1%N; 3%N])]),
   (sols_val false 0 nil));
  (((@nil (dom)), [((@nil (N)), [0%N])]),
   (sols_val true 0 [0]%N));
  (([(4%N, [true]); (1%N, (@nil (bool))); (3%N, [true; false]); (2%N, [true; false]); (0%N, [false; true])], [([0%N; 2%N], [1%N]); ((@nil (N)), (@nil (N)))]),
   (sols_val false 0 nil));
  (([(0%N, [false; true]); (3%N, (@nil (bool))); (1%N, [true; false]); (2%N, [false])], [([0%N; 1%N; 3%N], [0%N; 1%N; 2%N; 3%N; 9%N]); ([1%N], [0%N])]),
   (sols_val false 0 nil));
  (([(2%N, (@nil (bool))); (0%N, [true; false]); (1%N, [true; false])], [([1%N; 2%N], [0%N; 4%N; 6%N]); ([1%N], [2%N])]),
   (sols_val false 0 nil));
  (([(2%N, [true]); (0%N, (@nil (bool))); (3%N, (@nil (bool))); (1%N, [true])], [([2%N], [4%N]); ([0%N], [0%N; 1%N]); ([0%N; 1%N; 2%N], [0%N; 2%N; 6%N; 7%N])]),
   (sols_val false 0 nil));
  (([(0%N, [true]); (1%N, [false; true])], [((@nil (N)), (@nil (N))); ((@nil (N)), [0%N])]),
   (sols_val true 3 [1; 3]%N));
  (((@nil (dom)), [((@nil (N)), (@nil (N))); ((@nil (N)), [0%N]); ((@nil (N)), (@nil (N)))]),
   (sols_val true 0 [0]%N));
  (([(0%N, [false; true]); (1%N, [false; true])], [([1%N], [0%N; 2%N]); ([0%N; 1%N], [1%N; 2%N])]),
   (sols_val false 3 [1; 2]%N));
  (((@nil (dom)), [((@nil (N)), [0%N]); ((@nil (N)), [0%N]); ((@nil (N)), [0%N])]),
   (sols_val true 0 [0]%N));
  (([(0%N, [true; false])], [((@nil (N)), (@nil (N))); ((@nil (N)), [0%N])]),
   (sols_val true 1 [0; 1]%N));
  (([(0%N, (@nil (bool)))], [((@nil (N)), (@nil (N))); ((@nil (N)), [0%N]); ((@nil (N)), (@nil (N))); ((@nil (N)), [0%N])]),
   (sols_val false 0 nil));
  (([(0%N, [false; true])], [([0%N], [1%N]); ([0%N], [0%N]); ([0%N], (@nil (N))); ([0%N], [0%N; 1%N])]),
   (sols_val false 0 nil));
  (([(0%N, [false; true]); (1%N, (@nil (bool)))], (@nil (tconstr))),
   (sols_val false 0 nil));
  (([(0%N, [false])], [([0%N], [0%N; 1%N])]),
   (sols_val true 1 [0]%N));
  (([(0%N, [true; false])], [((@nil (N)), (@nil (N)))]),
   (sols_val true 1 [0; 1]%N))
].
Eval vm_compute in (mismatches run_solver cases).
Eval vm_compute in (where_ (fun i r => negb (contract_ok i r)) cases).
