(* C29/Complete_C29.v — "the new state is complete", for all inputs.

   After the WHOLE op list of a vdb install (resp. binpkg install / same-version replace) has
   run without a failing call, the package is listed and every staged file reads back in full
   ([vdb_install_complete], [bin_install_complete]); in particular every one of the 13 metadata
   keys the check reads is present when the staged items cover them ([vdb_install_keys]). *)
From Coq Require Import List NArith ZArith Bool Lia.
Import ListNotations.
From Verif Require Import Base.Val C18.Fs C18.FsLemmas C29.Model_C29 C29.Spec_C29 C29.Proofs_C29.

(* ------------------------------------------------------------------ single ops on one file *)
Lemma read_file_node s p d :
  read_file s p = Some d -> exists m u g t i, lookup s p = Some (File d m u g t i).
Proof.
  unfold read_file. destruct (lookup s p) as [[]|]; try discriminate.
  intro H. injection H as ->. eauto 10.
Qed.
Lemma read_file_of s p d m u g t i : lookup s p = Some (File d m u g t i) -> read_file s p = Some d.
Proof. unfold read_file. now intros ->. Qed.

Lemma open_w_empty s0 s p m s' : apply_op s (open_w s0 p m) = Some s' -> read_file s' p = Some [].
Proof.
  unfold open_w. destruct (bound s0 p); cbn [apply_op]; intro H.
  - destruct (lookup s p) as [n|] eqn:E; [|discriminate]. destruct n; try discriminate.
    eapply update_self in H; [|exact E]. cbn in H. eapply read_file_of; eauto.
  - destruct (can_create s p); [|discriminate]. injection H as <-.
    eapply read_file_of. apply lookup_set_same.
Qed.

Lemma concat_nonempty (chunks : list (list N)) :
  concat (filter (fun c => match c with [] => false | _ => true end) chunks) = concat chunks.
Proof. induction chunks as [|[|x c] chunks IH]; cbn; congruence. Qed.

Lemma put_data p chunks s s' d :
  read_file s p = Some d -> run_opt (put p chunks) s = Some s' -> read_file s' p = Some (d ++ concat chunks).
Proof.
  intros Hd H. apply read_file_node in Hd as (m & u & g & t & i & Hl).
  unfold put in H. fold (appends p (filter (fun c => match c with [] => false | _ => true end) chunks)) in H.
  destruct (run_opt_appends_tmp _ _ _ _ _ _ _ _ _ _ Hl H) as [[E ->]|H2].
  - rewrite <- concat_nonempty, E. cbn. rewrite app_nil_r. eapply read_file_of; eauto.
  - rewrite concat_nonempty in H2. eapply read_file_of; eauto.
Qed.

Lemma chmod_keeps s p m s' d : read_file s p = Some d -> apply_op s (Chmod p m) = Some s' -> read_file s' p = Some d.
Proof.
  intros Hd H. apply read_file_node in Hd as (mo & u & g & t & i & Hl). cbn in H. rewrite Hl in H. cbn in H.
  eapply update_self in H; [|exact Hl]. eapply read_file_of; exact H.
Qed.
Lemma chown_keeps s p a b s' d : read_file s p = Some d -> apply_op s (Chown p a b) = Some s' -> read_file s' p = Some d.
Proof.
  intros Hd H. apply read_file_node in Hd as (mo & u & g & t & i & Hl). cbn in H.
  eapply update_self in H; [|exact Hl]. eapply read_file_of; exact H.
Qed.

(* an op that is not a rename/link changes nothing but the path it names (no hard links) *)
Definition names_only (p : path) (o : op) : Prop :=
  match o with
  | Mkdir q _ | Create q _ | Append q _ | Truncate q | Chmod q _ | Chown q _ _ | Utime q _
  | Unlink q | Rmdir q => q = p
  | _ => False
  end.
Lemma names_only_plain p o : names_only p o -> plain o.
Proof. destruct o; cbn; auto. Qed.
Lemma names_only_frame s o s' p q :
  nolinks s -> names_only p o -> apply_op s o = Some s' -> q <> p -> lookup s' q = lookup s q.
Proof.
  intros Hn Ho E Hq. eapply apply_op_frame; [exact E|].
  assert (Hsh : ~ (q = p \/ shares_ino s p q)).
  { intros [->|[n [m [i [H1 [H2 [I1 I2]]]]]]]; [auto|].
    apply lookup_In in H1. apply lookup_In in H2. apply Hq. symmetry. eapply Hn; eauto. }
  destruct o; cbn [names_only affects op_paths] in *; try contradiction; subst; auto;
    intros [<-|[]]; auto.
Qed.
Lemma names_only_run p l : Forall (names_only p) l ->
  forall s s' q, nolinks s -> run_opt l s = Some s' -> q <> p -> lookup s' q = lookup s q.
Proof.
  induction 1 as [|o l Ho _ IH]; cbn; intros s s' q Hn E Hq; [congruence|].
  destruct (apply_op s o) as [s1|] eqn:E1; [|discriminate].
  rewrite (IH s1 s' q); auto; [eapply names_only_frame; eauto|].
  eapply nolinks_step; eauto using names_only_plain.
Qed.
Lemma open_w_names s0 p m : names_only p (open_w s0 p m).
Proof. unfold open_w. destruct (bound s0 p); reflexivity. Qed.
Lemma put_names p ch : Forall (names_only p) (put p ch).
Proof. unfold put. apply Forall_forall. intros o Ho. apply in_map_iff in Ho as [d [<- _]]. reflexivity. Qed.

(* rename of a regular file to another name *)
Lemma rename_file s a b s' d :
  nolinks s -> read_file s a = Some d -> a <> b -> apply_op s (Rename a b) = Some s' ->
  read_file s' b = Some d /\ forall q, q <> a -> q <> b -> lookup s' q = lookup s q.
Proof.
  intros Hn Hd Hab H. apply read_file_node in Hd as (mo & u & g & t & i & Hl).
  cbn [apply_op] in H. rewrite Hl in H. destruct b as [|b0 b]; [discriminate|].
  destruct (path_eq_dec a (b0 :: b)); [contradiction|].
  destruct (negb (isdir s (parent (b0 :: b)))); [discriminate|]. cbn [is_dir_node] in H.
  assert (G : forall s2, s2 = set_node (remove s a) (b0 :: b) (File d mo u g t i) ->
              read_file s2 (b0 :: b) = Some d /\ forall q, q <> a -> q <> b0 :: b -> lookup s2 q = lookup s q).
  { intros s2 ->. split.
    - eapply read_file_of. apply lookup_set_same.
    - intros q Ha Hb. rewrite lookup_set_other, lookup_remove_other; auto. }
  destruct (lookup s (b0 :: b)) as [m|] eqn:Eb.
  - destruct (is_dir_node m); [discriminate|]. cbn [ino_of] in H.
    destruct (ino_of m) as [j|] eqn:Ej.
    + destruct (N.eqb i j) eqn:Eij.
      * apply N.eqb_eq in Eij. subst j. exfalso. apply Hab.
        apply lookup_In in Hl. apply lookup_In in Eb.
        exact (Hn a (b0 :: b) (File d mo u g t i) m i Hl Eb eq_refl Ej).
      * injection H as <-. now apply G.
    + injection H as <-. now apply G.
  - injection H as <-. now apply G.
Qed.

(* ------------------------------------------------------------------ one staged item, all of them *)
Definition UPD : str := UPDATE ++ CONTENTS.

Ltac step H t E :=
  match type of H with
  | match ?x with Some _ => _ | None => None end = Some _ => destruct x as [t|] eqn:E; [|discriminate]
  end.

Lemma item_plain s0 d it : Forall plain (item_ops s0 d it).
Proof.
  assert (O : forall p m, plain (open_w s0 p m)) by (intros p m; unfold open_w; destruct (bound s0 p); exact I).
  assert (P : forall p ch, Forall plain (put p ch)).
  { intros p ch. eapply Forall_impl; [|apply put_names]. apply names_only_plain. }
  destruct it; cbn [item_ops]; constructor; auto.
  repeat constructor. apply Forall_app. split; [apply P|repeat constructor].
Qed.

Lemma item_done s0 d it t t' :
  nolinks t -> run_opt (item_ops s0 d it) t = Some t' -> item_name it <> UPD ->
  nolinks t'
  /\ read_file t' (d ++ [item_name it]) = Some (item_data it)
  /\ forall q, q <> d ++ [item_name it] -> q <> d ++ [UPD] -> lookup t' q = lookup t q.
Proof.
  intros Hn H Hne. pose proof (item_plain s0 d it) as Hp.
  split; [eapply nolinks_run_opt; eauto|].
  destruct it as [n ch|ch]; cbn [item_ops item_name item_data] in *.
  - cbn [run_opt] in H. destruct (apply_op t (open_w s0 (d ++ [n]) 420)) as [t1|] eqn:E1; [|discriminate].
    split.
    + pose proof (open_w_empty _ _ _ _ _ E1) as D1. exact (put_data _ _ _ _ _ D1 H).
    + intros q Hq _. rewrite (names_only_run (d ++ [n]) (put (d ++ [n]) ch) (put_names _ _) t1 t' q); auto.
      * eapply names_only_frame; eauto using open_w_names.
      * eapply nolinks_step; eauto. apply names_only_plain with (p := d ++ [n]). apply open_w_names.
  - cbn [run_opt app] in H.
    step H t1 E1. step H t2 E2. step H t3 E3.
    rewrite run_opt_app in H. step H t4 E4. cbn [run_opt] in H. step H t5 E5.
    injection H as <-.
    match type of E2 with apply_op _ (Chmod ?p _) = _ => set (u := p) in * end.
    assert (N1 : nolinks t1) by (eapply nolinks_step; eauto; apply names_only_plain with (p := u); apply open_w_names).
    assert (N2 : nolinks t2) by (eapply nolinks_step; eauto; exact I).
    assert (N3 : nolinks t3) by (eapply nolinks_step; eauto; exact I).
    assert (N4 : nolinks t4).
    { eapply nolinks_run_opt; [|exact N3|exact E4]. eapply Forall_impl; [|apply put_names]. apply names_only_plain. }
    assert (D4 : read_file t4 u = Some (concat ch)).
    { pose proof (open_w_empty _ _ _ _ _ E1) as D1.
      pose proof (chmod_keeps _ _ _ _ _ D1 E2) as D2. pose proof (chown_keeps _ _ _ _ _ _ D2 E3) as D3.
      exact (put_data _ _ _ _ _ D3 E4). }
    assert (Hu : u <> d ++ [CONTENTS]).
    { unfold u. intro E. apply app_inv_head in E. injection E as E. apply Hne. now symmetry. }
    destruct (rename_file _ _ _ _ _ N4 D4 Hu E5) as [R1 R2].
    split; [exact R1|]. intros q Hq Hq2. change (q <> u) in Hq2. rewrite R2 by auto.
    rewrite (names_only_run u (put u ch) (put_names _ _) t3 t4 q); auto.
    rewrite (names_only_frame t2 (Chown u (Some 0%N) (Some 0%N)) t3 u q N2 eq_refl E3 Hq2).
    rewrite (names_only_frame t1 (Chmod u 420) t2 u q N1 eq_refl E2 Hq2).
    eapply names_only_frame; eauto using open_w_names.
Qed.

Lemma items_done s0 d : forall items t t',
  nolinks t -> NoDup (map item_name items) -> ~ In UPD (map item_name items) ->
  run_opt (flat_map (item_ops s0 d) items) t = Some t' ->
  nolinks t'
  /\ (forall it, In it items -> read_file t' (d ++ [item_name it]) = Some (item_data it))
  /\ forall q, (forall it, In it items -> q <> d ++ [item_name it]) -> q <> d ++ [UPD] -> lookup t' q = lookup t q.
Proof.
  induction items as [|it items IH]; cbn [flat_map map]; intros t t' Hn Hnd Hu H.
  - cbn in H. injection H as <-. repeat split; auto. intros it [].
  - rewrite run_opt_app in H. destruct (run_opt (item_ops s0 d it) t) as [t1|] eqn:E1; [|discriminate].
    inversion Hnd as [|? ? Hnotin Hnd']; subst.
    destruct (item_done s0 d it t t1 Hn E1) as [N1 [D1 F1]]; [intro E; apply Hu; now left|].
    destruct (IH t1 t' N1 Hnd') as [N' [D' F']]; [intro E; apply Hu; now right|exact H|].
    split; [exact N'|]. split.
    + intros it' [<-|Hin]; [|now apply D'].
      unfold read_file. rewrite F'; [exact D1| |].
      * intros it2 Hin2 E. apply app_inv_head in E. injection E as E. apply Hnotin. rewrite E. now apply in_map.
      * intro E. apply app_inv_head in E. injection E as E. apply Hu. now left.
    + intros q Hq Hq2. rewrite F'.
      * apply F1; [apply Hq; now left|exact Hq2].
      * intros it2 Hin2. apply Hq. now right.
      * exact Hq2.
Qed.

(* ------------------------------------------------------------------ the directory rename *)
Lemma key_bound (s : fs) q m : In (q, m) s -> lookup s q <> None.
Proof.
  induction s as [|[r x] s IH]; cbn; [tauto|]. intros [H|H].
  - injection H as -> ->. destruct (path_eq_dec q q); congruence.
  - destruct (path_eq_dec q r); [discriminate|auto].
Qed.
Lemma skipn_app_exact {A} (a r : list A) : skipn (length a) (a ++ r) = r.
Proof. induction a; cbn; auto. Qed.
Lemma is_prefix_app_false a q : is_prefix a q = false -> forall r, q <> a ++ r.
Proof. intros H r ->. now rewrite is_prefix_app in H. Qed.

Lemma lookup_rebased a b l r :
  (forall q m, In (q, m) l -> is_prefix b q = false) ->
  lookup (map (fun e => (rebase a b (fst e), snd e)) l) (b ++ r) = lookup l (a ++ r).
Proof.
  intro Hb. induction l as [|[q m] l IH]; [reflexivity|].
  assert (IH' := IH (fun q' m' H => Hb q' m' (or_intror H))). clear IH.
  cbn [map lookup fst snd]. destruct (is_prefix a q) eqn:Ea.
  - assert (R : rebase a b q = b ++ skipn (length a) q) by (unfold rebase; now rewrite Ea). rewrite R.
    apply is_prefix_true in Ea as [r' ->]. rewrite skipn_app_exact.
    destruct (path_eq_dec (b ++ r) (b ++ r')) as [E|E]; destruct (path_eq_dec (a ++ r) (a ++ r')) as [E'|E'];
      auto; exfalso.
    + apply app_inv_head in E. subst. auto.
    + apply app_inv_head in E'. subst. auto.
  - assert (R : rebase a b q = q) by (unfold rebase; now rewrite Ea). rewrite R.
    pose proof (Hb q m (or_introl eq_refl)) as Eb.
    destruct (path_eq_dec (b ++ r) q) as [<-|_]; [now rewrite is_prefix_app in Eb|].
    destruct (path_eq_dec (a ++ r) q) as [<-|_]; [now rewrite is_prefix_app in Ea|]. exact IH'.
Qed.

(* renaming a directory to a name below which nothing is bound moves its whole subtree *)
Lemma rename_dir_moves t a b t2 :
  (exists m u g ti, lookup t a = Some (Dir m u g ti)) ->
  (forall r, lookup t (b ++ r) = None) ->
  a <> b -> apply_op t (Rename a b) = Some t2 ->
  forall r, lookup t2 (b ++ r) = lookup t (a ++ r).
Proof.
  intros (m & u & g & ti & Ha) Hclear Hab H r. cbn [apply_op] in H. rewrite Ha in H.
  destruct b as [|b0 b]; [discriminate|]. destruct (path_eq_dec a (b0 :: b)); [contradiction|].
  destruct (negb (isdir t (parent (b0 :: b)))); [discriminate|]. cbn [is_dir_node] in H.
  destruct (is_prefix a (b0 :: b)) eqn:Epre; [discriminate|].
  pose proof (Hclear []) as Hb. rewrite app_nil_r in Hb. rewrite Hb in H. injection H as <-.
  unfold rename_dir. rewrite lookup_rebased; [|].
  - apply lookup_remove_other. intro E. rewrite <- E, is_prefix_app in Epre. discriminate.
  - intros q x Hq. apply In_remove in Hq as [Hq Hne].
    destruct (is_prefix (b0 :: b) q) eqn:E; [|reflexivity]. exfalso.
    apply is_prefix_true in E as [r' ->]. apply key_bound in Hq. apply Hq. apply Hclear.
Qed.

(* ------------------------------------------------------------------ vdb install *)
Section VdbComplete.
  Variable loc : path.

  Lemma pkg_path_visible cat pf r :
    vdb_cat_ok cat = true -> vdb_skip pf = false -> visible vdb_cat_ok vdb_skip loc (pkgdir loc cat pf ++ r).
  Proof. intros Hc Hs. exists cat, pf, r. unfold pkgdir. rewrite <- app_assoc. auto. Qed.

  Lemma ensure_dir_names s p : Forall (names_only p) (ensure_dir s p).
  Proof. unfold ensure_dir. destruct (bound s p); repeat constructor. Qed.

  Theorem vdb_install_complete_proof s cat pf items s' :
    nolinks s ->
    vdb_cat_ok cat = true -> vdb_skip pf = false ->
    NoDup (map item_name items) -> ~ In UPD (map item_name items) ->
    (forall r, lookup s (pkgdir loc cat pf ++ r) = None) ->
    match lookup s (tmpdir loc cat pf) with Some n => is_dir_node n = true | None => True end ->
    run_opt (vdb_install_ops s loc cat pf items) s = Some s' ->
    vdb_complete s' loc cat pf items.
  Proof.
    intros Hn Hc Hs Hnd Hu Habs Hstale H.
    set (tmp := tmpdir loc cat pf) in *. set (dst := pkgdir loc cat pf) in *.
    assert (Htd : tmp <> dst).
    { unfold tmp, dst, tmpdir, pkgdir. intro E. apply app_inv_head in E. injection E as E.
      change (TMP ++ pf = pf) in E. pose proof (vdb_skip_tmp pf) as T. rewrite E in T. congruence. }
    unfold vdb_install_ops, vdb_commit in H. rewrite run_opt_app in H.
    destruct (run_opt (vdb_stage s loc cat pf items) s) as [t1|] eqn:ES; [|discriminate].
    fold tmp dst in H. cbn [run_opt] in H. step H t2 ER. step H t3 EU. injection H as <-.
    (* the staging part *)
    assert (N1 : nolinks t1).
    { eapply nolinks_run_opt; [|exact Hn|exact ES]. eapply Forall_impl; [apply outside_plain|apply stage_out]. }
    assert (A1 : forall r, lookup t1 (dst ++ r) = None).
    { intro r. rewrite <- (Habs r). pose proof (outside_run _ _ _ _ (stage_out loc s cat pf items) s Hn) as A.
      rewrite (run_opt_run _ _ _ ES) in A. apply A. now apply pkg_path_visible. }
    unfold vdb_stage in ES. fold tmp in ES.
    rewrite run_opt_app in ES. step ES ta Ea. rewrite run_opt_app in ES. step ES tb Eb.
    rewrite run_opt_app in ES. step ES tc Ec.
    assert (Na : nolinks ta).
    { eapply nolinks_run_opt; [|exact Hn|exact Ea]. eapply Forall_impl; [|apply ensure_dir_names]. apply names_only_plain. }
    assert (Nb : nolinks tb).
    { eapply nolinks_run_opt; [|exact Na|exact Eb]. eapply Forall_impl; [|apply ensure_dir_names]. apply names_only_plain. }
    assert (Nc : nolinks tc) by (eapply nolinks_run_opt; [|exact Nb|exact Ec]; repeat constructor).
    assert (Hcat : tmp <> loc ++ [cat]).
    { unfold tmp, tmpdir. intro E. apply app_inv_head in E. discriminate. }
    assert (Hloc : tmp <> loc).
    { unfold tmp, tmpdir. intro E. apply (f_equal (@length _)) in E. rewrite app_length in E. cbn in E. lia. }
    assert (Db : exists m u g ti, lookup tb tmp = Some (Dir m u g ti)).
    { pose proof (names_only_run _ _ (ensure_dir_names s (loc ++ [cat])) s ta tmp Hn Ea Hcat) as Fa.
      unfold ensure_dir in Eb. unfold bound in Eb. destruct (lookup s tmp) as [n|] eqn:El.
      - cbn in Eb. injection Eb as <-. rewrite Fa. destruct n; try discriminate. eauto.
      - cbn in Eb. destruct (can_create ta tmp); [|discriminate]. injection Eb as <-.
        rewrite lookup_set_same. eauto. }
    assert (Dc : exists m u g ti, lookup tc tmp = Some (Dir m u g ti)).
    { assert (FU : Forall (names_only loc) [Utime loc NOW]) by (repeat constructor).
      rewrite (names_only_run loc [Utime loc NOW] FU tb tc tmp Nb Ec Hloc). exact Db. }
    destruct (items_done s tmp items tc t1 Nc Hnd Hu ES) as [_ [D1 F1]].
    assert (D1t : exists m u g ti, lookup t1 tmp = Some (Dir m u g ti)).
    { rewrite F1; [exact Dc| |].
      - intros it _ E. apply (f_equal (@length _)) in E. rewrite app_length in E. cbn in E. lia.
      - intro E. apply (f_equal (@length _)) in E. rewrite app_length in E. cbn in E. lia. }
    (* the commit *)
    pose proof (rename_dir_moves t1 tmp dst t2 D1t A1 Htd ER) as M.
    assert (N2 : nolinks t2) by (eapply nolinks_step; [|exact N1|exact ER]; exact I).
    assert (F3 : forall r, lookup t3 (dst ++ r) = lookup t2 (dst ++ r)).
    { intro r. eapply names_only_frame; [exact N2| |exact EU|]; [reflexivity|].
      unfold dst, pkgdir. intro E. apply (f_equal (@length _)) in E. rewrite !app_length in E. cbn in E. lia. }
    split.
    - unfold listed. rewrite Hc, Hs. cbn. fold (pkgdir loc cat pf). fold dst.
      rewrite <- (app_nil_r dst), F3, M, app_nil_r. destruct D1t as (m & u & g & ti & ->). reflexivity.
    - intros it Hin. unfold content, read_file.
      replace (loc ++ cat :: pf :: [item_name it]) with (dst ++ [item_name it])
        by (unfold dst, pkgdir; now rewrite <- app_assoc).
      rewrite F3, M. exact (D1 it Hin).
  Qed.

  (* all 13 keys of the check are present when the staged items cover them *)
  Theorem vdb_install_keys_proof s cat pf items s' :
    nolinks s ->
    vdb_cat_ok cat = true -> vdb_skip pf = false ->
    NoDup (map item_name items) -> ~ In UPD (map item_name items) ->
    (forall r, lookup s (pkgdir loc cat pf ++ r) = None) ->
    match lookup s (tmpdir loc cat pf) with Some n => is_dir_node n = true | None => True end ->
    (forall k, In k (vdb_keys pf) -> exists it, In it items /\ item_name it = fst k) ->
    run_opt (vdb_install_ops s loc cat pf items) s = Some s' ->
    length (vdb_keys pf) = 13
    /\ forall k, In k (vdb_keys pf) ->
         exists it, In it items /\ item_name it = fst k
                    /\ read_key s' (pkgdir loc cat pf) k
                       = VS (if snd k then rstrip_nl (item_data it) else item_data it).
  Proof.
    intros Hn Hc Hs Hnd Hu Habs Hstale Hcov H. split; [reflexivity|].
    destruct (vdb_install_complete_proof s cat pf items s' Hn Hc Hs Hnd Hu Habs Hstale H) as [_ C].
    intros k Hk. destruct (Hcov k Hk) as [it [Hin E]]. exists it. split; [exact Hin|]. split; [exact E|].
    specialize (C it Hin). unfold content in C. unfold read_key, pkgdir. rewrite <- E, <- app_assoc. cbn [app].
    now rewrite C.
  Qed.
End VdbComplete.

(* ------------------------------------------------------------------ binpkg install / replace *)
(* the state right after the rename of the staged tarball *)
Lemma bin_commit_state base s cat pid pf chunks t2 :
  nolinks s ->
  run_opt (bin_stage s base cat pid pf chunks ++ [Rename (bin_tmp base cat pid pf) (bin_final base cat pf)]) s = Some t2 ->
  nolinks t2 /\ read_file t2 (bin_final base cat pf) = Some (concat chunks).
Proof.
  intros Hn H.
  set (tmp := bin_tmp base cat pid pf) in *. set (fin := bin_final base cat pf) in *.
  assert (Htf : tmp <> fin).
  { unfold tmp, fin, bin_tmp, bin_final. intro E. apply app_inv_head in E. injection E as E.
    change (TMP ++ (pid ++ DOT ++ pf ++ TBZ2) = pf ++ TBZ2) in E.
    apply (f_equal (@length _)) in E. rewrite !app_length in E. change (length TMP) with 5 in E. lia. }
  rewrite run_opt_app in H.
  destruct (run_opt (bin_stage s base cat pid pf chunks) s) as [t1|] eqn:ES; [|discriminate].
  cbn [run_opt] in H. step H t2' ER. injection H as <-.
  assert (N1 : nolinks t1).
  { eapply nolinks_run_opt; [|exact Hn|exact ES]. eapply Forall_impl; [apply outside_plain|apply bin_stage_out]. }
  split; [eapply nolinks_step; [|exact N1|exact ER]; exact I|].
  unfold bin_stage in ES. fold tmp in ES. rewrite run_opt_app in ES. step ES ta Ea.
  cbn [run_opt] in ES. step ES tb Eo. rewrite run_opt_app in ES. step ES tc Ep. cbn [run_opt] in ES. step ES td Em.
  injection ES as <-.
  assert (D1 : read_file td tmp = Some (concat chunks)).
  { pose proof (open_w_empty _ _ _ _ _ Eo) as D0. pose proof (put_data _ _ _ _ _ D0 Ep) as Dp.
    exact (chmod_keeps _ _ _ _ _ Dp Em). }
  exact (proj1 (rename_file _ _ _ _ _ N1 D1 Htf ER)).
Qed.

Theorem bin_install_complete_proof base s cat pid pf chunks cache s' :
  nolinks s -> bin_cat_ok cat = true -> bin_skip (pf ++ TBZ2) = false ->
  run_opt (bin_install_ops s base cat pid pf chunks cache) s = Some s' ->
  listed bin_cat_ok bin_skip false base s' cat (pf ++ TBZ2) = true
  /\ content base s' cat (pf ++ TBZ2) [] = Some (concat chunks).
Proof.
  intros Hn Hc Hs H. set (fin := bin_final base cat pf).
  unfold bin_install_ops in H. rewrite app_assoc, run_opt_app in H.
  destruct (run_opt _ s) as [t2|] eqn:E2 in H; [|discriminate].
  destruct (bin_commit_state _ _ _ _ _ _ _ Hn E2) as [N2 R1].
  pose proof (outside_run _ _ _ _ (bin_cache_out base s cache) t2 N2) as A.
  rewrite (run_opt_run _ _ _ H) in A.
  assert (V : visible bin_cat_ok bin_skip base fin) by (exists cat, (pf ++ TBZ2), []; auto).
  apply read_file_node in R1 as (m & u & g & ti & i & R1).
  split.
  - unfold listed. rewrite Hc, Hs. change (base ++ [cat; pf ++ TBZ2]) with fin. rewrite (A fin V). unfold fin. rewrite R1. reflexivity.
  - unfold content, read_file. change (base ++ [cat; pf ++ TBZ2]) with fin. rewrite (A fin V). unfold fin. now rewrite R1.
Qed.

(* non-vacuity: the hypotheses hold of the example install of Proofs_C29 *)
Example ex_install_complete_general :
  vdb_complete (run Ex.install_ops Ex.s0) [Ex.v] Ex.c Ex.p2 Ex.items.
Proof.
  apply vdb_install_complete_proof with (s := Ex.s0).
  - exact Ex.s0_nolinks.
  - reflexivity.
  - reflexivity.
  - vm_compute. repeat constructor; cbn; intuition discriminate.
  - vm_compute. intuition discriminate.
  - intro r. unfold lookup, Ex.s0. cbn [pkgdir app].
    repeat (match goal with |- context [path_eq_dec ?a ?b] => destruct (path_eq_dec a b) as [E|_]; [exfalso; revert E; vm_compute; congruence|] end).
    reflexivity.
  - vm_compute. exact I.
  - vm_compute. reflexivity.
Qed.

(* ------------------------------------------------------------------ the hypotheses, as checked per run *)
Lemma existsb_str_In u l : existsb (str_eqb u) l = true <-> In u l.
Proof.
  rewrite existsb_exists. split.
  - intros [x [H E]]. apply str_eqb_eq in E. now subst.
  - intro H. exists u. split; [exact H|apply str_eqb_refl].
Qed.
Lemma nodupb_NoDup l : nodupb str_eqb l = true -> NoDup l.
Proof.
  induction l as [|x l IH]; cbn; [constructor|]. intro H. apply andb_true_iff in H as [H1 H2].
  constructor; [|auto]. intro Hin. apply existsb_str_In in Hin. rewrite Hin in H1. discriminate.
Qed.

Theorem vdb_install_complete_checked_proof c s' :
  sc_kind c = KVInstall -> install_hyps_ok c = true -> nolinks (sc_fs c) ->
  run_opt (sc_ops c) (sc_fs c) = Some s' ->
  vdb_complete s' (sc_loc c) (sc_cat c) (sc_pf c) (sc_items c)
  /\ forall k, In k (vdb_keys (sc_pf c)) -> read_key s' (pkgdir (sc_loc c) (sc_cat c) (sc_pf c)) k <> VNone.
Proof.
  intros Hk Hh Hn Hr. unfold sc_ops in Hr. rewrite Hk in Hr. unfold install_hyps_ok in Hh.
  apply andb_true_iff in Hh as [Hh G7]. apply andb_true_iff in Hh as [Hh G6].
  apply andb_true_iff in Hh as [Hh G5]. apply andb_true_iff in Hh as [Hh G4].
  apply andb_true_iff in Hh as [Hh G3]. apply andb_true_iff in Hh as [G1 G2].
  apply negb_true_iff in G2.
  set (loc := sc_loc c) in *. set (cat := sc_cat c) in *. set (pf := sc_pf c) in *.
  set (items := sc_items c) in *. set (s := sc_fs c) in *.
  assert (A1 : NoDup (map item_name items)) by now apply nodupb_NoDup.
  assert (A2 : ~ In UPD (map item_name items)).
  { intro Hin. apply existsb_str_In in Hin. unfold UPD in Hin. rewrite Hin in G4. discriminate. }
  assert (A3 : forall r, lookup s (pkgdir loc cat pf ++ r) = None).
  { intro r. destruct (lookup s (pkgdir loc cat pf ++ r)) as [n|] eqn:E; [|reflexivity]. apply lookup_In in E.
    rewrite forallb_forall in G5. specialize (G5 _ E). cbn in G5. rewrite is_prefix_app in G5. discriminate. }
  assert (A4 : match lookup s (tmpdir loc cat pf) with Some n => is_dir_node n = true | None => True end).
  { destruct (lookup s (tmpdir loc cat pf)); auto. }
  assert (A5 : forall k, In k (vdb_keys pf) -> exists it, In it items /\ item_name it = fst k).
  { intros k Hin. rewrite forallb_forall in G7. specialize (G7 _ Hin).
    apply existsb_str_In in G7. apply in_map_iff in G7 as [it [E Hi]]. eauto. }
  split.
  - eapply vdb_install_complete_proof; eauto.
  - intros k Hin.
    destruct (vdb_install_keys_proof loc s cat pf items s') as [_ K]; auto.
    destruct (K k Hin) as [it [_ [_ ->]]]. discriminate.
Qed.
