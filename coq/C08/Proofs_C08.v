(* Proofs_C08.v — the candidate search never loses a matching package, yields no key twice, hence
   a query is exactly the brute-force filter; sorted and stacked queries. *)
From Coq Require Import List NArith ZArith Bool Sorting.Sorted Sorting.Permutation.
Import ListNotations.
From Verif Require Import Base.Val C06.Restr C06.RestrInd C06.Model_C06 C06.Proofs_C06
  C08.Ord_C08 C08.Model_C08 C08.Spec_C08 C08.Dnf_C08.

(* ================================================================== 2. small facts *)
Lemma prefixb_refl s : prefixb s s = true.
Proof. induction s as [|x s IH]; cbn; [reflexivity|]. now rewrite N.eqb_refl. Qed.
Lemma substrb_refl s : substrb s s = true.
Proof. destruct s; cbn; [reflexivity|]. now rewrite N.eqb_refl, prefixb_refl. Qed.

Lemma assoc_in_keys {B} k (l : list (str * B)) : In k (map fst l) -> exists v, assoc k l = Some v.
Proof.
  induction l as [|[k' v] l IH]; cbn; [tauto|]. intros H.
  destruct (str_eqb k k') eqn:E; [eauto|]. destruct H as [<-|H]; [|auto].
  rewrite str_eqb_refl in E. discriminate.
Qed.
Lemma assoc_In {B} k (l : list (str * B)) v : assoc k l = Some v -> In (k, v) l.
Proof.
  induction l as [|[k' v'] l IH]; cbn; [discriminate|].
  destruct (str_eqb k k') eqn:E; [|auto]. intros H. injection H as <-.
  apply str_eqb_eq in E. subst. now left.
Qed.
Lemma assoc_nodup {B} k (l : list (str * B)) v : NoDup (map fst l) -> In (k, v) l -> assoc k l = Some v.
Proof.
  induction l as [|[k' v'] l IH]; cbn; [tauto|]. intros Hnd H. inversion Hnd as [|? ? Hnot Hnd']; subst.
  destruct H as [H|H].
  - injection H as -> ->. now rewrite str_eqb_refl.
  - destruct (str_eqb k k') eqn:E; [|auto]. apply str_eqb_eq in E. subst.
    exfalso. apply Hnot. apply in_map_iff. exists (k', v). auto.
Qed.

Lemma has_cp_in R c p : In p (packages_get R c) -> has_cp R (c, p) = true.
Proof.
  unfold packages_get, has_cp. cbn [fst snd]. destruct (assoc c R) as [ps|]; [|intros []].
  intros H. destruct (assoc_in_keys _ _ H) as [v ->]. reflexivity.
Qed.
Lemma in_cps_of R cats c p : In c cats -> In p (packages_get R c) -> In (c, p) (cps_of R cats).
Proof.
  intros Hc Hp. unfold cps_of. apply in_flat_map. exists c. split; [assumption|].
  apply in_map. assumption.
Qed.

(* ================================================================== 3. the fast path *)
Section Fast.
  Variable w : world.
  Variable R : repo.

  Definition sel_ok (ms : list vmatch) (s : str) : Prop :=
    ms = [] \/ exists m, In m ms /\ vm w m s = true.

  Lemma any_match_intro ms sen s m : In m ms -> vm w m s = sen -> any_match w ms sen s = true.
  Proof.
    intros Hin Hv. unfold any_match. apply existsb_exists. exists m. split; [assumption|].
    rewrite Hv. apply eqb_reflx.
  Qed.
  Lemma is_exact_inv m : is_exact m = true -> exists s, m = MExact s false.
  Proof. destruct m as [s [|]| | |]; try discriminate. eauto. Qed.
  Lemma exacts_In s ms : In s (exacts ms) <-> In (MExact s false) ms.
  Proof.
    unfold exacts. rewrite dedup_In, in_flat_map. split.
    - intros [m [Hm Hs]]. destruct m as [s' [|]| | |]; try contradiction.
      destruct Hs as [<-|[]]. assumption.
    - intros H. exists (MExact s false). split; [assumption|now left].
  Qed.
  Lemma rest_In m ms : In m (rest ms) <-> In m ms /\ is_exact m = false.
  Proof. unfold rest. rewrite filter_In. now rewrite negb_true_iff. Qed.
  Lemma vm_exact s0 s : vm w (MExact s0 false) s = true -> s0 = s.
  Proof. cbn. rewrite xorb_false_r. apply str_eqb_eq. Qed.

  Lemma sel_single ms s s0 : sel_ok ms s -> exacts ms = [s0] -> rest ms = [] -> s = s0.
  Proof.
    intros [->|[m [Hin Hv]]] He Hr; [discriminate|].
    destruct (is_exact m) eqn:E.
    - apply is_exact_inv in E as [s1 ->]. apply vm_exact in Hv. subst s1.
      apply exacts_In in Hin. rewrite He in Hin. destruct Hin as [<-|[]]. reflexivity.
    - assert (H : In m (rest ms)) by (apply rest_In; auto). rewrite Hr in H. destruct H.
  Qed.
  Lemma sel_in_exact ms s : sel_ok ms s -> ms <> [] -> rest ms = [] -> In s (exacts ms).
  Proof.
    intros [->|[m [Hin Hv]]] Hne Hr; [congruence|].
    destruct (is_exact m) eqn:E.
    - apply is_exact_inv in E as [s1 ->]. apply vm_exact in Hv. subst s1. now apply exacts_In.
    - assert (H : In m (rest ms)) by (apply rest_In; auto). rewrite Hr in H. destruct H.
  Qed.
  Lemma sel_rest ms s : sel_ok ms s -> ms <> [] -> exacts ms = [] -> any_match w (rest ms) true s = true.
  Proof.
    intros [->|[m [Hin Hv]]] Hne He; [congruence|].
    destruct (is_exact m) eqn:E.
    - apply is_exact_inv in E as [s1 ->]. apply exacts_In in Hin. rewrite He in Hin. destruct Hin.
    - apply (any_match_intro _ _ _ m); [apply rest_In; auto|assumption].
  Qed.
  Lemma sel_filter ms s : sel_ok ms s -> ms <> [] ->
    any_match w (rest ms ++ [MContain (exacts ms)]) true s = true.
  Proof.
    intros [->|[m [Hin Hv]]] Hne; [congruence|].
    destruct (is_exact m) eqn:E.
    - apply is_exact_inv in E as [s1 ->]. apply vm_exact in Hv. subst s1.
      apply (any_match_intro _ _ _ (MContain (exacts ms))); [apply in_app_iff; right; now left|].
      cbn. apply existsb_exists. exists s. split; [now apply exacts_In|apply substrb_refl].
    - apply (any_match_intro _ _ _ m); [apply in_app_iff; left; apply rest_In; auto|assumption].
  Qed.
  Lemma exacts_nil_ne ms x l : exacts ms = x :: l -> ms <> [].
  Proof. intros H ->. discriminate. Qed.
  Lemma rest_nil_ne ms x l : rest ms = x :: l -> ms <> [].
  Proof. intros H ->. discriminate. Qed.

  Variables c p : str.
  Hypothesis Hc : In c (categories R).
  Hypothesis Hp : In p (packages_get R c).

  Lemma fast_pkgs_sound pms cats pe pr : In c cats -> sel_ok pms p ->
    pe = exacts pms -> pr = rest pms -> In (c, p) (fast_pkgs w R false cats pe pr).
  Proof.
    intros Hcat Hsel Hpe Hpr. unfold fast_pkgs, package_filter. cbn [negb].
    destruct pe as [|p0 pe]; destruct pr as [|m pr].
    - now apply in_cps_of.
    - apply in_flat_map. exists c. split; [assumption|]. apply in_map. apply filter_In. split; [assumption|].
      rewrite Hpr. apply sel_rest; auto. symmetry in Hpr. exact (rest_nil_ne _ _ _ Hpr).
    - apply in_flat_map. exists c. split; [assumption|]. apply in_map. rewrite Hpe.
      apply sel_in_exact; auto. symmetry in Hpe. exact (exacts_nil_ne _ _ _ Hpe).
    - apply in_flat_map. exists c. split; [assumption|]. apply in_map. apply filter_In. split; [assumption|].
      rewrite Hpe, Hpr. apply sel_filter; auto. symmetry in Hpr. exact (rest_nil_ne _ _ _ Hpr).
  Qed.

  Lemma fast_body_sound cms pms : sel_ok cms c -> sel_ok pms p ->
    In (c, p) (fast_body w R false (exacts cms) (rest cms) (exacts pms) (rest pms)).
  Proof.
    intros Hsc Hsp. unfold fast_body.
    destruct (exacts cms) as [|c0 ce] eqn:E1; destruct (rest cms) as [|m cr] eqn:E2.
    - apply (fast_pkgs_sound pms); auto.
    - apply (fast_pkgs_sound pms); auto. unfold cat_filter. apply filter_In. split; [assumption|].
      cbn [negb]. rewrite <- E2. apply sel_rest; auto. exact (rest_nil_ne _ _ _ E2).
    - destruct ce as [|c1 ce].
      + assert (c = c0) by (apply (sel_single cms); assumption). subst c0.
        destruct (rest pms) as [|pm pr] eqn:E3; destruct (exacts pms) as [|p0 [|p1 pe]] eqn:E4;
          try (apply (fast_pkgs_sound pms); auto; now left).
        assert (p = p0) by (apply (sel_single pms); assumption). subst p0.
        rewrite (has_cp_in _ _ _ Hp). now left.
      + apply (fast_pkgs_sound pms); auto. unfold cat_filter. apply filter_In. split; [assumption|].
        cbn [negb]. pose proof (sel_filter cms c Hsc (exacts_nil_ne _ _ _ E1)) as H.
        rewrite E1, E2 in H. exact H.
    - apply (fast_pkgs_sound pms); auto. unfold cat_filter. apply filter_In. split; [assumption|].
      cbn [negb]. pose proof (sel_filter cms c Hsc (exacts_nil_ne _ _ _ E1)) as H.
      rewrite E1, E2 in H. exact H.
  Qed.

  Lemma fast_sound_pos r : rneg r = false ->
    sel_ok (cat_ms w (pl false r)) c -> sel_ok (pkg_ms w (pl false r)) p -> In (c, p) (fast w R r).
  Proof. intros Hn Hsc Hsp. unfold fast. rewrite Hn. now apply fast_body_sound. Qed.

  Lemma fast_sound_nocoll r : pl false r = [] -> In (c, p) (fast w R r).
  Proof.
    intros H. unfold fast. rewrite H. cbn. destruct (rneg r); cbn; now apply in_cps_of.
  Qed.
End Fast.

(* ================================================================== 4. candidates are complete *)
Section Complete.
  Variable w : world.
  Variable R : repo.
  Variable o : pobj.
  Variables c p : str.
  Hypothesis Hattr : has_attrs o = true.
  Hypothesis Hkey : okey o = (c, p).
  Hypothesis Hc : In c (categories R).
  Hypothesis Hp : In p (packages_get R c).

  Definition fcat (d : leafdesc) : list vmatch := match d with LCat m => [m] | _ => [] end.
  Definition fpkg (d : leafdesc) : list vmatch := match d with LPkg m => [m] | _ => [] end.
  Definition gms (f : leafdesc -> list vmatch) (l : list (bool * N)) : list vmatch :=
    flat_map (fun x => f (info w (snd x))) l.
  Definition reads (f : leafdesc -> list vmatch) (s : str) : Prop :=
    forall i m, In m (f (info w i)) -> base w o i = vm w m s.

  Lemma reads_cat : reads fcat c.
  Proof.
    intros i m Hm. unfold base. destruct o as [c' p' v|c' p'|c' p']; try discriminate;
      cbn in Hkey; injection Hkey as -> ->; destruct (info w i); cbn in Hm; try contradiction;
      destruct Hm as [<-|[]]; reflexivity.
  Qed.
  Lemma reads_pkg : reads fpkg p.
  Proof.
    intros i m Hm. unfold base. destruct o as [c' p' v|c' p'|c' p']; try discriminate;
      cbn in Hkey; injection Hkey as -> ->; destruct (info w i); cbn in Hm; try contradiction;
      destruct Hm as [<-|[]]; reflexivity.
  Qed.

  (* a collection all of whose leaves are un-negated and true at o *)
  Definition all_true (coll : list (bool * N)) : Prop :=
    forall x, In x coll -> fst x = false /\ base w o (snd x) = true.

  Lemma all_true_gms f s coll : reads f s -> all_true coll ->
    forall m, In m (gms f coll) -> vm w m s = true.
  Proof.
    intros Hr Ht m Hm. apply in_flat_map in Hm as [x [Hx Hm]].
    rewrite <- (Hr _ _ Hm). exact (proj2 (Ht x Hx)).
  Qed.
  Lemma all_true_sel f s coll : reads f s -> all_true coll -> sel_ok w (gms f coll) s.
  Proof.
    intros Hr Ht. destruct (gms f coll) as [|m l] eqn:E; [now left|]. right. exists m. split; [now left|].
    apply (all_true_gms f s coll Hr Ht). rewrite E. now left.
  Qed.

  Lemma fast_sound_all_true r : rneg r = false -> all_true (pl false r) -> In (c, p) (fast w R r).
  Proof.
    intros Hn Ht. apply fast_sound_pos; try assumption.
    - exact (all_true_sel fcat c _ reads_cat Ht).
    - exact (all_true_sel fpkg p _ reads_pkg Ht).
  Qed.

  (* the queried restriction is a lone wrapper-negated leaf *)
  Lemma fast_sound_negleaf i : base w o i = false -> In (c, p) (fast w R (Leaf true i)).
  Proof.
    intros Hb. unfold fast. cbn [pl rneg andb cat_ms pkg_ms flat_map snd]. rewrite !app_nil_r.
    destruct (info w i) as [m|m|k] eqn:Ei; cbn [rest filter fast_body].
    - assert (Hv : vm w m c = false) by (rewrite <- (reads_cat i m); [assumption|rewrite Ei; now left]).
      destruct (is_exact m); cbn [negb fast_body fast_pkgs].
      + now apply in_cps_of.
      + apply in_cps_of; [|assumption]. unfold cat_filter. apply filter_In. split; [assumption|].
        apply (any_match_intro w _ _ _ m); [now left|assumption].
    - assert (Hv : vm w m p = false) by (rewrite <- (reads_pkg i m); [assumption|rewrite Ei; now left]).
      destruct (is_exact m); cbn [negb fast_body fast_pkgs].
      + now apply in_cps_of.
      + unfold package_filter. apply in_flat_map. exists c. split; [assumption|]. apply in_map.
        apply filter_In. split; [assumption|]. apply (any_match_intro w _ _ _ m); [now left|assumption].
    - now apply in_cps_of.
  Qed.

  (* --- the clause of the normal form that is true at o *)
  Lemma clause_all_true r s cl : dnf true r = inl s -> In cl s ->
    forallb (eval (base w o)) cl = true -> all_true (flat_map (pl true) cl).
  Proof.
    intros Hs Hcl Hev x Hx. apply in_flat_map in Hx as [lit [Hlit Hx]].
    assert (Hshape : is_lit lit = true).
    { apply (tree_lits_shape r). apply (dnf_lits_proof r s Hs). apply in_concat. eauto. }
    rewrite forallb_forall in Hev. specialize (Hev lit Hlit).
    destruct lit as [n i|b|r'|k n cs]; cbn [pl] in Hx; try contradiction.
    - cbn [andb] in Hx. destruct n; [contradiction|]. destruct Hx as [<-|[]]. cbn [fst snd]. split; [reflexivity|].
      cbn in Hev. now rewrite xorb_false_r in Hev.
    - destruct k; try discriminate; destruct n; contradiction.
  Qed.

  (* every prunable leaf of the tree sits in some clause, and vice versa *)
  Lemma clause_leaf_in_tree r s cl x : dnf true r = inl s -> In cl s ->
    In x (flat_map (pl true) cl) -> In x (pl true r).
  Proof.
    intros Hs Hcl Hx. apply pl_tree_lits. apply in_flat_map in Hx as [lit [Hlit Hx]].
    apply in_flat_map. exists lit. split; [|assumption].
    apply (dnf_lits_proof r s Hs). apply in_concat. eauto.
  Qed.
  Lemma tree_leaf_in_clause r s x : dnf true r = inl s -> In x (pl true r) ->
    exists cl, In cl s /\ In x (flat_map (pl true) cl).
  Proof.
    intros Hs Hx. apply pl_tree_lits in Hx. apply in_flat_map in Hx as [lit [Hlit Hx]].
    apply (dnf_lits_proof r s Hs) in Hlit. apply in_concat in Hlit as [cl [Hcl Hlit]].
    exists cl. split; [assumption|]. apply in_flat_map. eauto.
  Qed.

  (* --- the analysis of the normal form *)
  Definition csel (f : leafdesc -> list vmatch) (cl : clause) : list vmatch :=
    gms f (flat_map (pl true) cl).

  Lemma true_clause_sel f s0 cl : reads f s0 -> all_true (flat_map (pl true) cl) ->
    nonempty (csel f cl) = true -> exists m, In m (csel f cl) /\ vm w m s0 = true.
  Proof.
    intros Hr Ht Hne. destruct (csel f cl) as [|m l] eqn:E; [discriminate|].
    exists m. split; [now left|]. apply (all_true_gms f s0 _ Hr Ht). fold (csel f cl). rewrite E. now left.
  Qed.

  Lemma tree_sel f s0 r s cl spec : reads f s0 -> dnf true r = inl s ->
    (forall cl', In cl' s -> nonempty (csel f cl') = spec) ->
    In cl s -> all_true (flat_map (pl true) cl) -> sel_ok w (gms f (pl true r)) s0.
  Proof.
    intros Hr Hs Hunif Hcl Ht. destruct (gms f (pl true r)) as [|m0 l0] eqn:E0; [now left|]. right.
    assert (H0 : In m0 (gms f (pl true r))) by (rewrite E0; now left).
    apply in_flat_map in H0 as [x [Hx Hm0]].
    destruct (tree_leaf_in_clause r s x Hs Hx) as [cl' [Hcl' Hx']].
    assert (Hspec : spec = true).
    { rewrite <- (Hunif cl' Hcl'). destruct (csel f cl') eqn:E'; [|reflexivity]. exfalso.
      assert (H1 : In m0 (csel f cl')) by (apply in_flat_map; eauto). rewrite E' in H1. destruct H1. }
    destruct (true_clause_sel f s0 cl Hr Ht) as [m [Hm Hv]]; [rewrite (Hunif cl Hcl); assumption|].
    exists m. split; [|assumption]. rewrite <- E0. apply in_flat_map in Hm as [y [Hy Hm]].
    apply in_flat_map. exists y. split; [|assumption]. exact (clause_leaf_in_tree r s cl y Hs Hcl Hy).
  Qed.

  Lemma existsb_neq_false {A} (g : A -> bool) spec l :
    existsb (fun x => negb (Bool.eqb (g x) spec)) l = false -> forall x, In x l -> g x = spec.
  Proof.
    intros H x Hx. apply existsb_false_Forall in H. rewrite Forall_forall in H.
    specialize (H x Hx). apply negb_false_iff in H. now apply eqb_prop.
  Qed.
  Lemma existsb_neq_true {A} (g : A -> bool) (d0 : A) l :
    existsb (fun x => negb (Bool.eqb (g x) (g d0))) l = true -> exists e, In e (d0 :: l) /\ g e = false.
  Proof.
    intros H. apply existsb_exists in H as [x [Hx Hne]]. apply negb_true_iff in Hne.
    apply eqb_false_iff in Hne. destruct (g d0) eqn:E0.
    - exists x. split; [now right|]. destruct (g x); congruence.
    - exists d0. split; [now left|assumption].
  Qed.

  Lemma identify_dnf_sound k n chs cs :
    matches w (Node k n chs) o = true -> identify_dnf w R (Node k n chs) = Some cs -> In (c, p) cs.
  Proof.
    set (r := Node k n chs). intros Hm Hid. unfold identify_dnf in Hid.
    destruct (dnf true r) as [s|] eqn:Hs; [|discriminate].
    pose proof (dnf_complete_proof (base w o) r s Hs Hm) as Hd. unfold eval_dnf in Hd.
    apply existsb_exists in Hd as [cl [Hcl Hev]].
    pose proof (clause_all_true r s cl Hs Hcl Hev) as Htrue.
    assert (Hd_in : In (clause_cp w cl) (map (clause_cp w) s)) by (apply in_map; assumption).
    destruct (existsb (fun x => negb (nonempty (fst x)) && negb (nonempty (snd x))) (map (clause_cp w) s)) eqn:Eall.
    { injection Hid as <-. now apply in_cps_of. }
    assert (Hnone : forall x, In x (map (clause_cp w) s) -> nonempty (fst x) = true \/ nonempty (snd x) = true).
    { intros x Hx. apply existsb_false_Forall in Eall. rewrite Forall_forall in Eall. specialize (Eall x Hx).
      destruct (nonempty (fst x)), (nonempty (snd x)); auto; discriminate. }
    destruct (map (clause_cp w) s) as [|d0 tl] eqn:Eds; [discriminate|].
    assert (Hback : forall cl', In cl' s -> In (clause_cp w cl') (d0 :: tl)) by (intros cl' H'; rewrite <- Eds; now apply in_map).
    destruct (existsb (fun x => negb (Bool.eqb (nonempty (fst x)) (nonempty (fst d0)))) tl) eqn:Ec;
      destruct (existsb (fun x => negb (Bool.eqb (nonempty (snd x)) (nonempty (snd d0)))) tl) eqn:Ep;
      injection Hid as <-.
    - now apply in_cps_of.
    - (* some clause names no category; all name packages *)
      assert (Hunif : forall x, In x (d0 :: tl) -> nonempty (snd x) = nonempty (snd d0)).
      { intros x [<-|Hx]; [reflexivity|]. exact (existsb_neq_false (fun x => nonempty (snd x)) _ _ Ep x Hx). }
      destruct (existsb_neq_true (fun x => nonempty (fst x)) d0 tl Ec) as [e [He Hef]].
      destruct (Hnone e He) as [H|H]; [cbn beta in Hef; congruence|].
      assert (Hspec : nonempty (snd d0) = true) by (rewrite <- (Hunif e He); exact H).
      destruct (true_clause_sel fpkg p cl reads_pkg Htrue) as [m [Hmin Hv]].
      { change (csel fpkg cl) with (snd (clause_cp w cl)). rewrite (Hunif _ Hd_in). exact Hspec. }
      unfold package_filter. apply in_flat_map. exists c. split; [assumption|]. apply in_map.
      apply filter_In. split; [assumption|]. cbn [negb].
      apply (any_match_intro w _ _ _ m); [|assumption].
      apply (proj2 (in_flat_map snd (d0 :: tl) m)). exists (clause_cp w cl). split; assumption.
    - (* some clause names no package; all name categories *)
      assert (Hunif : forall x, In x (d0 :: tl) -> nonempty (fst x) = nonempty (fst d0)).
      { intros x [<-|Hx]; [reflexivity|]. exact (existsb_neq_false (fun x => nonempty (fst x)) _ _ Ec x Hx). }
      destruct (existsb_neq_true (fun x => nonempty (snd x)) d0 tl Ep) as [e [He Hef]].
      destruct (Hnone e He) as [H|H]; [|cbn beta in Hef; congruence].
      assert (Hspec : nonempty (fst d0) = true) by (rewrite <- (Hunif e He); exact H).
      destruct (true_clause_sel fcat c cl reads_cat Htrue) as [m [Hmin Hv]].
      { change (csel fcat cl) with (fst (clause_cp w cl)). rewrite (Hunif _ Hd_in). exact Hspec. }
      apply in_cps_of; [|assumption]. unfold cat_filter. apply filter_In. split; [assumption|]. cbn [negb].
      apply (any_match_intro w _ _ _ m); [|assumption].
      apply (proj2 (in_flat_map fst (d0 :: tl) m)). exists (clause_cp w cl). split; assumption.
    - (* every clause names the same kinds: the fast path on the whole tree *)
      destruct n.
      + apply fast_sound_nocoll; try assumption. unfold r. cbn. destruct k; reflexivity.
      + apply fast_sound_pos; try assumption; [reflexivity| |].
        * change (pl false r) with (pl true r).
          apply (tree_sel fcat c r s cl (nonempty (fst d0)) reads_cat Hs); try assumption.
          intros cl' Hcl'. change (csel fcat cl') with (fst (clause_cp w cl')).
          destruct (Hback cl' Hcl') as [<-|Hx]; [reflexivity|].
          exact (existsb_neq_false (fun x => nonempty (fst x)) _ _ Ec _ Hx).
        * change (pl false r) with (pl true r).
          apply (tree_sel fpkg p r s cl (nonempty (snd d0)) reads_pkg Hs); try assumption.
          intros cl' Hcl'. change (csel fpkg cl') with (snd (clause_cp w cl')).
          destruct (Hback cl' Hcl') as [<-|Hx]; [reflexivity|].
          exact (existsb_neq_false (fun x => nonempty (snd x)) _ _ Ep _ Hx).
  Qed.

  Lemma identify_sound r cs : flat_atom r = true ->
    matches w r o = true -> identify w R r = Some cs -> In (c, p) cs.
  Proof.
    intros Hfa Hm Hid. destruct r as [n i|b|r'|k n chs].
    - cbn [identify] in Hid. injection Hid as <-. unfold matches in Hm. cbn in Hm. destruct n.
      + apply fast_sound_negleaf. destruct (base w o i); [discriminate|reflexivity].
      + apply fast_sound_all_true; [reflexivity|]. intros x [<-|[]]. cbn. split; [reflexivity|].
        now rewrite xorb_false_r in Hm.
    - cbn [identify] in Hid. injection Hid as <-. now apply fast_sound_nocoll.
    - cbn [identify] in Hid. injection Hid as <-. now apply fast_sound_nocoll.
    - destruct k; try exact (identify_dnf_sound _ n chs cs Hm Hid).
      cbn [identify] in Hid. injection Hid as <-. destruct n.
      + now apply fast_sound_nocoll.
      + apply fast_sound_all_true; [reflexivity|]. cbn [pl].
        unfold matches in Hm. cbn [eval node_match] in Hm. rewrite eval_and, xorb_false_l in Hm.
        cbn [flat_atom] in Hfa. rewrite forallb_forall in Hm, Hfa.
        intros x Hx. apply in_flat_map in Hx as [ch [Hch Hx]].
        specialize (Hm ch Hch). specialize (Hfa ch Hch).
        destruct ch as [n i|b|r'|k n cs']; cbn in Hx; try contradiction; [|discriminate].
        destruct n; [contradiction|]. destruct Hx as [<-|[]]. cbn. split; [reflexivity|].
        cbn in Hm. now rewrite xorb_false_r in Hm.
  Qed.

  (* --- the atom shortcut of itermatch *)
  Lemma first_some_leaf cat cs s : first_some (leaf_exact w cat) cs = Some s ->
    exists i, In (Leaf false i) cs /\
      info w i = (if cat then LCat (MExact s false) else LPkg (MExact s false)).
  Proof.
    induction cs as [|ch cs IH]; cbn; [discriminate|].
    destruct (leaf_exact w cat ch) as [s'|] eqn:E.
    - intros H. injection H as ->. destruct ch as [[|] i| | |]; try discriminate. cbn in E.
      exists i. split; [now left|].
      destruct (info w i) as [[s1 [|]| | |]|[s1 [|]| | |]|]; destruct cat; try discriminate; injection E as ->; reflexivity.
    - intros H. destruct (IH H) as [i [Hi Hinfo]]. exists i. split; [now right|assumption].
  Qed.

  Lemma atom_key_sound r k : matches w r o = true -> atom_key w r = Some k -> k = (c, p).
  Proof.
    intros Hm Hk. destruct r as [| | |[] [] chs]; try discriminate. cbn in Hk.
    destruct (first_some (leaf_exact w true) chs) as [c0|] eqn:Ec; [|discriminate].
    destruct (first_some (leaf_exact w false) chs) as [p0|] eqn:Ep; [|discriminate].
    injection Hk as <-. unfold matches in Hm. cbn [eval node_match] in Hm.
    rewrite eval_and, xorb_false_l, forallb_forall in Hm.
    destruct (first_some_leaf true chs c0 Ec) as [i [Hi Hinfo]].
    destruct (first_some_leaf false chs p0 Ep) as [j [Hj Hjnfo]].
    pose proof (Hm _ Hi) as H1. pose proof (Hm _ Hj) as H2. cbn in H1, H2. rewrite xorb_false_r in H1, H2.
    rewrite (reads_cat i (MExact c0 false)) in H1 by (rewrite Hinfo; now left).
    rewrite (reads_pkg j (MExact p0 false)) in H2 by (rewrite Hjnfo; now left).
    apply vm_exact in H1. apply vm_exact in H2. now subst.
  Qed.

  Theorem candidates_complete_sec r cs : flat_atom r = true ->
    matches w r o = true -> candidates w R r = Some cs -> In (c, p) cs.
  Proof.
    intros Hfa Hm Hc0. unfold candidates in Hc0. destruct (atom_key w r) as [k|] eqn:Ek.
    - injection Hc0 as <-. left. exact (atom_key_sound r k Hm Ek).
    - exact (identify_sound r cs Hfa Hm Hc0).
  Qed.
End Complete.

(* ================================================================== 5. no key twice; exact answers *)
Lemma NoDup_app' {A} (l1 l2 : list A) :
  NoDup l1 -> NoDup l2 -> (forall x, In x l1 -> ~ In x l2) -> NoDup (l1 ++ l2).
Proof.
  induction l1 as [|a l1 IH]; cbn; intros H1 H2 Hd; [assumption|].
  inversion H1; subst. constructor.
  - rewrite in_app_iff. intros [H|H]; [contradiction|]. exact (Hd a (or_introl eq_refl) H).
  - apply IH; auto.
Qed.
Lemma NoDup_map_inj {A B} (f : A -> B) l :
  (forall x y, f x = f y -> x = y) -> NoDup l -> NoDup (map f l).
Proof.
  intros Hinj. induction 1 as [|a l Hn Hnd IH]; cbn; constructor; [|assumption].
  intros H. apply in_map_iff in H as [y [Hy Hin]]. apply Hinj in Hy. now subst.
Qed.
Lemma NoDup_flat_map_key {A B} (f : A -> list B) (key : B -> A) l :
  NoDup l -> (forall a, NoDup (f a)) -> (forall a x, In x (f a) -> key x = a) -> NoDup (flat_map f l).
Proof.
  intros Hl Hf Hk. induction Hl as [|a l Hn Hnd IH]; cbn; [constructor|].
  apply NoDup_app'; auto. intros x Hx Hx'. apply in_flat_map in Hx' as [b [Hb Hxb]].
  apply Hk in Hx. apply Hk in Hxb. congruence.
Qed.
Lemma NoDup_pairs {A B} (f : A -> list B) l :
  NoDup l -> (forall a, NoDup (f a)) -> NoDup (flat_map (fun a => map (pair a) (f a)) l).
Proof.
  intros Hl Hf. apply (NoDup_flat_map_key _ fst); auto.
  - intros a. apply NoDup_map_inj; [|auto]. intros x y H. now injection H.
  - intros a x H. apply in_map_iff in H as [y [<- _]]. reflexivity.
Qed.

Section Exact.
  Variable w : world.
  Variable R : repo.
  Hypothesis Hwf : repo_wf R.

  Lemma nodup_categories : NoDup (categories R).
  Proof. exact (proj1 Hwf). Qed.
  Lemma wf_entry c ps : In (c, ps) R ->
    NoDup (map fst ps) /\ Forall (fun pvs => NoDup (snd pvs)) ps.
  Proof. intros H. destruct Hwf as [_ H2]. rewrite Forall_forall in H2. exact (H2 _ H). Qed.
  Lemma nodup_packages c : NoDup (packages_get R c).
  Proof.
    unfold packages_get. destruct (assoc c R) as [ps|] eqn:E; [|constructor].
    apply assoc_In in E. exact (proj1 (wf_entry _ _ E)).
  Qed.
  Lemma nodup_versions k : NoDup (versions_get R k).
  Proof.
    unfold versions_get. destruct (assoc (fst k) R) as [ps|] eqn:E; [|constructor].
    destruct (assoc (snd k) ps) as [vs|] eqn:E2; [|constructor].
    apply assoc_In in E. apply assoc_In in E2. destruct (wf_entry _ _ E) as [_ H].
    rewrite Forall_forall in H. exact (H _ E2).
  Qed.

  Lemma nodup_cps_of cats : NoDup cats -> NoDup (cps_of R cats).
  Proof. intros H. apply NoDup_pairs; [assumption|apply nodup_packages]. Qed.
  Lemma nodup_package_filter cats ms neg : NoDup cats -> NoDup (package_filter w R cats ms neg).
  Proof.
    intros H. unfold package_filter.
    apply (NoDup_pairs (fun c => filter (any_match w ms (negb neg)) (packages_get R c))); [assumption|].
    intros c. apply NoDup_filter. apply nodup_packages.
  Qed.
  Lemma nodup_cat_filter ms neg : NoDup (cat_filter w R ms neg).
  Proof. apply NoDup_filter. apply nodup_categories. Qed.

  Lemma fast_pkgs_nodup neg cats pe pr : NoDup cats -> NoDup pe -> NoDup (fast_pkgs w R neg cats pe pr).
  Proof.
    intros Hc Hp. unfold fast_pkgs. destruct pe as [|p0 pe]; destruct pr as [|m pr].
    - now apply nodup_cps_of.
    - now apply nodup_package_filter.
    - apply (NoDup_pairs (fun _ => p0 :: pe)); auto.
    - now apply nodup_package_filter.
  Qed.
  Lemma fast_body_nodup neg ce cr pe pr : NoDup ce -> NoDup pe -> NoDup (fast_body w R neg ce cr pe pr).
  Proof.
    intros Hce Hpe. unfold fast_body.
    assert (H1 : forall c0, NoDup [c0 : str]) by (intros; constructor; [intros []|constructor]).
    destruct ce as [|c0 [|c1 ce]]; destruct cr as [|m cr];
      try (apply fast_pkgs_nodup; auto using nodup_categories, nodup_cat_filter).
    destruct pr as [|pm pr]; destruct pe as [|p0 [|p1 pe]]; try (apply fast_pkgs_nodup; auto).
    destruct (has_cp R (c0, p0)); constructor; [intros []|constructor].
  Qed.
  Lemma fast_nodup r : NoDup (fast w R r).
  Proof.
    unfold fast. apply fast_body_nodup; destruct (rneg r); try constructor; apply dedup_NoDup_proof.
  Qed.

  Theorem candidates_nodup_sec r cs : candidates w R r = Some cs -> NoDup cs.
  Proof.
    unfold candidates. destruct (atom_key w r) as [k|].
    - intros H. injection H as <-. constructor; [intros []|constructor].
    - assert (Hd : identify_dnf w R r = Some cs -> NoDup cs).
      { unfold identify_dnf. destruct (dnf true r) as [s|]; [|discriminate].
        destruct (existsb _ (map (clause_cp w) s)).
        - intros H. injection H as <-. apply nodup_cps_of, nodup_categories.
        - destruct (map (clause_cp w) s) as [|d0 tl]; [discriminate|].
          destruct (existsb _ tl); destruct (existsb _ tl); intros H; injection H as <-.
          + apply nodup_cps_of, nodup_categories.
          + apply nodup_package_filter, nodup_categories.
          + apply nodup_cps_of, nodup_cat_filter.
          + apply fast_nodup. }
      destruct r as [n i|b|r'|k n chs]; cbn [identify];
        try (intros H; injection H as <-; apply fast_nodup).
      destruct k; try exact Hd. intros H; injection H as <-; apply fast_nodup.
  Qed.

  (* --- the universe of a mode, read back *)
  Lemma universe_inv m o : In o (universe R m) ->
    exists c ps p vs, In (c, ps) R /\ In (p, vs) ps /\ okey o = (c, p) /\
      match m with
      | MVersioned => exists v, o = PV c p v /\ In v vs
      | MUnvCPV => o = PU c p /\ vs <> []
      | MUnvTuple => o = PT c p /\ vs <> []
      end.
  Proof.
    unfold universe. intros H. apply in_flat_map in H as [[c ps] [Hc H]].
    apply in_flat_map in H as [[p vs] [Hp H]]. cbn [fst snd] in H.
    exists c, ps, p, vs. split; [assumption|]. split; [assumption|]. destruct m.
    - apply in_map_iff in H as [v [<- Hv]]. split; [reflexivity|eauto].
    - destruct vs; [destruct H|]. destruct H as [<-|[]]. split; [reflexivity|]. split; [reflexivity|congruence].
    - destruct vs; [destruct H|]. destruct H as [<-|[]]. split; [reflexivity|]. split; [reflexivity|congruence].
  Qed.

  Lemma expand_in m k o : In o (expand R m k) ->
    okey o = k /\ In o (universe R m).
  Proof.
    destruct k as [c p]. unfold expand, versions_get. cbn [fst snd].
    destruct (assoc c R) as [ps|] eqn:E1; [|destruct m; cbn; tauto].
    destruct (assoc p ps) as [vs|] eqn:E2; [|destruct m; cbn; tauto].
    apply assoc_In in E1. apply assoc_In in E2. intros H.
    assert (Hu : forall o', (match m with
                  | MVersioned => exists v, o' = PV c p v /\ In v vs
                  | MUnvCPV => o' = PU c p /\ vs <> []
                  | MUnvTuple => o' = PT c p /\ vs <> [] end) -> In o' (universe R m)).
    { intros o' Ho'. unfold universe. apply in_flat_map. exists (c, ps). split; [assumption|].
      apply in_flat_map. exists (p, vs). split; [assumption|]. cbn [fst snd]. destruct m.
      - destruct Ho' as [v [-> Hv]]. now apply in_map.
      - destruct Ho' as [-> Hne]. destruct vs; [congruence|now left].
      - destruct Ho' as [-> Hne]. destruct vs; [congruence|now left]. }
    destruct m.
    - apply in_map_iff in H as [v [<- Hv]]. split; [reflexivity|]. apply Hu. eauto.
    - destruct vs; [destruct H|]. destruct H as [<-|[]]. split; [reflexivity|]. apply Hu. split; [reflexivity|congruence].
    - destruct vs; [destruct H|]. destruct H as [<-|[]]. split; [reflexivity|]. apply Hu. split; [reflexivity|congruence].
  Qed.

  Lemma universe_expand m o : In o (universe R m) ->
    In o (expand R m (okey o)) /\ In (fst (okey o)) (categories R) /\
    In (snd (okey o)) (packages_get R (fst (okey o))).
  Proof.
    intros H. destruct (universe_inv m o H) as [c [ps [p [vs [Hc [Hp [Hk Hm]]]]]]].
    rewrite Hk. cbn [fst snd].
    assert (E1 : assoc c R = Some ps) by (apply assoc_nodup; [exact (proj1 Hwf)|assumption]).
    assert (E2 : assoc p ps = Some vs) by (apply assoc_nodup; [exact (proj1 (wf_entry _ _ Hc))|assumption]).
    split; [|split].
    - unfold expand, versions_get. cbn [fst snd]. rewrite E1, E2. destruct m.
      + destruct Hm as [v [-> Hv]]. now apply in_map.
      + destruct Hm as [-> Hne]. destruct vs; [congruence|now left].
      + destruct Hm as [-> Hne]. destruct vs; [congruence|now left].
    - unfold categories. apply in_map_iff. exists (c, ps). auto.
    - unfold packages_get. rewrite E1. apply in_map_iff. exists (p, vs). auto.
  Qed.

  Lemma expand_nodup m k : NoDup (expand R m k).
  Proof.
    unfold expand. destruct m.
    - apply NoDup_map_inj; [|apply nodup_versions]. intros x y H. now injection H.
    - destruct (nonempty _); constructor; [intros []|constructor].
    - destruct (nonempty _); constructor; [intros []|constructor].
  Qed.

  Theorem query_exact_sec m r got : flat_atom r = true -> m <> MUnvTuple ->
    itermatch w R m r = Some got -> exact_answer got (brute w R m r).
  Proof.
    intros Hfa Hm Hq. unfold itermatch in Hq. destruct (candidates w R r) as [cs|] eqn:Ec; [|discriminate].
    injection Hq as <-. split.
    - apply NoDup_filter. apply (NoDup_flat_map_key _ okey).
      + exact (candidates_nodup_sec r cs Ec).
      + apply expand_nodup.
      + intros k x Hx. exact (proj1 (expand_in m k x Hx)).
    - intros o. unfold brute. rewrite !filter_In. split.
      + intros [Hin Hmatch]. split; [|assumption]. apply in_flat_map in Hin as [k [_ Hin]].
        exact (proj2 (expand_in m k o Hin)).
      + intros [Hin Hmatch]. split; [|assumption].
        destruct (universe_expand m o Hin) as [Hexp [Hcat Hpkg]].
        apply in_flat_map. exists (okey o). split; [|assumption].
        destruct (okey o) as [c p] eqn:Hk. cbn [fst snd] in *.
        assert (Hattr : has_attrs o = true).
        { destruct (universe_inv m o Hin) as [c' [ps [p' [vs [_ [_ [_ Ho]]]]]]].
          destruct m; [destruct Ho as [v [-> _]]|destruct Ho as [-> _]|congruence]; reflexivity. }
        exact (candidates_complete_sec w R o c p Hattr Hk Hcat Hpkg r cs Hfa Hmatch Ec).
  Qed.

  Theorem candidates_total_sec r : exists cs, candidates w R r = Some cs.
  Proof.
    unfold candidates. destruct (atom_key w r); [eauto|].
    assert (Hd : exists cs, identify_dnf w R r = Some cs).
    { unfold identify_dnf. destruct (dnf_never_refuses_proof true r) as [s [-> Hne]].
      destruct (existsb _ (map (clause_cp w) s)); [eauto|].
      destruct s as [|cl s]; [congruence|]. cbn [map].
      destruct (existsb _ (map (clause_cp w) s)); destruct (existsb _ (map (clause_cp w) s)); eauto. }
    destruct r as [n i|b|r'|k n chs]; cbn [identify]; eauto. destruct k; eauto.
  Qed.
End Exact.

(* ================================================================== 6. closed forms for Prop_C08 *)
Theorem candidates_complete_proof : forall w R r o c p cs,
  flat_atom r = true -> has_attrs o = true -> okey o = (c, p) ->
  In c (categories R) -> In p (packages_get R c) ->
  matches w r o = true -> candidates w R r = Some cs -> In (c, p) cs.
Proof. intros. eapply candidates_complete_sec; eauto. Qed.

Theorem candidates_nodup_proof : forall w R r cs,
  repo_wf R -> candidates w R r = Some cs -> NoDup cs.
Proof. intros. eapply candidates_nodup_sec; eauto. Qed.

Theorem query_never_raises_proof : forall w R m r, exists got, itermatch w R m r = Some got.
Proof.
  intros. unfold itermatch. destruct (candidates_total_sec w R r) as [cs ->]. eauto.
Qed.

Theorem query_exact_proof : forall w R m r got,
  repo_wf R -> flat_atom r = true -> m <> MUnvTuple ->
  itermatch w R m r = Some got -> exact_answer got (brute w R m r).
Proof. intros. eapply query_exact_sec; eauto. Qed.
