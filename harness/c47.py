"""C47 — tarball sync replaces a repository atomically and recovers from interruption
(DESIGN §6 C47).

Every case is one scenario: an initial state of the repos directory (previous tree with or
without .etag/.modified, no repository yet, stale staging directories left by an earlier
crash, a non-directory in the way), one HTTP server behaviour (good tarball gz/bz2/xz, 404/500,
body shorter than Content-Length, corrupt / garbage archive, 304 via If-None-Match /
If-Modified-Since, a server that ignores the conditional headers, force) and the follow-up
sync's server.  The REAL `tar_syncer(...).sync()` runs in a forked child process (own atexit
list, os._exit on a simulated crash: no destructors, no atexit) against a local HTTP server
process (127.0.0.1 only) with harness/fsx.py tracing every mutating filesystem call below the
scratch root (tempfile.tempdir points inside it).  After the reference run the scenario is
rebuilt and re-run once per crash point: before every mutating call of the process (download
temp file, each written block, the commit rename, the staging mkdirs, the two renames, each
etag/modified open and write chunk, every unlink/rmdir of the exit cleanups) and inside the
external tar (the first j members extracted, then the crash).  After every crash: snapshot,
then a follow-up sync with a good server, snapshot again.
  (A) in Coq: outcome, abstract step sequence, final state, every crash state and the
      follow-up's outcome/final state == Model_C47.sync (run_case);
  (B) in Coq on the observed states only: Spec_C47.point_code / final_code (the statement), and
      the same classification in Python for the report; plus Python oracles: the tree tar
      produced == the members of the tarball (complete new tree), nothing else below the
      repos directory changes (frame).
"""

from __future__ import annotations

import atexit
import gc
import io
import json
import os
import pickle
import shutil
import subprocess
import sys
import tarfile
import tempfile
import traceback
import zlib

from . import fsx
from .common import Check, Raw, cN, cbool, clist, cnat, copt, cstr

IMPORTS = ("From Coq Require Import List NArith ZArith Bool.\n"
           "From Verif Require Import Base.Val C18.Fs C47.Model_C47 C47.Spec_C47.")
PREAMBLE = ("Definition F (p : path) (d : list N) (m : N) : path * node := (p, File d m 0 0 NOW 0).\n"
            "Definition D (p : path) (m : N) : path * node := (p, Dir m 0 0 NOW).\n"
            "Definition L (p : path) (t : list N) : path * node := (p, Sym t 0 0 NOW).\n"
            "Definition SD (t : tree) : option slot := Some (SDir t).\n"
            "Definition SF : option slot := Some SFile.\n"
            "Definition NS : option slot := None.\n")
ANCHORS = ["sync/tar.py::tar_syncer._pre_download", "sync/tar.py::tar_syncer._post_download",
           "sync/http.py::http_syncer._sync", "sync/http.py::http_syncer._post_download",
           "sync/http.py::http_syncer._pre_download"]
LEGACY = os.environ.get("VERIF_C47_LEGACY") == "1"       # dev: compare with the un-repaired model

NAME = "gentoo"
UPD = "." + NAME + ".update"
OLD = "." + NAME + ".old"

SERVER_CODE = r'''
import http.server, json, os, sys
spool = sys.argv[1]
class H(http.server.BaseHTTPRequestHandler):
    def log_message(self, *a): pass
    def do_GET(self):
        ident = self.path.strip("/").split("/")[0]
        try:
            meta = json.load(open(os.path.join(spool, ident + ".json")))
            body = open(os.path.join(spool, ident + ".body"), "rb").read()
        except OSError:
            self.send_error(404); return
        if meta["status"] != 200:
            self.send_error(meta["status"]); return
        if meta.get("broken"):
            # a chunked body whose second chunk header is garbage: the client's read raises
            self.protocol_version = "HTTP/1.1"
            self.send_response(200)
            self.send_header("Transfer-Encoding", "chunked")
            if meta["etag"]: self.send_header("ETag", meta["etag"])
            self.send_header("Connection", "close")
            self.end_headers()
            self.wfile.write(b"5\r\nhello\r\nZZZ\r\nxx"); self.wfile.flush()
            self.close_connection = True
            return
        inm = self.headers.get("If-None-Match"); ims = self.headers.get("If-Modified-Since")
        if (meta["inm"] and meta["etag"] and inm == meta["etag"]) or \
           (meta["ims"] and meta["modified"] and ims == meta["modified"]):
            self.send_response(304); self.end_headers(); return
        self.send_response(200)
        self.send_header("Content-Length", str(meta["declared"] if meta["declared"] is not None else len(body)))
        if meta["etag"]: self.send_header("ETag", meta["etag"])
        if meta["modified"]: self.send_header("Last-Modified", meta["modified"])
        self.end_headers()
        try:
            self.wfile.write(body); self.wfile.flush()
        except OSError:
            pass
srv = http.server.HTTPServer(("127.0.0.1", 0), H)
print(srv.server_address[1], flush=True)
srv.serve_forever()
'''


# ------------------------------------------------------------------------------ tarballs
def make_tarball(members, ext, top="repo-snapshot"):
    """members: list of (relpath, kind, payload): kind 'd' (payload None), 'f' (bytes), 'l' (target)."""
    bio = io.BytesIO()
    mode = {"gz": "w:gz", "bz2": "w:bz2", "xz": "w:xz"}[ext]
    with tarfile.open(fileobj=bio, mode=mode) as tf:
        ti = tarfile.TarInfo(top)
        ti.type = tarfile.DIRTYPE
        ti.mode = 0o755
        tf.addfile(ti)
        for rel, kind, payload in members:
            ti = tarfile.TarInfo(f"{top}/{rel}")
            if kind == "d":
                ti.type = tarfile.DIRTYPE
                ti.mode = 0o755
                tf.addfile(ti)
            elif kind == "l":
                ti.type = tarfile.SYMTYPE
                ti.linkname = payload
                tf.addfile(ti)
            else:
                ti.size = len(payload)
                ti.mode = 0o644
                tf.addfile(ti, io.BytesIO(payload))
    return bio.getvalue()


def cdata(b):
    """file content as it crosses into Coq: long contents (the multi-block test blob) are replaced by
    a 12-byte digest — the model never looks inside file data of the trees"""
    if len(b) <= 256:
        return b
    return b"\x00BIG" + zlib.crc32(b).to_bytes(4, "big") + len(b).to_bytes(4, "big")


def members_tree(members):
    t = {}
    for rel, kind, payload in members:
        p = tuple(rel.split("/"))
        if kind == "d":
            t[p] = ("dir", 0o755)
        elif kind == "l":
            t[p] = ("sym", payload)
        else:
            t[p] = ("file", cdata(payload), 0o644)
    return t


def gen_members(rng, tagbyte, big=False):
    mem = []
    dirs = []
    for d in rng.sample(["cat", "metadata", "profiles", "eclass"], rng.randint(0, 2)):
        mem.append((d, "d", None))
        dirs.append(d)
    nfiles = rng.randint(1, 3)
    for i in range(nfiles):
        d = rng.choice(dirs) + "/" if dirs and rng.random() < 0.7 else ""
        name = d + rng.choice(["a", "b", "layout.conf", "x.ebuild"]) + str(i)
        data = bytes([tagbyte]) + bytes(rng.randrange(97, 123) for _ in range(rng.randint(0, 3)))
        mem.append((name, "f", data))
    if rng.random() < 0.25:
        mem.append(("lnk", "l", rng.choice(["cat", "nowhere", "../x"])))
    if big:
        mem.append(("blob", "f", bytes(rng.randrange(256) for _ in range(rng.choice([6000, 9500])))))
    return mem


# ------------------------------------------------------------------------------ scenarios
def gen_tree(rng, tagbyte):
    t = {}
    for d in rng.sample(["cat", "metadata", "old"], rng.randint(0, 2)):
        t[(d,)] = ("dir", 0o755)
        if rng.random() < 0.7:
            t[(d, "f" + str(rng.randint(0, 9)))] = ("file", bytes([tagbyte, rng.randrange(97, 123)]), 0o644)
    if rng.random() < 0.8:
        t[("top",)] = ("file", bytes([tagbyte]), rng.choice([0o644, 0o600]))
    return t


ETAGS = ['"v1"', '"v2"', 'W/"x"', "abc"]
DATES = ["Mon, 01 Jan 2024 00:00:00 GMT", "Tue, 02 Jan 2024 10:00:00 GMT"]


def gen_case(rng, forced_kind=None):
    kind = forced_kind or rng.choice(
        ["good"] * 8 + ["http-error", "truncated", "broken-transfer", "corrupt", "garbage", "unchanged-304", "unchanged-304-ims",
                        "unchanged-manual", "ignored-by-force", "initial", "stale-staging", "window-state",
                        "base-is-file", "staging-is-file", "big"])
    c = {"kind": kind, "force": False, "ext": rng.choice(["gz", "gz", "bz2", "xz"]),
         "base": gen_tree(rng, 79), "upd": None, "old": None, "chunk": rng.choice([0, 0, 0, 64])}
    has_etag = rng.random() < 0.7
    has_mod = rng.random() < 0.4
    prev_etag = rng.choice(ETAGS[:2])
    prev_mod = DATES[0]
    if has_etag:
        c["base"][(".etag",)] = ("file", prev_etag.encode(), 0o644)
    if has_mod:
        c["base"][(".modified",)] = ("file", prev_mod.encode(), 0o644)
    big = kind == "big" or (kind == "truncated")
    members = gen_members(rng, 78, big=big)
    sv = {"status": 200, "inm": rng.random() < 0.7, "ims": rng.random() < 0.7,
          "etag": rng.choice([None, '"n1"', '"n2"']), "modified": rng.choice([None, None, DATES[1]]),
          "declared": None, "members": members, "body": "tar"}
    if sv["etag"] is None and sv["modified"] is None and rng.random() < 0.7:
        sv["etag"] = '"n3"'
    if kind == "http-error":
        sv["status"] = rng.choice([404, 500])
    elif kind == "truncated":
        sv["body"] = "truncated"
    elif kind == "broken-transfer":
        sv["body"] = "broken"
    elif kind == "corrupt":
        sv["body"] = "corrupt"
    elif kind == "garbage":
        sv["body"] = "garbage"
    elif kind == "unchanged-304":
        c["base"][(".etag",)] = ("file", prev_etag.encode(), 0o644)
        sv["etag"], sv["inm"] = prev_etag, True
    elif kind == "unchanged-304-ims":
        c["base"][(".modified",)] = ("file", prev_mod.encode(), 0o644)
        c["base"].pop((".etag",), None)
        sv["modified"], sv["ims"] = prev_mod, True
    elif kind == "unchanged-manual":
        if rng.random() < 0.5:
            c["base"][(".etag",)] = ("file", prev_etag.encode(), 0o644)
            sv["etag"], sv["inm"] = prev_etag, False
        else:
            c["base"][(".modified",)] = ("file", prev_mod.encode(), 0o644)
            c["base"].pop((".etag",), None)
            sv["modified"], sv["ims"], sv["etag"] = prev_mod, False, None
    elif kind == "ignored-by-force":
        c["base"][(".etag",)] = ("file", prev_etag.encode(), 0o644)
        sv["etag"], sv["inm"] = prev_etag, rng.random() < 0.5
        c["force"] = True
    elif kind == "initial":
        c["base"] = None
    elif kind == "stale-staging":
        if rng.random() < 0.7:
            c["upd"] = gen_tree(rng, 85)
        if rng.random() < 0.7 or c["upd"] is None:
            c["old"] = gen_tree(rng, 111)
    elif kind == "window-state":
        c["old"] = c["base"]
        c["base"] = None
        c["upd"] = gen_tree(rng, 85) if rng.random() < 0.8 else None
    elif kind == "base-is-file":
        c["base"] = "file"
    elif kind == "staging-is-file":
        c[rng.choice(["upd", "old"])] = "file"
    if c["chunk"]:
        # writes are split into 64-byte calls: a long etag so that a crash can leave half of it
        if sv["etag"] not in (None, prev_etag):
            sv["etag"] = '"' + "".join(rng.choice("0123456789abcdef") for _ in range(rng.randint(70, 120))) + '"'
        c["ext"] = "gz"
    if big:
        c["chunk"] = 0
    c["srv"] = sv
    # the follow-up sync: a good server with another tarball; sometimes the same etag as the first
    sv2 = {"status": 200, "inm": rng.random() < 0.5, "ims": False,
           "etag": sv["etag"] if rng.random() < 0.4 else rng.choice([None, '"m1"']),
           "modified": None, "declared": None, "members": gen_members(rng, 77), "body": "tar"}
    if rng.random() < 0.25:
        sv2["status"] = 404            # a follow-up that cannot fetch: the previous tree must be back in place
    c["srv2"] = sv2
    c["force2"] = rng.random() < 0.25
    c["ext2"] = "gz"
    return c


# ------------------------------------------------------------------------------ scratch root
def write_tree(dst, tree):
    os.mkdir(dst, 0o755)
    for p in sorted(tree):
        node = tree[p]
        full = os.path.join(dst, *p)
        if node[0] == "dir":
            os.mkdir(full, node[1])
        elif node[0] == "sym":
            os.symlink(node[1], full)
        else:
            with open(full, "wb") as f:
                f.write(node[1])
            os.chmod(full, node[2])


def put_slot(path, v):
    if v is None:
        return
    if v == "file":
        with open(path, "wb") as f:
            f.write(b"x")
        return
    write_tree(path, v)


def build_root(root, state):
    """state: {'base','upd','old'}: None | 'file' | tree dict"""
    shutil.rmtree(root, ignore_errors=True)
    os.makedirs(os.path.join(root, "repos", "other"))
    with open(os.path.join(root, "repos", "other", "keep"), "wb") as f:
        f.write(b"keep")
    os.mkdir(os.path.join(root, "tmp"))
    put_slot(os.path.join(root, "repos", NAME), state["base"])
    put_slot(os.path.join(root, "repos", UPD), state["upd"])
    put_slot(os.path.join(root, "repos", OLD), state["old"])


def tree_from_snapshot(snap, prefix):
    """None | 'file' | {relpath: canonical node}"""
    if prefix:
        n = snap.get(prefix)
        if n is None:
            return None
        if n[0] != "dir":
            return "file"
    t = {}
    k = len(prefix)
    for p, nd in snap.items():
        if len(p) > k and p[:k] == prefix:
            if nd[0] == "file":
                t[p[k:]] = ("file", cdata(nd[1]), nd[2])
            elif nd[0] == "dir":
                t[p[k:]] = ("dir", nd[1])
            elif nd[0] == "sym":
                t[p[k:]] = ("sym", nd[1])
            else:
                t[p[k:]] = ("other", nd[0])
    return t


def chunk_ids(data, sizes):
    out, off = [], 0
    for n in sizes:
        if off >= len(data):
            break
        out.append(zlib.crc32(data[off:off + n]) % 65521 + 1)
        off += n
    if off < len(data):
        out.append(zlib.crc32(data[off:]) % 65521 + 1)
    return out


def observe(root, T, sizes):
    snap = fsx.snapshot(root)
    st = {"base": tree_from_snapshot(snap, ("repos", NAME)), "upd": tree_from_snapshot(snap, ("repos", UPD)),
          "old": tree_from_snapshot(snap, ("repos", OLD)), "tf": None, "dl": None}
    if T is not None:
        a = snap.get(("tmp", T))
        b = snap.get(("tmp", ".update." + T))
        st["tf"] = chunk_ids(a[1], sizes) if a is not None and a[0] == "file" else None
        st["dl"] = chunk_ids(b[1], sizes) if b is not None and b[0] == "file" else None
    other = {p: n for p, n in snap.items()
             if p[0] == "repos" and len(p) > 1 and p[1] not in (NAME, UPD, OLD)}
    frame_ok = set(other) == {("repos", "other"), ("repos", "other", "keep")} and \
        other[("repos", "other", "keep")][1] == b"keep"
    return st, frame_ok


# ------------------------------------------------------------------------------ the child process
def _classify_exc(e):
    from pkgcore.sync import base as syncbase
    name = type(e).__name__
    msg = str(e)
    if isinstance(e, syncbase.SyncError):
        for pre, code in (("failed fetching", 1), ("failed creating repo dir", 2),
                          ("failed creating repo update dirs", 4), ("failed to unpack tarball", 5),
                          ("failed to update repo", 6)):
            if msg.startswith(pre):
                return code, f"{name}: {msg[:120]}"
        return 90, f"{name}: {msg[:120]}"
    if name == "IncompleteRead":
        return 3, name
    return 91, f"{name}: {msg[:160]}"


def _child(root, url, force, crash_at, tar_crash, spool, chunk):
    """one sync process.  Runs in a forked child (thorough tier: the process really dies at a crash)
    or in the harness process (quick tier; process creation is expensive in the sandbox): every
    patch is undone afterwards and the objects a dead process would never have finalised are
    neutralised so that no destructor touches the tree later."""
    from pkgcore.sync import tar as tarmod
    saved = {"umask": os.umask(0o022), "tempdir": tempfile.tempdir, "stdout": sys.stdout, "stderr": sys.stderr,
             "register": atexit.register, "fd": shutil._use_fd_functions, "run": subprocess.run,
             "cleanup": tempfile._TemporaryFileCloser.cleanup}
    try:
        return _child_body(tarmod, root, url, force, crash_at, tar_crash, spool, chunk)
    finally:
        os.umask(saved["umask"])
        tempfile.tempdir = saved["tempdir"]
        sys.stdout, sys.stderr = saved["stdout"], saved["stderr"]
        atexit.register = saved["register"]
        shutil._use_fd_functions = saved["fd"]
        subprocess.run = saved["run"]
        tempfile._TemporaryFileCloser.cleanup = saved["cleanup"]


def _neutralise(s):
    """the process is dead: its AtomicWriteFile / NamedTemporaryFile objects must never run their
    destructors (they would unlink files of the crash state)"""
    d = getattr(s, "_download", None)
    if d is not None:
        try:
            d._real_close()
        except Exception:  # noqa: BLE001
            pass
        d._is_finalized = True
    t = getattr(s, "tarball", None)
    if t is not None:
        closer = getattr(t, "_closer", None)
        if closer is not None:
            closer.delete = False
        try:
            t.file.close()
        except Exception:  # noqa: BLE001
            pass


def _child_body(tarmod, root, url, force, crash_at, tar_crash, spool, chunk):
    tempfile.tempdir = os.path.join(root, "tmp")
    sys.stdout = io.StringIO()
    sys.stderr = io.StringIO()         # "Exception ignored in __del__" of a crashed destructor
    handlers = []

    def reg(f, *a, **k):
        handlers.append((f, a, k))
        return f

    atexit.register = reg
    shutil._use_fd_functions = False          # rmtree through path-based calls (traceable)
    info = {"tar_ran": False, "tar_tree": None, "tar_ok": None}
    real_run = subprocess.run

    def run_wrapper(cmd, *a, **kw):
        if not (isinstance(cmd, (list, tuple)) and cmd and cmd[0] == "tar"):
            return real_run(cmd, *a, **kw)
        info["tar_ran"] = True
        info["tar_cmd"] = list(cmd)
        dest = cmd[cmd.index("-C") + 1]
        if tar_crash is not None:
            src = cmd[cmd.index("-f") + 1]
            part = os.path.join(spool, f"partial-{os.getpid()}.tar")
            with tarfile.open(src, "r:*") as tin, tarfile.open(part, "w") as tout:
                for i, m in enumerate(tin):
                    if i >= tar_crash + 1:       # +1: the top directory member
                        break
                    tout.addfile(m, tin.extractfile(m) if m.isreg() else None)
            real_run(["tar", "--extract", "-f", part, "--strip-components=1", "--no-same-owner", "-C", dest],
                     stderr=subprocess.PIPE)
            os.unlink(part)
            raise fsx.Crash()
        try:
            r = real_run(cmd, *a, **kw)
            info["tar_ok"] = r.returncode == 0       # the real exit status, whatever the caller does with it
            return r
        except subprocess.CalledProcessError:
            info["tar_ok"] = False
            raise
        finally:
            info["tar_tree"] = tree_from_snapshot(fsx.snapshot(dest), ())

    subprocess.run = run_wrapper
    # tempfile binds os.unlink as a default argument at import time: route it through the traced os.unlink
    _orig_cleanup = tempfile._TemporaryFileCloser.cleanup

    def _cleanup(self, windows=False, unlink=None):
        return _orig_cleanup(self, windows, os.unlink)

    tempfile._TemporaryFileCloser.cleanup = _cleanup
    keep = {}

    def fn():
        code, detail = 0, None
        try:
            s = tarmod.tar_syncer(os.path.join(root, "repos", NAME), url)
            keep["s"] = s
            r = s.sync(force=force)
            if r is not True:
                code, detail = 92, repr(r)
        except Exception as e:  # noqa: BLE001
            code, detail = _classify_exc(e)
        # the process exits normally: atexit handlers (LIFO), then the objects die
        for f, a, k in reversed(handlers):
            f(*a, **k)
        keep.clear()
        s = None
        gc.collect()
        return code, detail

    if crash_at is None:
        run = fsx.record(fn, root, chunk=chunk or None)
    else:
        run = fsx.run_with_fault(fn, root, crash_at, "crash", chunk=chunk or None)
    trace = []
    for c in run.trace:
        extra = None
        if c.kind == "write":
            extra = len(c.args[2])
        elif c.kind in ("mkdir", "create"):
            extra = c.args[1]
        trace.append((c.kind, c.cpaths, c.ok, extra))
    crashed = run.crashed or isinstance(run.exc, fsx.Crash)
    if crashed:
        if "s" in keep:
            _neutralise(keep["s"])
        # an AtomicWriteFile whose constructor was interrupted is referenced only by the traceback
        from snakeoil.fileutils import AtomicWriteFile_mixin
        for o in gc.get_objects():
            if isinstance(o, AtomicWriteFile_mixin) and not getattr(o, "_is_finalized", True):
                try:
                    o._real_close()
                except Exception:  # noqa: BLE001
                    pass
                o._is_finalized = True
    res = {"trace": trace, "crashed": crashed, "info": {k: v for k, v in info.items()},
           "code": None, "detail": None, "keepalive": None}
    if not crashed:
        if run.exc is not None:
            res["code"], res["detail"] = 93, repr(run.exc)
        else:
            res["code"], res["detail"] = run.result
    # nothing of this process may act later (a destructor running inside the NEXT traced run would
    # shift its call indices): drop every reference now, outside the interposer
    run = None
    keep.clear()
    gc.collect()
    return res, None


USE_FORK = False


def ncases_fork():
    return int(os.environ.get("VERIF_C47_FORK") or 0)


def run_sync(root, url, force, spool, chunk, crash_at=None, tar_crash=None):
    if not USE_FORK:
        res, _alive = _child(root, url, force, crash_at, tar_crash, spool, chunk)
        return res
    r, w = os.pipe()
    pid = os.fork()
    if pid == 0:
        alive = None
        try:
            os.close(r)
            try:
                res, alive = _child(root, url, force, crash_at, tar_crash, spool, chunk)
            except BaseException:  # noqa: BLE001
                res = {"child_error": traceback.format_exc()}
            data = pickle.dumps(res)
            off = 0
            while off < len(data):
                off += os.write(w, data[off:off + 65536])
            os.close(w)
        finally:
            os._exit(0)       # the process dies here: no atexit, no destructors
    os.close(w)
    buf = []
    while True:
        b = os.read(r, 1 << 16)
        if not b:
            break
        buf.append(b)
    os.close(r)
    os.waitpid(pid, 0)
    res = pickle.loads(b"".join(buf))
    if "child_error" in res:
        raise RuntimeError("sync child failed:\n" + res["child_error"])
    return res


# ------------------------------------------------------------------------------ trace -> model steps
BASE_P, UPD_P, OLD_P = ("repos", NAME), ("repos", UPD), ("repos", OLD)


def abstract(trace, tar_ran):
    """-> (tags, pos, T, sizes, unknown): pos[i] = (k, mid) = the model position of a crash
    before call i (k steps completed; mid: inside the bulk step k)."""
    tags, pos, sizes, unknown = [], [], [], []
    T = None
    inner = False
    for kind, cps, ok, extra in trace:
        pos.append((len(tags), inner))
        if not ok:
            continue
        p = cps[0]
        tag = None
        if p is None:
            tag = 99
        elif p[0] == "tmp" and len(p) == 2:
            isdl = p[1].startswith(".update.")
            if kind == "create":
                tag = 3 if isdl else 1
                if not isdl:
                    T = p[1]
            elif kind == "chmod" and isdl:
                continue
            elif kind == "write" and isdl:
                tag = 4
                sizes.append(extra)
            elif kind == "rename" and isdl and cps[1] == ("tmp", T):
                tag = 5
            elif kind == "unlink":
                tag = 19 if isdl else 18
            else:
                tag = 99
        elif kind == "mkdir" and p in (BASE_P, UPD_P, OLD_P):
            tag = {BASE_P: 2, UPD_P: 6, OLD_P: 7}[p]
        elif kind == "rename":
            tag = {(BASE_P, OLD_P): 9, (UPD_P, BASE_P): 10, (OLD_P, BASE_P): 11}.get((p, cps[1]), 99)
        elif len(p) == 3 and p[:2] == BASE_P and p[2] in (".etag", ".modified"):
            et = p[2] == ".etag"
            if kind in ("create", "truncate"):
                tag = 12 if et else 14
            elif kind == "write":
                tag = 13 if et else 15
            else:
                tag = 99
        elif kind in ("unlink", "rmdir") and len(p) > 2 and p[:2] in (UPD_P, OLD_P):
            inner = True
            continue
        elif kind == "rmdir" and p in (UPD_P, OLD_P):
            tag = 16 if p == OLD_P else 17
            inner = False
        else:
            tag = 99
        if tag == 99:
            unknown.append((kind, cps))
        tags.append(tag)
        if tag == 7 and tar_ran:
            tags.append(8)
    return tags, pos, T, sizes, unknown


# ------------------------------------------------------------------------------ Coq rendering
class Interner:
    def __init__(self):
        self.names, self.defs = {}, []

    def tree(self, t):
        items = []
        for p in sorted(t):
            nd = t[p]
            pp = clist([cstr(x) for x in p], "str")
            if nd[0] == "file":
                items.append(f"F {pp} {cstr(nd[1])} {cN(nd[2])}")
            elif nd[0] == "dir":
                items.append(f"D {pp} {cN(nd[1])}")
            elif nd[0] == "sym":
                items.append(f"L {pp} {cstr(nd[1])}")
            else:
                items.append(f"(({pp}), Fifo 0 0 0 NOW)")
        term = clist(items, "path * node")
        if term not in self.names:
            nm = f"t{len(self.names)}"
            self.names[term] = nm
            self.defs.append(f"let {nm} : tree := {term} in")
        return self.names[term]

    def slot(self, v):
        if v is None:
            return "NS"
        if v == "file":
            return "SF"
        return f"(SD {self.tree(v)})"

    def st(self, s):
        def od(x):
            return copt(x, lambda l: clist([cN(i) for i in l], "N") if l else "(@nil N)", "list N")
        return f"(mkst {self.slot(s['base'])} {self.slot(s['upd'])} {self.slot(s['old'])} {od(s['tf'])} {od(s['dl'])})"


def c_srv(sv, chunks, complete):
    def os_(x):
        return copt(x, cstr, "str")
    return (f"(mksrv {cN(sv['status'])} {cbool(sv['inm'])} {cbool(sv['ims'])} {os_(sv['etag'])} "
            f"{os_(sv['modified'])} {clist([cN(i) for i in chunks], 'N')} {cbool(complete)})")


# ------------------------------------------------------------------------------ one scenario
def body_of(sv, ext):
    if "_body" not in sv:
        sv["_body"] = _body_of(sv, ext)      # gzip stamps the time: build each body exactly once
    return sv["_body"]


def _body_of(sv, ext):
    good = make_tarball(sv["members"], ext)
    if sv["body"] == "tar":
        return good, None
    if sv["body"] == "truncated":
        return good[:max(4200, len(good) * 2 // 3)], len(good) + 3000
    if sv["body"] == "corrupt":
        return good[:max(20, len(good) * 3 // 5)], None
    return b"this is not a tarball\n" * 3, None


def publish(spool, ident, sv, ext):
    body, declared = body_of(sv, ext)
    with open(os.path.join(spool, ident + ".body"), "wb") as f:
        f.write(body)
    meta = {k: sv[k] for k in ("status", "inm", "ims", "etag", "modified")}
    meta["declared"] = declared
    meta["broken"] = sv["body"] == "broken"
    with open(os.path.join(spool, ident + ".json"), "w") as f:
        json.dump(meta, f)


def state_of(case):
    return {"base": case["base"], "upd": case["upd"], "old": case["old"]}


def temp_name(trace):
    for kind, cps, ok, _ in trace:
        p = cps[0]
        if kind == "create" and ok and p and p[0] == "tmp" and len(p) == 2 and not p[1].startswith(".update."):
            return p[1]
    return None


def run_case_real(chk, case, idx, port, spool, root, max_points):
    rng = chk.rng
    id1, id2 = f"c{idx}a", f"c{idx}b"
    publish(spool, id1, case["srv"], case["ext"])
    publish(spool, id2, case["srv2"], case["ext2"])
    url1 = f"tar+http://127.0.0.1:{port}/{id1}/r.tar.{case['ext']}"
    url2 = f"tar+http://127.0.0.1:{port}/{id2}/r.tar.{case['ext2']}"
    s0 = state_of(case)
    build_root(root, s0)
    ref = run_sync(root, url1, case["force"], spool, case["chunk"])
    tags, pos, T, sizes, unknown = abstract(ref["trace"], ref["info"]["tar_ran"])
    final, frame_ok = observe(root, T, sizes)
    out = {"case": case, "ref": ref, "tags": tags, "T": T, "sizes": sizes, "unknown": unknown,
           "final": final, "frame_bad": [] if frame_ok else ["final"], "points": [],
           "tar_tree": ref["info"]["tar_tree"], "tar_ok": ref["info"]["tar_ok"]}
    # crash points: (fsx index | None, tar j | None, k, mid)
    cand = []
    seen = set()
    for i, (k, mid) in enumerate(pos):
        if not mid and k in seen:
            continue                        # an unmodelled / failed call: same state as an earlier point
        if not mid:
            seen.add(k)
        cand.append((i, None, k, mid))
    if ref["info"]["tar_ran"]:
        k8 = tags.index(8)
        nm = len(case["srv"]["members"]) if case["srv"]["body"] == "tar" else 0
        for j in range(0, nm):
            cand.append((None, j, k8, j > 0))
    if len(cand) > max_points:
        must = [c for c in cand if c[2] < len(tags) and tags[c[2]] in (9, 10)]       # around the renames: always
        rest = [c for c in cand if c not in must]
        cand = must + rng.sample(rest, max(0, max_points - len(must)))
        cand.sort(key=lambda c: (c[2], c[3], c[0] if c[0] is not None else -1, c[1] or 0))
    followed = set()
    all_followups = chk.thorough
    for ci, tj, k, mid in cand:
        build_root(root, s0)
        r1 = run_sync(root, url1, case["force"], spool, case["chunk"], crash_at=ci, tar_crash=tj)
        if not r1["crashed"]:
            out["points"].append({"k": k, "mid": mid, "error": "crash did not fire", "at": (ci, tj)})
            continue
        T1 = temp_name(r1["trace"])
        st1, fr1 = observe(root, T1, sizes)
        pt = {"k": k, "mid": mid, "st": st1, "at": (ci, tj), "f": False, "out2": 0, "detail2": None, "st2": st1,
              "tar2_tree": None, "tar2_ok": None,
              "call": repr(ref["trace"][ci][:2]) if ci is not None else f"tar after {tj} members"}
        key = repr((st1["base"], st1["upd"], st1["old"]))
        if all_followups or key not in followed:
            followed.add(key)
            r2 = run_sync(root, url2, case["force2"], spool, case["chunk"])
            tags2, _, T2, sizes2, unk2 = abstract(r2["trace"], r2["info"]["tar_ran"])
            st2, fr2 = observe(root, T2, sizes2)
            fr1 = fr1 and fr2
            pt.update({"f": True, "out2": r2["code"], "detail2": r2["detail"], "st2": st2,
                       "tar2_tree": r2["info"]["tar_tree"], "tar2_ok": r2["info"]["tar_ok"]})
            if unk2:
                out["unknown"].extend(unk2)
        if not fr1:
            out["frame_bad"].append(f"point k={k}")
        out["points"].append(pt)
        if st1["base"] is None and isinstance(st1["old"], dict) and st1["old"] and not out.get("parked_checked"):
            # the repository is parked in .old: a follow-up sync that cannot fetch must put it back
            out["parked_checked"] = True
            build_root(root, s0)
            run_sync(root, url1, case["force"], spool, case["chunk"], crash_at=ci, tar_crash=tj)
            r3 = run_sync(root, f"tar+http://127.0.0.1:{port}/nosuch{idx}/r.tar.gz", False, spool, case["chunk"])
            st3, _ = observe(root, None, [])
            if not (r3["code"] == 1 and st3["base"] == st1["old"] and st3["upd"] is None and st3["old"] is None):
                out["parked_bad"] = {"crash_before": pt["call"], "follow_up": "HTTP 404", "outcome": r3["code"],
                                     "detail": r3["detail"],
                                     "after": {k2: (sorted("/".join(p) for p in v) if isinstance(v, dict) else v)
                                               for k2, v in st3.items() if k2 in ("base", "upd", "old")}}
    return out


# ------------------------------------------------------------------------------ python-side statement
def strip_meta(t):
    return {p: n for p, n in t.items() if p not in ((".etag",), (".modified",))}


def holds_old(case, st):
    b0 = case["base"]
    b = st["base"]
    if b == b0 or (b is not None and b == logical(case)):
        return True
    return (b0 is None and b == {}) or (b0 == {} and b is None)


def holds_new(tnew, st):
    b = st["base"]
    return isinstance(b, dict) and tnew is not None and strip_meta(b) == strip_meta(tnew)


def logical(st):
    if st["base"] is not None:
        return st["base"]
    return st["old"] if isinstance(st["old"], dict) else None


def point_code(res, pt, tar2_default):
    case = res["case"]
    updated = 10 in res["tags"]
    st = pt["st"]
    if not updated and not holds_old(case, st):
        return 2
    if not (holds_old(case, st) or (res["tar_ok"] and holds_new(res["tar_tree"], st))):
        return 1
    if not pt["f"]:
        return 0
    st2 = pt["st2"]
    if case["srv2"]["status"] != 200:
        ok = st2["base"] == logical(st) and st2["upd"] is None and st2["old"] is None
        return 0 if ok else 4
    if pt["out2"] != 0:
        return 3
    t2 = pt["tar2_tree"] if pt["tar2_tree"] is not None else tar2_default
    if not ((holds_new(t2, st2) or st2["base"] == logical(st)) and st2["upd"] is None and st2["old"] is None):
        return 4
    return 0


def kf_rename_window(res, pt):
    """the crash point lies exactly between rename(base -> .old) and rename(.update -> base) of a
    sync that replaces a non-empty repository: the path does not exist"""
    tags = res["tags"]
    k = pt["k"]
    return (not pt["mid"] and 0 < k < len(tags) and tags[k - 1] == 9 and tags[k] == 10
            and pt["st"]["base"] is None and isinstance(res["case"]["base"], dict) and res["case"]["base"] != {})


def recoverable(case):
    return all(case[k] != "file" for k in ("base", "upd", "old"))


def short_case(case):
    def t(v):
        if isinstance(v, dict):
            return {"/".join(p): (n[0], n[1].decode("latin1") if isinstance(n[1], bytes) else n[1]) for p, n in v.items()}
        return v
    sv = case["srv"]
    return {"kind": case["kind"], "force": case["force"], "ext": case["ext"], "chunk": case["chunk"],
            "base": t(case["base"]), "upd": t(case["upd"]), "old": t(case["old"]),
            "server": {k: sv[k] for k in ("status", "inm", "ims", "etag", "modified", "body")},
            "members": [(m[0], m[1]) for m in sv["members"]]}


def render_case(res, pts, it):
    case = res["case"]
    sv = case["srv"]
    complete = sv["body"] != "broken"          # a short body is NOT noticed by resp.read(amt); a broken transfer is
    tar_tree = res["tar_tree"] if res["tar_tree"] is not None else {}
    tar_ok = bool(res["tar_ok"])
    tar2_default = members_tree(case["srv2"]["members"])
    # the follow-up's temp file is gone when it ends: one block id stands for its download
    chunks2 = [1]
    body1, _ = body_of(sv, case["ext"])
    chunks1 = chunk_ids(body1[:sum(res["sizes"])], res["sizes"]) if res["sizes"] else []
    s0term = it.st({"base": case["base"], "upd": case["upd"], "old": case["old"], "tf": None, "dl": None})
    body = (f"mkcase {cbool(not LEGACY)} {cbool(case['force'])} {c_srv(sv, chunks1, complete)} "
            f"({it.tree(tar_tree)}, {cbool(tar_ok)}) {cnat(case['chunk'])} {s0term} "
            f"{cbool(case['force2'])} {c_srv(case['srv2'], chunks2, True)} ({it.tree(tar2_default)}, true) "
            f"{cN(res['ref']['code'])} {clist([cN(t) for t in res['tags']], 'N')} {it.st(res['final'])} "
            f"{clist(pts, 'cpoint')}")
    return "(" + "\n".join(it.defs) + "\n" + body + ")"


def render_point(pt, it):
    return (f"(mkcp {cnat(pt['k'])} {cbool(pt['mid'])} {it.st(pt['st'])} {cbool(pt['f'])} "
            f"{cN(pt['out2'])} {it.st(pt['st2'])})")


# ------------------------------------------------------------------------------ main
def start_server(spool):
    proc = subprocess.Popen([sys.executable, "-c", SERVER_CODE, spool], stdout=subprocess.PIPE, text=True)
    port = int(proc.stdout.readline().strip())
    return proc, port


def main(chk: Check):
    chk.rule("scenarios = initial repos state (previous tree +/- .etag/.modified, none, stale staging dirs, the "
             "rename-window state, a file in the way) x server (good gz/bz2/xz tarball, 404/500, short body, corrupt, "
             "garbage, 304 by etag/date, conditional headers ignored, force); the real tar_syncer.sync() process is "
             "crashed before EVERY mutating filesystem call and inside tar after j members, each crash followed by "
             "a snapshot and a follow-up sync; non-trivial = a crash point at or after the creation of a staging "
             "directory (between the staging mkdirs and the end of the exit cleanup)")
    ok = chk.build(["C47/Prop_C47.vo"])
    if ok:
        chk.check_assumptions("C47/Prop_C47.v")
    chk.lint(["C47"])
    chk.check_fingerprint(ANCHORS)
    chk.note("partial: HTTP stack and the tar binary are external (tar's result is an input of the model step "
             "Extract and is compared with the tarball's member list by the harness); a completed call is assumed "
             "durable; directory trees are values of the model state (kernel rename/mkdir semantics trusted)")
    import time as _time
    t_built = _time.time()
    import pkgcore.sync.tar  # noqa: F401  (imported before forking)
    global USE_FORK
    # thorough: the first scenarios run every sync in a forked child that really dies at the crash
    # (process creation costs ~0.5 s in this sandbox, so not all of them)
    fork_first = 3 if chk.thorough else (ncases_fork() if os.environ.get("VERIF_C47_FORK") else 0)
    chk.cov["forked_scenarios"] = fork_first

    ncases = int(os.environ.get("VERIF_C47_CASES", 0)) or chk.n(8, 24)
    max_points = chk.n(18, 32)
    work = str(chk.scratch / "c47")
    os.makedirs(work)
    spool = os.path.join(work, "spool")
    os.mkdir(spool)
    root = os.path.join(work, "root")
    proc, port = start_server(spool)
    results = []
    try:
        kinds = ["good", "stale-staging", "window-state", "corrupt", "initial", "broken-transfer", "unchanged-304",
                 "truncated"]
        for i in range(ncases):
            case = gen_case(chk.rng, kinds[i] if i < len(kinds) else None)
            USE_FORK = i < fork_first
            results.append(run_case_real(chk, case, i, port, spool, root, max_points))
    finally:
        proc.terminate()
        try:
            proc.wait(timeout=5)
        except subprocess.TimeoutExpired:
            proc.kill()
        shutil.rmtree(work, ignore_errors=True)

    t_real = _time.time()
    chk.cov["timing_s"] = {"build_and_assumptions": round(t_built - chk.t0, 1), "real_runs": round(t_real - t_built, 1)}
    rows, hist = [], {}
    npoints = 0
    prop_bad = []
    for i, res in enumerate(results):
        case = res["case"]
        hist[case["kind"]] = hist.get(case["kind"], 0) + 1
        it = Interner()
        sv = case["srv"]
        complete = sv["body"] != "broken"          # a short body is NOT noticed by resp.read(amt); a broken transfer is
        tar_tree = res["tar_tree"] if res["tar_tree"] is not None else {}
        tar_ok = bool(res["tar_ok"])
        tar2_default = members_tree(case["srv2"]["members"])
        # python oracles: complete new tree == the tarball's members; frame
        if res["tar_ok"] and sv["body"] == "tar" and res["tar_tree"] != members_tree(sv["members"]):
            prop_bad.append(("new-tree-incomplete", {"case": short_case(case), "unpacked": repr(res["tar_tree"])[:400],
                                                     "tar_cmd": res["ref"]["info"].get("tar_cmd")}))
        if 10 in res["tags"] and (sv["body"] != "tar" or strip_meta(res["final"]["base"] or {}) != members_tree(sv["members"])):
            prop_bad.append(("new-tree-incomplete", {"case": short_case(case), "what": "a tree was installed that is not "
                             "the content of a complete tarball", "installed": repr(res["final"]["base"])[:400]}))
        if res.get("parked_bad"):
            prop_bad.append(("parked-tree-not-restored", {"case": short_case(case), **res["parked_bad"]}))
        if res["frame_bad"]:
            prop_bad.append(("frame", {"case": short_case(case), "where": res["frame_bad"][:3]}))
        if res["unknown"]:
            prop_bad.append(("unmodelled-call", {"case": short_case(case), "calls": repr(res["unknown"][:4])}))
        pts = []
        for pt in res["points"]:
            if "error" in pt:
                prop_bad.append(("harness", {"case": short_case(case), "point": pt}))
                continue
            npoints += 1
            pts.append(render_point(pt, it))
            k = pt["k"]
            if any(t in (6, 7) for t in res["tags"][:k]) or pt["mid"]:
                chk.nontrivial((i, k, pt["mid"], pt["at"]))
            if pt["tar2_ok"] and pt["tar2_tree"] != tar2_default:
                prop_bad.append(("new-tree-incomplete", {"case": short_case(case), "follow-up": True}))
            if not recoverable(case):
                continue
            code = point_code(res, pt, tar2_default)
            if code == 0:
                continue
            ex = {"case": short_case(case), "crash_before": pt["call"], "model_position": [k, pt["mid"]],
                  "state_after_crash": {s: (sorted("/".join(p) for p in v) if isinstance(v, dict) else v)
                                        for s, v in pt["st"].items() if s in ("base", "upd", "old")},
                  "follow_up": {"outcome": pt["out2"], "detail": pt["detail2"]}, "code": code}
            if code == 1 and kf_rename_window(res, pt) and chk.known_finding("rename-window", ex):
                continue
            prop_bad.append(({1: "neither-old-nor-new", 2: "failed-sync-touched-tree", 3: "next-sync-fails",
                              4: "next-sync-wrong-tree"}[code], ex))
        # the follow-up's written blocks: observed ids (same for every point that downloaded)
        term = render_case(res, pts, it)
        rows.append((term, []))
        if i < 3:
            chk.sample({"case": short_case(case), "outcome": res["ref"]["code"], "detail": res["ref"]["detail"],
                        "steps": res["tags"], "crash_points": len(res["points"]),
                        "calls": [repr(c[:3]) for c in res["ref"]["trace"]][:24]})
    chk.count("sync-crash-points", npoints)
    chk.count("sync-scenarios", len(rows))
    chk.cov["histogram"] = dict(sorted(hist.items()))
    chk.cov["legacy_model"] = LEGACY

    seen_cls = set()
    for cls, ex in prop_bad:
        if cls in seen_cls:
            continue
        seen_cls.add(cls)
        chk.violation("property", {"what": f"tarball sync: {cls}", "input": ex})

    if ok and rows:
        r = chk.coq_eval("sync", IMPORTS, "case", rows,
                         ["mismatches run_case cases",
                          "where_ (fun c _ => negb (spec_ok_but_window c)) cases",
                          "where_ (fun c _ => negb (spec_ok c)) cases"],
                         shard=max(1, (len(rows) + 3) // 4), preamble=PREAMBLE)
        if r is not None:
            a_bad, b_bad, b_win = r
            for i in b_bad[:3]:
                if not any(cls in ("neither-old-nor-new", "failed-sync-touched-tree", "next-sync-fails",
                                   "next-sync-wrong-tree") for cls, _ in prop_bad):
                    chk.violation("property", {"what": "Spec_C47.spec_ok_but_window rejects the observed states "
                                                       "(the Python classification did not)",
                                               "input": short_case(results[i]["case"])})
            py_window = {i for i, res in enumerate(results) if recoverable(res["case"]) and
                         any("st" in pt and point_code(res, pt, members_tree(res["case"]["srv2"]["members"])) == 1
                             for pt in res["points"])}
            if set(b_win) - set(b_bad) != py_window - set(b_bad):
                chk.violation("correspondence", {"what": "Coq and Python classification of window states disagree",
                                                 "coq": sorted(b_win), "python": sorted(py_window)}, no_input=True)
            for i in a_bad[:3]:
                res = results[i]
                chk.violation("correspondence",
                              {"what": "the real sync process differs from Model_C47.sync (outcome / step sequence / "
                                       "a crash state / the follow-up sync): the theorems of Prop_C47 no longer "
                                       "speak about this code",
                               "input": short_case(res["case"]), "outcome": res["ref"]["code"],
                               "detail": res["ref"]["detail"], "steps": res["tags"],
                               "model_says": explain(chk, rows[i][0]),
                               "points": [(pt["k"], pt["mid"], pt.get("call"), pt.get("f"), pt.get("out2"),
                                           pt.get("detail2")) for pt in res["points"]],
                               "calls": [repr(c[:3]) for c in res["ref"]["trace"]][:40]},
                              no_input=not prop_bad)


def explain(chk, term):
    """evaluate run_case / the spec codes of one case in Coq and return the printed answer"""
    f = chk.scratch / "explain_c47.v"
    f.write_text(f"{IMPORTS}\nImport ListNotations.\n{PREAMBLE}\nDefinition c : case := {term}.\n"
                 "Eval vm_compute in (run_case c).\n"
                 "Eval vm_compute in (map step_tag (fst (sync (c_fixed c) (c_force c) (c_srv c) (c_tar c) "
                 "(c_chunk c) (c_s0 c))), point_codes c, final_code c).\n")
    r = subprocess.run(["timeout", "300", "coqc", "-R", "/verif/coq", "Verif", "-Q", str(chk.scratch), "Cases", str(f)],
                       capture_output=True, text=True, cwd=chk.scratch)
    return (r.stdout + r.stderr)[-1500:]


def replay(chk, data):
    print("replay: re-run `./check C47` with the recorded seed; the scenario is in detail.input")
