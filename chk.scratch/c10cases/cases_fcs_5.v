From Coq Require Import List NArith ZArith Bool.
From Verif Require Import Base.Val C10.Model_C10 C10.Spec_C10.
Import ListNotations.

Definition cases : list ((fcs_input) * val) := 
[
  (([(Grp KAmo true [(Flag true false [3%N]); (Flag false false (@nil (N)))])], ([3%N; 5%N], [5%N], (@nil (N)), [3%N])),
   (sols_val false 0 nil));
  (([(Grp KOr false [(Cond true 3%N [(Flag false false [2%N])]); (Flag false false [1%N; 2%N]); (Cond false 0%N (@nil (ru)))]); (Flag false false [1%N])], ([1%N; 2%N; 3%N], [0%N; 1%N; 3%N], (@nil (N)), [3%N])),
   (VErr [86;97;108;117;101;69;114;114;111;114]%N));
  (([(Grp KOne false (@nil (ru))); (Grp KOne true [(Flag false false [0%N]); (Flag false false [0%N; 1%N])])], ([0%N; 1%N; 5%N], (@nil (N)), (@nil (N)), (@nil (N)))),
   (VErr [86;97;108;117;101;69;114;114;111;114]%N));
  (([(Flag true false [0%N; 1%N]); (Flag true true (@nil (N)))], ([0%N; 1%N; 5%N], [0%N], [5%N], [5%N])),
   (VErr [65;115;115;101;114;116;105;111;110;69;114;114;111;114]%N));
  (([(Grp KAmo false [(Flag false false [2%N]); (Flag true false [1%N; 2%N])]); (Grp KAnd false [(Flag false false [0%N; 2%N]); (Flag true false [0%N])])], ([0%N; 2%N; 5%N], [0%N; 5%N], (@nil (N)), [1%N; 2%N])),
   (sols_val false 0 nil));
  (([(Grp KOr false [(Flag false false [0%N]); (Flag false true [0%N])])], ([0%N; 5%N], [5%N], [0%N], [0%N])),
   (VErr [65;115;115;101;114;116;105;111;110;69;114;114;111;114]%N));
  (([(Cond false 0%N [(Flag false false [1%N])]); (Cond true 1%N [(Flag false true [1%N])])], ([0%N; 1%N; 5%N], (@nil (N)), [1%N; 5%N], [1%N])),
   (VErr [65;115;115;101;114;116;105;111;110;69;114;114;111;114]%N));
  (([(Flag true false [0%N]); (Flag false false [0%N])], ((@nil (N)), (@nil (N)), (@nil (N)), (@nil (N)))),
   (sols_val false 0 nil));
  (([(Grp KOne true (@nil (ru))); (Flag true false [0%N])], ([0%N], [0%N], (@nil (N)), [5%N])),
   (VErr [86;97;108;117;101;69;114;114;111;114]%N));
  (([(Cond false 3%N [(Flag false true (@nil (N))); (Flag false false [0%N; 2%N])]); (Grp KAnd true (@nil (ru)))], ([0%N; 2%N; 3%N; 5%N], (@nil (N)), (@nil (N)), [0%N; 2%N])),
   (VErr [65;115;115;101;114;116;105;111;110;69;114;114;111;114]%N));
  (([(Grp KAmo false [(Grp KAmo true [(Flag false false [1%N])])])], ([1%N; 5%N], (@nil (N)), (@nil (N)), [5%N])),
   (sols_val true 34 [0; 2; 32; 34]%N));
  (([(Flag false false [0%N; 1%N]); (Grp KOne false [(Flag true false [0%N; 1%N])])], ([1%N; 5%N], [5%N], [0%N], (@nil (N)))),
   (sols_val false 0 nil));
  (([(Flag false false [0%N; 1%N])], ([0%N; 1%N], (@nil (N)), (@nil (N)), (@nil (N)))),
   (sols_val false 3 [1; 2; 3]%N));
  (([(Grp KAnd false [(Flag false true [1%N; 3%N])])], ([3%N], (@nil (N)), [5%N], [1%N])),
   (VErr [65;115;115;101;114;116;105;111;110;69;114;114;111;114]%N));
  (([(Cond false 1%N [(Flag true false [1%N]); (Cond false 0%N [(Grp KOr false [(Flag true false [1%N; 2%N]); (Flag false false [1%N])])])]); (Flag false false (@nil (N)))], ([0%N], [5%N], (@nil (N)), [1%N; 2%N; 5%N])),
   (sols_val true 7 [0; 1]%N));
  (([(Grp KOne false [(Grp KOr true [(Flag true false [0%N; 1%N])])]); (Grp KOne false [(Grp KOne false [(Flag false false (@nil (N))); (Flag true false [0%N])]); (Flag false false [0%N; 1%N]); (Grp KOr false [(Flag true false [0%N; 1%N]); (Flag false false [0%N])])])], ([0%N; 5%N], [0%N], (@nil (N)), [0%N])),
   (sols_val false 0 nil));
  (([(Flag false false [1%N])], ([1%N], [1%N; 5%N], (@nil (N)), [1%N; 5%N])),
   (sols_val true 2 [2]%N));
  (([(Flag false false [0%N; 2%N]); (Flag true false [0%N; 1%N])], ([0%N; 1%N; 5%N], [0%N; 1%N; 2%N; 5%N], (@nil (N)), [2%N])),
   (sols_val false 0 nil));
  (([(Flag true false [0%N; 2%N]); (Grp KOr false (@nil (ru)))], ([0%N; 2%N], [2%N], (@nil (N)), (@nil (N)))),
   (VErr [86;97;108;117;101;69;114;114;111;114]%N));
  (([(Grp KOne false [(Flag false false [0%N]); (Grp KOne false [(Flag false false [0%N])])]); (Grp KOne true [(Flag false false [1%N]); (Cond true 1%N (@nil (ru))); (Cond false 1%N [(Flag false false [0%N]); (Flag true false [0%N; 1%N]); (Flag false false [0%N])])])], ([5%N], (@nil (N)), (@nil (N)), [0%N])),
   (VErr [86;97;108;117;101;69;114;114;111;114]%N));
  (([(Grp KAnd false [(Cond false 0%N [(Flag false false [0%N]); (Cond false 0%N [(Flag false false (@nil (N))); (Flag false false [0%N])]); (Cond false 0%N [(Flag false false [0%N])])]); (Cond true 0%N [(Cond false 0%N [(Flag false false [0%N])])]); (Grp KOr false [(Grp KOr true [(Flag false false [0%N]); (Flag false false [0%N])])])]); (Grp KOne false (@nil (ru)))], ([0%N; 5%N], (@nil (N)), (@nil (N)), [5%N])),
   (VErr [86;97;108;117;101;69;114;114;111;114]%N));
  (([(Grp KAmo false [(Grp KOne false (@nil (ru)))]); (Flag false false [0%N; 1%N])], ([0%N; 1%N], (@nil (N)), (@nil (N)), [5%N])),
   (VErr [86;97;108;117;101;69;114;114;111;114]%N));
  (([(Grp KAnd false (@nil (ru)))], ([5%N], (@nil (N)), (@nil (N)), [5%N])),
   (sols_val true 32 [0; 32]%N));
  (([(Grp KOne true [(Grp KAnd false (@nil (ru)))]); (Flag false false [2%N])], ([2%N; 5%N], [2%N], (@nil (N)), (@nil (N)))),
   (VErr [86;97;108;117;101;69;114;114;111;114]%N));
  (([(Cond false 1%N (@nil (ru))); (Grp KOne false [(Flag false false [0%N; 1%N])])], ([0%N; 5%N], (@nil (N)), (@nil (N)), [1%N])),
   (sols_val false 35 [1; 33]%N));
  (([(Flag true false [1%N])], ([1%N; 5%N], (@nil (N)), [1%N], (@nil (N)))),
   (sols_val true 34 [0; 32]%N));
  (([(Flag false false [0%N]); (Cond false 2%N [(Grp KOr false (@nil (ru)))])], ([0%N; 2%N], (@nil (N)), [0%N], [5%N])),
   (VErr [86;97;108;117;101;69;114;114;111;114]%N));
  (([(Grp KAnd false [(Flag false false [1%N])])], ([1%N; 5%N], (@nil (N)), (@nil (N)), [1%N])),
   (sols_val true 34 [2; 34]%N));
  (([(Flag false false [0%N]); (Grp KAnd false [(Cond false 0%N [(Flag false false [0%N])]); (Flag true false [0%N]); (Grp KAnd false [(Flag true false [0%N]); (Flag false false [0%N])])])], ([0%N], (@nil (N)), (@nil (N)), (@nil (N)))),
   (sols_val false 0 nil));
  (([(Flag false false [0%N])], ([0%N; 5%N], (@nil (N)), [5%N], [5%N])),
   (sols_val false 33 [1]%N));
  (([(Cond false 0%N [(Flag false false [0%N])])], ([0%N; 5%N], (@nil (N)), (@nil (N)), [5%N])),
   (sols_val true 33 [0; 1; 32; 33]%N));
  (([(Grp KAmo false (@nil (ru)))], ([5%N], (@nil (N)), (@nil (N)), (@nil (N)))),
   (VErr [86;97;108;117;101;69;114;114;111;114]%N));
  (([(Cond false 0%N [(Grp KOr false [(Flag false false [0%N])]); (Flag false false (@nil (N)))]); (Flag false false [1%N])], ([0%N; 1%N; 5%N], (@nil (N)), (@nil (N)), [0%N; 1%N])),
   (sols_val false 35 [2; 34]%N));
  (([(Cond false 1%N [(Grp KOr true (@nil (ru))); (Grp KOr true [(Cond true 1%N [(Flag true false [0%N; 1%N]); (Flag false false [1%N])])])]); (Flag false false [0%N; 1%N])], ([0%N; 1%N; 5%N], (@nil (N)), [0%N], [0%N; 5%N])),
   (VErr [86;97;108;117;101;69;114;114;111;114]%N));
  (([(Grp KAmo true [(Grp KAmo true (@nil (ru)))])], ((@nil (N)), (@nil (N)), (@nil (N)), (@nil (N)))),
   (VErr [86;97;108;117;101;69;114;114;111;114]%N));
  (([(Cond false 0%N [(Flag false false [0%N]); (Flag false false [0%N; 1%N]); (Flag false false [0%N])]); (Flag false false (@nil (N)))], ([0%N; 1%N], (@nil (N)), (@nil (N)), (@nil (N)))),
   (sols_val true 3 [0; 1; 2; 3]%N));
  (([(Flag false false [0%N])], ([0%N; 5%N], (@nil (N)), [0%N], [5%N])),
   (sols_val false 0 nil));
  (([(Grp KOr false [(Flag false false (@nil (N))); (Flag true false [0%N])]); (Flag true false [0%N])], ([5%N], [0%N], (@nil (N)), [5%N])),
   (sols_val true 33 [0; 32]%N));
  (([(Cond false 0%N [(Flag true false (@nil (N)))])], ([0%N; 5%N], [0%N], (@nil (N)), (@nil (N)))),
   (sols_val true 33 [1; 33]%N));
  (([(Grp KAnd false [(Grp KAmo false (@nil (ru)))]); (Grp KOne false [(Grp KOr false [(Flag false false [0%N]); (Flag true false [0%N])])])], ([0%N], (@nil (N)), (@nil (N)), (@nil (N)))),
   (VErr [86;97;108;117;101;69;114;114;111;114]%N));
  (([(Flag true false [1%N])], ([1%N], (@nil (N)), (@nil (N)), (@nil (N)))),
   (sols_val true 2 [0]%N));
  (([(Flag false false [0%N])], ([0%N], [5%N], (@nil (N)), (@nil (N)))),
   (sols_val false 1 [1]%N));
  (([(Grp KOne false [(Grp KAnd false [(Cond true 1%N [(Flag false false [1%N]); (Flag false false [0%N; 1%N]); (Flag false false [1%N])])]); (Grp KOr false [(Cond false 0%N [(Flag true true [1%N])]); (Flag false false [1%N]); (Grp KOr false [(Flag false true [0%N; 1%N]); (Flag false false [0%N])])])])], ([1%N], [0%N], (@nil (N)), [0%N])),
   (VErr [65;115;115;101;114;116;105;111;110;69;114;114;111;114]%N));
  (([(Flag false true [0%N])], ([5%N], (@nil (N)), (@nil (N)), [0%N; 5%N])),
   (VErr [65;115;115;101;114;116;105;111;110;69;114;114;111;114]%N));
  (([(Cond true 2%N [(Flag false false [0%N]); (Flag false false [3%N])]); (Grp KAnd false (@nil (ru)))], ([0%N; 3%N; 5%N], (@nil (N)), (@nil (N)), (@nil (N)))),
   (sols_val false 45 [9; 41]%N));
  (([(Flag false false [2%N])], ([5%N], (@nil (N)), [2%N], [5%N])),
   (sols_val false 0 nil));
  (([(Grp KOne false [(Grp KOne true [(Flag false false [0%N; 1%N]); (Flag true false [0%N])]); (Flag true false [1%N])]); (Flag false false [3%N])], ([0%N; 1%N; 3%N], (@nil (N)), [5%N], [3%N])),
   (sols_val true 11 [8; 9; 10]%N));
  (([(Grp KOne false [(Cond false 0%N [(Flag false false [0%N]); (Flag false false [1%N])]); (Grp KOr false [(Flag true false [0%N; 1%N])])])], ([0%N], [0%N], [1%N], [1%N])),
   (sols_val false 0 nil));
  (([(Cond false 1%N [(Flag true false [0%N; 1%N])])], ([0%N; 1%N; 5%N], (@nil (N)), (@nil (N)), [0%N])),
   (sols_val true 35 [0; 1; 32; 33]%N));
  (([(Flag false false [0%N])], ([0%N; 5%N], [0%N], (@nil (N)), (@nil (N)))),
   (sols_val true 33 [1; 33]%N));
  (([(Grp KOne false [(Grp KAmo false [(Flag false false [1%N])]); (Grp KOr false [(Flag false false [0%N]); (Flag true false [0%N])])])], ([0%N; 5%N], [1%N], (@nil (N)), (@nil (N)))),
   (sols_val false 0 nil));
  (([(Flag true false (@nil (N)))], ([5%N], (@nil (N)), (@nil (N)), (@nil (N)))),
   (sols_val true 32 [0; 32]%N));
  (([(Grp KAnd true [(Flag false false (@nil (N))); (Flag false false [3%N]); (Flag false false [0%N; 2%N])])], ([0%N], [2%N], (@nil (N)), [0%N; 3%N; 5%N])),
   (VErr [65;115;115;101;114;116;105;111;110;69;114;114;111;114]%N));
  (([(Cond false 1%N [(Grp KAnd true [(Flag false false (@nil (N)))])]); (Flag true false [2%N])], ([2%N], [1%N], (@nil (N)), [2%N])),
   (VErr [65;115;115;101;114;116;105;111;110;69;114;114;111;114]%N));
  (([(Grp KOne false [(Flag true false [0%N]); (Flag false false [0%N; 1%N]); (Flag true false [0%N])]); (Flag true true [0%N])], ([1%N], (@nil (N)), [1%N; 5%N], [0%N])),
   (VErr [65;115;115;101;114;116;105;111;110;69;114;114;111;114]%N));
  (([(Flag false false (@nil (N))); (Grp KAnd false (@nil (ru)))], ([5%N], (@nil (N)), [5%N], (@nil (N)))),
   (sols_val true 32 [0]%N));
  (([(Cond false 0%N [(Flag false true [1%N; 2%N])]); (Flag true false (@nil (N)))], ([0%N; 1%N; 2%N], (@nil (N)), (@nil (N)), (@nil (N)))),
   (VErr [65;115;115;101;114;116;105;111;110;69;114;114;111;114]%N));
  (([(Grp KOne false [(Flag false false [2%N]); (Flag false false [0%N; 1%N]); (Flag false false [0%N; 2%N])]); (Flag false false [1%N])], ([0%N; 1%N; 2%N], [0%N; 1%N], (@nil (N)), [2%N; 5%N])),
   (sols_val false 0 nil));
  (([(Cond true 1%N [(Flag false false [1%N]); (Flag false false [0%N])]); (Flag false true [1%N])], ([0%N; 5%N], (@nil (N)), [5%N], [1%N; 5%N])),
   (VErr [65;115;115;101;114;116;105;111;110;69;114;114;111;114]%N));
  (([(Grp KOr false [(Flag false false [0%N]); (Grp KOr true [(Flag true false [0%N; 1%N])])]); (Flag true false (@nil (N)))], ([0%N; 1%N; 5%N], (@nil (N)), (@nil (N)), [0%N])),
   (sols_val true 35 [1; 2; 3; 33; 34; 35]%N))
].
Eval vm_compute in (mismatches run_fcs cases).
Eval vm_compute in (where_ (fun i r => negb (spec_fcs_ok i r)) cases).
