import time, itertools, sys
from harness import c14
from harness.common import Check, clist
chk = Check("C14")
impl = c14.Impl()
cs=[]
for ops in itertools.islice(itertools.product(c14.ENUM_ALPHABET, repeat=4), 400):
    done, obs, bad = impl.run(c14.ENUM_USE, c14.ENUM_DS, list(ops))
    cs.append((c14.case_term(c14.ENUM_USE, "enum", done), c14.obs_term(obs)))
pre = c14.PRE0 + f"\nDefinition enum : list (list node) := {clist([c14.nodes_coq(d) for d in c14.ENUM_DS], 'list node')}."
for ev in (["mismatches run_hist cases"], ["where_ (fun i _ => negb (spec_hist_ok i)) cases"], []):
    t=time.time()
    r = chk.coq_eval("t", c14.IMPORTS, c14.TY, cs, ev, preamble=pre)
    print(ev, r, time.time()-t)
import shutil; shutil.copy(chk.scratch/"cases_t_0.v", "/verif/chk.scratch/c14/cases_t_0.v")
shutil.rmtree(chk.scratch)
