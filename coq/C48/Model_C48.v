(* Model_C48.v — executable model of the decision "use the cached metadata or regenerate":
   base.validate_entry (src/pkgcore/cache/__init__.py), eclass_cache.base.rebuild_cache_entry
   and the L->R lookup of StackedCaches (src/pkgcore/ebuild/eclass_cache.py),
   package_factory._get_metadata / _update_metadata's cache handling
   (src/pkgcore/ebuild/ebuild_src.py).  No proofs here.

   Everything that is only compared for equality is an abstract number: eclass names,
   directories (the eclassdir a flat entry records), mtimes, md5 values, and the "payload"
   that identifies the metadata text an entry carries.  The on-disk encoding of entries is
   C27's subject; here an entry is what cache[cpv] returns.

   Not modelled: a failing `del cache[cpv]`, `None` members of the cache tuple, the
   force_regen flag (= no caches), unsupported EAPIs, a failing metadata regeneration. *)
From Coq Require Import List NArith ZArith Bool Arith.
Import ListNotations.
From Verif Require Import Base.Val.
Local Open Scope N_scope.

Inductive layout := Flat | Md5.    (* flat_hash.database (chf mtime; eclasses: eclassdir+mtime) / md5_cache (md5; md5) *)

(* a file as the checksum layer sees it now (LazilyHashedPath): for an eclass, f_dir is the
   eclassdir it was found in *)
Record efile := { f_dir : N; f_mtime : N; f_md5 : N }.

(* the stacked eclass view: one association list per repository, searched left to right *)
Definition stack := list (list (N * efile)).
Fixpoint assoc (n : N) (l : list (N * efile)) : option efile :=
  match l with
  | [] => None
  | (m, f) :: r => if n =? m then Some f else assoc n r
  end.
Fixpoint ec_lookup (st : stack) (n : N) : option efile :=
  match st with
  | [] => None
  | repo :: r => match assoc n repo with Some f => Some f | None => ec_lookup r n end
  end.

(* what cache[cpv] returned: the recorded validation value of the ebuild, the recorded
   eclasses (None: no _eclasses_ key) with the values their layout records, whether an
   INHERIT key is present, and the payload *)
Record centry := { c_chf : N; c_ecl : option (list (N * efile)); c_inherit : bool; c_payload : N }.
Inductive slot := Absent | Corrupt | Entry (e : centry).      (* KeyError / CacheError / data *)
Record cache := { c_lay : layout; c_ro : bool; c_wfail : bool; c_slot : slot }.

(* the repository now: the ebuild file, the eclasses, and what regenerating the metadata
   would produce (inherited eclass names, whether INHERIT is among the keys, the payload) *)
Record world := { w_ebuild : efile; w_stack : stack;
                  w_inherited : list N; w_inherit_key : bool; w_payload : N }.

Definition chf_of (lay : layout) (f : efile) : N :=
  match lay with Flat => f_mtime f | Md5 => f_md5 f end.

(* one recorded eclass against the file found now: every chf of the layout must be equal
   (rebuild_cache_entry: any(val != getattr(data, chf, None) ...); a missing eclass has no
   attributes) *)
Definition ecl_same (lay : layout) (rec now : efile) : bool :=
  match lay with
  | Flat => (f_dir rec =? f_dir now) && (f_mtime rec =? f_mtime now)
  | Md5 => f_md5 rec =? f_md5 now
  end.
Definition ecl_ok (lay : layout) (st : stack) (r : N * efile) : bool :=
  match ec_lookup st (fst r) with
  | Some now => ecl_same lay (snd r) now
  | None => false
  end.
(* rebuild_cache_entry: None (false) at the first stale eclass *)
Definition rebuild_ok (lay : layout) (st : stack) (l : list (N * efile)) : bool :=
  forallb (ecl_ok lay st) l.

(* base.validate_entry *)
Definition validate (lay : layout) (w : world) (e : centry) : bool :=
  if negb (c_chf e =? chf_of lay (w_ebuild w)) then false
  else match c_ecl e with
       | None => true
       | Some l => if negb (c_inherit e) then false else rebuild_ok lay (w_stack w) l
       end.

(* the entry a regeneration stores into a cache of the given layout, as read back *)
Definition fresh (lay : layout) (w : world) : centry :=
  {| c_chf := chf_of lay (w_ebuild w);
     c_ecl := match w_inherited w with
              | [] => None
              | l => Some (flat_map (fun n => match ec_lookup (w_stack w) n with
                                              | Some f => [(n, f)] | None => [] end) l)
              end;
     c_inherit := w_inherit_key w;
     c_payload := w_payload w |}.

Inductive outcome := Used (i : nat) (payload : N) | Regen (payload : N).

Definition with_slot (c : cache) (s : slot) : cache :=
  {| c_lay := c_lay c; c_ro := c_ro c; c_wfail := c_wfail c; c_slot := s |}.

(* the loop of _get_metadata: the first valid entry wins; an invalid entry met on the way is
   deleted when its cache is writable *)
Fixpoint scan (w : world) (i : nat) (cs : list cache) : option (nat * N) * list cache :=
  match cs with
  | [] => (None, [])
  | c :: r =>
      match c_slot c with
      | Entry e =>
          if validate (c_lay c) w e then (Some (i, c_payload e), cs)
          else let c' := if c_ro c then c else with_slot c Absent in
               let (res, r') := scan w (S i) r in (res, c' :: r')
      | _ => let (res, r') := scan w (S i) r in (res, c :: r')
      end
  end.

(* _update_metadata: store into the first writable cache whose store succeeds *)
Fixpoint store_first (w : world) (cs : list cache) : list cache :=
  match cs with
  | [] => []
  | c :: r => if negb (c_ro c) && negb (c_wfail c)
              then with_slot c (Entry (fresh (c_lay c) w)) :: r
              else c :: store_first w r
  end.

Definition get_metadata (w : world) (cs : list cache) : outcome * list cache :=
  match scan w 0 cs with
  | (Some (i, p), cs') => (Used i p, cs')
  | (None, cs') => (Regen (w_payload w), store_first w cs')
  end.

(* ------------------------------------------------------------------ encoders for the harness *)
Definition vN (n : N) : val := VZ (Z.of_N n).
Definition enc_ecl (lay : layout) (r : N * efile) : val :=
  match lay with
  | Flat => VL [vN (fst r); vN (f_dir (snd r)); vN (f_mtime (snd r))]
  | Md5 => VL [vN (fst r); vN (f_md5 (snd r))]
  end.
(* the ORDER of the eclasses inside a stored entry is the order of whichever package first asked
   the long-lived eclass cache for that set of names (get_eclass_data memoises per name set); it
   plays no role in any decision, so entries are compared with their eclasses sorted by name *)
Fixpoint ins_ecl (r : N * efile) (l : list (N * efile)) : list (N * efile) :=
  match l with
  | [] => [r]
  | x :: t => if fst r <=? fst x then r :: l else x :: ins_ecl r t
  end.
Definition sort_ecl (l : list (N * efile)) : list (N * efile) := fold_right ins_ecl [] l.
Definition enc_slot (lay : layout) (s : slot) : val :=
  match s with
  | Absent => VNone
  | Corrupt => VErr [67]%N
  | Entry e => VL [vN (c_chf e);
                   match c_ecl e with Some l => VL (map (enc_ecl lay) (sort_ecl l)) | None => VNone end;
                   VB (c_inherit e); vN (c_payload e)]
  end.
Definition enc_outcome (o : outcome) : val :=
  match o with
  | Used i p => VL [VZ (Z.of_nat i); vN p]
  | Regen p => VL [VZ (-1); vN p]
  end.

Definition mk_f (d m h : N) : efile := {| f_dir := d; f_mtime := m; f_md5 := h |}.
Definition mk_e (c : N) (l : option (list (N * efile))) (i : bool) (p : N) : slot :=
  Entry {| c_chf := c; c_ecl := l; c_inherit := i; c_payload := p |}.
Definition mk_c (l : layout) (ro wf : bool) (s : slot) : cache :=
  {| c_lay := l; c_ro := ro; c_wfail := wf; c_slot := s |}.
Definition mk_w (e : efile) (st : stack) (inh : list N) (ik : bool) (p : N) : world :=
  {| w_ebuild := e; w_stack := st; w_inherited := inh; w_inherit_key := ik; w_payload := p |}.

(* stream "read": one metadata read; result = outcome and the slot of every cache afterwards *)
Definition run_read (i : world * list cache) : val :=
  let (o, cs') := get_metadata (fst i) (snd i) in
  VL [enc_outcome o; VL (map (fun c => enc_slot (c_lay c) (c_slot c)) cs')].
(* stream "validate": cache.validate_entry alone *)
Definition run_validate (i : layout * world * centry) : val :=
  let '(l, w, e) := i in VB (validate l w e).
