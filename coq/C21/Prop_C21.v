(* C21 — property theorems (statements only; proofs are in Proofs_C21.v).

   [prot] / [ign] are ARBITRARY predicates on offset-relative locations (the theorems hold for every
   CONFIG_PROTECT / CONFIG_PROTECT_MASK / COLLISION_IGNORE configuration, every offset, every live
   tree and every package); the model instantiates them with protect_filter / ignore_filter.
   pkg_ok: the incoming package has one entry per location and ships no ._cfg… names. *)
From Coq Require Import List NArith ZArith Bool.
Import ListNotations.
From Verif Require Import Base.Val C22.Model_C22 C21.Model_C21 C21.Spec_C21 C21.Proofs_C21.

(* A live regular file under CONFIG_PROTECT (not masked, not ignored) whose content differs from the
   incoming entry is not a location of the contents set handed to the merge, and is unchanged by it. *)
Theorem never_overwritten :
  forall (prot ign : str -> bool) (off : str) (fs inst : pmap) (P d : str) (n : node),
    pkg_ok inst ->
    protected_file prot ign off fs P d ->
    incoming_differs inst P d n ->
    ~ In P (map fst (pre_merge prot ign off fs inst)) /\
    pm_get P (merge_fs fs (pre_merge prot ign off fs inst)) = Some (File d).
Proof. exact never_overwritten_proof. Qed.
Print Assumptions never_overwritten.

(* The incoming entry is renamed to ._cfgNNNN_<name> beside the protected file, NNNN being the number
   of an identical pending update if there is one, else non-negative and above every existing number
   of a pending update of that name; the renamed entry is in the set handed to the merge. *)
Theorem written_beside_with_numbering_rule :
  forall (prot ign : str -> bool) (off : str) (fs inst : pmap) (P d : str) (n : node),
    pkg_ok inst ->
    protected_file prot ign off fs P d ->
    incoming_differs inst P d n ->
    let c := cfg_count fs P n in
    let dest := pjoin (dirname P) (cfg_name c (basename P)) in
    numbering_rule fs (dirname P) (basename P) n c /\
    In ((dest, n), (P, n)) (renames prot ign off fs inst) /\
    (newlocs_distinct prot ign off fs inst -> pm_get dest (pre_merge prot ign off fs inst) = Some n).
Proof. exact written_beside_proof. Qed.
Print Assumptions written_beside_with_numbering_rule.

(* "Reusing the number" of an identical pending update means the destination IS that pending file:
   a name the scan accepts ("._cfg" + four ASCII digits + "_" + name) is exactly the name generated for
   its number, so no other pending update is touched. *)
Theorem reuse_targets_identical_file :
  forall (fs : pmap) (dir fname : str) (c : Z) (x : str) (content : node),
    pending_update fs dir fname c x content ->
    pjoin dir (cfg_name c fname) = pjoin dir x /\ content = live_at fs (pjoin dir (cfg_name c fname)).
Proof. exact reuse_targets_identical_file_proof. Qed.
Print Assumptions reuse_targets_identical_file.

(* ... and after the merge the tree holds the incoming content under that name. *)
Theorem incoming_content_beside :
  forall (prot ign : str -> bool) (off : str) (fs inst : pmap) (P d : str) (n : node),
    pkg_ok inst ->
    newlocs_distinct prot ign off fs inst ->
    protected_file prot ign off fs P d ->
    incoming_differs inst P d n ->
    n <> Dir ->
    pm_get (pjoin (dirname P) (cfg_name (cfg_count fs P n) (basename P)))
           (merge_fs fs (pre_merge prot ign off fs inst)) = Some n.
Proof. exact incoming_content_beside_proof. Qed.
Print Assumptions incoming_content_beside.

(* The recorded contents (the install set after post_merge) keep the real name and not the ._cfg one. *)
Theorem recorded_keeps_real_name :
  forall (prot ign : str -> bool) (off : str) (fs inst : pmap) (P d : str) (n : node),
    pkg_ok inst ->
    newlocs_distinct prot ign off fs inst ->
    protected_file prot ign off fs P d ->
    incoming_differs inst P d n ->
    let recorded := post_merge prot ign off fs inst (pre_merge prot ign off fs inst) in
    pm_get P recorded = Some n /\
    pm_get (pjoin (dirname P) (cfg_name (cfg_count fs P n) (basename P))) recorded = None.
Proof. exact recorded_keeps_real_name_proof. Qed.
Print Assumptions recorded_keeps_real_name.

(* Unmerging (uninstall, or the unmerge half of a replace) never removes a protected file whose
   content differs from what the package recorded. *)
Theorem uninstall_keeps_modified :
  forall (prot ign : str -> bool) (off : str) (fs recorded inst : pmap) (P d : str),
    protected_file prot ign off fs P d ->
    differs_from_recorded recorded P d ->
    pm_get P (unmerge_fs fs (uninstall_set prot ign off fs recorded inst)) = Some (File d).
Proof. exact uninstall_keeps_modified_proof. Qed.
Print Assumptions uninstall_keeps_modified.

(* The same two facts stated about Model_C21.run — the function the correspondence compares with the
   real MergeEngine on every run — with the filters built from env.d, the extras and the live tree. *)
Theorem run_install_never_overwrites :
  forall (i : input) (P d : str) (n : node),
    i_mode i = 0%N ->
    pkg_ok (inst_of i) ->
    protected_file (protI_of i) (ign_of i (i_fs i)) (i_off i) (i_fs i) P d ->
    incoming_differs (inst_of i) P d n ->
    pm_get P (o_fs (run i)) = Some (File d).
Proof. exact run_install_never_overwrites_proof. Qed.
Print Assumptions run_install_never_overwrites.

Theorem run_uninstall_keeps_modified :
  forall (i : input) (P d : str),
    i_mode i = 2%N ->
    protected_file (protU_of i) (ign_of i (i_fs i)) (i_off i) (i_fs i) P d ->
    differs_from_recorded (with_off (i_off i) (i_old i)) P d ->
    pm_get P (o_fs (run i)) = Some (File d).
Proof. exact run_uninstall_keeps_modified_proof. Qed.
Print Assumptions run_uninstall_keeps_modified.

(* replace mode: neither the merge half nor the unmerge half touches a protected file that differs
   from the incoming one ... *)
Theorem run_replace_never_overwrites :
  forall (i : input) (P d : str) (n : node),
    i_mode i = 1%N ->
    pkg_ok (inst_of i) ->
    newlocs_distinct (protI_of i) (ign_of i (i_fs i)) (i_off i) (i_fs i) (inst_of i) ->
    protected_file (protI_of i) (ign_of i (i_fs i)) (i_off i) (i_fs i) P d ->
    incoming_differs (inst_of i) P d n ->
    pm_get P (o_fs (run i)) = Some (File d).
Proof. exact run_replace_never_overwrites_proof. Qed.
Print Assumptions run_replace_never_overwrites.

(* ... and the unmerge half keeps a protected file (of the tree as the merge half left it) that
   differs from what the old package recorded. *)
Theorem run_replace_keeps_modified :
  forall (i : input) (P d : str),
    i_mode i = 1%N ->
    o_blocked (run i) = false ->
    let fs1 := merge_fs (i_fs i) (pre_merge (protI_of i) (ign_of i (i_fs i)) (i_off i) (i_fs i) (inst_of i)) in
    protected_file (protU_of i) (ign_of i fs1) (i_off i) fs1 P d ->
    differs_from_recorded (with_off (i_off i) (i_old i)) P d ->
    pm_get P (o_fs (run i)) = Some (File d).
Proof. exact run_replace_keeps_modified_proof. Qed.
Print Assumptions run_replace_keeps_modified.
