(* Model_C15.v — the executable plan checker of C15 (DESIGN §6 C15).

   The resolver's search (resolver/plan.py) is NOT transcribed.  This file defines the data the
   harness exports from one real resolution and the boolean checker evaluated on it inside Coq:

     packages   numbered 0..n-1 in [cpkgs]; each has a key (category/name) id, a slot id, the
                livefs flag of its repository (true = installed database) and its five dependency
                classes DEPEND, BDEPEND, RDEPEND, IDEPEND, PDEPEND, each as the CNF that
                DepSet.cnf_solutions() returned: a list of clauses, a clause a list of
                alternatives, an alternative the number 2*atom_id + (1 if the atom is a blocker)
     matching   [cmatch]: for every atom id the list of package ids the real atom.match accepted
     targets    atom ids handed to add_atoms
     ops        resolver.state.iter_ops(True): code 0 add / 1 remove / 2 replace (old -> pkg)

   No proofs here. *)
From Coq Require Import List NArith ZArith Bool.
Import ListNotations.
From Verif Require Import Base.Val.

Record pkg := P { pkey : N; pslot : N; plivefs : bool; pdeps : list (list (list N)) }.
Record op := O { ocode : N; opkg : N; oold : N }.
Record case := mkcase { cpkgs : list pkg; cmatch : list (list N); ctargets : list N; cops : list op }.

Definition memN (x : N) (l : list N) : bool := existsb (N.eqb x) l.
Definition getp (c : case) (i : N) : option pkg := nth_error (cpkgs c) (N.to_nat i).
Definition matchesb (c : case) (a p : N) : bool := memN p (nth (N.to_nat a) (cmatch c) []).
Definition alt_atom (x : N) : N := N.div2 x.
Definition alt_blocks (x : N) : bool := N.odd x.

(* ids of the installed packages, in order *)
Fixpoint installed_from (i : N) (ps : list pkg) : list N :=
  match ps with
  | [] => []
  | p :: ps' => if plivefs p then i :: installed_from (N.succ i) ps' else installed_from (N.succ i) ps'
  end.
Definition installed (c : case) : list N := installed_from 0 (cpkgs c).

Definition addN (x : N) (l : list N) : list N := if memN x l then l else l ++ [x].
Definition delN (x : N) (l : list N) : list N := filter (fun y => negb (N.eqb x y)) l.

(* the state after one op; unknown codes leave it unchanged (and are refused by [ops_okb]) *)
Definition step (st : list N) (o : op) : list N :=
  match ocode o with
  | 0%N => addN (opkg o) st
  | 1%N => delN (opkg o) st
  | 2%N => addN (opkg o) (delN (oold o) st)
  | _ => st
  end.
Definition final_state (c : case) : list N := fold_left step (cops c) (installed c).

(* the op list is a meaningful transformation of the installed set *)
Definition same_slotb (a b : pkg) : bool := N.eqb (pkey a) (pkey b) && N.eqb (pslot a) (pslot b).
Definition op_okb (c : case) (st : list N) (o : op) : bool :=
  match ocode o with
  | 0%N => match getp c (opkg o) with
           | Some pk => if plivefs pk then memN (opkg o) st else true
           | None => false
           end
  | 1%N => match getp c (opkg o) with Some _ => memN (opkg o) st | None => false end
  | 2%N => match getp c (opkg o), getp c (oold o) with
           | Some pk, Some ok => memN (oold o) st && same_slotb pk ok
           | _, _ => false
           end
  | _ => false
  end.
Fixpoint ops_okb (c : case) (st : list N) (os : list op) : bool :=
  match os with
  | [] => true
  | o :: os' => op_okb c st o && ops_okb c (step st o) os'
  end.

(* packages the plan adds (code 0 or 2) and that are still there at the end *)
Definition is_addb (o : op) : bool := N.eqb (ocode o) 0 || N.eqb (ocode o) 2.
Definition planned (c : case) : list N :=
  filter (fun p => memN p (final_state c)) (map opkg (filter is_addb (cops c))).
Definition is_sourceb (c : case) (p : N) : bool :=
  match getp c p with Some pk => negb (plivefs pk) | None => false end.
Definition merged (c : case) : list N := filter (is_sourceb c) (planned c).

(* one alternative of a clause of package [p], judged on the final state [fin] *)
Definition alt_satb (c : case) (fin : list N) (p : N) (alt : N) : bool :=
  if alt_blocks alt
  then forallb (fun q => negb (matchesb c (alt_atom alt) q) || N.eqb q p) fin
  else existsb (fun q => matchesb c (alt_atom alt) q) fin.
Definition clause_satb (c : case) (fin : list N) (p : N) (clause : list N) : bool :=
  existsb (alt_satb c fin p) clause.
Definition deps_of (c : case) (p : N) : list (list N) :=      (* all clauses of the five classes *)
  match getp c p with Some pk => concat (pdeps pk) | None => [] end.
Definition closedb (c : case) (fin : list N) (p : N) : bool :=
  forallb (clause_satb c fin p) (deps_of c p).

Definition targets_okb (c : case) (fin : list N) : bool :=
  forallb (fun t => existsb (fun p => matchesb c t p) fin) (ctargets c).

Definition slot_clashb (c : case) (p q : N) : bool :=
  match getp c p, getp c q with
  | Some pk, Some qk => negb (N.eqb p q) && same_slotb pk qk
  | _, _ => false
  end.
Definition slots_okb (c : case) (fin : list N) : bool :=
  forallb (fun p => forallb (fun q => negb (slot_clashb c p q)) fin) fin.

(* unconditional blockers: clauses that consist of one blocker atom *)
Definition blocker_okb (c : case) (fin : list N) (p : N) (clause : list N) : bool :=
  match clause with
  | [b] => if alt_blocks b
           then forallb (fun q => negb (matchesb c (alt_atom b) q) || N.eqb q p) fin
           else true
  | _ => true
  end.
Definition blockers_okb (c : case) (fin : list N) : bool :=
  forallb (fun p => forallb (blocker_okb c fin p) (deps_of c p)) (planned c).

Definition check_plan (c : case) : bool :=
  let fin := final_state c in
  ops_okb c (installed c) (cops c)
  && targets_okb c fin
  && forallb (closedb c fin) (merged c)
  && slots_okb c fin
  && blockers_okb c fin.

(* which conjunct fails first: 0 none, 1 ops, 2 target, 3 dependency, 4 slot, 5 blocker *)
Definition check_plan_why (c : case) : N :=
  let fin := final_state c in
  if negb (ops_okb c (installed c) (cops c)) then 1
  else if negb (targets_okb c fin) then 2
  else if negb (forallb (closedb c fin) (merged c)) then 3
  else if negb (slots_okb c fin) then 4
  else if negb (blockers_okb c fin) then 5 else 0.

Definition run_check (c : case) : val := VB (check_plan c).
Definition run_why (c : case) : val := VZ (Z.of_N (check_plan_why c)).
