From Coq Require Import List NArith ZArith Bool.
From Verif Require Import Base.Val C31.Model_C31 C31.Spec_C31.
Import ListNotations.

Definition cases : list ((list str * str) * val) := 
[
  (([[65]%N; [66]%N], [65;61;60;120]%N),
   (VErr [110;111;45;111;117;116;112;117;116]%N));
  (([[65]%N; [66]%N], [65;61;123;97;44;98;125]%N),
   (VErr [110;111;45;111;117;116;112;117;116]%N));
  (([[65]%N; [66]%N], [65;61;33;120]%N),
   (VErr [110;111;45;111;117;116;112;117;116]%N));
  (([[65]%N; [66]%N], [65;61;120;92]%N),
   (VErr [110;111;45;111;117;116;112;117;116]%N))
].
Eval vm_compute in (where_ bash_differs cases).
Eval vm_compute in (where_ bash_outside cases).
