from harness import common, c08
m = c08.load_mods()
cases=[]
for t in c08.ladder_trees()[:150]:
    robj, term = c08.make_case(m, c08.FULL, t); cases.append((term, c08.run_impl(m, c08.FULL, robj)))
pre = "Definition full_repos : list repo := %s." % common.clist([c08.c_repo(d) for d in c08.FULL], "repo")
body=[c08.IMPORTS,"Import ListNotations.",pre,"Time Definition cases : list (qinput * val) := ["]
body.append(";\n".join(f"({t},\n {common.cval(r)})" for t,r in cases)+"].")
body.append("Time Eval vm_compute in (mismatches run_query cases).")
body.append("Time Eval vm_compute in (where_ (fun i r => negb (spec_query_ok i r)) cases).")
body.append("Time Eval vm_compute in (where_ (fun i r => negb (spec_tuple_ok i r)) cases).")
open("/verif/chk.scratch/c08_p.v","w").write("\n".join(body))
print(sum(len(t) for t,_ in cases)//len(cases), sum(len(common.cval(r)) for _,r in cases)//len(cases))
