#!/bin/sh
# second mutation round (hook schedule + deepest-first), on /repo HEAD
WT=/tmp/wt_C20
LOG=/verif/chk.scratch/c20/mut2.log
: > $LOG
run() {
  name="$1"
  echo "=== $name" >> $LOG
  ( cd /verif && VERIF_REPO=$WT ./check C20 > /verif/chk.scratch/c20/$name.out 2>&1; echo "exit=$?" >> $LOG )
  grep -E "^VIOLATION|^\[C20\]" /verif/chk.scratch/c20/$name.out | cut -c1-200 >> $LOG
  git -C $WT checkout -q -- .
}
# N1: the unmerge trigger gets a priority below the protection
python3 - <<'PY'
p="/tmp/wt_C20/src/pkgcore/merge/triggers.py"
s=open(p).read()
old='''class unmerge(base):
    required_csets = ("uninstall",)
'''
assert old in s
open(p,"w").write(s.replace(old, old+"    priority = -200\n"))
PY
run N1_unmerge_priority
# N2: execute_hook runs the triggers in descending priority
sed -i 's|self.hooks\[hook\], key=operator.attrgetter("priority")|self.hooks[hook], key=operator.attrgetter("priority"), reverse=True|' $WT/src/pkgcore/merge/engine.py; run N2_reverse_sort
# N3: protection only registered for replace engines
sed -i '/^class BaseSystemUnmergeProtection/,/^    suppress_exceptions/ s|    _engine_types = UNINSTALLING_MODES|    _engine_types = INSTALLING_MODES|' $WT/src/pkgcore/merge/triggers.py; run N3_protection_modes
# H2: harmless - ldconfig priority 10 -> 5, InfoRegen priority 50 -> 60
python3 - <<'PY'
p="/tmp/wt_C20/src/pkgcore/merge/triggers.py"
s=open(p).read()
old='''    required_csets = ()
    priority = 10
'''
assert old in s
open(p,"w").write(s.replace(old, old.replace("10","5")))
PY
run H2_other_priority
echo DONE >> $LOG
